package presign

// Demonstration for C04 (identifiable abort in the OFFLINE presign variant).
// Place this file in protocols/cmp/presign/ and run: go test -run TestOfflineIdentifiableAbort .
// Party "a" uses a wrong secret share from round 3 on (its individual proofs still pass,
// its chi contribution is inconsistent), so every honest signer must end with an error naming "a".

import (
	"reflect"
	"testing"
	"unsafe"

	"github.com/cronokirby/saferith"
	"github.com/taurusgroup/multi-party-sig/internal/round"
	"github.com/taurusgroup/multi-party-sig/pkg/party"
	"github.com/taurusgroup/multi-party-sig/pkg/pool"
	"github.com/taurusgroup/multi-party-sig/pkg/protocol"
)

func currentRoundOf(h *protocol.MultiHandler) round.Session {
	f := reflect.ValueOf(h).Elem().FieldByName("currentRound")
	return reflect.NewAt(f.Type(), unsafe.Pointer(f.UnsafeAddr())).Elem().Interface().(round.Session)
}

func TestOfflineIdentifiableAbort(t *testing.T) {
	runIdentifiableAbort(t, nil, func(r round.Session, step *int) {
		if r3, ok := r.(*presign3); ok && *step == 0 {
			r3.SecretECDSA = r3.Group().NewScalar().SetNat(oneNat).Add(r3.SecretECDSA)
			*step = 1
		}
	})
}

func TestFullIdentifiableAbortChi(t *testing.T) {
	runIdentifiableAbort(t, messageHash, func(r round.Session, step *int) {
		if r3, ok := r.(*presign3); ok && *step == 0 {
			r3.SecretECDSA = r3.Group().NewScalar().SetNat(oneNat).Add(r3.SecretECDSA)
			*step = 1
		}
	})
}

// wrong gamma while computing delta (abort1 path), offline and full
func TestIdentifiableAbortDelta(t *testing.T) {
	for _, msg := range [][]byte{nil, messageHash} {
		runIdentifiableAbort(t, msg, func(r round.Session, step *int) {
			switch rr := r.(type) {
			case *presign3:
				if *step == 0 {
					rr.GammaShare = new(saferith.Int).Add(rr.GammaShare, minusOneInt, -1)
					*step = 1
				}
			case *presign4:
				if *step == 1 {
					rr.GammaShare = new(saferith.Int).Add(rr.GammaShare, oneInt, -1)
					*step = 2
				}
			}
		})
	}
}

func runIdentifiableAbort(t *testing.T, message []byte, tamper func(r round.Session, step *int)) {
	pl := pool.NewPool(0)
	defer pl.TearDown()
	hs := map[party.ID]*protocol.MultiHandler{}
	for id, c := range configs {
		h, err := protocol.NewMultiHandler(StartPresign(c, partyIDs, message, pl), []byte("offline"))
		if err != nil {
			t.Fatal(err)
		}
		hs[id] = h
	}
	tampered := false
	step := 0
	open := map[party.ID]bool{}
	for id := range hs {
		open[id] = true
	}
	for len(open) > 0 {
		progress := false
		for id, h := range hs {
			if !open[id] {
				continue
			}
			select {
			case m, ok := <-h.Listen():
				if !ok {
					delete(open, id)
					progress = true
					continue
				}
				progress = true
				for to, h2 := range hs {
					if to != id && h2.CanAccept(m) {
						h2.Accept(m)
					}
				}
			default:
			}
		}
		tamper(currentRoundOf(hs["a"]), &step)
		tampered = step > 0
		if !progress {
			t.Fatalf("stalled: no handler has anything to send and %d are still running", len(open))
		}
	}
	if !tampered {
		t.Fatal("never tampered")
	}
	for id, h := range hs {
		if id == "a" {
			continue
		}
		_, err := h.Result()
		if err == nil {
			t.Fatalf("%s: expected an abort", id)
		}
		pe, ok := err.(protocol.Error)
		if !ok {
			t.Fatalf("%s: unexpected error type %T: %v", id, err, err)
		}
		if len(pe.Culprits) != 1 || pe.Culprits[0] != "a" {
			t.Fatalf("%s: culprits = %v (err %v), want [a]", id, pe.Culprits, err)
		}
	}
}
