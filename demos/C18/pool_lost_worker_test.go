package demo

import (
	"testing"
	"time"
	"runtime"

	"github.com/taurusgroup/multi-party-sig/pkg/pool"
)

// Lost worker: with an instant task the caller can observe ctr==0 before the worker's
// notification; the worker then blocks forever on the abandoned unbuffered channel.
func TestLostWorker(t *testing.T) {
	pl := pool.NewPool(2)
	defer pl.TearDown()
	done := make(chan struct{})
	go func() {
		for i := 0; i < 200000; i++ {
			pl.Parallelize(1, func(i int) interface{} { return i })
		}
		close(done)
	}()
	select {
	case <-done:
	case <-time.After(20 * time.Second):
		t.Fatalf("pool deadlocked: all workers lost (goroutines=%d)", runtime.NumGoroutine())
	}
}

// Nil slot: Search may return before the finder wrote its slot.
func TestSearchNilSlot(t *testing.T) {
	pl := pool.NewPool(4)
	defer pl.TearDown()
	done := make(chan string)
	go func() {
		for i := 0; i < 300000; i++ {
			res := pl.Search(1, func() interface{} { return 1 })
			if res[0] == nil {
				done <- "nil result returned by Search"
				return
			}
		}
		done <- ""
	}()
	select {
	case s := <-done:
		if s != "" { t.Fatal(s) }
	case <-time.After(20 * time.Second):
		t.Fatalf("pool deadlocked during Search")
	}
}
