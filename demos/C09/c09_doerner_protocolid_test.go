package demo

import (
	"testing"

	"github.com/taurusgroup/multi-party-sig/pkg/math/curve"
	"github.com/taurusgroup/multi-party-sig/pkg/protocol"
	"github.com/taurusgroup/multi-party-sig/protocols/doerner"
)

// A message of a Doerner key generation session must not be acceptable to a Doerner signing
// session of the same pair with the same session identifier (different protocol => different tag).
func TestDoernerKeygenMessageNotAcceptedBySign(t *testing.T) {
	group := curve.Secp256k1{}
	hk, err := protocol.NewTwoPartyHandler(doerner.Keygen(group, true, "a", "b", nil), []byte("sid"), true)
	if err != nil {
		t.Fatal(err)
	}
	keygenMsg := <-hk.Listen()
	hs, err := protocol.NewTwoPartyHandler(doerner.SignSender(doerner.EmptyConfigSender(group), "b", "a", []byte("msg hash"), nil), []byte("sid"), false)
	if err != nil {
		t.Fatal(err)
	}
	if hs.CanAccept(keygenMsg) {
		t.Fatalf("signing session accepts a message of the key generation session (protocol %q, same SSID)", keygenMsg.Protocol)
	}
}
