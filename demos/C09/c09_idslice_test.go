package demo

import (
	"bytes"
	"testing"

	"github.com/taurusgroup/multi-party-sig/pkg/math/curve"
	"github.com/taurusgroup/multi-party-sig/pkg/party"
	"github.com/taurusgroup/multi-party-sig/pkg/protocol"
	"github.com/taurusgroup/multi-party-sig/protocols/frost"
)

// Two different participant sets with equal concatenation must not share a session tag.
func TestParticipantSetsWithEqualConcatenation(t *testing.T) {
	ssid := func(self party.ID, ids party.IDSlice) []byte {
		h, err := protocol.NewMultiHandler(frost.Keygen(curve.Secp256k1{}, self, ids, 1), []byte("sid"))
		if err != nil {
			t.Fatal(err)
		}
		m := <-h.Listen()
		return m.SSID
	}
	a := ssid("ab", party.IDSlice{"ab", "c"})
	b := ssid("a", party.IDSlice{"a", "bc"})
	if bytes.Equal(a, b) {
		t.Fatalf("participant sets {ab,c} and {a,bc} share SSID %x", a)
	}
}
