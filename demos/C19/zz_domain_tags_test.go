package ot

// Demonstration for C19 (rule DOM-2) / C13: place this file in internal/ot of the library and run
//   go test -vet=off -count=1 -run TestDemoDomainTags ./internal/ot/
// On the tree before the "fix: the domain tags of the OT layer ..." commit it FAILS: the literal
// hash.BytesWithDomain{TheDomain: "...", Bytes: nil} is refused by its own WriteTo (nil payload), Hash.Fork discards
// that error, and the fork equals the untagged context. Every derivation "separated" by such a tag - the gadget noise,
// the chi challenge, the PRG key of the OT extension, the three multiplications of one Doerner signature (tags
// "Multiply0/1/1") - therefore reads the SAME stream. After the fix the tags are absorbed and the derivations differ.

import (
	"testing"

	"github.com/taurusgroup/multi-party-sig/pkg/hash"
	"github.com/taurusgroup/multi-party-sig/pkg/math/curve"
	"github.com/taurusgroup/multi-party-sig/pkg/math/sample"
)

func TestDemoDomainTagsAreAbsorbed(t *testing.T) {
	group := curve.Secp256k1{}
	ctx := hash.New()
	_ = ctx.WriteAny(&hash.BytesWithDomain{TheDomain: "demo context", Bytes: []byte("session 1")})

	// the noise half of the gadget vector is derived under the tag "Multiply Gadget Sampling" ...
	gadget := makeGadget(ctx.Clone(), group)
	firstNoise := gadget[scalarBytes(group)]
	// ... and must differ from what an UNTAGGED read of the same context yields (which is also what the PRG key of the
	// OT extension and the chi challenge read when their tags are dropped as well)
	untagged := sample.Scalar(ctx.Clone().Digest(), group)
	if firstNoise.Equal(untagged) {
		t.Errorf("the gadget noise equals an untagged derivation from the same context: the tag \"Multiply Gadget Sampling\" was not absorbed (Fork discarded the writer's refusal of a nil payload)")
	}
}
