package demo

import (
	"testing"

	"github.com/taurusgroup/multi-party-sig/pkg/math/curve"
	"github.com/taurusgroup/multi-party-sig/pkg/party"
	"github.com/taurusgroup/multi-party-sig/pkg/protocol"
	"github.com/taurusgroup/multi-party-sig/protocols/frost"
)

func runAll(t *testing.T, ids party.IDSlice, mk func(id party.ID) protocol.StartFunc) map[party.ID]interface{} {
	hs := map[party.ID]*protocol.MultiHandler{}
	for _, id := range ids {
		h, err := protocol.NewMultiHandler(mk(id), []byte("sid"))
		if err != nil {
			t.Fatal(err)
		}
		hs[id] = h
	}
	closed := map[party.ID]bool{}
	for len(closed) < len(hs) {
		for id, h := range hs {
			if closed[id] {
				continue
			}
			select {
			case m, ok := <-h.Listen():
				if !ok {
					closed[id] = true
					continue
				}
				for to, h2 := range hs {
					if to != id && h2.CanAccept(m) {
						h2.Accept(m)
					}
				}
			default:
			}
		}
	}
	out := map[party.ID]interface{}{}
	for id, h := range hs {
		r, err := h.Result()
		if err != nil {
			t.Fatal(err)
		}
		out[id] = r
	}
	return out
}

// Refresh must produce new shares and leave the previous epoch's material untouched:
// the old config still has to hold the OLD share, which must differ from the new one.
func TestFrostRefreshDoesNotRewriteOldConfig(t *testing.T) {
	ids := party.IDSlice{"a", "b", "c"}
	g := curve.Secp256k1{}
	old := runAll(t, ids, func(id party.ID) protocol.StartFunc { return frost.Keygen(g, id, ids, 1) })
	before := map[party.ID][]byte{}
	for id, r := range old {
		b, _ := r.(*frost.Config).PrivateShare.MarshalBinary()
		before[id] = b
	}
	fresh := runAll(t, ids, func(id party.ID) protocol.StartFunc { return frost.Refresh(old[id].(*frost.Config), ids) })
	for id := range old {
		after, _ := old[id].(*frost.Config).PrivateShare.MarshalBinary()
		if string(after) != string(before[id]) {
			t.Errorf("%s: refresh rewrote the secret share inside the previous config", id)
		}
		if old[id].(*frost.Config).PrivateShare.Equal(fresh[id].(*frost.Config).PrivateShare) {
			t.Errorf("%s: share did not change across refresh (old config now holds the new share)", id)
		}
	}
}
