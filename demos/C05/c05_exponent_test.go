package demo

import (
	"testing"

	"github.com/taurusgroup/multi-party-sig/pkg/math/curve"
	"github.com/taurusgroup/multi-party-sig/pkg/math/polynomial"
)

// Restoring a polynomial-in-the-exponent from arbitrary bytes must return an error, never panic
// or allocate by an attacker-chosen header.
func TestExponentUnmarshalShortAndHuge(t *testing.T) {
	for _, data := range [][]byte{{}, {1, 2, 3}, {0xff, 0xff, 0xff, 0xf0, 0x00}, {0, 0, 0, 2, 0xa0}} {
		func() {
			defer func() {
				if r := recover(); r != nil {
					t.Errorf("input %x: panic %v", data, r)
				}
			}()
			e := polynomial.EmptyExponent(curve.Secp256k1{})
			if err := e.UnmarshalBinary(data); err == nil {
				t.Errorf("input %x: no error", data)
			}
		}()
	}
}
