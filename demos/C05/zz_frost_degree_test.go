package keygen

// Demonstration for C05/C03: place in protocols/frost/keygen/ and run
//   go test -run TestWrongDegreePolynomial .
// Party "a" deals a polynomial of degree t+1 (consistently: commitments and shares agree).
// Honest parties must end the session with an error, not panic.

import (
	"testing"

	"github.com/taurusgroup/multi-party-sig/internal/round"
	"github.com/taurusgroup/multi-party-sig/pkg/math/curve"
	"github.com/taurusgroup/multi-party-sig/pkg/party"
	"github.com/taurusgroup/multi-party-sig/pkg/protocol"
)

func TestWrongDegreePolynomial(t *testing.T) {
	ids := party.IDSlice{"a", "b", "c"}
	hs := map[party.ID]*protocol.MultiHandler{}
	for _, id := range ids {
		id := id
		start := StartKeygenCommon(false, curve.Secp256k1{}, ids, 1, id, nil, nil, nil)
		if id == "a" {
			honest := start
			start = func(sid []byte) (round.Session, error) {
				r, err := honest(sid)
				if err == nil {
					r.(*round1).threshold = 2
				}
				return r, err
			}
		}
		h, err := protocol.NewMultiHandler(start, []byte("sid"))
		if err != nil {
			t.Fatal(err)
		}
		hs[id] = h
	}
	closed := map[party.ID]bool{}
	for len(closed) < len(hs) {
		for id, h := range hs {
			if closed[id] {
				continue
			}
			select {
			case m, ok := <-h.Listen():
				if !ok {
					closed[id] = true
					continue
				}
				for to, h2 := range hs {
					if to != id && h2.CanAccept(m) {
						h2.Accept(m) // must not panic
					}
				}
			default:
			}
		}
	}
	for _, id := range []party.ID{"b", "c"} {
		if _, err := hs[id].Result(); err == nil {
			t.Fatalf("%s accepted a dealing of the wrong degree", id)
		} else {
			t.Logf("%s: %v", id, err)
		}
	}
}
