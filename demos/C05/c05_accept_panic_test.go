package demo

import (
	"testing"

	"github.com/fxamacker/cbor/v2"
	"github.com/taurusgroup/multi-party-sig/pkg/math/curve"
	"github.com/taurusgroup/multi-party-sig/pkg/party"
	"github.com/taurusgroup/multi-party-sig/pkg/protocol"
	"github.com/taurusgroup/multi-party-sig/protocols/frost"
)

func pump(t *testing.T, hs map[party.ID]*protocol.MultiHandler, mutate func(m *protocol.Message)) {
	closed := map[party.ID]bool{}
	for len(closed) < len(hs) {
		for id, h := range hs {
			if closed[id] {
				continue
			}
			select {
			case m, ok := <-h.Listen():
				if !ok {
					closed[id] = true
					continue
				}
				if mutate != nil {
					mutate(m)
				}
				for to, h2 := range hs {
					if to != id && h2.CanAccept(m) {
						h2.Accept(m)
					}
				}
			default:
			}
		}
	}
}

// A peer that sends CBOR null for a curve point must not crash the receiving party:
// Accept has to return and the session has to end with an error.
func TestNullPointDoesNotCrashAccept(t *testing.T) {
	ids := party.IDSlice{"a", "b"}
	hs := map[party.ID]*protocol.MultiHandler{}
	for _, id := range ids {
		h, err := protocol.NewMultiHandler(frost.Keygen(curve.Secp256k1{}, id, ids, 1), []byte("kg"))
		if err != nil {
			t.Fatal(err)
		}
		hs[id] = h
	}
	pump(t, hs, nil)
	cfg := map[party.ID]*frost.Config{}
	for id, h := range hs {
		r, err := h.Result()
		if err != nil {
			t.Fatal(err)
		}
		cfg[id] = r.(*frost.Config)
	}
	ss := map[party.ID]*protocol.MultiHandler{}
	for _, id := range ids {
		h, err := protocol.NewMultiHandler(frost.Sign(cfg[id], ids, []byte("message hash")), []byte("sign"))
		if err != nil {
			t.Fatal(err)
		}
		ss[id] = h
	}
	evil, _ := cbor.Marshal(map[string]interface{}{"D_i": nil, "E_i": nil})
	pump(t, ss, func(m *protocol.Message) {
		if m.From == "a" && m.Broadcast && m.RoundNumber == 2 {
			m.Data = evil
		}
	})
	if _, err := ss["b"].Result(); err == nil {
		t.Fatal("b finished although a sent garbage")
	} else {
		t.Logf("b: %v", err)
	}
}
