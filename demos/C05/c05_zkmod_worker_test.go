package demo

import (
	"testing"

	"github.com/taurusgroup/multi-party-sig/pkg/hash"
	"github.com/taurusgroup/multi-party-sig/pkg/pool"
	"github.com/taurusgroup/multi-party-sig/pkg/zk"
	zkmod "github.com/taurusgroup/multi-party-sig/pkg/zk/mod"
)

// A Mod proof whose response carries a nil number (CBOR null from a peer) must be rejected,
// not dereferenced on a pool worker goroutine where no handler can recover the panic.
func TestModProofNilResponseWithPool(t *testing.T) {
	pl := pool.NewPool(2)
	defer pl.TearDown()
	sk := zk.ProverPaillierSecret
	public := zkmod.Public{N: sk.PublicKey.N()}
	proof := zkmod.NewProof(hash.New(), zkmod.Private{P: sk.P(), Q: sk.Q(), Phi: sk.Phi()}, public, pl)
	if !proof.Verify(public, hash.New(), pl) {
		t.Fatal("honest proof rejected")
	}
	proof.Responses[3].Z = nil
	if proof.Verify(public, hash.New(), pl) {
		t.Fatal("proof with nil response accepted")
	}
	proof.Responses[3].Z = proof.Responses[2].Z
	proof.W = nil
	func() {
		defer func() {
			if r := recover(); r != nil {
				t.Fatalf("nil W panics: %v", r)
			}
		}()
		if proof.Verify(public, hash.New(), pl) {
			t.Fatal("proof with nil W accepted")
		}
	}()
}
