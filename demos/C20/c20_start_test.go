package demo

import (
	"testing"

	"github.com/taurusgroup/multi-party-sig/pkg/math/curve"
	"github.com/taurusgroup/multi-party-sig/pkg/party"
	"github.com/taurusgroup/multi-party-sig/pkg/protocol"
	"github.com/taurusgroup/multi-party-sig/protocols/cmp"
	"github.com/taurusgroup/multi-party-sig/protocols/doerner"
	"github.com/taurusgroup/multi-party-sig/protocols/frost"
)

func mustError(t *testing.T, name string, mk func() error) {
	t.Helper()
	defer func() {
		if r := recover(); r != nil {
			t.Errorf("%s: panic instead of error: %v", name, r)
		}
	}()
	if err := mk(); err == nil {
		t.Errorf("%s: session started with invalid parameters", name)
	}
}

func multi(f func() protocol.StartFunc) func() error {
	return func() error { _, err := protocol.NewMultiHandler(f(), nil); return err }
}
func two(f func() protocol.StartFunc) func() error {
	return func() error { _, err := protocol.NewTwoPartyHandler(f(), nil, true); return err }
}

func frostConfigs(t *testing.T, ids party.IDSlice) map[party.ID]*frost.Config {
	hs := map[party.ID]*protocol.MultiHandler{}
	for _, id := range ids {
		h, err := protocol.NewMultiHandler(frost.Keygen(curve.Secp256k1{}, id, ids, 1), nil)
		if err != nil {
			t.Fatal(err)
		}
		hs[id] = h
	}
	closed := map[party.ID]bool{}
	for len(closed) < len(hs) {
		for id, h := range hs {
			select {
			case m, ok := <-h.Listen():
				if !ok {
					closed[id] = true
					continue
				}
				for to, h2 := range hs {
					if to != id && h2.CanAccept(m) {
						h2.Accept(m)
					}
				}
			default:
			}
		}
	}
	out := map[party.ID]*frost.Config{}
	for id, h := range hs {
		r, err := h.Result()
		if err != nil {
			t.Fatal(err)
		}
		out[id] = r.(*frost.Config)
	}
	return out
}

func TestInvalidStartsAreRefused(t *testing.T) {
	ids := party.IDSlice{"a", "b", "c"}
	msg := []byte("message hash")
	g := curve.Secp256k1{}
	mustError(t, "cmp.Refresh(nil)", multi(func() protocol.StartFunc { return cmp.Refresh(nil, nil) }))
	mustError(t, "cmp.Sign(nil)", multi(func() protocol.StartFunc { return cmp.Sign(nil, ids, msg, nil) }))
	mustError(t, "frost.Refresh(nil)", multi(func() protocol.StartFunc { return frost.Refresh(nil, ids) }))
	mustError(t, "frost.RefreshTaproot(nil)", multi(func() protocol.StartFunc { return frost.RefreshTaproot(nil, ids) }))
	mustError(t, "frost.Sign(nil)", multi(func() protocol.StartFunc { return frost.Sign(nil, ids, msg) }))
	mustError(t, "frost.SignTaproot(nil)", multi(func() protocol.StartFunc { return frost.SignTaproot(nil, ids, msg) }))
	mustError(t, "doerner.RefreshReceiver(nil)", two(func() protocol.StartFunc { return doerner.RefreshReceiver(nil, "a", "b", nil) }))
	mustError(t, "doerner.RefreshSender(nil)", two(func() protocol.StartFunc { return doerner.RefreshSender(nil, "a", "b", nil) }))
	mustError(t, "doerner.SignReceiver(nil)", two(func() protocol.StartFunc { return doerner.SignReceiver(nil, "a", "b", msg, nil) }))
	mustError(t, "doerner.SignSender(nil)", two(func() protocol.StartFunc { return doerner.SignSender(nil, "a", "b", msg, nil) }))
	mustError(t, "doerner.SignReceiver(empty config)", two(func() protocol.StartFunc {
		return doerner.SignReceiver(doerner.EmptyConfigReceiver(g), "a", "b", msg, nil)
	}))

	cfgs := frostConfigs(t, ids)
	mustError(t, "frost.Sign(foreign signer)", multi(func() protocol.StartFunc {
		return frost.Sign(cfgs["a"], party.IDSlice{"a", "b", "zz"}, msg)
	}))
	mustError(t, "frost.Sign(empty message)", multi(func() protocol.StartFunc { return frost.Sign(cfgs["a"], ids, nil) }))
}
