package demo

import (
	"testing"

	"github.com/taurusgroup/multi-party-sig/pkg/math/curve"
	"github.com/taurusgroup/multi-party-sig/pkg/party"
	"github.com/taurusgroup/multi-party-sig/pkg/protocol"
	"github.com/taurusgroup/multi-party-sig/protocols/frost"
)

// Stop on a running session must end it with an error.
func TestStopEndsRunningSession(t *testing.T) {
	ids := party.IDSlice{"a", "b"}
	h, err := protocol.NewMultiHandler(frost.Keygen(curve.Secp256k1{}, "a", ids, 1), nil)
	if err != nil {
		t.Fatal(err)
	}
	h.Stop()
	if _, err := h.Result(); err == nil || err.Error() == "protocol: not finished" {
		t.Fatalf("Stop did not end the running session: Result() = %v", err)
	}
	// the channel must be closed
	for range h.Listen() {
	}
}

// Stop on a finished session must be harmless.
func TestStopAfterAbortIsHarmless(t *testing.T) {
	ids := party.IDSlice{"a", "b"}
	h, err := protocol.NewMultiHandler(frost.Keygen(curve.Secp256k1{}, "a", ids, 1), nil)
	if err != nil {
		t.Fatal(err)
	}
	// a peer's abort notice (round number 0) ends the session
	var first *protocol.Message
	for m := range h.Listen() {
		first = m
		break
	}
	notice := &protocol.Message{SSID: first.SSID, From: "b", Protocol: first.Protocol, RoundNumber: 0, Data: []byte("bye")}
	h.Accept(notice)
	if _, err := h.Result(); err == nil {
		t.Fatal("expected aborted session")
	}
	h.Stop() // panics on the unfixed tree: send on closed channel
	h.Stop()
}
