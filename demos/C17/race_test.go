package demo

import (
	"sync"
	"testing"

	"github.com/taurusgroup/multi-party-sig/pkg/math/curve"
	"github.com/taurusgroup/multi-party-sig/pkg/party"
	"github.com/taurusgroup/multi-party-sig/pkg/protocol"
	"github.com/taurusgroup/multi-party-sig/protocols/frost"
)

// Run with -race: CanAccept/String read the current round while Accept advances it.
func TestCanAcceptRace(t *testing.T) {
	ids := party.IDSlice{"a", "b"}
	ha, _ := protocol.NewMultiHandler(frost.Keygen(curve.Secp256k1{}, "a", ids, 1), nil)
	hb, _ := protocol.NewMultiHandler(frost.Keygen(curve.Secp256k1{}, "b", ids, 1), nil)
	var wg sync.WaitGroup
	stop := make(chan struct{})
	wg.Add(1)
	go func() {
		defer wg.Done()
		for {
			select {
			case <-stop:
				return
			default:
				ha.CanAccept(&protocol.Message{From: "b"})
				_ = ha.String()
			}
		}
	}()
	pump := func(from, to *protocol.MultiHandler, done chan struct{}) {
		for m := range from.Listen() {
			if to.CanAccept(m) {
				to.Accept(m)
			}
		}
		close(done)
	}
	d1, d2 := make(chan struct{}), make(chan struct{})
	go pump(ha, hb, d1)
	go pump(hb, ha, d2)
	<-d1
	<-d2
	close(stop)
	wg.Wait()
	if _, err := ha.Result(); err != nil {
		t.Fatal(err)
	}
}
