package demo

import (
	"bytes"
	"testing"

	"github.com/taurusgroup/multi-party-sig/pkg/math/curve"
	"github.com/taurusgroup/multi-party-sig/pkg/party"
	"github.com/taurusgroup/multi-party-sig/pkg/protocol"
	"github.com/taurusgroup/multi-party-sig/protocols/frost"
)

func runPair(t *testing.T, mk func(id party.ID) protocol.StartFunc, ids party.IDSlice) map[party.ID]interface{} {
	hs := map[party.ID]*protocol.MultiHandler{}
	for _, id := range ids {
		h, err := protocol.NewMultiHandler(mk(id), []byte("sid"))
		if err != nil {
			t.Fatal(err)
		}
		hs[id] = h
	}
	open := len(hs)
	closed := map[party.ID]bool{}
	for open > 0 {
		for id, h := range hs {
			if closed[id] {
				continue
			}
			select {
			case m, ok := <-h.Listen():
				if !ok {
					closed[id] = true
					open--
					continue
				}
				for to, h2 := range hs {
					if to != id && h2.CanAccept(m) {
						h2.Accept(m)
					}
				}
			default:
			}
		}
	}
	out := map[party.ID]interface{}{}
	for id, h := range hs {
		r, err := h.Result()
		if err != nil {
			t.Fatal(err)
		}
		out[id] = r
	}
	return out
}

// After FROST key generation every party must hold the same 32-byte chain key.
func TestFrostKeygenChainKey(t *testing.T) {
	ids := party.IDSlice{"a", "b", "c"}
	res := runPair(t, func(id party.ID) protocol.StartFunc { return frost.Keygen(curve.Secp256k1{}, id, ids, 1) }, ids)
	var first []byte
	for id, r := range res {
		ck := r.(*frost.Config).ChainKey
		if len(ck) != 32 {
			t.Fatalf("%s: chain key has %d bytes, want 32", id, len(ck))
		}
		if first == nil {
			first = ck
		} else if !bytes.Equal(first, ck) {
			t.Fatalf("chain keys differ")
		}
	}
	resT := runPair(t, func(id party.ID) protocol.StartFunc { return frost.KeygenTaproot(id, ids, 1) }, ids)
	for id, r := range resT {
		if ck := r.(*frost.TaprootConfig).ChainKey; len(ck) != 32 {
			t.Fatalf("%s (taproot): chain key has %d bytes, want 32", id, len(ck))
		}
	}
}
