package demo

import (
	"testing"

	"github.com/taurusgroup/multi-party-sig/pkg/ecdsa"
	"github.com/taurusgroup/multi-party-sig/pkg/math/curve"
	"github.com/taurusgroup/multi-party-sig/pkg/party"
	"github.com/taurusgroup/multi-party-sig/pkg/protocol"
	"github.com/taurusgroup/multi-party-sig/protocols/doerner"
)

func run2(t *testing.T, sa, sb protocol.StartFunc) (interface{}, interface{}) {
	ha, err := protocol.NewTwoPartyHandler(sa, []byte("sid"), true)
	if err != nil {
		t.Fatal(err)
	}
	hb, err := protocol.NewTwoPartyHandler(sb, []byte("sid"), false)
	if err != nil {
		t.Fatal(err)
	}
	ca, cb := false, false
	for !ca || !cb {
		select {
		case m, ok := <-ha.Listen():
			if !ok {
				ca = true
			} else if hb.CanAccept(m) {
				hb.Accept(m)
			}
		default:
		}
		select {
		case m, ok := <-hb.Listen():
			if !ok {
				cb = true
			} else if ha.CanAccept(m) {
				ha.Accept(m)
			}
		default:
		}
	}
	ra, err := ha.Result()
	if err != nil {
		t.Fatalf("party a: %v", err)
	}
	rb, err := hb.Result()
	if err != nil {
		t.Fatalf("party b: %v", err)
	}
	return ra, rb
}

// Derived Doerner material must keep a chain key (so it can be derived again) and must be a
// valid sharing of the child key: signing with it succeeds and verifies under the child key.
func TestDoernerDeriveThenSign(t *testing.T) {
	group := curve.Secp256k1{}
	var a, b party.ID = "a", "b"
	ra, rb := run2(t, doerner.Keygen(group, true, a, b, nil), doerner.Keygen(group, false, b, a, nil))
	cr, cs := ra.(*doerner.ConfigReceiver), rb.(*doerner.ConfigSender)
	cr1, err := cr.DeriveBIP32(7)
	if err != nil {
		t.Fatal(err)
	}
	cs1, err := cs.DeriveBIP32(7)
	if err != nil {
		t.Fatal(err)
	}
	if !cr1.Public.Equal(cs1.Public) {
		t.Fatal("derived public keys differ")
	}
	if len(cr1.ChainKey) != 32 || len(cs1.ChainKey) != 32 {
		t.Fatalf("derived configs lost their chain key (%d / %d bytes): derivation cannot be repeated", len(cr1.ChainKey), len(cs1.ChainKey))
	}
	if _, err := cr1.DeriveBIP32(1); err != nil {
		t.Fatalf("second derivation: %v", err)
	}
	hash := []byte("0123456789abcdef0123456789abcdef")
	sa, sb := run2(t, doerner.SignReceiver(cr1, a, b, hash, nil), doerner.SignSender(cs1, b, a, hash, nil))
	for _, s := range []interface{}{sa, sb} {
		if !s.(*ecdsa.Signature).Verify(cr1.Public, hash) {
			t.Fatal("signature made with derived shares does not verify under the derived key")
		}
	}
}
