package curve

import "testing"

// A compressed secp256k1 point must start with 0x02 or 0x03 (SEC1 2.3.3/2.3.4).
// Any other first byte is not an encoding of a point and must be refused.
func TestPointDecodingRejectsNonCanonicalPrefix(t *testing.T) {
	g := Secp256k1{}.NewBasePoint()
	enc, err := g.MarshalBinary()
	if err != nil {
		t.Fatal(err)
	}
	for _, prefix := range []byte{0x00, 0x01, 0x04, 0x05, 0x06, 0x07, 0x82, 0xff} {
		bad := append([]byte{}, enc...)
		bad[0] = prefix
		p := Secp256k1{}.NewPoint()
		if err := p.UnmarshalBinary(bad); err == nil {
			t.Errorf("prefix %#02x accepted; decoded point equal to G: %v", prefix, p.Equal(g))
		}
	}
}
