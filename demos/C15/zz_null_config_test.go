package config

import (
	"testing"

	"github.com/taurusgroup/multi-party-sig/pkg/math/curve"
)

// A stored config that is the single CBOR byte 0xf6 (null) must be refused with an error.
// Before the fix the decoder handed cbor a pointer to its pointer, null set that pointer to nil,
// and the first field access crashed the caller.
func TestZZNullConfigIsRefused(t *testing.T) {
	defer func() {
		if r := recover(); r != nil {
			t.Fatalf("UnmarshalBinary panicked on CBOR null: %v", r)
		}
	}()
	for _, in := range [][]byte{{0xf6}, {0xf7}} {
		c := EmptyConfig(curve.Secp256k1{})
		if err := c.UnmarshalBinary(in); err == nil {
			t.Fatalf("input %x restored a config with a nil error", in)
		}
	}
}
