package demo

import (
	"testing"

	"github.com/taurusgroup/multi-party-sig/pkg/protocol"
)

// Restoring a wire message from garbage must report an error, not a silently empty message.
func TestMessageUnmarshalGarbage(t *testing.T) {
	var m protocol.Message
	if err := m.UnmarshalBinary([]byte{0xff, 0x00, 0x13, 0x37}); err == nil {
		t.Fatalf("garbage decoded without error into %+v", m)
	}
}
