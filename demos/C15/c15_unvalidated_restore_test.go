package demo

import (
	"testing"

	"github.com/fxamacker/cbor/v2"
	"github.com/taurusgroup/multi-party-sig/pkg/ecdsa"
	"github.com/taurusgroup/multi-party-sig/pkg/math/curve"
	"github.com/taurusgroup/multi-party-sig/pkg/party"
	"github.com/taurusgroup/multi-party-sig/pkg/protocol"
	"github.com/taurusgroup/multi-party-sig/protocols/doerner"
	"github.com/taurusgroup/multi-party-sig/protocols/frost"
)

// Restoring key material from adversarial bytes must report an error instead of yielding
// an object that breaks the validity rules (zero secret, identity key) or a silently empty one.
func TestEmptyEncodingIsRefused(t *testing.T) {
	g := curve.Secp256k1{}
	empty, _ := cbor.Marshal(map[string]interface{}{})
	fc := frost.EmptyConfig(g)
	if err := cbor.Unmarshal(empty, fc); err == nil {
		t.Errorf("frost.Config restored from {} without error: share zero=%v, key identity=%v, threshold=%d", fc.PrivateShare.IsZero(), fc.PublicKey.IsIdentity(), fc.Threshold)
	}
	ps := ecdsa.EmptyPreSignature(g)
	if err := cbor.Unmarshal(empty, ps); err == nil {
		t.Errorf("ecdsa.PreSignature restored from {} without error (Validate() = %v)", ps.Validate())
	}
	dr := doerner.EmptyConfigReceiver(g)
	if err := cbor.Unmarshal(empty, dr); err == nil {
		t.Errorf("doerner.ConfigReceiver restored from {} without error: share zero=%v", dr.SecretShare.IsZero())
	}
}

func run2(t *testing.T, sa, sb protocol.StartFunc) (interface{}, interface{}, error) {
	ha, err := protocol.NewTwoPartyHandler(sa, []byte("sid"), true)
	if err != nil {
		return nil, nil, err
	}
	hb, err := protocol.NewTwoPartyHandler(sb, []byte("sid"), false)
	if err != nil {
		return nil, nil, err
	}
	ca, cb := false, false
	for !ca || !cb {
		select {
		case m, ok := <-ha.Listen():
			if !ok {
				ca = true
			} else if hb.CanAccept(m) {
				hb.Accept(m)
			}
		default:
		}
		select {
		case m, ok := <-hb.Listen():
			if !ok {
				cb = true
			} else if ha.CanAccept(m) {
				ha.Accept(m)
			}
		default:
		}
	}
	ra, err := ha.Result()
	if err != nil {
		return nil, nil, err
	}
	rb, err := hb.Result()
	return ra, rb, err
}

// A Doerner config must survive serialisation with the documented encoder and still sign.
func TestDoernerConfigRoundTripStillSigns(t *testing.T) {
	g := curve.Secp256k1{}
	var a, b party.ID = "a", "b"
	ra, rb, err := run2(t, doerner.Keygen(g, true, a, b, nil), doerner.Keygen(g, false, b, a, nil))
	if err != nil {
		t.Fatal(err)
	}
	cr, cs := ra.(*doerner.ConfigReceiver), rb.(*doerner.ConfigSender)
	rbBytes, err := cbor.Marshal(cr)
	if err != nil {
		t.Fatal(err)
	}
	sbBytes, err := cbor.Marshal(cs)
	if err != nil {
		t.Fatal(err)
	}
	cr2, cs2 := doerner.EmptyConfigReceiver(g), doerner.EmptyConfigSender(g)
	if err := cbor.Unmarshal(rbBytes, cr2); err != nil {
		t.Fatal(err)
	}
	if err := cbor.Unmarshal(sbBytes, cs2); err != nil {
		t.Fatal(err)
	}
	hash := []byte("0123456789abcdef0123456789abcdef")
	_ = cs2
	// only the Receiver restores from storage; the Sender keeps its in-memory config
	sa, _, err := run2(t, doerner.SignReceiver(cr2, a, b, hash, nil), doerner.SignSender(cs, b, a, hash, nil))
	if err != nil {
		t.Fatalf("signing with a restored Receiver config and the Sender's original config failed: %v", err)
	}
	if !sa.(*ecdsa.Signature).Verify(cr.Public, hash) {
		t.Fatal("signature from restored configs does not verify")
	}
}
