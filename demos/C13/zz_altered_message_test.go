package ot

import (
	"crypto/rand"
	"fmt"
	"testing"

	"github.com/taurusgroup/multi-party-sig/pkg/hash"
	"github.com/taurusgroup/multi-party-sig/pkg/math/curve"
	"github.com/taurusgroup/multi-party-sig/pkg/math/sample"
	"github.com/taurusgroup/multi-party-sig/pkg/pool"
)

// An altered OT message must end in an error (or a still-correct product), never in a crash of the checking side.
func noPanic(t *testing.T, name string, f func() error) {
	t.Helper()
	defer func() {
		if r := recover(); r != nil {
			t.Errorf("%s: the checking side crashed instead of returning an error: %v", name, r)
		}
	}()
	if err := f(); err == nil {
		t.Errorf("%s: altered message accepted without error", name)
	}
}

func TestAlteredMessagesEndInErrors(t *testing.T) {
	pl := pool.NewPool(0)
	defer pl.TearDown()
	sendSetup, receiveSetup, err := runCorreOTSetup(pl, hash.New())
	if err != nil {
		t.Fatal(err)
	}
	group := curve.Secp256k1{}
	alpha := sample.Scalar(rand.Reader, group)
	beta := sample.Scalar(rand.Reader, group)

	fresh := func() (*MultiplySender, *MultiplyReceiver, *MultiplyReceiveRound1Message) {
		H := hash.New()
		s := NewMultiplySender(H.Clone(), sendSetup, alpha)
		r, err := NewMultiplyReceiver(H.Clone(), receiveSetup, beta)
		if err != nil {
			t.Fatal(err)
		}
		return s, r, r.Round1()
	}

	// receiver side: truncated pad list
	{
		s, r, m1 := fresh()
		m2, _, err := s.Round1(m1)
		if err != nil {
			t.Fatal(err)
		}
		m2.Msg.CombinedPads = m2.Msg.CombinedPads[:len(m2.Msg.CombinedPads)-1]
		noPanic(t, "CombinedPads one entry short", func() error { _, err := r.Round2(m2); return err })
	}
	// receiver side: one pad one byte short
	{
		s, r, m1 := fresh()
		m2, _, _ := s.Round1(m1)
		m2.Msg.CombinedPads[0][0] = m2.Msg.CombinedPads[0][0][:31]
		noPanic(t, "CombinedPads[0][0] one byte short", func() error { _, err := r.Round2(m2); return err })
	}
	// receiver side: truncated check vector
	{
		s, r, m1 := fresh()
		m2, _, _ := s.Round1(m1)
		m2.RCheck = m2.RCheck[:len(m2.RCheck)-1]
		noPanic(t, "RCheck one entry short", func() error { _, err := r.Round2(m2); return err })
	}
	// receiver side: missing inner message
	{
		s, r, m1 := fresh()
		m2, _, _ := s.Round1(m1)
		m2.Msg = nil
		noPanic(t, "Msg nil", func() error { _, err := r.Round2(m2); return err })
	}
	// sender side: missing inner messages
	{
		s, _, m1 := fresh()
		m1.Msg.Msg.CorreMsg = nil
		noPanic(t, "CorreMsg nil", func() error { _, _, err := s.Round1(m1); return err })
	}
	{
		s, _, m1 := fresh()
		m1.Msg.Msg = nil
		noPanic(t, "ExtendedOT message nil", func() error { _, _, err := s.Round1(m1); return err })
	}
	{
		s, _, m1 := fresh()
		m1.Msg = nil
		noPanic(t, "AdditiveOT message nil", func() error { _, _, err := s.Round1(m1); return err })
	}
	// setup: missing point in the sender's setup message
	{
		msg, _ := RandomOTSetupSend(hash.New(), group)
		msg.B = nil
		noPanic(t, "setup point nil", func() error { _, err := RandomOTSetupReceive(hash.New(), msg); return err })
	}
	_ = fmt.Sprint
}
