#!/bin/bash
# usage: tryseed.sh <seed-dir-with-patch.diff> <prop> [more props...]  -- applies the patch to /repo, runs the checks, reverts.
d=$1; shift
git -C /repo apply $d/patch.diff || { echo "patch does not apply"; exit 1; }
for p in "$@"; do
  /verif/bin/mpscheck -p $p -noevidence 2>&1 | grep -E '^FAIL' | cut -c1-400 || true
done
git -C /repo checkout -- .
