#!/bin/bash
# usage: tryseed.sh <seed-dir-with-patch.diff> <prop> [more props...]  -- applies the patch to a scratch copy of /repo
# (never to /repo itself), runs the checks on the copy, removes it.
d=$1; shift
MPS=${MPS:-/verif/bin/mpscheck}
export GOFLAGS=-mod=mod GOPROXY=off GOSUMDB=off GOTOOLCHAIN=local; unset GOWORK
s=/tmp/tryseed-$$; rm -rf $s; mkdir -p $s
rsync -a --exclude .git /repo/ $s/
(cd $s && git apply $d/patch.diff 2>/dev/null || patch -p1 -s < $d/patch.diff) || { echo "patch does not apply"; rm -rf $s; exit 1; }
for p in "$@"; do
  $MPS -p $p -noevidence -verif /verif -repo $s 2>&1 | grep -E '^(FAIL|LOAD-FAILED)' | grep -v 'OB-B3\|OB-U2' | cut -c1-400 || true
done
rm -rf $s
