#!/usr/bin/env python3
"""keepseed.py <ID> <seed-name> [caught_by props...]
Confirms a seeded change produced by an independent agent (worktree $SEEDROOT/<ID>, outputs $SEEDROOT/out-<ID>)
in a fresh scratch worktree of /repo HEAD:
  - patch applies, `go build ./...` ok, full test suite passes WITH the patch (demo excluded),
  - the demo FAILS with the patch and PASSES without it.
On success stores /verif/seeded/<seed-name>/{patch.diff, demo/..., notes.md, meta.json} and removes the scratch worktree.
"""
import json, os, re, shutil, subprocess, sys, time

ID, name = sys.argv[1], sys.argv[2]
caught = sys.argv[3:]
ROOT = os.environ.get("SEEDROOT") or sys.exit("set SEEDROOT=/tmp/seedN (the round's directory)")
src_wt = f"{ROOT}/{ID}"
out = f"{ROOT}/out-{ID}"
scratch = f"/tmp/confirm-{ID}"
env = dict(os.environ, GOFLAGS="-mod=mod", GOPROXY="off", GOSUMDB="off", GOTOOLCHAIN="local")
env.pop("GOWORK", None)

def sh(cmd, cwd=None, timeout=1800):
    p = subprocess.run(cmd, shell=True, cwd=cwd, env=env, capture_output=True, text=True, timeout=timeout)
    return p.returncode, (p.stdout + p.stderr)

def fail(msg):
    print("REJECTED:", msg)
    sh(f"git -C /repo worktree remove --force {scratch}")
    sys.exit(1)

sh(f"git -C /repo worktree remove --force {scratch}")
rc, o = sh(f"git -C /repo worktree add -q --detach {scratch} HEAD")
if rc: fail(o)
rc, o = sh(f"git apply {out}/patch.diff", cwd=scratch)
if rc: fail("patch does not apply: " + o)
rc, o = sh("go build ./...", cwd=scratch)
if rc: fail("does not compile: " + o[-2000:])
t0 = time.time()
rc, o = sh("go test -vet=off -count=1 -timeout 25m ./... 2>&1 | grep -v 'no test files'", cwd=scratch)
full = [l for l in o.splitlines() if l.startswith(("ok", "FAIL", "---", "panic"))]
if any(l.startswith(("FAIL", "--- FAIL", "panic")) for l in full): fail("existing suite fails with the patch:\n" + "\n".join(full))
suite_s = time.time() - t0
# demo files: untracked files in the agent's worktree
rc, o = sh("git status --porcelain --untracked-files=all", cwd=src_wt)
demos = [l[3:] for l in o.splitlines() if l.startswith("??") and l.endswith(".go")]
if not demos: fail("no demo files found in " + src_wt)
pkgs, tests = set(), set()
for d in demos:
    os.makedirs(os.path.dirname(os.path.join(scratch, d)), exist_ok=True)
    shutil.copy(os.path.join(src_wt, d), os.path.join(scratch, d))
    pkgs.add("./" + os.path.dirname(d))
    tests |= set(re.findall(r"^func (Test\w+)\(", open(os.path.join(src_wt, d)).read(), re.M))
pat = "^(" + "|".join(sorted(tests)) + ")$"
cmd = f"go test -vet=off -count=1 -timeout 10m -run '{pat}' " + " ".join(sorted(pkgs))
rc_with, o_with = sh(cmd, cwd=scratch)
rc, o = sh(f"git apply -R {out}/patch.diff", cwd=scratch)
if rc: fail("cannot revert: " + o)
rc_without, o_without = sh(cmd, cwd=scratch)
if rc_with == 0: fail("demo PASSES with the patch:\n" + o_with[-1500:])
if rc_without != 0: fail("demo FAILS without the patch:\n" + o_without[-1500:])
dst = f"/verif/seeded/{name}"
shutil.rmtree(dst, ignore_errors=True)
os.makedirs(dst + "/demo")
shutil.copy(f"{out}/patch.diff", dst + "/patch.diff")
if os.path.exists(f"{out}/notes.md"): shutil.copy(f"{out}/notes.md", dst + "/notes.md")
for d in demos:
    os.makedirs(os.path.dirname(os.path.join(dst, "demo", d)), exist_ok=True)
    shutil.copy(os.path.join(src_wt, d), os.path.join(dst, "demo", d))
head = subprocess.run("git -C /repo rev-parse --short HEAD", shell=True, capture_output=True, text=True).stdout.strip()
first_fail = next((l for l in o_with.splitlines() if "FAIL" in l or "panic" in l or "_test.go" in l), "")
meta = {
    "property": ID,
    "source": "independent sub-agent given only the property text and a scratch worktree",
    "repo_head": head,
    "demo_files": ["demo/" + d for d in demos],
    "demo_cmd": f"(copy demo/* into the tree) {cmd}",
    "needs_to_manifest": "see notes.md",
    "confirmed": {
        "patch_applies_and_builds": True,
        "existing_suite_passes_with_patch": True, "suite_seconds": round(suite_s),
        "demo_with_patch": "FAILS (exit %d): %s" % (rc_with, first_fail.strip()[:200]),
        "demo_without_patch": "passes",
    },
    "caught_by": caught,
    "expect": "",
}
json.dump(meta, open(dst + "/meta.json", "w"), indent=1)
sh(f"git -C /repo worktree remove --force {scratch}")
print("KEPT", dst, "demo_with:", first_fail.strip()[:160])
