#!/bin/bash
# usage: mkvariant.sh <prop> <name> [expect-substring] [benign]
# Saves /repo's uncommitted working-tree diff as a variant patch, checks that it compiles
# (go build + go vet-free test compile), shows what the property's check reports, reverts /repo.
set -e
prop=$1; name=$2; expect=$3; benign=$4
export GOFLAGS=-mod=mod GOPROXY=off GOSUMDB=off GOTOOLCHAIN=local; unset GOWORK
d=/verif/variants/$prop; mkdir -p $d
sfx=.patch; [ -n "$benign" ] && sfx=.benign.patch
git -C /repo diff > $d/$name$sfx
[ -s $d/$name$sfx ] || { echo "empty diff"; exit 1; }
(cd /repo && go build ./... ) || { echo "DOES NOT COMPILE"; git -C /repo checkout -- .; exit 1; }
[ -n "$expect" ] && echo "$expect" > $d/$name.expect
/verif/bin/mpscheck -p $prop -noevidence 2>&1 | grep -E '^FAIL' | cut -c1-300 || echo "(silent)"
git -C /repo checkout -- .
