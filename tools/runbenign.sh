#!/bin/bash
# usage: runbenign.sh [dir]  -- applies every behaviour-preserving maintenance patch of the corpus (default /verif/benign/*)
# to a scratch copy of /repo and runs ALL checks on it; prints every alarm (there must be none) and a summary.
# These patches were written by independent agents that saw only the property text and the code (never /verif).
cd /verif
dirs=${@:-/verif/benign/*}
out=$(mktemp -d)
run1() { pf=$1; out=$2; W=330 /verif/tools/tb1.sh $pf all > $out/$(basename $(dirname $pf))-$(basename $pf .diff).txt 2>&1; }
export -f run1
ls $(for d in $dirs; do echo $d/*.diff; done) | xargs -P 7 -I{} bash -c "run1 {} $out"
n=0; bad=0; lim=0
known=$(cat /verif/benign/*/KNOWN-LIMITS.txt 2>/dev/null | grep -v '^#' | cut -f1)
for f in $out/*.txt; do
  n=$((n+1)); id=$(basename $f .txt)
  if [ -s $f ]; then
    if echo "$known" | grep -qx "$id"; then lim=$((lim+1)); echo "== known limit: $id still alarms ($(wc -l < $f) lines)"; else bad=$((bad+1)); echo "== FALSE ALARM on $id"; cut -c1-300 $f; fi
  fi
done
echo "benign corpus: $((n-bad-lim)) of $n patches silent under all checks, $lim known limits, $bad new false alarms"
rm -rf $out
[ $bad -eq 0 ]
