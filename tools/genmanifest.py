#!/usr/bin/env python3
"""Regenerates /verif/MANIFEST.json from the table below (kept in one place so the manifest is always valid)."""
import json, subprocess, sys, os

V = "/verif"
SETUP = ("cd /verif/checker && env -u GOWORK GOFLAGS=-mod=mod GOPROXY=off GOSUMDB=off GOTOOLCHAIN=local "
         "go build -o /verif/bin/mpscheck . ")

# property -> (technique, level text, level_note, design_ref)
CLAIMED = {}
NA = {}

def claim(pid, technique, text, note, ref):
    CLAIMED[pid] = (technique, text, note, ref)

def na(pid, reason):
    NA[pid] = reason

exec(open(os.path.join(V, "tools", "claims.py")).read())

props = [json.loads(l)["id"] for l in open(os.path.join(V, "properties.jsonl"))]
checks = []
for pid in props:
    if pid in CLAIMED:
        t, text, note, ref = CLAIMED[pid]
        checks.append({
            "property_id": pid,
            "quick_cmd": f"bin/mpscheck -p {pid} -tier quick",
            "thorough_cmd": f"bin/mpscheck -p {pid} -tier thorough",
            "evidence_file": f"/verif/evidence/{pid}.json",
            "replay_cmd_template": f"bin/mpscheck -p {pid} -tier quick  # re-evaluates the rules; the report at {{path}} names rule|object|construct and file:line",
            "engine": "mpscheck",
            "level_claimed": {"category": "other", "text": text, "design_ref": ref},
            "level_note": note,
            "technique": t,
        })
missing = [p for p in props if p not in CLAIMED and p not in NA]
if missing:
    sys.exit("properties neither claimed nor not_applicable: %s" % missing)
man = {
    "version": 1,
    "setup_cmd": SETUP,
    "hooks": {
        "guard": "verif",
        "enable": "none needed: static analysis reads the production build of /repo's working tree (no instrumentation, no build tag in use)",
        "baseline_off_cmd": "cd /repo && env -u GOWORK GOFLAGS=-mod=mod GOPROXY=off GOSUMDB=off GOTOOLCHAIN=local go test -vet=off -count=1 -timeout 25m ./...",
        "source_commits": [],
        "add_only": True,
    },
    "engines": [{
        "name": "mpscheck",
        "path": "/verif/checker",
        "serves_properties": sorted(CLAIMED),
        "kind_free_text": "repository-specific static analyser: go/packages + go/types + go/ssa (x/tools v0.29.0), VTA call graph; rules over AST/SSA/CFG/call graph; never executes repository code",
    }],
    "checks": checks,
    "not_applicable": [{"property_id": p, "reason": NA[p]} for p in props if p in NA],
    "notes": "All checks are static (source-only). Exit 0 = every rule instance held (KNOWN-FINDING lines for recorded defects); exit 1 + VIOLATION line = a rule instance failed; exit 2 = the tree could not be loaded/type-checked (no verdict); exit 3 = thorough-tier self-test failed (a broken variant was not reported). See DESIGN.md.",
}
json.dump(man, open(os.path.join(V, "MANIFEST.json"), "w"), indent=1)
print("claimed:", sorted(CLAIMED), "n/a:", sorted(NA))
