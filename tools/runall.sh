#!/bin/bash
# runs every claimed check (quick tier) and prints one line each
cd /verif
for p in $(python3 -c "import json;print(' '.join(c['property_id'] for c in json.load(open('MANIFEST.json'))['checks']))"); do
  ./bin/mpscheck -p $p -tier ${1:-quick} 2>&1 | grep -E "^(OK|VIOLATION|SELFTEST|LOAD-FAILED)|MISSED|FALSE-ALARM" | head -5
done
