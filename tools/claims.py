# Table of claims; exec'd by genmanifest.py (claim/na are defined there).

STATIC_NOTE = ("Trusted: Go type checker, go/ssa (x/tools v0.29.0), the rule tables in /verif/checker. "
               "Decides structural necessary conditions on every path/schedule; does not execute the code. ")

claim("C18",
      "happens-before / typestate rules over the SSA of pkg/pool (publish-before-release, lost-wakeup shape, exactly-once path counting) + call-graph rule over all pool call sites",
      "Decides, for every interleaving and every worker/task count, the synchronisation skeleton of the pool: each result-slot write is sequenced before the release event the caller's return condition acquires; worker-side notifications cannot block after the caller left (capacity covers all sends); each task performs exactly one task call, slot write, decrement and notification on every path; indices 0..count-1 issued exactly once; nil pool delegates to a sequential helper; no task re-enters the pool. This is the right level because the property is a schedule-quantified safety/liveness claim whose truth is visible in the ordering of sync events in 230 lines of code.",
      STATIC_NOTE + "Go memory model for atomics/channels; task functions terminate; Pool used from one goroutine at a time (its documented contract). Not decided: scheduler fairness.",
      "DESIGN.md §4 C18")

claim("C17",
      "lockset analysis (guarded-field inference + lock-held dominance, wrapper summaries, entry-lock fixpoint over call sites) and close-once typestate (Running/Finished facts from dominating nil tests) over the SSA of both handlers, round.Helper and point marshalling",
      "Decides for every interleaving of API calls: all accesses to handler fields written after construction hold the handler mutex; no re-entrant locking; the outgoing channel is closed at one site, reached only in state Running established under the lock, at most once per frame, with nothing sent afterwards; err/result assigned only in that transition; Stop reaches it with an error; exported methods mutate state only while Running; Helper's hash state under its own mutex; point MarshalBinary does not write its receiver. Right level: data-race freedom and close-once are lock/ordering facts visible on every path, independent of schedules.",
      STATIC_NOTE + "Go memory model (common-lock criterion). Not decided: liveness when the user does not drain the outgoing channel (excluded by the property); panics inside round code (decided under C05).",
      "DESIGN.md §4 C17")

claim("C19",
      "encoding-shape analysis: SSA rule on hash.WriteAny (length-prefix-before-variable-write on every path, rejecting default), AST/type rule classifying every WriteTo into fixed / length-prefixed / variable segments, constant-domain uniqueness, static argument-type rule over all 193 hash call arguments, commit/decommit sibling rules",
      "Decides for all inputs the structural causes of transcript ambiguity: item framing in WriteAny, injective layout of every typed writer (at most one undelimited variable segment, none in loops, counted lists), distinct constant domains, no argument type that the run-time type switch would drop, and the commit/decommit mechanism (clone, order, validation, full comparison). This is the right level because injectivity of a framing is a property of the encoder's shape, not of sampled inputs.",
      STATIC_NOTE + "Width table for leaf encodings and two invariant-promoted widths (RID, Paillier modulus) whose supporting checks run in the same check. Not decided: collision resistance of BLAKE3.",
      "DESIGN.md §4 C19")

claim("C10",
      "transcript-completeness rule over challenge() of all 15 proof systems (AST + types), prover/verifier sibling rule, SSA reject-guard inventory (deciding callee + statement/proof fields feeding each guard, frozen in tables/zk_guards.json) with accept-coverage by dominance, range-predicate table",
      "Decides for every public input, proof field and context that the mechanisms binding a proof are wired: every statement/commitment field enters the Fiat-Shamir hash, both sides use the same challenge function on the caller's context, the verifier honours the challenge error, every tabled response is range-checked, and every recorded verification equation/validity guard still exists, still depends on the same fields and still dominates acceptance. Right level for the 'bound to statement and context / out-of-range rejected' clauses, which are shape facts; completeness on boundary witnesses is value-level and NOT decided.",
      STATIC_NOTE + "tables/zk_guards.json is the reference inventory (regenerated only by a reviewed maintainer action). Not decided: soundness of the equations, completeness for boundary witnesses.",
      "DESIGN.md §4 C10")

claim("C03",
      "type-driven must-check rules over every round (received proofs verified, commitments opened, validators applied), SSA reject-guard inventory with one-level helper inlining over all round methods / internal/ot / internal/mta / pkg/ecdsa (deciding callee + message, state and session data feeding each guard, index pairings kept; frozen in tables/round_guards.json), self-verification before ResultRound, handler ordering",
      "Decides on every path of every consuming method that each tamper-detecting mechanism is present, fed by the received field and the right party's context, and gates every accepting exit (by dominance): all 25 received proof fields, 6 commitments, 16 validated fields, 300+ inventoried guards incl. the bespoke equations (Feldman, degree/constant term, decrypted-share range, Delta=delta*G, sum S=X, FROST share check, OT checks), and that a returned signature passed Verify. Right level for 'no field alteration is accepted': it is a for-all-fields/for-all-paths presence-and-placement claim; sufficiency of the cryptography is NOT decided.",
      STATIC_NOTE + "tables/round_guards.json is the reference inventory (semantic keys, never positions). Known limit: a legitimate change of what data feeds a check requires a reviewed table regeneration.",
      "DESIGN.md §4 C03")

claim("C05",
      "panic-containment rule (deferred recover barrier registered first, under the lock, ending the session) on both Accept entry points; nil-validation rule for peer-controlled fields touched by pool-worker closures (guard inventory with nil-rejecting deciders, inside the task or dominating the pool call); tabled explicit panic sites; len-guard / allocation-bound dominance rules for custom UnmarshalBinary; who-may-start-goroutines rule",
      "Decides for every byte string presented to Accept that a panic on the caller's goroutine cannot escape (the barrier dominates all decoding and round code and converts any panic into a clean abort), and that code running on pool workers - the only place the barrier cannot reach - dereferences peer data only after a nil-rejecting validator; that hand-written binary decoders never index or allocate from unchecked lengths; that no library code starts other goroutines. Right level: a crash is a control-flow effect visible on every path, independent of the input sampled. Time bounds of big-number arithmetic are NOT decided.",
      STATIC_NOTE + "CBOR decode model of DESIGN §2; recover semantics of the Go spec. Restore of key material through plain cbor.Unmarshal by the caller (frost/doerner configs) is outside any library entry point: see known findings of C15.",
      "DESIGN.md §4 C05")

claim("C06",
      "must-pass-through (dominance) and completeness rules on the echo-broadcast mechanism in pkg/protocol: finalize gated by receivedAll/checkBroadcastHash, both queues compared with the previous round's hash, outgoing messages carry the right round's hash, single writer and full/ordered coverage of the per-round hash, all fields of Message reach Message.Hash by independent writes",
      "Decides for every equivocating party, partition and delivery order the structural links of Goldwasser-Lindell echo broadcast: a round cannot be finalized without the comparison of every received verification hash; the comparison is over whole slices and both queues; the hash sent and the hash compared belong to the same round; the hash covers every participant's broadcast, in a party-independent order, and every field of each message. Right level: the property reduces to these links plus collision resistance; which links exist is a shape fact.",
      STATIC_NOTE + "Handler processes messages sequentially under its mutex (C17). Not decided: collision resistance of the hash.",
      "DESIGN.md §4 C06")

claim("C09",
      "completeness rule on round.NewSession (every Info field / session id / auxiliary item written into the hash whose Sum is the SSID), argument rule on the CMP NewSession call sites, protocol-id constant uniqueness, guard inventory + action-dominance on CanAccept/Accept, writer-shape rule for the tag's encoders, per-party context rule (HashForID(msg.From) / HashForID(SelfID()) at every verify/prove site of the multi-party rounds)",
      "Decides for every pair of sessions and every replayed message the mechanisms that separate them: what enters the session tag (and that key material, message and presignature id do for CMP), that the tag's encoders are injective, that protocol ids do not collide across packages, that the header filter keeps all its comparisons and gates every action of Accept, and that every proof/commitment is made and checked under the hash of its own prover. Right level: separation is a which-data-is-hashed / which-guard-gates question; only collision resistance remains.",
      STATIC_NOTE + "Not decided: collision resistance.",
      "DESIGN.md §4 C09")

claim("C20",
      "nil-dereference dominance rule for key-material pointers in all 42 start functions/closures, guard inventory (frozen keys) over start closures, round.NewSession, the handler constructors, CanSign/ValidThreshold and PreSignature.Validate, typed-nil boxing rule",
      "Decides for every start function and every invalid-parameter class named by the property that the refusing check exists and gates session creation: nil or incomplete key material, empty message, participant-list / self-membership / threshold validation in NewSession, signer-subset validation, presignature validation, StartFunc errors surfaced by the constructors; and that a missing shareholder cannot slip through as a typed-nil interface. Right level: 'refused at start' is the presence and placement of validations on every path to the first-round literal.",
      STATIC_NOTE + "Not decided: arithmetic consistency of key material that passes the validators (C15/C02).",
      "DESIGN.md §4 C20")

claim("C04",
      "value-identity rule on every abort(err, culprits) site of MultiHandler (culprit = From of the very message whose processing failed), blame-guard inventory (culprit append sites with deciding check, data and culprit expression), loop-carried-accumulator rule for per-party tables, round-graph rules (content round numbers, FinalRoundNumber window over all reachable rounds incl. abort rounds), prover/verifier index-agreement rule for the abort decryption proofs",
      "Decides for every deviation and delivery order who CAN be named: handler-level blame always names the sender of the failing message (or nobody / the Abort round's list); protocol-level blame sites keep their recorded check and name the loop's own party, never self; per-party entries used for share-wise blame depend only on that party's data; abort rounds' messages are deliverable in every variant; and it reports (as a recorded known finding) that abort1/abort2 verify decryption proofs against the wrong table entry. Right level: attribution is dataflow from a failing check to a name; the arithmetic of the recomputation is NOT decided.",
      STATIC_NOTE + "tables/blame_guards.json. Two known findings (abort1/abort2 index swap) are listed in known_findings.jsonl and printed as KNOWN-FINDING.",
      "DESIGN.md §4 C04")

claim("C07",
      "dominance / presence rules on the handler's queueing mechanism (store before the round test, queue replay and re-examination in finalize, duplicate filter, non-overwriting store, stale-round guard, broadcast-before-p2p gating and draining), map-iteration scan for every hash/transcript write of the library, round-number/window rules",
      "Decides only the shape facts every delivery schedule relies on: early messages are queued and replayed, duplicates and stale messages cannot replace processed ones, a p2p message cannot overtake its sender's broadcast, no transcript depends on Go map iteration order, and every content is queued under a round inside the window. Equality of outcomes over ALL interleavings is a model-checking question and is explicitly not decided; this is the honest static remainder of a schedules-quantified property.",
      STATIC_NOTE + "Handler runs under one mutex (C17); rounds are deterministic functions of stored messages and local randomness. Not decided: outcome equality across interleavings.",
      "DESIGN.md §4 C07")

claim("C11",
      "may-depend analysis with object-level, order-aware effects on SSA (dep.go): must-depend queries from the published nonce commitments / the BIP-340 nonce back to secret share, session hash, message, randomness or counter, public key",
      "Decides for every pair of signing contexts the structural cause of nonce separation: the published FROST commitments and the BIP-340 nonce are functions of the secret, the session context, the message and fresh randomness (or the atomic counter) - a source with no dependency path, written into an unread hasher, or written after the digest is reported. For a dependency property this IS the property up to the PRF assumption, hence the right level.",
      STATIC_NOTE + "Effect summaries for blake3/rand/io/binary/atomic in dep.go. Not decided: PRF security of the keyed hash.",
      "DESIGN.md §4 C11")

claim("C14",
      "exhaustive-literal rule (ChainKey set on every result / derived / cloned key-material literal), must-depend queries (dep.go) for chain-key accumulation and for Derive (child chain key <- argument, shares <- adjust, Doerner Sender share independent of adjust), aliasing rule (in-place scalar/RID mutators only on fresh objects, with reaching-definition freshness), shape + guard rules for bip32.DeriveScalar",
      "Decides structurally that the chain key computed by key generation reaches every result and depends on every participant's contribution, that derivation installs the new chain code and moves exactly the shares it must, that derivation/refresh never rewrites the parent's or previous epoch's objects in place (the cause of order-dependent corruption on repeated derivation), and that the BIP-32 child function has the standard's layout. Numeric agreement with BIP-32 vectors and validity of the derived sharing are value-level and NOT decided.",
      STATIC_NOTE + "Mutator table for curve.Scalar / RID; freshness by reaching definitions. Not decided: numeric conformance.",
      "DESIGN.md §4 C14")

claim("C08",
      "zero-constant rule on the refresh paths (fresh unwritten NewScalar, selected by the refresh flag / presence of previous material), must-depend queries (dep.go) from refreshed shares back to previous shares and all received sub-shares, aliasing rule on previous-epoch objects, inventoried peer-constant checks, session binding to the current config",
      "Decides only the structural half of a histories-quantified property: a refresh deals polynomials with zero constant (so the key cannot move), adds the previous secret/public shares to the freshly dealt ones, checks the peers' constants, binds the session to the current config and never rewrites the previous epoch's objects. That shares numerically change, that mixed epochs fail to reconstruct and that signing afterwards succeeds are value-level and NOT decided.",
      STATIC_NOTE + "dep.go effect summaries. Not decided: numeric effects of refresh across histories.",
      "DESIGN.md §4 C08")

claim("C15",
      "codec-agreement rule over every hand-written MarshalBinary/UnmarshalBinary pair (wire-struct fields written/read, restored fields assigned), reflective-encodability rule over the type graph of every result type, guard inventory over all UnmarshalBinary implementations and restore-path validators, validating-decoder rule per key-material type",
      "Decides structurally, for all encodings, that hand-written codecs cannot silently lose or skip a field, that reflectively encoded result types carry no unexported state, and that every recorded refusal on the restore path (decode errors, prime/modulus/Pedersen validation, zero scalars, identity points, threshold, duplicate/missing party) still exists and gates success; it reports as recorded known findings that frost, Doerner and presignature material is restored with no validation at all. Behavioural equivalence of restored objects is NOT decided.",
      STATIC_NOTE + "Five known findings listed in known_findings.jsonl (types restored by plain reflective CBOR).",
      "DESIGN.md §4 C15")

claim("C16",
      "SSA reject-guard inventory over Signature.Verify/SigEthereum, taproot Sign/Verify/Public and the secp256k1 scalar/point decoders and LiftX; abstract byte-stream rule on TaggedHash; tag-constant and argument-role rule (may-depend sets) at every TaggedHash call; conditional-negation (even-Y) pairing rule; finite abstract evaluation of the point decoder over all 256 prefix bytes; branch/region rule on the Ethereum recovery byte",
      "Decides the standard-conformance facts that are visible in the shape of the code and that a self-comparing test cannot see because signer and verifier would change together: the refusals (zero r/s, full-point equality, length, x>=p, s>=n, infinite or odd-Y R, zero key, scalar overflow, non-canonical point prefix) exist, read the right part of the input and gate acceptance; tagged hashes have the BIP-340 byte layout, tags and field order; d and k are negated exactly on odd Y and before use; keys are x-only and lifted to the even root; the Ethereum export negates s only above half order, flips the recovery bit exactly then and keeps the caller's signature object valid. Agreement of the numerical results with a reference implementation (known-answer vectors) is a runtime quantity and is NOT decided.",
      STATIC_NOTE + "decred secp256k1 arithmetic (DecompressY, SetBytes overflow flag, IsOverHalfOrder) trusted. Not decided: field/scalar arithmetic, test-vector equality.",
      "DESIGN.md §4 C16")

claim("C13",
      "SSA reject-guard inventory over every function of internal/ot; access-path rule pairing each index into a peer-supplied slice with a dominating length guard on the same path and each use of a pointer/interface message field with a dominating nil guard (callee-entry guards and validation helpers resolved); must-precede rule on the extended-OT transcript (all OTParam columns of U written before the digest chi is read from, both sides); sibling rule on the multiplication's chi sampling / gadget; uniform bit-addressing rule",
      "Decides the parts of the property that are visible in the shape of the code for every input and every altered message: each consistency check of the stack (Schnorr proof of the setup point, random-OT challenge/response, batch sizes, KOS monochrome check, multiplication integrity check) exists, is fed by the received fields and gates every accepting exit; an altered message cannot crash the checking side through a short slice or a null field; the check weights bind the whole correlation message on both sides; both sides of the multiplication derive chi and the gadget identically; every bit access uses one bit order (the 'wrong bit order in the gadget or transpose' class). The algebraic relations themselves (receiver gets the chosen pad, t = q xor choice*Delta, shares add up to alpha*beta) quantify over run-time values and are NOT decided.",
      STATIC_NOTE + "tables/round_guards.json (internal/ot entries). Not decided: the arithmetic identities, GF(2^128) multiplication in accumulate, security of KOS/Doerner.",
      "DESIGN.md §4 C13")

claim("C12",
      "SSA reject-guard inventory over pkg/paillier, pkg/math/arith, internal/mta; operand-identity rules on the encryption range guard (which Cmp component, which constant, which edge rejects, bound = one right shift by 1 of a value that may-depends on N only, guard dominates all exponentiations); signed-exponent / symmetric-residue rules; branch-region rule on the CRT exponentiation with signed exponents; value-identity role rule on newMta/ProveAffG/ProveAffP (which key encrypts what, clone before in-place multiply, statement/witness wiring, negation after the proof); freshness rule for in-place ciphertext operations over the whole module",
      "Decides, for every input, the structural necessary conditions that random mid-range tests cannot reach: the range refusal exists, is computed from N itself as floor(N/2), refuses exactly on 'greater' (endpoints accepted) and precedes every use; the plaintext keeps its sign into the exponent and comes back as a symmetric residue; ciphertext validation (range and unit test) and its use by Dec/DecWithRandomness exist; the CRT path inverts exactly for negative exponents and a factorisation-free fallback exists; MtA encrypts one mask under both keys with the prescribed roles and returns its negation; no caller rewrites a ciphertext it does not own. That Dec(Enc(m)) = m, homomorphic results and alpha+beta = a*b hold numerically for all values is a run-time arithmetic fact and is NOT decided (would need execution or a solver, both outside this technique).",
      STATIC_NOTE + "saferith arithmetic and the CRT recombination formula are trusted. Not decided: numerical exactness on the boundary lattice, agreement with an independent big-integer implementation.",
      "DESIGN.md §4 C12")

claim("C01",
      "dominance rule: every ResultRound(signature) is governed by a passed Verify whose key/message operands are the session's group key and message (path identity); call-site rules on Lagrange interpolation (domain = signer set, coefficient/share index pairing by SSA value identity, group key = loop sum of scaled shares or config.PublicPoint()); operand-identity rule on curve.FromHash (shift amount from the length of the converted slice) plus a who-converts rule over all ECDSA paths; BIP-340 tag/role rule and odd-Y negation-set rule on FROST-Taproot; round-graph rules RG-1/RG-2",
      "Decides only the structural links of a run-time property: a returned signature is always one the library's verifier (structure decided under C16) accepted under the session's group key and message, so arithmetic mistakes can at worst abort; the session key and the share scaling are taken over the actual signer set with each coefficient applied to the same party's share (the non-prefix-subset risk); hash-to-scalar is one function whose truncation/shift operands are consistent, used by every signer path and the verifier (the 'error shared by signer and verifier at other digest lengths' risk); FROST-Taproot hashes (R.x, P.x, m) under the BIP-340 tag and negates the complete set of objects on odd Y; round numbering lets an honest session reach its last round. NOT decided: that shares interpolate (the Lagrange formula), MtA/OT arithmetic, equality of the signatures returned by different parties, liveness under schedules.",
      STATIC_NOTE + "C16 for the verifier's structure; C07/C17 for delivery-order independence. Not decided: numerical validity, agreement between parties, completion for every schedule.",
      "DESIGN.md §4 C01")

claim("C02",
      "call-site and index-pairing rules over the keygen rounds of CMP and FROST: degree argument of every dealing polynomial is the session threshold (exact value, not an expression), NewPolynomial allocation/sampling shape, receiver-side Degree() guards against the same threshold, evaluation point = destination (SSA value identity) for every sub-share sent, Feldman check at SelfID() on the sender's polynomial gating acceptance, table entry j = Sum(all polynomials)(j), secret share = sum over all PartyIDs(), one ID-to-scalar mapping at every evaluation",
      "Decides the wiring that makes the sharing consistent for thresholds the tests never run (t < n-1): degree t polynomials on the dealing and on the checking side; party j receives f_i(j), checks it against F_i at its own identifier and refuses otherwise; everybody computes table entry j as F(j) from all commitments; the own share sums all sub-shares including the own one; all of it through party.ID.Scalar. NOT decided: that the resulting shares reconstruct numerically for every subset, identifier collisions modulo the group order, the Doerner two-party multiplicative sharing (only its proofs/commitments, under C03), agreement across delivery orders (C07).",
      STATIC_NOTE + "Tamper rejection of the same mechanisms is C03's inventory. Not decided: numeric reconstruction, Doerner.",
      "DESIGN.md §4 C02")

# every property is claimed; nothing is listed as not applicable as a whole. What each claim does NOT decide is
# stated in its own "decides" text and in DESIGN.md section 5.

# rules added after the independent seeding rounds 2-4 (see DESIGN.md section 8); appended to the technique text
ADDENDA = {
 "C17": "; implicit-Stringer re-entrancy rule",
 "C18": "; quota-read-per-candidate rule (no cycle through the task call avoids the counter read); worker-count positivity rule",
 "C08": "; whole-config binding of sign/presign/online sessions",
 "C04": "; literal-aliasing rule (one reference object in two fields); divert-before-result rule in the presign rounds; reject-guard inventory of the abort proofs (zk/nth, zk/log) with the modulus accessor in the key",
 "C01": "; in-place-mutation (freshness) rule over presignature / configuration methods and all signing rounds; Lagrange consumption over the whole domain",
 "C02": "; whole-identifier rule on party.ID.Scalar; Lagrange rules on Config.PublicPoint; whole-table rule for in-place updates of caller-provided share tables; used-result rule over effect summaries; sibling-roles rule on the Doerner key generation (same-named state fields updated under the same conditions)",
 "C03": "; first-copy-wins rule on Accept/store; party-loop completeness rule (no sub-slices of participant lists); failure-is-reported rule on every error test (the return on the non-nil edge carries a non-nil error)",
 "C05": "; overflow-safety rule on allocation bounds (no narrow arithmetic on untrusted sizes); direct nil-comparison rule for pre-shaped sub-protocol messages; failure-is-reported rule; decoded-pointer nil rule on CBOR decoder call sites; untabled explicit panic sites decided by call-graph reachability from the uncontained roots (pool worker entry, decoder / CanAccept entry points)",
 "C06": "; first-copy-wins rule; no-early-accept rule on checkBroadcastHash; queue-choice agreement between duplicate and store",
 "C07": "; queue-key rule (messages filed under their own RoundNumber/From in both handlers); filter-first rule (every effect of Accept dominated by canAccept); queue-delete rule; session-tag completeness/ordering rule of C09",
 "C09": "; order rule (nothing hashed after the ssid snapshot); total-writer and complete-writer rules; session-identifier content-forwarding rule at every NewSession call; used-result rule over interprocedural effect summaries (a discarded effect-free call is a missing write)",
 "C10": "; frozen parameter table: security constants, bit bounds of the interval predicates, widths of the samplers; single-bit mask rule",
 "C11": "; session-identifier content-forwarding rule; byte-stream rule on TaggedHash; tag-completeness of NewSession; used-result rule over effect summaries; accumulating-sink rule on WriteAny",
 "C12": "; operand-identity rule on Ciphertext.Mul/Add; capacity rule on plain big-number operations (never derived from one prime factor); fresh-return rule for Exp/ExpI",
 "C13": "; whole-array rule for fixed-size equality tests; word-stride rule for loop-indexed fixed-width loads; lost-update rule over effect summaries (a result-less call that writes only into copies)",
 "C14": "; commit/reveal binding rule for chain-key contributions; must-pass-through rule for the chain-key combination on both Doerner sides",
 "C15": "; inverse-mapping rule between marshal and unmarshal; no-omitempty rule on wire structs; own-entry-from-secret rule in the CMP config decoder; decoded-pointer nil rule",
 "C16": "; R/S in-place pairing rule on SigEthereum; nonce-mask-from-adjusted-key rule; hash-to-scalar excess rule",
 "C19": "; total-writer and complete-writer rules over all WriterToWithDomain implementers; used-result rule over effect summaries; zero-buffer-length rule in Validate; fixed-width encoding width table; accumulating-sink rule on WriteAny; tagged-literal payload rule and one-tag-one-item rule on ad-hoc domains",
 "C20": "; slice-coverage rule for per-element validation loops (IDSlice.Valid)",
}
for _p, _a in ADDENDA.items():
    t, x, n, r_ = CLAIMED[_p]
    CLAIMED[_p] = (t + _a, x, n, r_)
