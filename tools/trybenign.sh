#!/bin/bash
# usage: trybenign.sh <out-dir-with-patch-N.diff> [props...]   -- applies each patch to a scratch copy of /repo and runs the checks; any FAIL (other than known findings) is a false alarm
d=$1; shift
props=${@:-all}
export GOFLAGS=-mod=mod GOPROXY=off GOSUMDB=off GOTOOLCHAIN=local; unset GOWORK
for pf in $d/patch-*.diff; do
  s=/tmp/bscratch-$$; rm -rf $s; mkdir -p $s
  rsync -a --exclude .git /repo/ $s/
  if ! (cd $s && git apply $pf 2>/dev/null || patch -p1 -s < $pf); then echo "== $(basename $pf): DOES NOT APPLY"; rm -rf $s; continue; fi
  echo "== $pf"
  for p in $props; do
    /verif/bin/mpscheck -p $p -noevidence -repo $s 2>&1 | grep -E '^(FAIL|LOAD-FAILED)' | grep -v 'OB-B3\|OB-U2' | cut -c1-330
  done
  rm -rf $s
done
