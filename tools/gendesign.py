#!/usr/bin/env python3
"""Regenerates the generated appendices of DESIGN.md (between the BEGIN/END GENERATED markers) from
evidence/*.json of the last thorough run, variants/ and seeded/."""
import json, glob, os, re
V = '/verif'
out = []
out.append("### A. Rules and instance counts per property (from evidence/*.json of the last thorough run)\n")
for f in sorted(glob.glob(V + '/evidence/C*.json')):
    e = json.load(open(f)); c = e['coverage']
    counts = dict(re.findall(r'([A-Z][A-Z0-9-]+) \((\d+) instances?\)', c['explanation'].split('Rules evaluated on this run:')[-1]))
    out.append(f"**{e['property_id']}** - {c['obligations']} obligations, {c['discharged']} held, {c.get('known_findings_hit', 0)} known findings, "
               f"{c['functions_analysed']} functions analysed, {c['variants_caught']}/{c['variants_run']} breaking variants caught ({e['tier']} tier, {e['wall_s']:.0f} s)\n")
    out.append("| rule | instances | decides |\n|---|---|---|")
    for rid, txt in sorted(c['rules'].items()):
        out.append(f"| {rid} | {counts.get(rid, '?')} | {txt.replace('|', chr(92)+'|')} |")
    out.append("")
out.append("### B. Self-test matrix: broken variants and independently seeded changes\n")
out.append("`caught` = the property's check exits 1 with new FAIL keys on a scratch copy with the change applied; `silent` = required for behaviour-preserving refactors.\n")
out.append("| property | change | kind | verdict | reported rule instances (abridged) |\n|---|---|---|---|---|")
for f in sorted(glob.glob(V + '/evidence/C*.json')):
    e = json.load(open(f))
    for s in e['coverage']['samples']:
        if isinstance(s, dict) and 'variant' in s:
            kind = 'benign refactor' if '.benign.' in s['variant'] else ('independent seed' if s['variant'].startswith('seeded/') else 'hand-made break')
            rep = '; '.join(x[:90] for x in (s.get('reported') or [])[:2]).replace('|', '\\|')
            out.append(f"| {e['property_id']} | {os.path.basename(s['variant']).replace('.patch','')} | {kind} | {s['status'].split(' (')[0]} | {rep} |")
out.append("")
out.append("### C. Independently seeded changes (sub-agents given only the property text)\n")
out.append("| seed | property | caught by | what it changes |\n|---|---|---|---|")
for d in sorted(glob.glob(V + '/seeded/*')):
    m = json.load(open(d + '/meta.json'))
    what = ''
    n = d + '/notes.md'
    if os.path.exists(n):
        for l in open(n):
            l = l.strip()
            if l and not l.startswith('#'):
                what = l[:160].replace('|', '\\|'); break
    out.append(f"| {os.path.basename(d)} | {m['property']} | {', '.join(m.get('caught_by', [])) or 'MISSED'} | {what} |")
block = "\n".join(out) + "\n"
p = V + '/DESIGN.md'
s = open(p).read()
b, e_ = '<!-- BEGIN GENERATED -->', '<!-- END GENERATED -->'
i, j = s.index(b), s.index(e_)
open(p, 'w').write(s[:i + len(b)] + "\n" + block + s[j:])
print("appendices regenerated:", len(out), "lines")
