#!/bin/bash
# usage: tb1.sh <patch-file> <props...>  (MPS=binary, default /verif/bin/mpscheck) -- one benign patch against some checks, in a scratch copy
pf=$1; shift
MPS=${MPS:-/verif/bin/mpscheck}
export GOFLAGS=-mod=mod GOPROXY=off GOSUMDB=off GOTOOLCHAIN=local; unset GOWORK
s=/tmp/tb1-$$; rm -rf $s; mkdir -p $s
rsync -a --exclude .git /repo/ $s/
(cd $s && git apply $pf 2>/dev/null || patch -p1 -s < $pf) || { echo "DOES NOT APPLY"; rm -rf $s; exit 1; }
for p in "$@"; do
  $MPS -p $p -noevidence -verif /verif -repo $s 2>&1 | grep -E '^(FAIL|LOAD-FAILED)' | grep -v 'OB-B3\|OB-U2' | cut -c1-${W:-400}
done
rm -rf $s
