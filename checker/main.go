// mpscheck decides structural (static) clauses of the properties in /verif/properties.jsonl
// on /repo's current source. It never executes repository code.
package main

import (
	"flag"
	"fmt"
	"os"
	"path/filepath"
	"runtime/debug"
	"sort"
	"strconv"
	"strings"
	"time"
)

type propDef struct {
	ID   string
	Meta propMeta
	Run  func(c *Ctx, r *Run)
}

var props = map[string]*propDef{}

func register(id string, meta propMeta, f func(c *Ctx, r *Run)) {
	props[id] = &propDef{ID: id, Meta: meta, Run: f}
}

var commonTrusted = []string{
	"Go type checker (go/types) and go/packages loader of the installed toolchain",
	"golang.org/x/tools v0.29.0 go/ssa construction (and VTA/CHA call graphs where a rule uses them)",
	"the rule tables in /verif/checker (roles and effect summaries of std / third-party callees), confirmed by reading",
}

func main() {
	prop := flag.String("p", "", "property id (C01..C20) or 'all'")
	tier := flag.String("tier", "", "quick | thorough (default: $VERIF_TIER or quick)")
	repo := flag.String("repo", "/repo", "repository root to analyse")
	verif := flag.String("verif", "", "verif dir (default: parent of the executable's dir)")
	noEv := flag.Bool("noevidence", false, "do not write evidence (used for variant sub-runs)")
	list := flag.Bool("list", false, "list properties")
	verbose := flag.Bool("v", false, "print every obligation")
	gen := flag.Bool("gentables", false, "regenerate tables/*.json from the current tree (maintainer action; review the diff)")
	flag.Parse()

	if *list {
		ids := make([]string, 0, len(props))
		for id := range props {
			ids = append(ids, id)
		}
		sort.Strings(ids)
		fmt.Println(strings.Join(ids, " "))
		return
	}
	if *tier == "" {
		*tier = os.Getenv("VERIF_TIER")
		if *tier == "" {
			*tier = "quick"
		}
	}
	if *verif == "" {
		exe, _ := os.Executable()
		*verif = filepath.Dir(filepath.Dir(exe))
	}
	verifDirGlobal = *verif
	if *gen {
		c, err := Load(*repo)
		if err != nil {
			fmt.Fprintln(os.Stderr, err)
			os.Exit(2)
		}
		if err := genTables(c, *verif); err != nil {
			fmt.Fprintln(os.Stderr, err)
			os.Exit(2)
		}
		fmt.Println("tables regenerated")
		return
	}
	seed := 0
	if s := os.Getenv("VERIF_SEED"); s != "" {
		seed, _ = strconv.Atoi(s)
	}
	var ids []string
	if *prop == "all" {
		for id := range props {
			ids = append(ids, id)
		}
		sort.Strings(ids)
	} else if p, ok := props[*prop]; ok {
		ids = []string{p.ID}
	} else {
		fmt.Fprintf(os.Stderr, "unknown property %q\n", *prop)
		os.Exit(2)
	}

	start := time.Now()
	c, err := Load(*repo)
	if err != nil {
		fmt.Fprintf(os.Stderr, "LOAD-FAILED (no verdict): %v\n", err)
		os.Exit(2)
	}
	fmt.Printf("loaded %d module packages (%d total) from %s in %.1fs\n", len(c.Mod), len(c.All), *repo, time.Since(start).Seconds())

	exit := 0
	for _, id := range ids {
		p := props[id]
		pstart := time.Now()
		if len(ids) == 1 {
			pstart = start
		}
		r := NewRun(id, *tier)
		func() {
			defer func() {
				if e := recover(); e != nil {
					// a panic in the checker is never "held"
					r.Fail("CHECKER", "PANIC", "?", "the checker must terminate normally", fmt.Sprintf("checker panic: %v\n%s", e, debug.Stack()))
				}
			}()
			p.Run(c, r)
		}()
		vr, vc := 0, 0
		var vs []interface{}
		selfFail := false
		if *tier == "thorough" && !*noEv {
			vr, vc, vs, selfFail = runVariants(*verif, *repo, id)
		}
		if *verbose {
			for _, o := range r.Obs {
				fmt.Printf("  [%v] %s %s @ %s :: %s\n", o.Held, o.Rule, o.Key, o.Pos, o.Desc)
			}
		}
		var code int
		if *noEv || strings.HasPrefix(id, "DBG") {
			code = r.FinishNoEvidence()
		} else {
			code = r.Finish(c, *verif, p.Meta, pstart, seed, vr, vc, vs)
		}
		if selfFail && code == 0 {
			fmt.Printf("SELFTEST-FAILED property=%s: a broken variant was not reported (the checker, not the property, is at fault)\n", id)
			code = 3
		}
		if code > exit {
			exit = code
		}
	}
	os.Exit(exit)
}

// FinishNoEvidence prints failing obligations only (variant sub-runs).
func (r *Run) FinishNoEvidence() int {
	r.finishCounts()
	n := 0
	for _, o := range r.Obs {
		if !o.Held {
			n++
			fmt.Printf("FAIL %s %s @ %s: %s\n", o.Rule, o.Key, o.Pos, firstLine(o.Detail))
		}
	}
	if n > 0 {
		return 1
	}
	return 0
}

func firstLine(s string) string {
	if i := strings.IndexByte(s, '\n'); i >= 0 {
		return s[:i]
	}
	return s
}
