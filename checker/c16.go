package main

import (
	"fmt"
	"go/token"
	"go/types"
	"sort"
	"strings"

	"golang.org/x/tools/go/ssa"
)

func init() {
	register("C16", propMeta{
		Explanation: "Structural necessary conditions of standards conformance of the stand-alone primitives, decided on the SSA form of pkg/ecdsa, pkg/taproot and pkg/math/curve; the numerical agreement with a reference implementation is NOT decided (no code is run). " +
			"OB-T: reject-guard inventory of Signature.Verify (zero r, zero s, final equality on the full nonce point fed by key, digest, r and s), PublicKey.Verify (length, LiftX, s overflow, infinite R, odd Y, x equality), SecretKey.Sign/Public (bad or zero key), the scalar and point decoders and LiftX: every recorded guard is present and gates acceptance. " +
			"SPEC-TH: TaggedHash feeds SHA-256 with exactly SHA256(tag) || SHA256(tag) || data... and returns its digest (abstract byte-stream of the Write calls). " +
			"SPEC-TAG: every TaggedHash call in pkg/taproot uses one of the three BIP-340 tags, and its arguments have the BIP-340 roles in the BIP-340 order (challenge: R.x, P.x, m; nonce: masked key, P.x, m; aux: a), roles being decided by may-depend sets. " +
			"SPEC-NEG: Sign negates d iff P has odd Y and k iff R has odd Y, and the first negation precedes every later use of d; Public returns the x coordinate only. " +
			"DEC-1: the point decoder reads the parity from the prefix byte and refuses every prefix other than 2 and 3; LiftX asks for the even root. " +
			"ETH-1: SigEthereum negates s only on the IsOverHalfOrder branch, flips the recovery bit exactly on that branch, and re-derives R from the flipped prefix afterwards, so the signature object it normalised in place stays valid.",
		Trusted:     append([]string{"tables/round_guards.json (entries of pkg/ecdsa, pkg/taproot, pkg/math/curve)", "decred secp256k1 field/scalar arithmetic (DecompressY, SetBytes overflow flag)"}, commonTrusted...),
		Assumptions: []string{"the arithmetic below the guards is correct; only the presence, inputs and placement of checks, tags, negations and argument roles are decided"},
	}, runC16)
}

func isC16Func(name string) bool {
	switch {
	case strings.HasPrefix(name, "pkg/ecdsa.(Signature)"), strings.HasPrefix(name, "pkg/taproot."):
		return true
	case strings.HasPrefix(name, "pkg/math/curve.(*Secp256k1") || strings.HasPrefix(name, "pkg/math/curve.(Secp256k1)"):
		return true
	}
	return false
}

// variadicElems: the values stored, by constant index, in the backing array of a literal variadic argument.
func variadicElems(v ssa.Value) []ssa.Value {
	sl, ok := v.(*ssa.Slice)
	if !ok {
		return nil
	}
	a, ok := sl.X.(*ssa.Alloc)
	if !ok {
		return nil
	}
	m := map[int64]ssa.Value{}
	for _, ref := range *a.Referrers() {
		ia, ok := ref.(*ssa.IndexAddr)
		if !ok {
			continue
		}
		idx, ok := constInt(ia.Index)
		if !ok {
			return nil
		}
		for _, rr := range *ia.Referrers() {
			if st, ok := rr.(*ssa.Store); ok && st.Addr == ssa.Value(ia) {
				if _, dup := m[idx]; dup {
					return nil
				}
				m[idx] = st.Val
			}
		}
	}
	out := make([]ssa.Value, len(m))
	for i := range out {
		v, ok := m[int64(i)]
		if !ok {
			return nil
		}
		out[i] = v
	}
	return out
}

// taggedHashCalls: all calls of taproot.TaggedHash in fn (with anonymous functions).
func taggedHashCalls(c *Ctx, fn *ssa.Function) []*ssa.Call {
	th := c.LookupFunc("pkg/taproot", "TaggedHash")
	var out []*ssa.Call
	withAnon(fn, func(f *ssa.Function) {
		allInstrs(f, func(in ssa.Instruction) {
			if call, ok := in.(*ssa.Call); ok && th != nil && call.Call.StaticCallee() == th {
				out = append(out, call)
			}
		})
	})
	sort.Slice(out, func(i, j int) bool { return out[i].Pos() < out[j].Pos() })
	return out
}

type roleSpec struct {
	name string
	// must: every label must be present (prefix match); only: if non-nil, no label outside these prefixes may be present
	must []string
	only []string
	why  string
}

func labelsMatch(ls []string, pre string) bool {
	for _, l := range ls {
		if l == pre || strings.HasPrefix(l, pre+".") || strings.HasPrefix(l, pre+"[") {
			return true
		}
	}
	return false
}

// checkTagCall: tag constant and argument roles of one TaggedHash call.
func checkTagCall(c *Ctx, r *Run, rule string, fn *ssa.Function, call *ssa.Call, tags map[string][]roleSpec) {
	fname := c.FuncName(fn)
	tag, isConst := constString(call.Call.Args[0])
	if !isConst {
		r.Fail(rule, fname+"|tag", c.Pos(call.Pos()), "the tag is a compile-time constant", "TaggedHash called with a computed tag")
		return
	}
	roles, known := tags[tag]
	r.Check(rule, fname+"|tag "+tag, c.Pos(call.Pos()), known, "tag \""+tag+"\" is one of the tags the standard prescribes for this routine",
		fmt.Sprintf("tag %q is not a BIP-340 tag for %s: every hash under it differs from the standard's, signatures stay self-consistent but no other implementation accepts them", tag, fname))
	if !known {
		return
	}
	elems := variadicElems(call.Call.Args[1])
	if elems == nil || len(elems) != len(roles) {
		r.Fail(rule, fname+"|"+tag+"|arity", c.Pos(call.Pos()), fmt.Sprintf("%d hashed fields", len(roles)), fmt.Sprintf("the call hashes %d fields, the standard %d", len(elems), len(roles)))
		return
	}
	d := newDep(call.Parent(), call)
	for i, rs := range roles {
		ls := d.labels(elems[i])
		ok := true
		why := ""
		for _, m := range rs.must {
			if !labelsMatch(ls, m) {
				ok = false
				why = "does not derive from " + m
			}
		}
		if rs.only != nil {
			hasRecvField := false
			for _, l := range ls {
				if strings.HasPrefix(l, "recv.") {
					hasRecvField = true
				}
			}
			for _, l := range ls {
				// method pseudo-fields ("x.M()") summarise calls whose operands are listed anyway;
				// the bare receiver accompanies every load of one of its fields
				allowed := strings.HasSuffix(l, "()") || (l == "recv" && hasRecvField)
				for _, o := range rs.only {
					if l == o || strings.HasPrefix(l, o+".") || strings.HasPrefix(l, o+"[") {
						allowed = true
					}
				}
				if !allowed {
					ok = false
					why = "also derives from " + l
				}
			}
		}
		r.Check(rule, fmt.Sprintf("%s|%s|field %d = %s", fname, tag, i, rs.name), c.Pos(call.Pos()), ok,
			fmt.Sprintf("hashed field %d is %s (%s)", i, rs.name, rs.why),
			fmt.Sprintf("hashed field %d of the %q hash should be %s but %s (depends on: %s): the field order/identity differs from the standard, so signer and verifier agree with each other and with nobody else", i, tag, rs.name, why, strings.Join(ls, ", ")))
	}
}

func runC16(c *Ctx, r *Run) {
	r.Rule("OB-T", "guard inventory over pkg/ecdsa Signature methods, pkg/taproot and the secp256k1 decoders: every recorded reject guard is present, decides on the same data and covers acceptance")
	r.Rule("SPEC-TH", "TaggedHash writes SHA256(tag), SHA256(tag), then each datum in order into one SHA-256 and returns its digest")
	r.Rule("SPEC-TAG", "BIP-340 tags and the roles/order of the hashed fields at every TaggedHash call of pkg/taproot")
	r.Rule("SPEC-NEG", "even-Y rules: conditional negation of d and k in Sign on the odd-Y branch only, before their uses; x-only public key")
	r.Rule("DEC-1", "strict point decoding: prefix byte decides the parity, every prefix but 2 and 3 is refused; LiftX takes the even root")
	r.Rule("ETH-1", "SigEthereum: s negated only when over half order, recovery bit flipped exactly then, R re-derived from the flipped prefix")

	checkGuardInventory(c, r, "OB-T", "round_guards.json", isC16Func)

	checkTaggedHashShape(c, r)

	// ---- SPEC-TAG
	sign := c.LookupMethod("pkg/taproot", "SecretKey", "Sign")
	verify := c.LookupMethod("pkg/taproot", "PublicKey", "Verify")
	if sign == nil || verify == nil {
		r.Unresolved("SPEC-TAG", "pkg/taproot Sign/Verify")
	} else {
		r.Analysed(c.FuncName(sign))
		r.Analysed(c.FuncName(verify))
		signTags := map[string][]roleSpec{
			"BIP0340/aux": {{name: "the auxiliary randomness a", must: nil, only: []string{"Reader", "COUNTER", "RANDOM", "global:signatureCounter"}, why: "reader or counter, nothing else"}},
			"BIP0340/nonce": {
				{name: "the secret key masked with the aux hash", must: []string{"recv"}, why: "bytes(d) xor hash_aux(a)"},
				{name: "the public key x coordinate", must: []string{"recv"}, only: []string{"recv"}, why: "derives from the key only"},
				{name: "the message", must: []string{"[]byte"}, only: []string{"[]byte"}, why: "the digest parameter only"},
			},
			"BIP0340/challenge": {
				{name: "the nonce point x coordinate", must: []string{"recv", "[]byte"}, why: "derives from the nonce, hence from key and message"},
				{name: "the public key x coordinate", must: []string{"recv"}, only: []string{"recv"}, why: "derives from the key only"},
				{name: "the message", must: []string{"[]byte"}, only: []string{"[]byte"}, why: "the digest parameter only"},
			},
		}
		verTags := map[string][]roleSpec{
			"BIP0340/challenge": {
				{name: "the signature's R.x", must: []string{"Signature"}, only: []string{"Signature"}, why: "first half of the signature only"},
				{name: "the public key x coordinate", must: []string{"recv"}, only: []string{"recv"}, why: "the key only"},
				{name: "the message", must: []string{"[]byte"}, only: []string{"[]byte"}, why: "the digest parameter only"},
			},
		}
		seen := map[string]int{}
		for _, call := range taggedHashCalls(c, sign) {
			if t, ok := constString(call.Call.Args[0]); ok {
				seen[t]++
			}
			checkTagCall(c, r, "SPEC-TAG", sign, call, signTags)
		}
		for t := range signTags {
			r.Check("SPEC-TAG", c.FuncName(sign)+"|uses "+t, c.Pos(sign.Pos()), seen[t] == 1, "Sign computes exactly one "+t+" hash", fmt.Sprintf("%d calls with tag %s", seen[t], t))
		}
		vcalls := taggedHashCalls(c, verify)
		for _, call := range vcalls {
			checkTagCall(c, r, "SPEC-TAG", verify, call, verTags)
		}
		r.Check("SPEC-TAG", c.FuncName(verify)+"|uses BIP0340/challenge", c.Pos(verify.Pos()), len(vcalls) == 1, "Verify computes exactly one challenge hash", fmt.Sprintf("%d TaggedHash calls", len(vcalls)))
		// R.x in the signature half: Verify slices sig[:32] for R and sig[32:] for s
		checkSigHalves(c, r, verify)
	}

	// ---- SPEC-NEG
	if sign != nil {
		checkEvenYNegations(c, r, "SPEC-NEG", sign, 2)
		// the nonce mask is bytes(d) of the ADJUSTED key: the first hashed field of the nonce hash derives from
		// MarshalBinary of the scalar object that was conditionally negated, not from the raw key bytes
		var keyScalar ssa.Value // the scalar the key bytes were decoded into: receiver of the first UnmarshalBinary fed by recv
		for _, call := range callsNamed(sign, "UnmarshalBinary") {
			if a := argsOf(call); len(a) == 1 && containsField(paramFields(sign, a[0]), "recv") && keyScalar == nil {
				keyScalar = recvOf(call)
			}
		}
		if keyScalar == nil {
			// the decoding lives in a helper of the key type (`d, err := sk.scalar()`): the scalar is what it returns
			allInstrs(sign, func(in ssa.Instruction) {
				call, ok := in.(*ssa.Call)
				if !ok || keyScalar != nil {
					return
				}
				h := localHelperOf(call)
				if h == nil {
					return
				}
				fed := false
				for _, a := range call.Call.Args {
					if containsField(paramFields(sign, a), "recv") {
						fed = true
					}
				}
				if !fed {
					return
				}
				var ucs []*ssa.Call
				for _, hf := range regionOf(h) {
					ucs = append(ucs, callsNamed(hf, "UnmarshalBinary")...)
				}
				for _, uc := range ucs {
					obj := recvOf(uc)
					for _, ret := range returnsOf(h) {
						if len(ret.Results) > 0 && !isNilConst(ret.Results[0]) && sameObject(resultThroughHelpers(resolveLoad(ret.Results[0])), obj) {
							// the value of result 0 at the call site
							for _, ref := range *call.Referrers() {
								if ex, isEx := ref.(*ssa.Extract); isEx && ex.Index == 0 {
									keyScalar = ex
								}
							}
							if len(ret.Results) == 1 {
								keyScalar = call
							}
						}
					}
				}
			})
		}
		maskOK := false
		for _, call := range taggedHashCalls(c, sign) {
			if t, ok := constString(call.Call.Args[0]); !ok || t != "BIP0340/nonce" {
				continue
			}
			el := variadicElems(call.Call.Args[1])
			if len(el) == 0 || keyScalar == nil {
				continue
			}
			maskOK = dependsOn(el[0], func(v ssa.Value) bool {
				mc, ok := v.(*ssa.Call)
				if !ok {
					return false
				}
				o := calleeObj(mc)
				return o != nil && o.Name() == "MarshalBinary" && sameObject(recvOf(mc), keyScalar)
			})
		}
		r.Check("SPEC-NEG", c.FuncName(sign)+"|nonce mask from adjusted key", c.Pos(sign.Pos()), maskOK, "the masked key in the nonce hash is the encoding of the (possibly negated) scalar d",
			"the first field of the nonce hash does not derive from d.MarshalBinary() of the adjusted scalar (e.g. it uses the raw key bytes): for keys whose point has odd Y the nonce, and with it the signature, differs from the BIP-340 reference although it still verifies")
	}
	if pub := c.LookupMethod("pkg/taproot", "SecretKey", "Public"); pub != nil {
		r.Analysed(c.FuncName(pub))
		// the returned key is XBytes() of d·G
		ok := false
		for _, ret := range acceptReturns(pub) {
			v := stripConv(ret.Results[0])
			if call, isCall := v.(*ssa.Call); isCall {
				if o := calleeObj(call); o != nil && o.Name() == "XBytes" {
					ok = true
				}
			}
			if sl, isSl := v.(*ssa.Slice); isSl {
				if call, isCall := sl.X.(*ssa.Call); isCall {
					if o := calleeObj(call); o != nil && o.Name() == "XBytes" {
						ok = true
					}
				}
			}
		}
		r.Check("SPEC-NEG", c.FuncName(pub)+"|x-only", c.Pos(pub.Pos()), ok, "the public key is the 32-byte x coordinate of d·G", "Public does not return XBytes() of the point: the key is not x-only")
	} else {
		r.Unresolved("SPEC-NEG", "pkg/taproot.(SecretKey).Public")
	}

	checkPointDecoder(c, r)
	checkSigEthereum(c, r)

	r.Require("OB-T", 25)
	r.Require("SPEC-TH", 4)
	r.Require("SPEC-TAG", 14)
	r.Require("SPEC-NEG", 6)
	r.Require("DEC-1", 4)
	r.Require("ETH-1", 5)
	// standard ECDSA conversion of digests of any length (shared with C01)
	r.Rule("FH-1", "hash-to-scalar: excess bits from the converted slice; one conversion function on every ECDSA path")
	checkFromHash(c, r)
	r.Require("FH-1", 8)
}

// checkTaggedHashShape: abstract byte-stream written into the hasher of TaggedHash.
func checkTaggedHashShape(c *Ctx, r *Run) { checkTaggedHashShapeAs(c, r, "SPEC-TH") }

func checkTaggedHashShapeAs(c *Ctx, r *Run, rule string) {
	fn := c.LookupFunc("pkg/taproot", "TaggedHash")
	if fn == nil {
		r.Unresolved(rule, "pkg/taproot.TaggedHash")
		return
	}
	r.Analysed(c.FuncName(fn))
	name := c.FuncName(fn)
	var hasher *ssa.Call
	var sum256 *ssa.Call
	allInstrs(fn, func(in ssa.Instruction) {
		call, ok := in.(*ssa.Call)
		if !ok {
			return
		}
		if o := calleeObj(call); o != nil && o.Pkg() != nil && o.Pkg().Path() == "crypto/sha256" {
			switch o.Name() {
			case "New":
				hasher = call
			case "Sum256":
				sum256 = call
			}
		}
	})
	// the initialisation (hasher + tag prefix) may live in a constructor helper: h := newTaggedHasher(tag)
	var ctor *ssa.Function
	var ctorCall *ssa.Call
	if hasher == nil && sum256 == nil {
		allInstrs(fn, func(in ssa.Instruction) {
			call, ok := in.(*ssa.Call)
			if !ok || ctor != nil {
				return
			}
			g := localHelperOf(call)
			if g == nil {
				return
			}
			var h2, s2 *ssa.Call
			allInstrs(g, func(in2 ssa.Instruction) {
				if c2, ok := in2.(*ssa.Call); ok {
					if o := calleeObj(c2); o != nil && o.Pkg() != nil && o.Pkg().Path() == "crypto/sha256" {
						switch o.Name() {
						case "New":
							h2 = c2
						case "Sum256":
							s2 = c2
						}
					}
				}
			})
			if h2 == nil || s2 == nil {
				return
			}
			for _, ret := range returnsOf(g) {
				if len(ret.Results) != 1 || stripConv(ret.Results[0]) != ssa.Value(h2) {
					return
				}
			}
			ctor, ctorCall, hasher, sum256 = g, call, h2, s2
		})
	}
	if hasher == nil || sum256 == nil {
		r.Fail(rule, name+"|sha256", c.Pos(fn.Pos()), "TaggedHash uses crypto/sha256 New and Sum256", "hasher or tag digest not found: not SHA-256")
		return
	}
	// the tag digest is of the tag parameter
	tagOK := dependsOn(sum256.Call.Args[0], func(v ssa.Value) bool {
		if ctor != nil {
			for i, p := range ctor.Params {
				if v == ssa.Value(p) && i < len(ctorCall.Call.Args) && ctorCall.Call.Args[i] == ssa.Value(fn.Params[0]) {
					return true
				}
			}
			return false
		}
		return v == ssa.Value(fn.Params[0])
	})
	r.Check(rule, name+"|tag-digest", c.Pos(sum256.Pos()), tagOK, "the prefix is SHA256 of the tag parameter", "Sum256 is not applied to the tag")
	// token of a written value
	var tokenOf func(v ssa.Value) []string
	tokenOf = func(v ssa.Value) []string {
		switch x := v.(type) {
		case *ssa.Slice:
			if x.Low == nil && x.High == nil {
				if a, ok := x.X.(*ssa.Alloc); ok {
					if sv := singleStore(a); sv == ssa.Value(sum256) {
						return []string{"H(tag)"}
					}
				}
			}
		case *ssa.UnOp:
			if x.Op == token.MUL {
				if ia, ok := x.X.(*ssa.IndexAddr); ok && ia.X == ssa.Value(fn.Params[1]) {
					return []string{"data[i]"}
				}
			}
		case *ssa.Call:
			if b, ok := x.Call.Value.(*ssa.Builtin); ok && b.Name() == "append" && len(x.Call.Args) == 2 {
				return append(tokenOf(x.Call.Args[0]), tokenOf(x.Call.Args[1])...)
			}
		case *ssa.MakeSlice:
			// an empty buffer to append to (whatever its capacity) contributes no bytes
			if k, isK := constInt(x.Len); isK && k == 0 {
				return nil
			}
		}
		if sl, isSl := v.(*ssa.Slice); isSl && sl.High != nil {
			if k, isK := constInt(sl.High); isK && k == 0 {
				if _, fresh := sl.X.(*ssa.Alloc); fresh {
					return nil
				}
			}
		}
		return []string{"?" + v.Name()}
	}
	type wr struct {
		call   *ssa.Call
		toks   []string
		inLoop bool
	}
	var writes []wr
	var sums []*ssa.Call
	other := ""
	collect := func(hv ssa.Value, inCtor bool) {
		var ws []wr
		for _, ref := range *hv.Referrers() {
			call, ok := ref.(*ssa.Call)
			if !ok || !call.Call.IsInvoke() || call.Call.Value != hv {
				_, isDbg := ref.(*ssa.DebugRef)
				_, isRet := ref.(*ssa.Return)
				if !isDbg && !(inCtor && isRet) {
					other = ref.String()
				}
				continue
			}
			switch call.Call.Method.Name() {
			case "Write":
				ws = append(ws, wr{call, tokenOf(call.Call.Args[0]), blockInLoop(call.Block())})
			case "Sum":
				sums = append(sums, call)
			default:
				other = call.Call.Method.Name()
			}
		}
		sort.SliceStable(ws, func(i, j int) bool { return instrDominates(ws[i].call, ws[j].call) })
		for i := 0; i+1 < len(ws); i++ {
			if !instrDominates(ws[i].call, ws[i+1].call) {
				other = "unordered writes"
			}
		}
		writes = append(writes, ws...)
	}
	collect(hasher, ctor != nil)
	if ctor != nil {
		collect(ctorCall, false) // the constructor's writes come first, then TaggedHash's own
	}
	var stream []string
	for _, w := range writes {
		for _, t := range w.toks {
			if w.inLoop {
				t += "*"
			}
			stream = append(stream, t)
		}
	}
	got := strings.Join(stream, " || ")
	want := "H(tag) || H(tag) || data[i]*"
	ordered := true // (checked per function in collect)
	r.Check(rule, name+"|stream", c.Pos(hasher.Pos()), got == want && ordered && other == "",
		"the hashed byte stream is "+want,
		fmt.Sprintf("the hashed byte stream is %q (other use of the hasher: %q), BIP-340 prescribes %s: all tagged hashes change consistently, the library still verifies its own signatures but not the standard's", got, other, want))
	// loop order: the range over datas is ascending (go range) — the IndexAddr index is the range induction variable
	okSum := false
	if len(sums) == 1 && len(writes) > 0 {
		s := sums[0]
		after := true
		for _, w := range writes {
			if w.call.Parent() != s.Parent() {
				continue // written by the constructor, before the hasher was handed out
			}
			if !(instrDominates(w.call, s) || w.inLoop && blockReaches(w.call.Block(), s.Block())) {
				after = false
			}
		}
		isNil := len(s.Call.Args) == 1 && isNilConst(s.Call.Args[0])
		// Sum appends to its argument: an empty slice (whatever its capacity) is as good as nil
		if ms, isMS := s.Call.Args[0].(*ssa.MakeSlice); isMS {
			if k, isK := constInt(ms.Len); isK && k == 0 {
				isNil = true
			}
		}
		if sl, isSl := s.Call.Args[0].(*ssa.Slice); isSl && sl.High != nil {
			if _, fresh := sl.X.(*ssa.Alloc); fresh {
				if k, isK := constInt(sl.High); isK && k == 0 {
					isNil = true
				}
			}
		}
		returned := false
		for _, ret := range returnsOf(fn) {
			if len(ret.Results) == 1 && stripConv(ret.Results[0]) == ssa.Value(s) {
				returned = true
			}
		}
		okSum = after && isNil && returned
	}
	r.Check(rule, name+"|digest", c.Pos(fn.Pos()), okSum, "the result is Sum(nil) of that hasher, taken after all writes", "the returned value is not the plain digest taken after the writes")
	// iteration order of datas: a forward range
	fwd := false
	allInstrs(fn, func(in ssa.Instruction) {
		if ia, ok := in.(*ssa.IndexAddr); ok && ia.X == ssa.Value(fn.Params[1]) {
			// index = phi(-1 or 0, idx+1)
			if ph, ok := ia.Index.(*ssa.Phi); ok {
				for _, e := range ph.Edges {
					if b, ok := e.(*ssa.BinOp); ok && b.Op == token.ADD {
						if k, ok := constInt(b.Y); ok && k == 1 {
							fwd = true
						}
					}
				}
			}
			if b, ok := ia.Index.(*ssa.BinOp); ok && b.Op == token.ADD {
				if k, ok := constInt(b.Y); ok && k == 1 {
					fwd = true
				}
			}
		}
	})
	r.Check(rule, name+"|order", c.Pos(fn.Pos()), fwd, "the data fields are hashed in argument order (ascending index)", "the loop over the data fields is not an ascending index walk")
}

// checkSigHalves: in Verify, R.x is sig[:32] (challenge and final comparison) and s is sig[32:].
func checkSigHalves(c *Ctx, r *Run, verify *ssa.Function) {
	name := c.FuncName(verify)
	sigParam := ssa.Value(verify.Params[1])
	type half struct{ lo, hi int64 }
	halfOf := func(v ssa.Value) (half, bool) {
		v = stripConv(v)
		sl, ok := v.(*ssa.Slice)
		if !ok || stripConv(sl.X) != sigParam {
			return half{}, false
		}
		h := half{0, -1}
		if sl.Low != nil {
			k, ok := constInt(sl.Low)
			if !ok {
				return half{}, false
			}
			h.lo = k
		}
		if sl.High != nil {
			k, ok := constInt(sl.High)
			if !ok {
				return half{}, false
			}
			h.hi = k
		}
		return h, true
	}
	var sHalf, eqHalf *half
	allInstrs(verify, func(in ssa.Instruction) {
		call, ok := in.(*ssa.Call)
		if !ok {
			return
		}
		o := calleeObj(call)
		if o == nil {
			return
		}
		switch {
		case o.Name() == "UnmarshalBinary":
			for _, a := range call.Call.Args {
				if h, ok := halfOf(a); ok {
					hh := h
					sHalf = &hh
				}
			}
		case o.Pkg() != nil && o.Pkg().Path() == "bytes" && o.Name() == "Equal":
			for _, a := range call.Call.Args {
				if h, ok := halfOf(a); ok {
					hh := h
					eqHalf = &hh
				}
			}
		}
	})
	r.Check("SPEC-TAG", name+"|s = sig[32:]", c.Pos(verify.Pos()), sHalf != nil && sHalf.lo == 32 && (sHalf.hi == -1 || sHalf.hi == 64), "the scalar s is decoded from bytes 32..63 of the signature", "s is not decoded from sig[32:]")
	r.Check("SPEC-TAG", name+"|R.x = sig[:32] compared", c.Pos(verify.Pos()), eqHalf != nil && eqHalf.lo == 0 && eqHalf.hi == 32, "the recomputed x coordinate is compared with bytes 0..31 of the signature", "the final comparison is not against sig[:32]")
}

// checkEvenYNegations: `if !X.HasEvenY() { s.Negate() }` where X = s·G; returns after checking count pairs.
func checkEvenYNegations(c *Ctx, r *Run, rule string, fn *ssa.Function, want int) {
	name := c.FuncName(fn)
	r.Analysed(name)
	type pair struct {
		iff    *ssa.If
		scalar ssa.Value
		ok     bool
		why    string
	}
	var pairs []pair
	// (the adjustment of the key may live in a helper that prepares the signing key: the function and the helpers it calls)
	type fb struct {
		f *ssa.Function
		b *ssa.BasicBlock
	}
	var blocks []fb
	for _, f := range regionOf(fn) {
		for _, b := range f.Blocks {
			blocks = append(blocks, fb{f, b})
		}
	}
	for _, fbk := range blocks {
		b, bf := fbk.b, fbk.f
		if len(b.Instrs) == 0 {
			continue
		}
		iff, ok := b.Instrs[len(b.Instrs)-1].(*ssa.If)
		if !ok {
			continue
		}
		call := condCall(iff.Cond)
		if call == nil {
			continue
		}
		o := calleeObj(call)
		if o == nil || o.Name() != "HasEvenY" {
			continue
		}
		// the point tested: (typeassert of) ActOnBase(scalar)
		var pt ssa.Value
		if call.Call.IsInvoke() {
			pt = call.Call.Value
		} else if len(call.Call.Args) > 0 {
			pt = call.Call.Args[0]
		}
		pt = stripConv(pt)
		if ta, ok := pt.(*ssa.TypeAssert); ok {
			pt = ta.X
		}
		var scalar ssa.Value
		if ab, ok := pt.(*ssa.Call); ok {
			if ao := calleeObj(ab); ao != nil && ao.Name() == "ActOnBase" {
				if ab.Call.IsInvoke() {
					scalar = ab.Call.Value
				} else if len(ab.Call.Args) > 0 {
					scalar = ab.Call.Args[0]
				}
			}
		}
		if scalar == nil {
			continue
		}
		// which successor is the odd branch: cond is HasEvenY (true = even) possibly negated
		evenSucc, oddSucc := b.Succs[0], b.Succs[1]
		if u, ok := iff.Cond.(*ssa.UnOp); ok && u.Op == token.NOT {
			evenSucc, oddSucc = oddSucc, evenSucc
		}
		negIn := func(blk *ssa.BasicBlock) bool {
			found := false
			for _, bb := range bf.Blocks {
				if !(bb == blk || blk.Dominates(bb)) {
					continue
				}
				for _, in := range bb.Instrs {
					if cc, ok := in.(ssa.CallInstruction); ok {
						if no := calleeObj(cc); no != nil && no.Name() == "Negate" {
							var recv ssa.Value
							if cc.Common().IsInvoke() {
								recv = cc.Common().Value
							} else if len(cc.Common().Args) > 0 {
								recv = cc.Common().Args[0]
							}
							if sameObject(recv, scalar) {
								found = true
							}
						}
					}
				}
			}
			return found
		}
		// a branch that merges straight back is empty: only count blocks strictly inside the arm
		oddOwn := len(oddSucc.Preds) == 1
		evenOwn := len(evenSucc.Preds) == 1
		p := pair{iff: iff, scalar: scalar}
		switch {
		case !oddOwn || !negIn(oddSucc):
			p.why = "the scalar is not negated on the odd-Y branch"
		case evenOwn && negIn(evenSucc):
			p.why = "the scalar is negated on the even-Y branch too"
		default:
			p.ok = true
		}
		pairs = append(pairs, p)
	}
	sort.Slice(pairs, func(i, j int) bool { return pairs[i].iff.Pos() < pairs[j].iff.Pos() })
	for i, p := range pairs {
		r.Check(rule, fmt.Sprintf("%s|negate-iff-odd #%d", name, i), c.Pos(p.iff.Cond.Pos()), p.ok,
			"the scalar whose point has odd Y is negated, on that branch only", p.why+": signatures verify under the library's own lifted key only when Y happened to be even")
	}
	r.Check(rule, name+"|negation-count", c.Pos(fn.Pos()), len(pairs) == want, fmt.Sprintf("%d even-Y adjustments (secret key and nonce)", want), fmt.Sprintf("%d conditional negations on HasEvenY found, %d expected", len(pairs), want))
	// the first adjustment (d) happens before any later use of d: its branch block dominates every other call using the scalar
	if len(pairs) > 0 {
		p := pairs[0]
		ok := true
		bad := ""
		root := resolveLoad(p.scalar)
		pf := p.iff.Parent()
		if pf != fn {
			// adjusted inside a helper: the helper hands the adjusted scalar back only past the adjustment
			handsBack := false
			for _, ret := range returnsOf(pf) {
				for _, rv := range ret.Results {
					if sameObject(resolveLoad(rv), root) {
						handsBack = true
						if !(p.iff.Block().Dominates(ret.Block()) && p.iff.Block() != ret.Block()) {
							ok, bad = false, c.Pos(ret.Pos())
						}
					}
				}
			}
			if !handsBack {
				ok, bad = false, c.Pos(pf.Pos())+" (the helper does not return the adjusted scalar)"
			}
		}
		allInstrs(pf, func(in ssa.Instruction) {
			cc, isCall := in.(ssa.CallInstruction)
			if !isCall {
				return
			}
			o := calleeObj(cc)
			if o == nil {
				return
			}
			switch o.Name() {
			case "MarshalBinary", "Mul", "Add":
			default:
				return
			}
			uses := false
			if cc.Common().IsInvoke() && sameObject(resolveLoad(cc.Common().Value), root) {
				uses = true
			}
			for _, a := range cc.Common().Args {
				if sameObject(resolveLoad(a), root) {
					uses = true
				}
			}
			if uses && !(p.iff.Block().Dominates(in.Block()) && p.iff.Block() != in.Block()) {
				ok = false
				bad = c.Pos(in.Pos())
			}
		})
		r.Check(rule, name+"|negation-before-use", c.Pos(p.iff.Pos()), ok, "the key is adjusted before it is serialised into the nonce hash or multiplied by the challenge", "the secret scalar is used at "+bad+" on a path that has not passed the even-Y adjustment")
	}
}

// checkPointDecoder: prefix handling of the compressed-point decoder and of LiftX.
func checkPointDecoder(c *Ctx, r *Run) {
	fn := c.LookupMethod("pkg/math/curve", "Secp256k1Point", "UnmarshalBinary")
	if fn == nil {
		r.Unresolved("DEC-1", "pkg/math/curve.(*Secp256k1Point).UnmarshalBinary")
		return
	}
	name := c.FuncName(fn)
	r.Analysed(name)
	data := ssa.Value(fn.Params[1])
	isPrefix := func(v ssa.Value) bool {
		u, ok := v.(*ssa.UnOp)
		if !ok || u.Op != token.MUL {
			return false
		}
		ia, ok := u.X.(*ssa.IndexAddr)
		if !ok || ia.X != data {
			return false
		}
		k, ok := constInt(ia.Index)
		return ok && k == 0
	}
	// abstract evaluation over the prefix byte: branches comparing data[0] with a constant are decided,
	// all others are followed both ways; which prefix values can reach an accepting return?
	accepts := map[*ssa.BasicBlock]bool{}
	for _, ret := range acceptReturns(fn) {
		accepts[ret.Block()] = true
	}
	reach := func(val int64) bool {
		seen := map[*ssa.BasicBlock]bool{}
		var walk func(b *ssa.BasicBlock) bool
		walk = func(b *ssa.BasicBlock) bool {
			if seen[b] {
				return false
			}
			seen[b] = true
			if accepts[b] {
				return true
			}
			if len(b.Instrs) > 0 {
				if iff, ok := b.Instrs[len(b.Instrs)-1].(*ssa.If); ok {
					cond, neg := iff.Cond, false
					if u, ok := cond.(*ssa.UnOp); ok && u.Op == token.NOT {
						cond, neg = u.X, true
					}
					if bo, ok := cond.(*ssa.BinOp); ok && isPrefix(bo.X) {
						if k, ok := constInt(bo.Y); ok {
							var res, known bool
							switch bo.Op {
							case token.EQL:
								res, known = val == k, true
							case token.NEQ:
								res, known = val != k, true
							case token.LSS:
								res, known = val < k, true
							case token.LEQ:
								res, known = val <= k, true
							case token.GTR:
								res, known = val > k, true
							case token.GEQ:
								res, known = val >= k, true
							}
							if known {
								if neg {
									res = !res
								}
								if res {
									return walk(b.Succs[0])
								}
								return walk(b.Succs[1])
							}
						}
					}
				}
			}
			for _, s := range b.Succs {
				if walk(s) {
					return true
				}
			}
			return false
		}
		return walk(fn.Blocks[0])
	}
	var wrongly []string
	for v := int64(0); v < 256; v++ {
		if v != 2 && v != 3 && reach(v) {
			wrongly = append(wrongly, fmt.Sprint(v))
		}
	}
	pos := c.Pos(fn.Pos())
	det := ""
	if len(wrongly) > 0 {
		if len(wrongly) > 6 {
			wrongly = append(wrongly[:6], fmt.Sprintf("… (%d values)", len(wrongly)))
		}
		det = "an accepting return is reachable with prefix byte " + strings.Join(wrongly, ", ") + ": bytes that are not a SEC1 compressed point decode to a point (aliases of the even-Y point)"
	}
	r.Check("DEC-1", name+"|prefix-refused", pos, len(wrongly) == 0, "no accepting return is reachable when the prefix byte is anything but 2 or 3 (all 256 values evaluated over the branch conditions on data[0])", det)
	r.Check("DEC-1", name+"|prefix-accepted", pos, reach(2) && reach(3), "prefixes 2 and 3 can reach the accepting return", "a canonical prefix (2 or 3) is refused by the branch conditions on data[0]: valid points no longer decode")
	// parity argument of DecompressY derives from the prefix byte, compared with 3
	parOK := false
	liftOK := false
	check := func(f *ssa.Function, wantPrefix bool) bool {
		res := false
		allInstrs(f, func(in ssa.Instruction) {
			call, ok := in.(*ssa.Call)
			if !ok {
				return
			}
			o := calleeObj(call)
			if o == nil || o.Name() != "DecompressY" || len(call.Call.Args) != 3 {
				return
			}
			odd := call.Call.Args[1]
			if wantPrefix {
				if b, ok := odd.(*ssa.BinOp); ok && b.Op == token.EQL && isPrefix(b.X) {
					if k, ok := constInt(b.Y); ok && k == 3 {
						res = true
					}
				}
			} else if k, ok := constBool(odd); ok && !k {
				res = true
			}
		})
		return res
	}
	parOK = check(fn, true)
	if !parOK {
		// other spellings (a flag set by a switch over the prefix, `data[0]&1 == 1`, ...): evaluate the parity argument
		// abstractly for the two accepted prefix bytes along every path that the prefix conditions leave open
		parOK = parityByEvaluation(fn, isPrefix)
	}
	r.Check("DEC-1", name+"|parity-from-prefix", c.Pos(fn.Pos()), parOK, "the Y root is chosen odd exactly when the prefix byte is 3", "the parity passed to DecompressY is not `data[0] == 3`")
	lift := c.LookupMethod("pkg/math/curve", "Secp256k1", "LiftX")
	if lift == nil {
		r.Unresolved("DEC-1", "pkg/math/curve.(Secp256k1).LiftX")
	} else {
		r.Analysed(c.FuncName(lift))
		liftOK = check(lift, false)
		r.Check("DEC-1", c.FuncName(lift)+"|even-root", c.Pos(lift.Pos()), liftOK, "LiftX asks DecompressY for the even root (odd=false)", "LiftX does not request the even Y: x-only keys lift to the wrong point half of the time")
	}
	// the encoder writes IsOddBit()+2
	enc := c.LookupMethod("pkg/math/curve", "Secp256k1Point", "MarshalBinary")
	if enc == nil {
		r.Unresolved("DEC-1", "MarshalBinary")
		return
	}
	r.Analysed(c.FuncName(enc))
	encOK := false
	allInstrs(enc, func(in ssa.Instruction) {
		st, ok := in.(*ssa.Store)
		if !ok {
			return
		}
		ia, ok := st.Addr.(*ssa.IndexAddr)
		if !ok {
			return
		}
		if k, ok := constInt(ia.Index); !ok || k != 0 {
			return
		}
		if b, ok := st.Val.(*ssa.BinOp); ok && b.Op == token.ADD {
			if k, ok := constInt(b.Y); ok && k == 2 {
				if dependsOn(b.X, func(v ssa.Value) bool {
					cc, ok := v.(*ssa.Call)
					if !ok {
						return false
					}
					o := calleeObj(cc)
					return o != nil && o.Name() == "IsOddBit"
				}) {
					encOK = true
				}
			}
		}
	})
	r.Check("DEC-1", c.FuncName(enc)+"|prefix-written", c.Pos(enc.Pos()), encOK, "the encoder writes 2 + (Y odd) as the prefix, the convention the decoder reads", "the first byte written is not IsOddBit()+2")
	_ = types.Typ
}

// checkSigEthereum: low-s normalisation and recovery id.
func checkSigEthereum(c *Ctx, r *Run) {
	fn := c.LookupMethod("pkg/ecdsa", "Signature", "SigEthereum")
	if fn == nil {
		r.Unresolved("ETH-1", "pkg/ecdsa.(Signature).SigEthereum")
		return
	}
	name := c.FuncName(fn)
	r.Analysed(name)
	// the flag
	var flag *ssa.Call
	allInstrs(fn, func(in ssa.Instruction) {
		if call, ok := in.(*ssa.Call); ok {
			if o := calleeObj(call); o != nil && o.Name() == "IsOverHalfOrder" {
				flag = call
			}
		}
	})
	if flag == nil {
		r.Fail("ETH-1", name+"|low-s", c.Pos(fn.Pos()), "IsOverHalfOrder is consulted", "SigEthereum never tests s against half the order: high-s signatures are exported, which Ethereum rejects")
		return
	}
	region := func(b *ssa.BasicBlock) string {
		for _, blk := range fn.Blocks {
			if len(blk.Instrs) == 0 {
				continue
			}
			iff, ok := blk.Instrs[len(blk.Instrs)-1].(*ssa.If)
			if !ok {
				continue
			}
			cond := iff.Cond
			neg := false
			if u, ok := cond.(*ssa.UnOp); ok && u.Op == token.NOT {
				cond, neg = u.X, true
			}
			if cond != ssa.Value(flag) {
				continue
			}
			t, f := blk.Succs[0], blk.Succs[1]
			if neg {
				t, f = f, t
			}
			if len(t.Preds) == 1 && (t == b || t.Dominates(b)) {
				return "over"
			}
			if len(f.Preds) == 1 && (f == b || f.Dominates(b)) {
				return "notover"
			}
		}
		return "both"
	}
	// Negate on S only in the over region
	negOK, negSeen := true, false
	var unmarshalR *ssa.Call
	allInstrs(fn, func(in ssa.Instruction) {
		call, ok := in.(*ssa.Call)
		if !ok {
			return
		}
		o := calleeObj(call)
		if o == nil {
			return
		}
		fields := paramFields(fn, call.Call.Value)
		if !call.Call.IsInvoke() && len(call.Call.Args) > 0 {
			fields = paramFields(fn, call.Call.Args[0])
		}
		switch o.Name() {
		case "Negate":
			if containsField(fields, "recv.S") {
				negSeen = true
				if region(call.Block()) != "over" {
					negOK = false
				}
			}
		case "UnmarshalBinary":
			if containsField(fields, "recv.R") {
				unmarshalR = call
			}
		}
	})
	r.Check("ETH-1", name+"|negate-iff-over-half", c.Pos(flag.Pos()), negSeen && negOK, "s is replaced by n-s exactly on the IsOverHalfOrder branch", "s is negated outside the over-half branch, or never: the export is not low-s, or low-s values are flipped to high-s")
	// stores into rs[64]
	type leaf struct {
		reg string
		xor bool
	}
	var leaves []leaf
	var expand func(v ssa.Value, blk *ssa.BasicBlock, xor bool, d int)
	expand = func(v ssa.Value, blk *ssa.BasicBlock, xor bool, d int) {
		if d > 8 {
			leaves = append(leaves, leaf{"both", xor})
			return
		}
		switch x := v.(type) {
		case *ssa.Phi:
			for i, e := range x.Edges {
				pb := x.Block().Preds[i]
				// an edge straight from the branch on the flag (an arm without a block of its own)
				if reg := directArm(pb, x.Block(), flag); reg != "" {
					leaves = append(leaves, leaf{reg, xorOf(e) != xor})
					continue
				}
				expand(e, pb, xor, d+1)
			}
			return
		case *ssa.BinOp:
			if x.Op == token.XOR {
				if k, ok := constInt(x.Y); ok && k == 1 {
					expand(x.X, blk, !xor, d+1)
					return
				}
			}
		case *ssa.Convert:
			expand(x.X, blk, xor, d+1)
			return
		}
		leaves = append(leaves, leaf{region(blk), xor})
	}
	stores := 0
	allInstrs(fn, func(in ssa.Instruction) {
		st, ok := in.(*ssa.Store)
		if !ok {
			return
		}
		ia, ok := st.Addr.(*ssa.IndexAddr)
		if !ok {
			return
		}
		if k, ok := constInt(ia.Index); !ok || k != 64 {
			return
		}
		stores++
		expand(st.Val, st.Block(), false, 0)
	})
	flipOK := stores > 0
	why := ""
	for _, l := range leaves {
		switch {
		case l.reg == "over" && !l.xor:
			flipOK, why = false, "the recovery bit is not flipped on the branch that negated s"
		case l.reg == "notover" && l.xor:
			flipOK, why = false, "the recovery bit is flipped although s was kept"
		case l.reg == "both":
			flipOK, why = false, "the recovery byte does not depend on the branch"
		}
	}
	if stores == 0 {
		why = "no store into byte 64"
	}
	r.Check("ETH-1", name+"|recid-flips-with-s", c.Pos(fn.Pos()), flipOK, "byte 64 is the parity of R, flipped exactly when s was negated", why+": public-key recovery from the exported signature returns a different key")
	// R re-derived afterwards, result gated
	rOK := false
	if unmarshalR != nil {
		for _, g := range rejectGuards(fn) {
			if condCall(g.cond) == unmarshalR && guardCoversAccepts(g) {
				rOK = true
			}
		}
	}
	followCheck := func(inPlaceS bool) {
		r.Check("ETH-1", name+"|R-follows-s", c.Pos(fn.Pos()), rOK || !inPlaceS, "after s was negated in place, R is re-decoded from the flipped prefix and a failure is returned, so the caller's signature stays valid",
			"s is negated in place (the caller's scalar is shared) but R is not updated on every accepting path: the original signature object no longer verifies")
	}
	// ETH-2: R and S are both shared with the caller (interface values holding pointers): either both are
	// updated in place or neither is
	direct := func(v ssa.Value, field string) bool {
		v = stripConv(v)
		if u, ok := v.(*ssa.UnOp); ok && u.Op == token.MUL {
			v = u.X
		}
		switch x := v.(type) {
		case *ssa.FieldAddr:
			return fieldName(x.X.Type(), x.Field) == field && strings.HasPrefix(path(x.X), fn.Params[0].Name())
		case *ssa.Field:
			return fieldName(x.X.Type(), x.Field) == field && strings.HasPrefix(path(x.X), fn.Params[0].Name())
		}
		return false
	}
	inPlaceS, inPlaceR := false, false
	allInstrs(fn, func(in ssa.Instruction) {
		cc, ok := in.(ssa.CallInstruction)
		if !ok {
			return
		}
		o := calleeObj(cc)
		if o == nil {
			return
		}
		rv := recvOf(cc)
		if rv == nil {
			rv = cc.Common().Value
		}
		if rv == nil {
			return
		}
		switch o.Name() {
		case "Negate", "Set", "SetNat", "Add", "Sub", "Mul", "Invert":
			if direct(rv, "S") {
				inPlaceS = true
			}
		}
		switch o.Name() {
		case "UnmarshalBinary", "Negate", "Set", "Add", "Sub":
			if direct(rv, "R") {
				inPlaceR = true
			}
		}
	})
	followCheck(inPlaceS)
	r.Check("ETH-1", name+"|R-and-S-move-together", c.Pos(fn.Pos()), inPlaceS == inPlaceR, "the caller's R and S are either both normalised in place or both left alone",
		fmt.Sprintf("the caller's S is modified in place: %v, the caller's R: %v - after the export the signature object holds (±R, s) of mixed signs and no longer verifies", inPlaceS, inPlaceR))
	// capacity 65
	capOK := false
	allInstrs(fn, func(in ssa.Instruction) {
		if ms, ok := in.(*ssa.MakeSlice); ok {
			if k, ok := constInt(ms.Cap); ok && k == 65 {
				capOK = true
			}
		}
		if al, ok := in.(*ssa.Alloc); ok {
			if pt, ok := al.Type().(*types.Pointer); ok {
				if at, ok := pt.Elem().(*types.Array); ok && at.Len() == 65 {
					capOK = true
				}
			}
		}
	})
	r.Check("ETH-1", name+"|65-bytes", c.Pos(fn.Pos()), capOK, "the output buffer holds r(32) || s(32) || v(1) = 65 bytes", "no 65-byte buffer")
}

// directArm: pred ends in `if flag` and succ is directly one of its arms -> "over"/"notover".
func directArm(pred, succ *ssa.BasicBlock, flag ssa.Value) string {
	if len(pred.Instrs) == 0 {
		return ""
	}
	iff, ok := pred.Instrs[len(pred.Instrs)-1].(*ssa.If)
	if !ok {
		return ""
	}
	cond, neg := iff.Cond, false
	if u, ok := cond.(*ssa.UnOp); ok && u.Op == token.NOT {
		cond, neg = u.X, true
	}
	if cond != flag || pred.Succs[0] == pred.Succs[1] {
		return ""
	}
	isTrue := pred.Succs[0] == succ
	if neg {
		isTrue = !isTrue
	}
	if isTrue {
		return "over"
	}
	return "notover"
}

// xorOf: v is (…) ^ 1 an odd number of times along a chain of conversions.
func xorOf(v ssa.Value) bool {
	x := false
	for i := 0; i < 8; i++ {
		switch y := v.(type) {
		case *ssa.BinOp:
			if k, ok := constInt(y.Y); ok && k == 1 && y.Op == token.XOR {
				x = !x
				v = y.X
				continue
			}
		case *ssa.Convert:
			v = y.X
			continue
		}
		break
	}
	return x
}

// parityByEvaluation: along every path on which the branch conditions over the prefix byte hold for prefix p, the
// parity argument of DecompressY evaluates to (p == 3), for p = 2 and p = 3. Only constants, comparisons/masks of the
// prefix byte, negations and phis are evaluated; anything else makes the result unknown (and the rule fail).
func parityByEvaluation(fn *ssa.Function, isPrefix func(ssa.Value) bool) bool {
	var target *ssa.Call
	allInstrs(fn, func(in ssa.Instruction) {
		if call, ok := in.(*ssa.Call); ok {
			if o := calleeObj(call); o != nil && o.Name() == "DecompressY" && len(call.Call.Args) == 3 {
				target = call
			}
		}
	})
	if target == nil {
		return false
	}
	type tri int
	const (
		unknown tri = iota
		tFalse
		tTrue
	)
	fromBool := func(b bool) tri {
		if b {
			return tTrue
		}
		return tFalse
	}
	var evalInt func(v ssa.Value, val int64, pth []*ssa.BasicBlock, d int) (int64, bool)
	var eval func(v ssa.Value, val int64, pth []*ssa.BasicBlock, d int) tri
	phiEdge := func(phi *ssa.Phi, pth []*ssa.BasicBlock) ssa.Value {
		for i := len(pth) - 1; i >= 1; i-- {
			if pth[i] == phi.Block() {
				for k, pr := range phi.Block().Preds {
					if pr == pth[i-1] {
						return phi.Edges[k]
					}
				}
			}
		}
		return nil
	}
	evalInt = func(v ssa.Value, val int64, pth []*ssa.BasicBlock, d int) (int64, bool) {
		if d > 10 {
			return 0, false
		}
		if isPrefix(v) {
			return val, true
		}
		if k, ok := constInt(v); ok {
			return k, true
		}
		switch x := v.(type) {
		case *ssa.Convert:
			return evalInt(x.X, val, pth, d+1)
		case *ssa.BinOp:
			a, ok1 := evalInt(x.X, val, pth, d+1)
			b, ok2 := evalInt(x.Y, val, pth, d+1)
			if !ok1 || !ok2 {
				return 0, false
			}
			switch x.Op {
			case token.AND:
				return a & b, true
			case token.OR:
				return a | b, true
			case token.XOR:
				return a ^ b, true
			case token.SUB:
				return a - b, true
			case token.ADD:
				return a + b, true
			case token.REM:
				if b != 0 {
					return a % b, true
				}
			case token.SHR:
				return a >> uint(b), true
			}
		case *ssa.Phi:
			if e := phiEdge(x, pth); e != nil {
				return evalInt(e, val, pth, d+1)
			}
		}
		return 0, false
	}
	eval = func(v ssa.Value, val int64, pth []*ssa.BasicBlock, d int) tri {
		if d > 10 {
			return unknown
		}
		if b, ok := constBool(v); ok {
			return fromBool(b)
		}
		switch x := v.(type) {
		case *ssa.UnOp:
			if x.Op == token.NOT {
				switch eval(x.X, val, pth, d+1) {
				case tTrue:
					return tFalse
				case tFalse:
					return tTrue
				}
			}
		case *ssa.BinOp:
			a, ok1 := evalInt(x.X, val, pth, d+1)
			b, ok2 := evalInt(x.Y, val, pth, d+1)
			if ok1 && ok2 {
				switch x.Op {
				case token.EQL:
					return fromBool(a == b)
				case token.NEQ:
					return fromBool(a != b)
				case token.LSS:
					return fromBool(a < b)
				case token.LEQ:
					return fromBool(a <= b)
				case token.GTR:
					return fromBool(a > b)
				case token.GEQ:
					return fromBool(a >= b)
				}
			}
		case *ssa.Phi:
			if e := phiEdge(x, pth); e != nil {
				return eval(e, val, pth, d+1)
			}
		}
		return unknown
	}
	for _, val := range []int64{2, 3} {
		reached, good := false, true
		seen := map[[2]*ssa.BasicBlock]bool{}
		var walk func(b, prev *ssa.BasicBlock, pth []*ssa.BasicBlock)
		walk = func(b, prev *ssa.BasicBlock, pth []*ssa.BasicBlock) {
			if seen[[2]*ssa.BasicBlock{prev, b}] || len(pth) > 64 {
				return
			}
			seen[[2]*ssa.BasicBlock{prev, b}] = true
			pth = append(pth, b)
			if b == target.Block() {
				reached = true
				want := tFalse
				if val == 3 {
					want = tTrue
				}
				if eval(target.Call.Args[1], val, pth, 0) != want {
					good = false
				}
			}
			if iff, ok := b.Instrs[len(b.Instrs)-1].(*ssa.If); ok {
				switch eval(iff.Cond, val, pth, 0) {
				case tTrue:
					walk(b.Succs[0], b, pth)
					return
				case tFalse:
					walk(b.Succs[1], b, pth)
					return
				}
			}
			for _, s := range b.Succs {
				walk(s, b, pth)
			}
		}
		walk(fn.Blocks[0], nil, nil)
		if !reached || !good {
			return false
		}
	}
	return true
}
