package main

import (
	"fmt"
	"go/constant"
	"go/token"
	"go/types"
	"sort"
	"strings"

	"golang.org/x/tools/go/ssa"
)

// ---- instruction-level walking ----

type ipos struct {
	b *ssa.BasicBlock
	i int
}

// walkForward explores every CFG path starting just after `from` (or at the start of
// block b when from is nil). visit returns true to stop exploring along that path.
// atExit is called for every path that leaves the function (Return / Panic terminators
// are passed to visit first).
func walkForward(from ssa.Instruction, visit func(ssa.Instruction) bool) {
	b := from.Block()
	idx := -1
	for i, in := range b.Instrs {
		if in == from {
			idx = i
			break
		}
	}
	walkFrom(b, idx+1, visit)
}

func walkFrom(b *ssa.BasicBlock, idx int, visit func(ssa.Instruction) bool) {
	seen := map[*ssa.BasicBlock]bool{}
	var rec func(b *ssa.BasicBlock, idx int)
	rec = func(b *ssa.BasicBlock, idx int) {
		for i := idx; i < len(b.Instrs); i++ {
			if visit(b.Instrs[i]) {
				return
			}
		}
		for _, s := range b.Succs {
			if !seen[s] {
				seen[s] = true
				rec(s, 0)
			}
		}
	}
	rec(b, idx)
}

// walkBackward explores every CFG path backwards starting just before `from`.
// visit returns true to stop along that path. entry is called when a path reaches the
// function entry without being stopped.
func walkBackward(from ssa.Instruction, visit func(ssa.Instruction) bool, entry func()) {
	b := from.Block()
	idx := len(b.Instrs)
	for i, in := range b.Instrs {
		if in == from {
			idx = i
			break
		}
	}
	seen := map[*ssa.BasicBlock]bool{}
	var rec func(b *ssa.BasicBlock, idx int)
	rec = func(b *ssa.BasicBlock, idx int) {
		for i := idx - 1; i >= 0; i-- {
			if visit(b.Instrs[i]) {
				return
			}
		}
		if len(b.Preds) == 0 {
			if entry != nil {
				entry()
			}
			return
		}
		for _, p := range b.Preds {
			if !seen[p] {
				seen[p] = true
				rec(p, len(p.Instrs))
			}
		}
	}
	rec(b, idx)
}

// instrDominates reports whether a is executed before b on every path reaching b.
func instrDominates(a, b ssa.Instruction) bool {
	if a.Block() == b.Block() {
		for _, in := range a.Block().Instrs {
			if in == a {
				return true
			}
			if in == b {
				return false
			}
		}
		return false
	}
	return a.Block().Dominates(b.Block())
}

// blockReaches reports whether `to` is reachable from `from` (from itself counts only via a cycle or equality).
func blockReaches(from, to *ssa.BasicBlock) bool {
	if from == to {
		return true
	}
	seen := map[*ssa.BasicBlock]bool{from: true}
	st := []*ssa.BasicBlock{from}
	for len(st) > 0 {
		b := st[len(st)-1]
		st = st[:len(st)-1]
		for _, s := range b.Succs {
			if s == to {
				return true
			}
			if !seen[s] {
				seen[s] = true
				st = append(st, s)
			}
		}
	}
	return false
}

// ---- callee resolution ----

func staticCallee(in ssa.Instruction) *ssa.Function {
	ci, ok := in.(ssa.CallInstruction)
	if !ok {
		return nil
	}
	return ci.Common().StaticCallee()
}

// calleeObj returns the types.Func of a static call or interface invoke.
func calleeObj(in ssa.Instruction) *types.Func {
	ci, ok := in.(ssa.CallInstruction)
	if !ok {
		return nil
	}
	cc := ci.Common()
	if cc.IsInvoke() {
		return cc.Method
	}
	if f := cc.StaticCallee(); f != nil {
		if o, ok := f.Object().(*types.Func); ok {
			return o
		}
		// instantiated generic
		if f.Origin() != nil {
			if o, ok := f.Origin().Object().(*types.Func); ok {
				return o
			}
		}
	}
	return nil
}

// isCallToPkgFunc: call to package-level function pkgPath.name (std or other).
func isCallToPkgFunc(in ssa.Instruction, pkgPath, name string) bool {
	o := calleeObj(in)
	if o == nil || o.Pkg() == nil {
		return false
	}
	if sig, ok := o.Type().(*types.Signature); ok && sig.Recv() != nil {
		return false
	}
	return o.Pkg().Path() == pkgPath && o.Name() == name
}

// isMethodCall: call (static or invoke) of a method named `name` whose receiver's named type is pkgPath.typeName.
func isMethodCall(in ssa.Instruction, pkgPath, typeName, name string) bool {
	o := calleeObj(in)
	if o == nil || o.Name() != name {
		return false
	}
	sig, ok := o.Type().(*types.Signature)
	if !ok || sig.Recv() == nil {
		return false
	}
	n := namedOf(sig.Recv().Type())
	if n == nil || n.Obj().Pkg() == nil {
		return false
	}
	return n.Obj().Pkg().Path() == pkgPath && n.Obj().Name() == typeName
}

func namedOf(t types.Type) *types.Named {
	for {
		t = types.Unalias(t)
		switch x := t.(type) {
		case *types.Pointer:
			t = x.Elem()
		case *types.Named:
			return x
		default:
			return nil
		}
	}
}

func callArgs(in ssa.Instruction) []ssa.Value {
	ci, ok := in.(ssa.CallInstruction)
	if !ok {
		return nil
	}
	return ci.Common().Args
}

// ---- value tracing ----

// singleStore returns the only value ever stored to alloc a (nil if zero or several stores,
// or if the address escapes to something other than loads/field addressing).
func singleStore(a *ssa.Alloc) ssa.Value {
	var v ssa.Value
	n := 0
	for _, r := range *a.Referrers() {
		if st, ok := r.(*ssa.Store); ok && st.Addr == a {
			v = st.Val
			n++
		}
	}
	if n == 1 {
		return v
	}
	return nil
}

// path renders a canonical access path for v: parameters, free variables, fields,
// element accesses, call results. Used to identify *which* value an operand is.
func path(v ssa.Value) string { return pathD(v, 0) }

func pathD(v ssa.Value, d int) string {
	if d > 40 {
		return "…"
	}
	switch x := v.(type) {
	case nil:
		return "<nil>"
	case *ssa.Parameter:
		return x.Name()
	case *ssa.FreeVar:
		return x.Name()
	case *ssa.Global:
		return "global:" + x.Name()
	case *ssa.Const:
		if x.Value == nil {
			return "nil"
		}
		return "const:" + x.Value.ExactString()
	case *ssa.Alloc:
		if sv := singleStore(x); sv != nil && !x.Heap {
			return pathD(sv, d+1)
		}
		if sv := singleStore(x); sv != nil {
			// heap alloc of a parameter/local captured by closures: treat as the variable
			if _, isParam := sv.(*ssa.Parameter); isParam {
				return pathD(sv, d+1)
			}
		}
		if x.Comment != "" {
			return "local:" + x.Comment
		}
		return "local:" + x.Name()
	case *ssa.FieldAddr:
		return pathD(x.X, d+1) + "." + fieldName(x.X.Type(), x.Field)
	case *ssa.Field:
		return pathD(x.X, d+1) + "." + fieldName(x.X.Type(), x.Field)
	case *ssa.IndexAddr:
		return pathD(x.X, d+1) + "[" + pathD(x.Index, d+1) + "]"
	case *ssa.Index:
		return pathD(x.X, d+1) + "[" + pathD(x.Index, d+1) + "]"
	case *ssa.Lookup:
		return pathD(x.X, d+1) + "[" + pathD(x.Index, d+1) + "]"
	case *ssa.UnOp:
		if x.Op == token.MUL {
			return pathD(x.X, d+1)
		}
		if x.Op == token.ARROW {
			return "<-" + pathD(x.X, d+1)
		}
		return x.Op.String() + pathD(x.X, d+1)
	case *ssa.Extract:
		if _, ok := x.Tuple.(*ssa.Lookup); ok && x.Index == 0 {
			return pathD(x.Tuple, d+1)
		}
		if ta, ok := x.Tuple.(*ssa.TypeAssert); ok && x.Index == 0 {
			return pathD(ta, d+1)
		}
		return pathD(x.Tuple, d+1) + fmt.Sprintf("#%d", x.Index)
	case *ssa.TypeAssert:
		return pathD(x.X, d+1) + ".(" + types.TypeString(x.AssertedType, func(p *types.Package) string { return p.Name() }) + ")"
	case *ssa.MakeInterface:
		return pathD(x.X, d+1)
	case *ssa.ChangeType:
		return pathD(x.X, d+1)
	case *ssa.ChangeInterface:
		return pathD(x.X, d+1)
	case *ssa.Convert:
		return pathD(x.X, d+1)
	case *ssa.Slice:
		return pathD(x.X, d+1) + "[:]"
	case *ssa.Call:
		if f := x.Call.StaticCallee(); f != nil {
			s := f.Name() + "("
			for i, a := range x.Call.Args {
				if i > 0 {
					s += ","
				}
				s += pathD(a, d+1)
			}
			return s + ")"
		}
		if x.Call.IsInvoke() {
			return pathD(x.Call.Value, d+1) + "." + x.Call.Method.Name() + "()"
		}
		if bi, ok := x.Call.Value.(*ssa.Builtin); ok {
			s := bi.Name() + "("
			for i, a := range x.Call.Args {
				if i > 0 {
					s += ","
				}
				s += pathD(a, d+1)
			}
			return s + ")"
		}
		return pathD(x.Call.Value, d+1) + "()"
	case *ssa.Phi:
		return "phi:" + x.Comment
	case *ssa.BinOp:
		return "(" + pathD(x.X, d+1) + x.Op.String() + pathD(x.Y, d+1) + ")"
	case *ssa.Next:
		return "next(" + pathD(x.Iter, d+1) + ")"
	case *ssa.Range:
		return "range(" + pathD(x.X, d+1) + ")"
	case *ssa.MakeClosure:
		return "closure:" + x.Fn.Name()
	case *ssa.Function:
		return "func:" + x.Name()
	case *ssa.MakeSlice:
		return "makeslice"
	case *ssa.MakeMap:
		return "makemap"
	case *ssa.MakeChan:
		return "makechan"
	}
	return fmt.Sprintf("%T", v)
}

func fieldName(t types.Type, i int) string {
	if p, ok := t.Underlying().(*types.Pointer); ok {
		t = p.Elem()
	}
	if s, ok := t.Underlying().(*types.Struct); ok && i < s.NumFields() {
		return s.Field(i).Name()
	}
	return fmt.Sprintf("#%d", i)
}

func fieldVar(t types.Type, i int) *types.Var {
	if p, ok := t.Underlying().(*types.Pointer); ok {
		t = p.Elem()
	}
	if s, ok := t.Underlying().(*types.Struct); ok && i < s.NumFields() {
		return s.Field(i)
	}
	return nil
}

// stripConv removes conversions / interface boxing.
func stripConv(v ssa.Value) ssa.Value {
	for {
		switch x := v.(type) {
		case *ssa.Convert:
			v = x.X
		case *ssa.ChangeType:
			v = x.X
		case *ssa.MakeInterface:
			v = x.X
		case *ssa.ChangeInterface:
			v = x.X
		default:
			return v
		}
	}
}

// resolveLoad: if v is a load from a non-escaping local with a single store, return the stored value.
func resolveLoad(v ssa.Value) ssa.Value {
	for i := 0; i < 20; i++ {
		v = stripConv(v)
		u, ok := v.(*ssa.UnOp)
		if !ok || u.Op != token.MUL {
			return v
		}
		switch a := u.X.(type) {
		case *ssa.Alloc:
			if sv := singleStore(a); sv != nil {
				v = sv
				continue
			}
		case *ssa.FieldAddr:
			// load of a field of a local struct literal: find the store to the same field address path
			if al, ok := a.X.(*ssa.Alloc); ok {
				if sv := fieldStore(al, a.Field); sv != nil {
					v = sv
					continue
				}
			}
		}
		return v
	}
	return v
}

// fieldStore finds the single value stored into field f of local struct alloc a.
func fieldStore(a *ssa.Alloc, f int) ssa.Value {
	var val ssa.Value
	n := 0
	for _, r := range *a.Referrers() {
		fa, ok := r.(*ssa.FieldAddr)
		if !ok || fa.Field != f {
			continue
		}
		for _, rr := range *fa.Referrers() {
			if st, ok := rr.(*ssa.Store); ok && st.Addr == fa {
				val = st.Val
				n++
			}
		}
	}
	if n == 1 {
		return val
	}
	return nil
}

func constInt(v ssa.Value) (int64, bool) {
	c, ok := stripConv(v).(*ssa.Const)
	if !ok || c.Value == nil || c.Value.Kind() != constant.Int {
		return 0, false
	}
	i, ok := constant.Int64Val(c.Value)
	return i, ok
}

func constBool(v ssa.Value) (bool, bool) {
	c, ok := v.(*ssa.Const)
	if !ok || c.Value == nil || c.Value.Kind() != constant.Bool {
		return false, false
	}
	return constant.BoolVal(c.Value), true
}

func constString(v ssa.Value) (string, bool) {
	c, ok := stripConv(v).(*ssa.Const)
	if !ok || c.Value == nil || c.Value.Kind() != constant.String {
		return "", false
	}
	return constant.StringVal(c.Value), true
}

func isNilConst(v ssa.Value) bool {
	c, ok := v.(*ssa.Const)
	return ok && c.Value == nil
}

// dependsOn reports whether v transitively (through pure value operations inside the
// same function) uses a value satisfying pred.
func dependsOn(v ssa.Value, pred func(ssa.Value) bool) bool {
	seen := map[ssa.Value]bool{}
	var rec func(v ssa.Value) bool
	rec = func(v ssa.Value) bool {
		if v == nil || seen[v] {
			return false
		}
		seen[v] = true
		if pred(v) {
			return true
		}
		in, ok := v.(ssa.Instruction)
		if !ok {
			return false
		}
		for _, op := range in.Operands(nil) {
			if *op != nil && rec(*op) {
				return true
			}
		}
		// a block moved into an unexported helper of the same package: continue in what the helper returns
		if call, ok := v.(*ssa.Call); ok {
			if g := localHelperOf(call); g != nil {
				bindHelperArgs(call, g)
				for _, ret := range returnsOf(g) {
					for _, res := range ret.Results {
						if rec(res) {
							return true
						}
					}
				}
			}
		}
		// local aggregates (composite literals, variadic backing arrays): what was stored into them
		if a, ok := v.(*ssa.Alloc); ok {
			for _, r := range *a.Referrers() {
				switch y := r.(type) {
				case *ssa.Store:
					if y.Addr == ssa.Value(a) && rec(y.Val) {
						return true
					}
				case *ssa.IndexAddr:
					for _, rr := range *y.Referrers() {
						if st, ok := rr.(*ssa.Store); ok && st.Addr == ssa.Value(y) && rec(st.Val) {
							return true
						}
					}
				case *ssa.FieldAddr:
					for _, rr := range *y.Referrers() {
						if st, ok := rr.(*ssa.Store); ok && st.Addr == ssa.Value(y) && rec(st.Val) {
							return true
						}
					}
				}
			}
		}
		// fresh containers filled element by element: what was put into them
		switch mk := v.(type) {
		case *ssa.Slice:
			// make([]T, const) is rendered as a slice of a new array: element stores go through the slice value
			if _, fresh := mk.X.(*ssa.Alloc); fresh {
				for _, r := range *mk.Referrers() {
					if ia, ok := r.(*ssa.IndexAddr); ok {
						for _, rr := range *ia.Referrers() {
							if st, ok := rr.(*ssa.Store); ok && st.Addr == ssa.Value(ia) && rec(st.Val) {
								return true
							}
						}
					}
				}
			}
		case *ssa.MakeSlice:
			for _, r := range *mk.Referrers() {
				if ia, ok := r.(*ssa.IndexAddr); ok {
					for _, rr := range *ia.Referrers() {
						if st, ok := rr.(*ssa.Store); ok && st.Addr == ssa.Value(ia) && rec(st.Val) {
							return true
						}
					}
				}
			}
		case *ssa.MakeMap:
			for _, r := range *mk.Referrers() {
				if mu, ok := r.(*ssa.MapUpdate); ok && mu.Map == ssa.Value(mk) && (rec(mu.Value) || rec(mu.Key)) {
					return true
				}
			}
		}
		// loads from locals: follow stores
		if u, ok := v.(*ssa.UnOp); ok && u.Op == token.MUL {
			if a, ok := u.X.(*ssa.Alloc); ok {
				for _, r := range *a.Referrers() {
					if st, ok := r.(*ssa.Store); ok && st.Addr == a && rec(st.Val) {
						return true
					}
				}
			}
		}
		return false
	}
	return rec(v)
}

// allInstrs iterates over every instruction of fn.
func allInstrs(fn *ssa.Function, f func(ssa.Instruction)) {
	if fn == nil {
		return
	}
	for _, b := range fn.Blocks {
		for _, in := range b.Instrs {
			f(in)
		}
	}
}

// withAnon iterates fn and all nested anonymous functions.
func withAnon(fn *ssa.Function, f func(*ssa.Function)) {
	if fn == nil {
		return
	}
	f(fn)
	for _, a := range fn.AnonFuncs {
		withAnon(a, f)
	}
}

// returnsOf lists Return instructions.
func returnsOf(fn *ssa.Function) []*ssa.Return {
	var out []*ssa.Return
	allInstrs(fn, func(in ssa.Instruction) {
		if r, ok := in.(*ssa.Return); ok {
			out = append(out, r)
		}
	})
	return out
}

func typeStr(t types.Type) string {
	return types.TypeString(t, func(p *types.Package) string { return p.Name() })
}

func relTypeStr(c *Ctx, t types.Type) string {
	return types.TypeString(t, func(p *types.Package) string { return c.Rel(p) })
}

func hasPrefixAny(s string, ps ...string) bool {
	for _, p := range ps {
		if strings.HasPrefix(s, p) {
			return true
		}
	}
	return false
}

// blockInLoop: b can reach itself through one of its successors.
func blockInLoop(b *ssa.BasicBlock) bool {
	for _, s := range b.Succs {
		if s == b || blockReaches(s, b) {
			return true
		}
	}
	return false
}

// ---- same-package helpers: rules that look inside one method also look inside the unexported helpers it calls, and
// carry values across the call boundary (a helper's parameter stands for the argument of the call site it was
// entered through).

var helperArg = map[*ssa.Parameter]ssa.Value{}

func localHelperOf(call *ssa.Call) *ssa.Function {
	if call == nil || call.Call.IsInvoke() || call.Parent() == nil {
		return nil
	}
	g := call.Call.StaticCallee()
	if !isLocalHelper(call.Parent(), g) || g == call.Parent() {
		return nil
	}
	return g
}

func bindHelperArgs(call *ssa.Call, g *ssa.Function) {
	for i, p := range g.Params {
		if i < len(call.Call.Args) {
			helperArg[p] = call.Call.Args[i]
		}
	}
}

// callerVal: a helper parameter is replaced by the argument it was bound to (repeatedly).
func callerVal(v ssa.Value) ssa.Value {
	for i := 0; i < 4; i++ {
		p, ok := stripConv(v).(*ssa.Parameter)
		if !ok {
			return v
		}
		a, bound := helperArg[p]
		if !bound {
			return v
		}
		v = a
	}
	return v
}

// regionOf: fn and the unexported same-package helpers it calls (two levels), each bound to its (last) call site.
func regionOf(fn *ssa.Function) []*ssa.Function {
	out := []*ssa.Function{fn}
	seen := map[*ssa.Function]bool{fn: true}
	var rec func(f *ssa.Function, d int)
	rec = func(f *ssa.Function, d int) {
		if d == 0 {
			return
		}
		allInstrs(f, func(in ssa.Instruction) {
			call, ok := in.(*ssa.Call)
			if !ok {
				return
			}
			g := localHelperOf(call)
			if g == nil || seen[g] {
				return
			}
			seen[g] = true
			bindHelperArgs(call, g)
			out = append(out, g)
			rec(g, d-1)
		})
	}
	rec(fn, 2)
	return out
}

// callsNamedR: calls to a function/method of that name anywhere in the region of fn.
func callsNamedR(fn *ssa.Function, name string) []*ssa.Call {
	var out []*ssa.Call
	for _, f := range regionOf(fn) {
		out = append(out, callsNamed(f, name)...)
	}
	return out
}

// paramFieldsUp: the labels of v in the vocabulary of the function whose region v's function belongs to: labels rooted
// in a bound helper parameter are replaced by the labels of the argument at the call site.
func paramFieldsUp(v ssa.Value) []string {
	if p, ok := stripConv(v).(*ssa.Parameter); ok {
		if a, bound := helperArg[p]; bound && a != v {
			return paramFieldsUp(a)
		}
	}
	owner := valueParent(v)
	if owner == nil {
		return nil
	}
	ls := paramFields(owner, v)
	for depth := 0; depth < 3; depth++ {
		changed := false
		for i, p := range owner.Params {
			a, bound := helperArg[p]
			pl := paramLabel(owner, i)
			if !bound || pl == "" || valueParent(a) == nil {
				continue
			}
			if pl == "recv" {
				continue
			}
			to := paramFields(valueParent(a), a)
			var next []string
			for _, l := range ls {
				if !mentionsToken(l, pl) || len(to) == 0 {
					next = append(next, l)
					continue
				}
				changed = true
				for _, t := range to {
					next = append(next, replaceToken(l, pl, t))
				}
			}
			ls = next
		}
		if !changed {
			break
		}
		// one more level up if the caller is itself a bound helper
		var up *ssa.Function
		for _, p := range owner.Params {
			if a, bound := helperArg[p]; bound && valueParent(a) != nil {
				up = valueParent(a)
			}
		}
		if up == nil || up == owner {
			break
		}
		owner = up
	}
	sort.Strings(ls)
	return ls
}

func valueParent(v ssa.Value) *ssa.Function {
	switch x := v.(type) {
	case *ssa.Parameter:
		return x.Parent()
	case *ssa.FreeVar:
		return x.Parent()
	case ssa.Instruction:
		return x.Parent()
	}
	return nil
}

// resultThroughHelpers: a value that is the result of an unexported same-package helper is replaced by what the helper
// returns at that position, when all its returns agree (`return polynomial.Sum(ps)` moved into a helper).
func resultThroughHelpers(v ssa.Value) ssa.Value {
	for i := 0; i < 3; i++ {
		var call *ssa.Call
		idx := 0
		switch x := v.(type) {
		case *ssa.Extract:
			c, ok := x.Tuple.(*ssa.Call)
			if !ok {
				return v
			}
			call, idx = c, x.Index
		case *ssa.Call:
			call = x
		default:
			return v
		}
		g := localHelperOf(call)
		if g == nil {
			return v
		}
		bindHelperArgs(call, g)
		var res ssa.Value
		for _, ret := range returnsOf(g) {
			if idx >= len(ret.Results) {
				return v
			}
			rv := resolveLoad(ret.Results[idx])
			if isNilConst(rv) {
				continue
			}
			if res != nil && res != rv {
				return v
			}
			res = rv
		}
		if res == nil {
			return v
		}
		v = res
	}
	return v
}

// calleeCandidates resolves a call to the functions it can reach: the static callee, or - for a call through a local
// function value - the methods/functions that value was assigned from (verify := h.verifyMessage; if b { verify =
// h.verifyBroadcastMessage }; verify(m)). nil when some source of the value is not a function known at this site.
func calleeCandidates(call *ssa.Call) []*ssa.Function {
	if f := call.Call.StaticCallee(); f != nil {
		return []*ssa.Function{f}
	}
	if call.Call.IsInvoke() {
		return nil
	}
	var out []*ssa.Function
	seen := map[ssa.Value]bool{}
	var walk func(v ssa.Value) bool
	walk = func(v ssa.Value) bool {
		if seen[v] {
			return true
		}
		seen[v] = true
		switch x := v.(type) {
		case *ssa.Phi:
			for _, e := range x.Edges {
				if !walk(e) {
					return false
				}
			}
			return true
		case *ssa.MakeClosure:
			fn, _ := x.Fn.(*ssa.Function)
			if fn == nil {
				return false
			}
			if strings.HasPrefix(fn.Synthetic, "bound method wrapper") {
				if o, ok := fn.Object().(*types.Func); ok {
					if real := fn.Prog.FuncValue(o); real != nil {
						fn = real
					}
				}
			}
			out = append(out, fn)
			return true
		case *ssa.Function:
			out = append(out, x)
			return true
		case *ssa.ChangeType:
			return walk(x.X)
		}
		return false
	}
	if !walk(call.Call.Value) || len(out) == 0 {
		return nil
	}
	return out
}

// callMayBe: the call reaches fn (statically, or through a local function value).
func callMayBe(call *ssa.Call, fn *ssa.Function) bool {
	for _, f := range calleeCandidates(call) {
		if f == fn {
			return true
		}
	}
	return false
}

// normArgs: the arguments of the call in the callee's parameter order; for a bound method value the receiver captured
// when the value was made comes first.
func normArgs(call *ssa.Call) []ssa.Value {
	if call.Call.StaticCallee() != nil || call.Call.IsInvoke() {
		return call.Call.Args
	}
	var recv ssa.Value
	seen := map[ssa.Value]bool{}
	var walk func(v ssa.Value)
	walk = func(v ssa.Value) {
		if seen[v] || recv != nil {
			return
		}
		seen[v] = true
		switch x := v.(type) {
		case *ssa.Phi:
			for _, e := range x.Edges {
				walk(e)
			}
		case *ssa.MakeClosure:
			if fn, _ := x.Fn.(*ssa.Function); fn != nil && strings.HasPrefix(fn.Synthetic, "bound method wrapper") && len(x.Bindings) == 1 {
				recv = x.Bindings[0]
			}
		case *ssa.ChangeType:
			walk(x.X)
		}
	}
	walk(call.Call.Value)
	if recv == nil {
		return call.Call.Args
	}
	return append([]ssa.Value{recv}, call.Call.Args...)
}

// edgeValueFor: when v and the function value of call are phis of one block (a queue and its verifier chosen together),
// the operand of v on the edges where the call reaches fn; v itself otherwise.
func edgeValuesFor(call *ssa.Call, fn *ssa.Function, v ssa.Value) []ssa.Value {
	cp, ok1 := call.Call.Value.(*ssa.Phi)
	vp, ok2 := v.(*ssa.Phi)
	if !ok1 || !ok2 || cp.Block() != vp.Block() {
		return []ssa.Value{v}
	}
	var out []ssa.Value
	for k, e := range cp.Edges {
		mc, isMC := e.(*ssa.MakeClosure)
		if !isMC {
			return []ssa.Value{v}
		}
		f, _ := mc.Fn.(*ssa.Function)
		if f != nil && strings.HasPrefix(f.Synthetic, "bound method wrapper") {
			if o, ok := f.Object().(*types.Func); ok {
				if real := f.Prog.FuncValue(o); real != nil {
					f = real
				}
			}
		}
		if f == fn {
			out = append(out, vp.Edges[k])
		}
	}
	if len(out) == 0 {
		return []ssa.Value{v}
	}
	return out
}
