package main

import (
	"encoding/json"
	"fmt"
	"go/types"
	"os"
	"path/filepath"
	"sort"
	"strings"

	"golang.org/x/tools/go/ssa"
)

func init() {
	register("C03", propMeta{
		Explanation: "Consumer-side must-check rules over every round of every protocol (types implementing round.Round under protocols/, resolved from types). " +
			"OB-G1 (type-driven): every field of a consumed message content whose type carries a Verify method (all pkg/zk proofs, abortNth) has that Verify called on it in the consuming method, the false result reaches a reject exit and the check covers every accepting return. " +
			"OB-G2: every hash.Commitment field is stored and later passed as the commitment argument of Hash.Decommit whose false result rejects. OB-G3: every field whose type declares Validate() error is validated (or handed to Decommit, which validates). " +
			"OB-T: guard inventory — every reject guard of every round method and of internal/ot, pkg/ecdsa (deciding callee + the message fields / round-state fields / session accessors feeding it) recorded in tables/round_guards.json is present and covers acceptance; this pins the bespoke equations (Feldman, degree/constant, Δ=δ·G, ΣS=X, FROST share check, OT consistency checks). " +
			"OB-R: every signature handed to ResultRound is the receiver/argument of a passed Verify; OB-H: handlers call StoreMessage only after decode and VerifyMessage succeeded. NOT decided: that the checks are cryptographically sufficient.",
		Trusted:     append([]string{"tables/round_guards.json: reference inventory confirmed against the mechanisms named in the property anchors"}, commonTrusted...),
		Assumptions: []string{"soundness of the individual proofs/equations (cryptographic), decided nowhere statically"},
	}, runC03)
}

// inventoryFuncs: functions whose reject guards are inventoried for C03/C04/C13.
func inventoryFuncs(c *Ctx) []*ssa.Function {
	var out []*ssa.Function
	seen := map[*ssa.Function]bool{}
	add := func(fn *ssa.Function) {
		// SigEthereum only propagates encoding errors; what it must do is decided by C16 ETH-1, and a
		// non-mutating rewrite legitimately drops its last error path
		if fn.Name() == "SigEthereum" {
			return
		}
		withAnon(fn, func(f *ssa.Function) {
			if !seen[f] {
				seen[f] = true
				out = append(out, f)
			}
		})
	}
	rm := getRoundModel(c)
	for _, ri := range rm.rounds {
		for _, n := range []string{"VerifyMessage", "StoreMessage", "StoreBroadcastMessage", "Finalize"} {
			if fn := ri.methods[n]; fn != nil {
				add(fn)
			}
		}
		// package-level helpers of the protocol packages with bool/error results (e.g. abortNth.Verify)
	}
	for _, rel := range []string{"internal/ot", "pkg/ecdsa", "internal/mta", "internal/elgamal", "pkg/protocol", "internal/round", "pkg/taproot", "internal/bip32", "protocols/frost/keygen", "protocols/doerner/keygen", "pkg/paillier", "pkg/pedersen", "pkg/math/curve", "pkg/math/arith"} {
		p := c.PkgRel(rel)
		if p == nil {
			continue
		}
		for _, fn := range funcsOfPkg(c, c.SSA[p.Types]) {
			if fn.Parent() == nil {
				add(fn)
			}
		}
	}
	for _, ri := range rm.rounds {
		sp := c.SSA[ri.pkg.Types]
		for _, fn := range funcsOfPkg(c, sp) {
			if fn.Parent() == nil && fn.Name() == "Verify" {
				add(fn)
			}
		}
	}
	for _, fn := range startFuncs(c) {
		if fn.Parent() == nil {
			add(fn)
		}
	}
	if p := c.PkgRel("protocols/cmp/config"); p != nil {
		for _, fn := range funcsOfPkg(c, c.SSA[p.Types]) {
			if fn.Parent() == nil {
				add(fn)
			}
		}
	}
	sort.Slice(out, func(i, j int) bool { return c.FuncName(out[i]) < c.FuncName(out[j]) })
	return out
}

func roundGuardTable(c *Ctx) map[string][]string {
	tab := map[string][]string{}
	for _, fn := range inventoryFuncs(c) {
		seen := map[string]bool{}
		var keys []string
		cover := map[string]bool{}
		for _, g := range liftedGuards(fn, 0) {
			k := g.key()
			if guardCoversAccepts(g) {
				cover[k] = true
			}
			if !seen[k] {
				seen[k] = true
				keys = append(keys, k)
			}
		}
		// "~" marks a guard that is conditional by design (does not dominate every accepting exit):
		// only its presence is required
		for i, k := range keys {
			if !cover[k] {
				keys[i] = "~" + k
			}
		}
		sort.Strings(keys)
		if len(keys) > 0 {
			tab[c.FuncName(fn)] = keys
		}
	}
	return tab
}

func genRoundTables(c *Ctx, verifDir string) error {
	b, _ := json.MarshalIndent(roundGuardTable(c), "", " ")
	return os.WriteFile(filepath.Join(verifDir, "tables", "round_guards.json"), append(b, '\n'), 0o644)
}

// checkGuardInventory compares the frozen table with the current tree for functions accepted by filter.
func checkGuardInventory(c *Ctx, r *Run, rule, tableFile string, filter func(fname string) bool) {
	b, err := os.ReadFile(filepath.Join(verifDirGlobal, "tables", tableFile))
	if err != nil {
		r.Unresolved(rule, "tables/"+tableFile)
		return
	}
	var tab map[string][]string
	if err := json.Unmarshal(b, &tab); err != nil {
		r.Unresolved(rule, "tables/"+tableFile+" (parse)")
		return
	}
	cur := map[string]map[string]guard{}
	all := map[string]map[string][]guard{}
	for _, fn := range inventoryFuncs(c) {
		name := c.FuncName(fn)
		if !filter(name) {
			continue
		}
		r.Analysed(name)
		m := map[string]guard{}
		for _, g := range liftedGuards(fn, 0) {
			if old, ok := m[g.key()]; !ok || (!guardCoversAccepts(old) && guardCoversAccepts(g)) {
				m[g.key()] = g
			}
			if all[name] == nil {
				all[name] = map[string][]guard{}
			}
			all[name][g.key()] = append(all[name][g.key()], g)
		}
		cur[name] = m
	}
	names := make([]string, 0, len(tab))
	for k := range tab {
		if filter(k) {
			names = append(names, k)
		}
	}
	sort.Strings(names)
	for _, fname := range names {
		m, ok := cur[fname]
		if !ok {
			// an unexported helper that changed kind (method of T <-> plain function over T's fields) keeps its name; its
			// labels are then spelled differently (recv.p / Modulus#0), so its guards are compared by what decides
			if alt := sameHelperOtherKind(fname, cur); alt != "" {
				have := map[string]int{}
				for k2 := range cur[alt] {
					have[strings.SplitN(k2, "(", 2)[0]]++
				}
				for _, k := range tab[fname] {
					k = strings.TrimPrefix(k, "~")
					dk := strings.SplitN(k, "(", 2)[0]
					okd := have[dk] > 0
					have[dk]--
					r.Check(rule, fname+"|"+k, "?", okd, "reject guard "+k+" is present (the helper is now "+alt+": compared by decider)", "reject guard "+k+" recorded for "+fname+" has no counterpart in "+alt)
				}
				continue
			}
			r.Unresolved(rule, fname)
			continue
		}
		for _, k := range tab[fname] {
			conditional := strings.HasPrefix(k, "~")
			k = strings.TrimPrefix(k, "~")
			if rule2, elsewhere := decidedElsewhere[fname+"|"+k]; elsewhere {
				r.Hold(rule, fname+"|"+k, "?", "decided exactly by "+rule2+" (whatever its spelling); not part of the inventory")
				continue
			}
			g, present := m[k]
			pos, d, okc := "?", "", false
			if present {
				pos = c.Pos(g.pos)
				okc = conditional || guardCoversAccepts(g)
				if !okc {
					// the same decision taken separately on branches that each end in their own accepting return (on one
					// of them possibly over fewer of the data: NewSession(info, id, pl) / NewSession(info, id, pl, c))
					js := append([]guard(nil), all[fname][k]...)
					for k2, gs2 := range all[fname] {
						if k2 == k || len(gs2) == 0 || gs2[0].decider != g.decider {
							continue
						}
						sub := true
						for _, f := range gs2[0].fields {
							if !containsField(g.fields, f) {
								sub = false
							}
						}
						if sub {
							js = append(js, gs2...)
						}
					}
					okc = guardsJointlyCover(js)
				}
				if !okc {
					d = "guard " + k + " no longer covers every accepting exit of " + fname
				}
			} else {
				// help the reader: show the closest current guard with the same decider
				near := ""
				for k2 := range m {
					if strings.SplitN(k2, "(", 2)[0] == strings.SplitN(k, "(", 2)[0] {
						near = " (now: " + k2 + ")"
					}
				}
				d = "reject guard " + k + " recorded for " + fname + " is gone or decides on different data" + near + ": tampered input it refused is now accepted"
			}
			r.Check(rule, fname+"|"+k, pos, present && okc, "reject guard "+k+" is present and covers acceptance", d)
		}
	}
}

func isProtocolFunc(name string) bool {
	return strings.HasPrefix(name, "protocols/") || strings.HasPrefix(name, "internal/ot") || strings.HasPrefix(name, "pkg/ecdsa") || strings.HasPrefix(name, "internal/mta") || strings.HasPrefix(name, "internal/elgamal")
}

// g1Exceptions: instances of OB-G1 that are path-conditional by design.
var g1Exceptions = map[string]string{
	"protocols/frost/keygen.round2|broadcast2.Sigma_i": "verified iff !refresh; on a refresh there is no proof and the constant term is instead required to be the identity (guard curve.Point.IsIdentity on body.Phi_i), one of the two on every path",
}

func runC03(c *Ctx, r *Run) {
	checkFailureReported(c, r, "ERR-3")
	r.Rule("OB-G1", "every received proof is verified: for each consumed content field whose type has a Verify method, the consuming round method calls Verify on that field, the false result rejects, and the check covers every accepting exit")
	r.Rule("OB-G2", "every received commitment is opened: each hash.Commitment content field is stored and later is the commitment argument of a Decommit whose false result rejects")
	r.Rule("OB-G3", "every content field whose type declares Validate() error is validated before use (explicitly, or by Decommit for commitments/decommitments)")
	r.Rule("OB-T", "guard inventory over all round methods, internal/ot, internal/mta, pkg/ecdsa: every recorded reject guard (deciding callee + message/state/session data feeding it) is present and covers acceptance")
	r.Rule("OB-P", "every loop over a participant list walks the whole list (no prefix / tail sub-slices)")
	r.Rule("OB-R", "results are self-verified: the signature passed to ResultRound was the subject of a passed Verify on the session's key and message")
	r.Rule("OB-H", "handler side: StoreMessage/StoreBroadcastMessage are reached only after the decode succeeded and (p2p) VerifyMessage returned nil")

	rm := getRoundModel(c)
	if len(rm.rounds) < 30 {
		r.Fail("OB-G1", "round-model", "protocols/", "at least 30 round types resolved", fmt.Sprintf("only %d round types found", len(rm.rounds)))
		return
	}
	r.Note("round types: %d", len(rm.rounds))
	hashCommitment := c.LookupNamed("pkg/hash", "Commitment")
	hashDecommitment := c.LookupNamed("pkg/hash", "Decommitment")
	decommitFn := c.LookupMethod("pkg/hash", "Hash", "Decommit")

	// all guards per consumer, cached
	guardsOf := map[*ssa.Function][]guard{}
	getGuards := func(fn *ssa.Function) []guard {
		if g, ok := guardsOf[fn]; ok {
			return g
		}
		var gs []guard
		withAnon(fn, func(f *ssa.Function) { gs = append(gs, liftedGuards(f, 0)...) })
		guardsOf[fn] = gs
		return gs
	}

	type storedCommit struct {
		ri    *roundInfo
		field string // content field path
		state string // round-state field it is stored in
		pos   string
	}
	var commits []storedCommit

	for _, ri := range rm.rounds {
		for _, bc := range []bool{false, true} {
			T := ri.p2p
			if bc {
				T = ri.bcast
			}
			if T == nil {
				continue
			}
			cons := ri.consumers(bc)
			if len(cons) == 0 {
				continue
			}
			for _, f := range cons {
				r.Analysed(c.FuncName(f))
			}
			for _, cf := range flattenContent(c, T) {
				n := namedOf(cf.typ)
				if n == nil {
					continue
				}
				base := strings.TrimSuffix(strings.ReplaceAll(cf.path, "[]", ""), ".")
				want := "body." + strings.SplitN(base, ".", 2)[0]
				key := ri.name + "|" + T.Obj().Name() + "." + cf.path
				pos := c.Pos(cons[0].Pos())
				// ---- G1
				if vf := methodOfType(cf.typ, "Verify"); vf != nil && returnsBool(vf) && n != hashCommitment {
					found, covers := false, false
					for _, f := range cons {
						for _, g := range getGuards(f) {
							// the deciding call is the Verify method of the field's own type, fed by the field
							if !decIs(g.decider, n.Obj().Pkg().Name()+"."+n.Obj().Name()+".Verify") {
								continue
							}
							if !containsField(g.fields, want) {
								continue
							}
							found = true
							pos = c.Pos(g.pos)
							if guardCoversAccepts(g) {
								covers = true
							}
						}
					}
					if !found {
						// stored into round state by the consumer and verified later by the same round (e.g. in Finalize)
						stateFld := ""
						for _, f := range cons {
							allInstrs(f, func(in ssa.Instruction) {
								st, isSt := in.(*ssa.Store)
								if !isSt || !containsField(paramFields(f, st.Val), want) {
									return
								}
								for _, fl := range paramFields(f, st.Addr) {
									if strings.HasPrefix(fl, "recv.") && !strings.HasSuffix(fl, "()") {
										stateFld = fl
									}
								}
							})
						}
						if stateFld != "" {
							for _, mn := range []string{"Finalize", "StoreMessage", "VerifyMessage"} {
								f := ri.methods[mn]
								if f == nil {
									continue
								}
								for _, g := range getGuards(f) {
									if decHasSuffix(g.decider, ".Verify") && verifyReceiverIs(g.cond, stateFld, f) {
										found = true
										pos = c.Pos(g.pos)
										if guardCoversAccepts(g) {
											covers = true
										}
									}
								}
							}
						}
					}
					d := ""
					ok := found && covers
					if !found {
						d = fmt.Sprintf("proof field %s (%s) of %s is never verified by %s: a forged or replayed proof is accepted", cf.path, typeStr(cf.typ), T.Obj().Name(), ri.name)
					} else if !covers {
						if why, exc := g1Exceptions[ri.name+"|"+T.Obj().Name()+"."+cf.path]; exc {
							// the alternative branch must hold its own reject guard
							alt := false
							for _, f := range cons {
								for _, g := range getGuards(f) {
									if decHasSuffix(g.decider, "IsIdentity") && containsField(g.fields, "body.Phi_i") {
										alt = true
									}
								}
							}
							ok = alt
							d = "tabled conditional instance (" + why + ") but the alternative check is missing"
						} else {
							d = fmt.Sprintf("the Verify of %s does not cover every accepting exit of the consuming method (an accept path bypasses it)", cf.path)
						}
					}
					r.Check("OB-G1", key, pos, ok, "received proof "+cf.path+" ("+typeStr(cf.typ)+") is verified and the result gates acceptance", d)
				}
				// ---- G3 / G2 collection
				if hasValidate(cf.typ) {
					validated := false
					for _, f := range cons {
						for _, g := range getGuards(f) {
							if strings.Contains(g.decider, "Validate") && containsField(g.fields, want) {
								validated = true
							}
							// Decommit validates its commitment and decommitment arguments
							if decHasSuffix(g.decider, "Hash.Decommit") && (n == hashCommitment || n == hashDecommitment) && containsField(g.fields, want) {
								validated = true
							}
						}
					}
					stored := ""
					if n == hashCommitment {
						// stored into round state for a later Decommit?
						for _, f := range cons {
							allInstrs(f, func(in ssa.Instruction) {
								var val, dst ssa.Value
								switch x := in.(type) {
								case *ssa.MapUpdate:
									val, dst = x.Value, x.Map
								case *ssa.Store:
									val, dst = x.Val, x.Addr
								default:
									return
								}
								if !containsField(paramFields(f, val), want) {
									return
								}
								for _, fl := range paramFields(f, dst) {
									if strings.HasPrefix(fl, "recv.") && !strings.HasSuffix(fl, "()") {
										stored = strings.TrimPrefix(fl, "recv.")
									}
								}
							})
						}
						if stored != "" {
							commits = append(commits, storedCommit{ri, T.Obj().Name() + "." + cf.path, stored, pos})
							validated = true // Decommit (checked by OB-G2) validates it
						}
					}
					r.Check("OB-G3", key, pos, validated, "field "+cf.path+" ("+typeStr(cf.typ)+") is validated (length / non-zero) before use",
						fmt.Sprintf("%s of type %s declares Validate() but %s neither calls it nor hands the value to Decommit: wrong-length or all-zero values are used", cf.path, typeStr(cf.typ), ri.name))
				}
			}
		}
	}

	// ---- G2: each stored commitment is decommitted in a round method of the same package
	for _, sc := range commits {
		found := false
		where := ""
		for _, ri2 := range rm.rounds {
			if ri2.pkg != sc.ri.pkg {
				continue
			}
			for _, mn := range []string{"StoreBroadcastMessage", "VerifyMessage", "StoreMessage", "Finalize"} {
				f := ri2.methods[mn]
				if f == nil {
					continue
				}
				for _, g := range getGuards(f) {
					if !decHasSuffix(g.decider, "Hash.Decommit") || !guardCoversAccepts(g) {
						continue
					}
					call := condCall(g.cond)
					if call == nil || call.Call.StaticCallee() != decommitFn || len(call.Call.Args) < 2 {
						continue
					}
					if containsField(paramFields(f, call.Call.Args[1]), "recv."+sc.state) {
						found = true
						where = c.FuncName(f)
					}
				}
			}
		}
		r.Check("OB-G2", sc.ri.name+"|"+sc.field+"->"+sc.state, sc.pos, found,
			"commitment "+sc.field+" stored in "+sc.state+" is opened by a gating Decommit ("+where+")",
			fmt.Sprintf("commitment %s is stored in %s but no later round passes it as the commitment argument of a Decommit whose failure rejects: the committed value is never bound", sc.field, sc.state))
	}

	// ---- OB-T inventory
	checkGuardInventory(c, r, "OB-T", "round_guards.json", isProtocolFunc)

	// ---- OB-R
	helperResult := c.LookupMethod("internal/round", "Helper", "ResultRound")
	sigTypes := map[string]bool{"Signature": true}
	for _, ri := range rm.rounds {
		for _, mn := range []string{"Finalize", "StoreMessage"} {
			fn := ri.methods[mn]
			if fn == nil {
				continue
			}
			allInstrs(fn, func(in ssa.Instruction) {
				call, ok := in.(*ssa.Call)
				if !ok || call.Call.StaticCallee() != helperResult || len(call.Call.Args) < 2 {
					return
				}
				res := stripConv(call.Call.Args[1])
				n := namedOf(res.Type())
				if n == nil || !sigTypes[n.Obj().Name()] {
					return
				}
				// a passed Verify whose receiver/argument is res (or the value res was built from)
				ok2 := false
				for _, g := range rejectGuards(fn) {
					if !decHasSuffix(g.decider, ".Verify") || g.iff == nil || g.passBlk == nil {
						continue
					}
					if !(g.passBlk == call.Block() || g.passBlk.Dominates(call.Block())) {
						continue
					}
					vc := condCall(g.cond)
					if vc == nil {
						continue
					}
					for _, a := range vc.Call.Args {
						if sameObject(a, res) {
							ok2 = true
						}
					}
					if vc.Call.IsInvoke() && sameObject(vc.Call.Value, res) {
						ok2 = true
					}
				}
				// doerner round2S: the value was verified in VerifyMessage and stored by StoreMessage
				how := "dominated by a passed Verify on the same value"
				if !ok2 {
					if fld := loadedRecvField(res); fld != "" {
						if vm := ri.methods["VerifyMessage"]; vm != nil || true {
							for _, ri2 := range rm.rounds {
								if ri2.pkg != ri.pkg {
									continue
								}
								vmf, smf := ri2.methods["VerifyMessage"], ri2.methods["StoreMessage"]
								if vmf == nil || smf == nil {
									continue
								}
								verified, stored := false, false
								for _, g := range rejectGuards(vmf) {
									if decHasSuffix(g.decider, ".Verify") && guardCoversAccepts(g) {
										verified = true
									}
								}
								allInstrs(smf, func(x ssa.Instruction) {
									if st, ok := x.(*ssa.Store); ok {
										for _, f := range paramFields(smf, st.Addr) {
											if f == "recv."+fld {
												stored = true
											}
										}
									}
								})
								if verified && stored {
									ok2 = true
									how = "value verified in " + c.FuncName(vmf) + " and stored by StoreMessage (handler order VerifyMessage->StoreMessage, OB-H)"
								}
							}
						}
					}
				}
				r.Check("OB-R", ri.name+"."+mn+"|ResultRound("+n.Obj().Name()+")", c.Pos(call.Pos()), ok2,
					"the signature returned to the user is "+how, "ResultRound is reached with a signature that was not the subject of a passed Verify on this path: an invalid signature can be returned")
			})
		}
	}

	// ---- OB-H
	for _, hn := range []string{"MultiHandler", "TwoPartyHandler"} {
		fn := c.LookupMethod("pkg/protocol", hn, "verifyMessage")
		if fn == nil {
			r.Unresolved("OB-H", "pkg/protocol."+hn+".verifyMessage")
			continue
		}
		r.Analysed(c.FuncName(fn))
		var store *ssa.Call
		allInstrs(fn, func(in ssa.Instruction) {
			if call, ok := in.(*ssa.Call); ok && call.Call.IsInvoke() && call.Call.Method.Name() == "StoreMessage" {
				store = call
			}
		})
		okDec, okVer := false, false
		if store != nil {
			for _, g := range rejectGuards(fn) {
				if g.passBlk == nil || !(g.passBlk == store.Block() || g.passBlk.Dominates(store.Block())) {
					continue
				}
				if strings.Contains(g.decider, "RoundMessage") {
					okDec = true
				}
				if strings.Contains(g.decider, "VerifyMessage") {
					okVer = true
				}
			}
		}
		r.Check("OB-H", "pkg/protocol."+hn+".verifyMessage|store-after-decode", c.Pos(fn.Pos()), store != nil && okDec, "StoreMessage is reached only after the content decoded without error", "StoreMessage is not dominated by the decode check")
		r.Check("OB-H", "pkg/protocol."+hn+".verifyMessage|store-after-verify", c.Pos(fn.Pos()), store != nil && okVer, "StoreMessage is reached only after VerifyMessage returned nil", "StoreMessage is not dominated by the passing edge of VerifyMessage")
	}
	if fn := c.LookupMethod("pkg/protocol", "MultiHandler", "verifyBroadcastMessage"); fn != nil {
		var store *ssa.Call
		allInstrs(fn, func(in ssa.Instruction) {
			if call, ok := in.(*ssa.Call); ok && call.Call.IsInvoke() && call.Call.Method.Name() == "StoreBroadcastMessage" {
				store = call
			}
		})
		okDec := false
		if store != nil {
			for _, g := range rejectGuards(fn) {
				if g.passBlk != nil && (g.passBlk == store.Block() || g.passBlk.Dominates(store.Block())) && strings.Contains(g.decider, "RoundMessage") {
					okDec = true
				}
			}
		}
		r.Check("OB-H", "pkg/protocol.MultiHandler.verifyBroadcastMessage|store-after-decode", c.Pos(fn.Pos()), okDec, "StoreBroadcastMessage is reached only after the content decoded without error", "StoreBroadcastMessage is not dominated by the decode check")
	} else {
		r.Unresolved("OB-H", "verifyBroadcastMessage")
	}

	// ---- OB-H (cont.): one message per slot - a second, different copy must not overwrite per-sender round state
	checkFirstCopyWins(c, r, "OB-H")
	// ---- the echo-broadcast mechanism: equivocating on a reliable broadcast is tampering too (rules of C06)
	runC06(c, r)
	// ---- OB-P: per-party loops of the protocols are complete
	{
		var fns []*ssa.Function
		for _, p := range c.LibPkgs() {
			rel := c.Rel(p.Types)
			if !(strings.HasPrefix(rel, "protocols/") || rel == "internal/round" || rel == "pkg/protocol" || rel == "pkg/math/polynomial" || rel == "pkg/party") {
				continue
			}
			for _, fn := range funcsOfPkg(c, c.SSA[p.Types]) {
				withAnon(fn, func(f *ssa.Function) { fns = append(fns, f) })
			}
		}
		sort.Slice(fns, func(i, j int) bool { return c.FuncName(fns[i]) < c.FuncName(fns[j]) })
		checkPartyLoops(c, r, "OB-P", fns)
	}
	r.Require("OB-P", 30)
	r.Require("OB-G1", 25)
	r.Require("OB-G2", 5)
	r.Require("OB-G3", 8)
	r.Require("OB-T", 150)
	r.Require("OB-R", 4)
	r.Require("OB-H", 7)
}

func returnsBool(f *types.Func) bool {
	sig := f.Type().(*types.Signature)
	if sig.Results().Len() != 1 {
		return false
	}
	b, ok := sig.Results().At(0).Type().Underlying().(*types.Basic)
	return ok && b.Kind() == types.Bool
}

func hasValidate(t types.Type) bool {
	f := methodOfType(t, "Validate")
	if f == nil {
		return false
	}
	sig := f.Type().(*types.Signature)
	return sig.Params().Len() == 0 && sig.Results().Len() == 1 && isErrorType(sig.Results().At(0).Type())
}

func containsField(fields []string, want string) bool {
	for _, f := range fields {
		if f == want || strings.HasPrefix(f, want+".") || strings.HasPrefix(f, want+"[") {
			return true
		}
	}
	return false
}

// condCall digs the call out of a guard condition.
func condCall(v ssa.Value) *ssa.Call {
	for i := 0; i < 6; i++ {
		switch x := v.(type) {
		case *ssa.Call:
			return x
		case *ssa.UnOp:
			v = x.X
		case *ssa.Extract:
			v = x.Tuple
		case *ssa.BinOp:
			if _, isC := x.Y.(*ssa.Const); isC {
				v = x.X
			} else {
				v = x.Y
			}
		default:
			return nil
		}
	}
	return nil
}

// verifyReceiverIs: the receiver (first argument) of the Verify call deciding cond derives from the field `want`.
func verifyReceiverIs(cond ssa.Value, want string, fn *ssa.Function) bool {
	call := condCall(cond)
	if call == nil {
		return false
	}
	var recv ssa.Value
	if call.Call.IsInvoke() {
		recv = call.Call.Value
	} else if len(call.Call.Args) > 0 {
		recv = call.Call.Args[0]
	}
	if recv == nil {
		return false
	}
	return containsField(paramFields(call.Parent(), recv), want)
}

func sameObject(a, b ssa.Value) bool {
	a, b = stripConv(a), stripConv(b)
	if a == b {
		return true
	}
	// loads of the same local
	la, oka := a.(*ssa.UnOp)
	lb, okb := b.(*ssa.UnOp)
	if oka && okb && la.X == lb.X {
		return true
	}
	// pointer to / value of the same alloc
	if oka && la.X == b {
		return true
	}
	if okb && lb.X == a {
		return true
	}
	return false
}

// loadedRecvField: v is a load of receiver field F -> "F".
func loadedRecvField(v ssa.Value) string {
	fa, ok := v.(*ssa.FieldAddr)
	if !ok {
		u, isLoad := v.(*ssa.UnOp)
		if !isLoad {
			return ""
		}
		fa, ok = u.X.(*ssa.FieldAddr)
		if !ok {
			return ""
		}
	}
	if fv := fieldVar(fa.X.Type(), fa.Field); fv != nil {
		return fv.Name()
	}
	return ""
}

// decidedElsewhere: guards whose meaning a dedicated rule decides exactly, for every spelling; the inventory (which can
// only tell that a spelling changed) does not report them.
var decidedElsewhere = map[string]string{
	"internal/bip32.DeriveScalar|>> const != const(uint32)":                        "SPEC-1 hardened-refused",
	"pkg/math/curve.(*Secp256k1Point).UnmarshalBinary|!= const & != const([]byte)": "DEC-1 prefix-refused / prefix-accepted (evaluation over all 256 prefix bytes)",
}

// sameHelperOtherKind: fname names an unexported method pkg.(T).f or function pkg.f that no longer exists while the
// other kind with the same name does (uniquely) in the same package.
func sameHelperOtherKind(fname string, cur map[string]map[string]guard) string {
	dot := strings.LastIndex(fname, ".")
	if dot < 0 || dot+1 >= len(fname) {
		return ""
	}
	base := fname[dot+1:]
	if base[0] < 'a' || base[0] > 'z' {
		return ""
	}
	head := fname[:dot]
	pkg := head
	isMethod := strings.HasSuffix(head, ")")
	if isMethod {
		i := strings.LastIndex(head, ".(")
		if i < 0 {
			return ""
		}
		pkg = head[:i]
	}
	found := ""
	for n := range cur {
		if n == fname || !strings.HasSuffix(n, "."+base) {
			continue
		}
		h2 := n[:len(n)-len(base)-1]
		if isMethod && h2 == pkg {
			if found != "" {
				return ""
			}
			found = n
		}
		if !isMethod && strings.HasPrefix(h2, pkg+".(") && strings.HasSuffix(h2, ")") && !strings.Contains(h2[len(pkg)+2:], "/") {
			if found != "" {
				return ""
			}
			found = n
		}
	}
	return found
}
