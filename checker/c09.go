package main

import (
	"fmt"
	"go/token"
	"go/types"
	"sort"
	"strings"

	"golang.org/x/tools/go/ssa"
)

func init() {
	register("C09", propMeta{
		Explanation: "Session isolation decided structurally. DEP-5: in round.NewSession the session tag is Sum() of a hash state into which the session id, protocol id, group name, sorted participant list, threshold and every auxiliary item were written, each by its own error-checked WriteAny (every field of round.Info is required, SelfID and FinalRoundNumber being the two tabled exceptions). " +
			"START-S2: the NewSession calls of CMP refresh / sign / presign / presign-online pass config, message and presignature id as auxiliary items. CONST-1: protocol-id constants are not shared between packages. " +
			"OB-S4: CanAccept of both handlers keeps its inventoried guards (recipient, protocol id, full SSID comparison, sender membership, data, round window) each covering acceptance, and Accept performs no session action before canAccept passed. ENC-1: participant list / threshold / config writers are injective (shared with C19). " +
			"OB-S6: in the multi-party rounds every verifier-side proof/commitment check takes its hash from HashForID(msg.From) and every prover-side NewProof/Commit from HashForID(SelfID()). NOT decided: hash collision resistance.",
		Trusted:     commonTrusted,
		Assumptions: []string{"hash collision resistance"},
	}, runC09)
}

// infoExempt: fields of round.Info that are deliberately not part of the tag.
var infoExempt = map[string]string{
	"SelfID":           "differs per party by design; all parties of one session must share the tag",
	"FinalRoundNumber": "a constant of the protocol, implied by ProtocolID",
}

// auxRequired: start function -> parameters that must reach NewSession's auxiliary items
var auxRequired = map[string][]string{
	"protocols/cmp/keygen.Start$1":               {"Config"},
	"protocols/cmp/sign.StartSign$1":             {"Config", "[]byte"},
	"protocols/cmp/presign.StartPresign$1":       {"Config", "[]byte"},
	"protocols/cmp/presign.StartPresignOnline$1": {"Config", "PreSignature", "[]byte"},
}

func runC09(c *Ctx, r *Run) {
	checkSinkAccumulates(c, r, "SINK-1")
	checkResultsUsed(c, r, "USE-1", 100)
	r.Rule("ENC-2", "the writers that bind session and party identity (ID, IDSlice, RID, Config, ...) are total on their type")
	r.Rule("START-S3", "every start closure hands the caller's session identifier itself (its bytes) to round.NewSession")
	r.Rule("FS-7", "the types written into the session tag hash every one of their (public) fields")
	r.Rule("DEP-5", "tag completeness: every field of round.Info (bar the two tabled exceptions), the session id and every auxiliary item are written, error-checked, into the hash whose Sum() becomes the SSID")
	r.Rule("START-S2", "key-material binding: CMP refresh/sign/presign/online pass config, message and presignature id to NewSession")
	r.Rule("CONST-1", "protocol-id constants are distinct across protocol packages")
	r.Rule("OB-S4", "header filter: CanAccept keeps every inventoried guard (each covering acceptance); Accept acts only after canAccept passed")
	r.Rule("ENC-1", "writers that feed the session tag (participant list, threshold, config, RID) are injective (same rule as C19)")
	r.Rule("OB-S6", "per-party Fiat-Shamir context: verifier side uses HashForID(msg.From), prover side HashForID(SelfID())")

	// ---- DEP-5
	ns := c.LookupFunc("internal/round", "NewSession")
	infoN := c.LookupNamed("internal/round", "Info")
	helperN := c.LookupNamed("internal/round", "Helper")
	if ns == nil || infoN == nil || helperN == nil {
		r.Unresolved("DEP-5", "internal/round.NewSession / Info / Helper")
	} else {
		r.Analysed(c.FuncName(ns))
		// ssid store
		var ssidVal ssa.Value
		allInstrs(ns, func(in ssa.Instruction) {
			st, ok := in.(*ssa.Store)
			if !ok {
				return
			}
			fa, ok := st.Addr.(*ssa.FieldAddr)
			if !ok || namedOf(fa.X.Type()) != helperN {
				return
			}
			if fv := fieldVar(fa.X.Type(), fa.Field); fv != nil && fv.Name() == "ssid" {
				ssidVal = st.Val
			}
		})
		var hroot ssa.Value
		var snapshot ssa.Instruction // the instruction that freezes the state the ssid is computed from
		if ssidVal != nil {
			// Sum(Clone(h)) or Sum(h)
			if sc, ok := ssidVal.(*ssa.Call); ok && sc.Call.StaticCallee() != nil && sc.Call.StaticCallee().Name() == "Sum" {
				hroot = sc.Call.Args[0]
				snapshot = sc
				if cc, ok := hroot.(*ssa.Call); ok && cc.Call.StaticCallee() != nil && cc.Call.StaticCallee().Name() == "Clone" {
					hroot = cc.Call.Args[0]
					snapshot = cc
				}
			}
		}
		// a write counts only if it happens before the snapshot on every path (it cannot follow it)
		beforeSnapshot := func(in ssa.Instruction) bool {
			if snapshot == nil {
				return false
			}
			if in.Block() == snapshot.Block() {
				return instrDominates(in, snapshot)
			}
			return blockReaches(in.Block(), snapshot.Block()) && !blockReaches(snapshot.Block(), in.Block())
		}
		r.Check("DEP-5", "internal/round.NewSession|ssid-is-hash-of-state", c.Pos(ns.Pos()), hroot != nil, "Helper.ssid is Sum() of the session hash state", "ssid is not derived as Sum() of the hash state")
		written := map[string]bool{}
		checked := map[string]bool{}
		var late []string
		if hroot != nil {
			allInstrs(ns, func(in ssa.Instruction) {
				call, ok := in.(*ssa.Call)
				if !ok || call.Call.StaticCallee() == nil || call.Call.StaticCallee().Name() != "WriteAny" || call.Call.Args[0] != hroot {
					return
				}
				errChecked := false
				for _, ref := range *call.Referrers() {
					switch ref.(type) {
					case *ssa.BinOp, *ssa.Store:
						errChecked = true
					}
				}
				if !beforeSnapshot(call) {
					late = append(late, c.Pos(call.Pos()))
					return
				}
				for _, f := range paramFields(ns, call.Call.Args[1]) {
					written[f] = true
					if errChecked {
						checked[f] = true
					}
				}
			})
		}
		r.Check("DEP-5", "internal/round.NewSession|nothing-written-after-the-tag", c.Pos(ns.Pos()), len(late) == 0, "every write into the session hash precedes the snapshot the ssid is computed from",
			"the ssid is computed before the write(s) at "+strings.Join(late, ", ")+": what they bind (key material, message, presignature id) is missing from the tag carried by every message, so sessions differing only in it accept each other's messages")
		st := infoN.Underlying().(*types.Struct)
		for i := 0; i < st.NumFields(); i++ {
			fn := st.Field(i).Name()
			if why, ex := infoExempt[fn]; ex {
				r.Hold("DEP-5", "internal/round.NewSession|Info."+fn+"|exempt", c.Pos(ns.Pos()), "not part of the tag: "+why)
				continue
			}
			ok := false
			for w := range checked {
				if w == "Info."+fn || strings.HasPrefix(w, "Info."+fn+".") {
					ok = true
				}
			}
			d := "Info." + fn + " is not written into the session hash (with its error checked): two sessions differing only in " + fn + " share a tag and accept each other's messages"
			r.Check("DEP-5", "internal/round.NewSession|Info."+fn, c.Pos(ns.Pos()), ok, "Info."+fn+" is bound into the session tag", d)
		}
		for _, p := range []string{"[]byte", "[]WriterToWithDomain"} {
			r.Check("DEP-5", "internal/round.NewSession|param "+p, c.Pos(ns.Pos()), checked[p], "parameter "+p+" (session id / auxiliary items) is bound into the session tag", "parameter "+p+" does not reach the session hash")
		}
	}

	// ---- START-S2 and CONST-1
	nsCalls := 0
	auxGot := map[string]map[string]bool{}
	auxPos := map[string]string{}
	ids := map[string]map[string]bool{} // constant -> packages
	for _, p := range c.LibPkgs() {
		rel := c.Rel(p.Types)
		if !strings.HasPrefix(rel, "protocols/") {
			continue
		}
		for _, fn := range funcsOfPkg(c, c.SSA[p.Types]) {
			fn := fn
			allInstrs(fn, func(in ssa.Instruction) {
				// protocol id constants
				if st, ok := in.(*ssa.Store); ok {
					if fa, ok := st.Addr.(*ssa.FieldAddr); ok && namedOf(fa.X.Type()) == infoN {
						if fv := fieldVar(fa.X.Type(), fa.Field); fv != nil && fv.Name() == "ProtocolID" {
							if s, ok := constString(st.Val); ok {
								if ids[s] == nil {
									ids[s] = map[string]bool{}
								}
								ids[s][rel] = true
							} else if ph, isPhi := st.Val.(*ssa.Phi); isPhi && allConstStrings(ph) {
								// one of several constants, chosen by a branch (offline / online variant)
								for _, e := range ph.Edges {
									s, _ := constString(e)
									if ids[s] == nil {
										ids[s] = map[string]bool{}
									}
									ids[s][rel] = true
								}
							} else {
								r.Fail("CONST-1", c.FuncName(fn)+"|protocol-id-constant", c.Pos(st.Pos()), "ProtocolID is a constant", "ProtocolID is computed: "+path(st.Val))
							}
						}
					}
				}
				call, ok := in.(*ssa.Call)
				if !ok || call.Call.StaticCallee() != ns || ns == nil {
					return
				}
				nsCalls++
				name := c.FuncName(fn)
				if _, has := auxRequired[name]; !has {
					return
				}
				r.Analysed(name)
				for _, g := range paramFields(fn, call.Call.Args[len(call.Call.Args)-1]) {
					base := strings.SplitN(g, ".", 2)[0]
					base = strings.TrimPrefix(base, "free:")
					if i := strings.IndexByte(base, '#'); i > 0 {
						base = base[:i]
					}
					if auxGot[name] == nil {
						auxGot[name] = map[string]bool{}
					}
					// the config must be hashed as a whole (its writer covers every party's public data): data derived from
					// it (the group key, say) does not separate two epochs of one key
					if base == "Config" && strings.TrimPrefix(g, "free:") != "Config" {
						continue
					}
					auxGot[name][base] = true
					auxPos[name] = c.Pos(call.Pos())
				}
			})
		}
	}
	for name, req := range auxRequired {
		for _, want := range req {
			pos := auxPos[name]
			if pos == "" {
				r.Unresolved("START-S2", name)
				continue
			}
			r.Check("START-S2", name+"|aux "+want, pos, auxGot[name][want], want+" is passed to NewSession as an auxiliary item (bound into the tag)",
				fmt.Sprintf("no NewSession call in %s carries %s among its auxiliary items: sessions over different %s share a tag", name, want, want))
		}
	}
	consts := make([]string, 0, len(ids))
	for s := range ids {
		consts = append(consts, s)
	}
	sort.Strings(consts)
	for _, s := range consts {
		var pk []string
		for p := range ids[s] {
			pk = append(pk, p)
		}
		sort.Strings(pk)
		// cmp.go sets ids for the keygen package it drives: treat protocols/cmp and protocols/cmp/keygen as one family
		fam := map[string]bool{}
		for _, p := range pk {
			fam[p] = true
		}
		r.Check("CONST-1", "protocol-id "+s, pk[0], len(fam) == 1, fmt.Sprintf("protocol id %q is used by one package only (%s)", s, strings.Join(pk, ", ")),
			fmt.Sprintf("protocol id %q is assigned in several packages (%s): with equal session id and parties their sessions share a tag", s, strings.Join(pk, ", ")))
	}
	r.Note("NewSession call sites: %d; protocol id constants: %d", nsCalls, len(consts))

	// ---- OB-S4
	checkGuardInventory(c, r, "OB-S4", "round_guards.json", func(n string) bool {
		return strings.HasSuffix(n, ".canAccept") || strings.HasSuffix(n, "(Message).IsFor")
	})
	for _, hn := range []string{"MultiHandler", "TwoPartyHandler"} {
		acc := c.LookupBody("pkg/protocol", hn, "Accept")
		if acc == nil {
			r.Unresolved("OB-S4", "pkg/protocol."+hn+".Accept")
			continue
		}
		H := c.LookupNamed("pkg/protocol", hn)
		m := newLockModel(c, H)
		bad := ""
		allInstrs(acc, func(in ssa.Instruction) {
			eff := false
			switch x := in.(type) {
			case *ssa.MapUpdate:
				eff = true
			case *ssa.Call:
				if cal := x.Call.StaticCallee(); cal != nil && cal.Signature.Recv() != nil && namedOf(cal.Signature.Recv().Type()) == H {
					switch canonFnName(cal) {
					case "canAccept", "duplicate", "CanAccept":
					default:
						if m == nil || !(m.isLock(acc, in) || m.isUnlock(acc, in)) {
							eff = true
						}
					}
				}
			}
			if !eff {
				return
			}
			ok, _ := callResultEdgeDominates(acc, "canAccept", true, in.Block())
			if !ok {
				bad = c.Pos(in.Pos())
			}
		})
		r.Check("OB-S4", "pkg/protocol."+hn+".Accept|acts-only-after-canAccept", c.Pos(acc.Pos()), bad == "", "every session action of Accept is dominated by canAccept(msg) == true", "action at "+bad+" is reachable without canAccept having passed: a foreign-session message changes state")
	}

	// ---- ENC-1 (shared)
	impls := writerImplementers(c)
	var sub []writerImpl
	for _, w := range impls {
		switch c.ObjName(w.named.Obj()) {
		case "pkg/party.IDSlice", "pkg/party.ID", "internal/types.ThresholdWrapper", "protocols/cmp/config.Config", "protocols/cmp/config.Public", "internal/types.RID", "internal/types.SigningMessage", "pkg/hash.BytesWithDomain":
			sub = append(sub, w)
		}
	}
	sr := NewRun("tmp", r.Tier)
	checkWriterShapes(c, sr, impls)
	want := map[string]bool{}
	for _, w := range sub {
		want[c.ObjName(w.named.Obj())+".WriteTo"] = true
	}
	for _, o := range sr.Obs {
		if o.Rule == "ENC-1" && want[o.Key] {
			r.Check("ENC-1", o.Key, o.Pos, o.Held, o.Desc, o.Detail)
		}
	}

	// ---- OB-S6
	rm := getRoundModel(c)
	hashNamed := c.LookupNamed("pkg/hash", "Hash")
	nV, nP := 0, 0
	for _, ri := range rm.rounds {
		if strings.Contains(ri.rel, "doerner") {
			continue // two-party: one peer, context is the session hash
		}
		for mn, fn := range ri.methods {
			if fn == nil {
				continue
			}
			verifierSide := mn == "VerifyMessage" || mn == "StoreMessage" || mn == "StoreBroadcastMessage"
			proverSide := mn == "Finalize"
			if !verifierSide && !proverSide {
				continue
			}
			withAnon(fn, func(f *ssa.Function) {
				allInstrs(f, func(in ssa.Instruction) {
					call, ok := in.(*ssa.Call)
					if !ok {
						return
					}
					o := calleeObj(call)
					if o == nil {
						return
					}
					isVerify := o.Name() == "Verify" || o.Name() == "Decommit"
					isProve := o.Name() == "NewProof" || o.Name() == "Commit" || o.Name() == "Prove" || strings.HasPrefix(o.Name(), "Prove")
					if !(verifierSide && isVerify) && !(proverSide && isProve) {
						return
					}
					// the *hash.Hash argument (receiver for Decommit/Commit)
					var harg ssa.Value
					for _, a := range call.Call.Args {
						if namedOf(a.Type()) == hashNamed {
							harg = a
							break
						}
					}
					if harg == nil {
						return
					}
					// prover idiom: h := r.Hash(); h.WriteAny(..., r.SelfID()); use h / h.Clone()
					if proverSide {
						root := harg
						for i := 0; i < 4; i++ {
							if cc, ok := root.(*ssa.Call); ok && cc.Call.StaticCallee() != nil && cc.Call.StaticCallee().Name() == "Clone" {
								root = cc.Call.Args[0]
							}
						}
						if rc, ok := root.(*ssa.Call); ok && rc.Call.StaticCallee() != nil && rc.Call.StaticCallee().Name() == "Hash" {
							bound := false
							for _, ref := range *rc.Referrers() {
								wc, ok := ref.(*ssa.Call)
								if !ok || wc.Call.StaticCallee() == nil || wc.Call.StaticCallee().Name() != "WriteAny" || wc.Call.Args[0] != ssa.Value(rc) {
									continue
								}
								if !instrDominates(wc, call) {
									continue
								}
								for _, fl := range paramFields(f, wc.Call.Args[1]) {
									if strings.HasSuffix(fl, ".SelfID()") {
										bound = true
									}
								}
							}
							nP++
							r.Check("OB-S6", c.FuncName(f)+"|"+shortFuncName(o)+" context @Hash()+SelfID()", c.Pos(call.Pos()), bound,
								"context of "+shortFuncName(o)+" is the session hash extended with SelfID() (same state as HashForID(self) at the verifier)",
								"context of "+shortFuncName(o)+" is the bare session hash: the proof is not bound to its prover and can be replayed under another sender's name")
							return
						}
					}
					hc, isCall := harg.(*ssa.Call)
					key := c.FuncName(f) + "|" + shortFuncName(o) + " context"
					if !isCall || hc.Call.StaticCallee() == nil || hc.Call.StaticCallee().Name() != "HashForID" {
						// abort rounds / helper functions take the hash as a parameter: accept if it is a parameter
						if _, isParam := harg.(*ssa.Parameter); isParam {
							return
						}
						if verifierSide {
							nV++
						} else {
							nP++
						}
						r.Fail("OB-S6", key, c.Pos(call.Pos()), "the Fiat-Shamir / commitment context is HashForID(<party>)", "context hash is "+path(harg)+", not HashForID(party): proofs are not bound to their prover")
						return
					}
					idf := paramFields(f, hc.Call.Args[1])
					okID := false
					wantS := ""
					if verifierSide {
						nV++
						wantS = "Message.From"
						okID = len(idf) == 1 && idf[0] == "Message.From"
					} else {
						nP++
						wantS = "recv.SelfID()"
						okID = len(idf) == 1 && (idf[0] == "recv.SelfID()" || strings.HasSuffix(idf[0], ".SelfID()"))
					}
					r.Check("OB-S6", key+" @"+strings.Join(idf, "+"), c.Pos(call.Pos()), okID,
						"context of "+shortFuncName(o)+" is HashForID("+wantS+")",
						fmt.Sprintf("context of %s is HashForID(%s), expected HashForID(%s): a proof/commitment made by (or for) another party verifies here", shortFuncName(o), strings.Join(idf, "+"), wantS))
				})
			})
		}
	}
	r.Note("OB-S6: %d verifier-side and %d prover-side context uses", nV, nP)

	checkWritersTotal(c, r, "ENC-2", writerImplementers(c))
	checkWritersComplete(c, r, "FS-7", writerImplementers(c))
	r.Require("FS-7", 20)
	checkSessionIDForwarded(c, r, "START-S3")
	r.Require("START-S3", 8)
	r.Require("ENC-2", 15)
	r.Require("DEP-5", 8)
	r.Require("START-S2", 8)
	r.Require("CONST-1", 9)
	r.Require("OB-S4", 16)
	r.Require("ENC-1", 6)
	r.Require("OB-S6", 40)
}

// contentFrom: v carries the bytes of src: it is src (or a slice of it), or a buffer filled by copy(v, src) /
// append(v, src...) on every path before `at`. A buffer that only has src's LENGTH does not count.
func contentFrom(v, src ssa.Value, at ssa.Instruction) bool {
	v = stripConv(v)
	if v == src {
		return true
	}
	switch x := v.(type) {
	case *ssa.Slice:
		return contentFrom(x.X, src, at)
	case *ssa.UnOp:
		if x.Op == token.MUL {
			if a, ok := x.X.(*ssa.Alloc); ok {
				if sv := singleStore(a); sv != nil {
					return contentFrom(sv, src, at)
				}
			}
		}
	case *ssa.Call:
		if bi, ok := x.Call.Value.(*ssa.Builtin); ok && bi.Name() == "append" {
			for _, a := range x.Call.Args {
				if contentFrom(a, src, at) {
					return true
				}
			}
		}
	case *ssa.Phi:
		// every path carries the bytes
		for _, e := range x.Edges {
			if e != ssa.Value(x) && !contentFrom(e, src, at) {
				return false
			}
		}
		return len(x.Edges) > 0
	case *ssa.MakeSlice, *ssa.Alloc:
		// a destination of length zero receives nothing from copy (make([]byte, 0, n) has room, not length)
		if ms, ok := v.(*ssa.MakeSlice); ok {
			if k, isK := constInt(ms.Len); isK && k == 0 {
				return false
			}
		}
		// copy(v[..], src) that dominates `at`
		found := false
		walkUses(v, 3, func(in ssa.Instruction) {
			call, ok := in.(*ssa.Call)
			if !ok {
				return
			}
			if bi, ok := call.Call.Value.(*ssa.Builtin); ok && bi.Name() == "copy" && len(call.Call.Args) == 2 {
				if contentFrom(call.Call.Args[1], src, call) && instrDominates(call, at) {
					found = true
				}
			}
		})
		return found
	}
	return false
}

// checkSessionIDForwarded: the session identifier the caller supplies is the one that reaches round.NewSession.
func checkSessionIDForwarded(c *Ctx, r *Run, rule string) {
	ns := c.LookupFunc("internal/round", "NewSession")
	if ns == nil {
		r.Unresolved(rule, "internal/round.NewSession")
		return
	}
	// the handler constructors hand the identifier on to the start function
	for _, cn := range []string{"NewMultiHandler", "NewTwoPartyHandler"} {
		fn := c.LookupFunc("pkg/protocol", cn)
		if fn == nil {
			r.Unresolved(rule, "pkg/protocol."+cn)
			continue
		}
		var sid ssa.Value
		for _, p := range fn.Params {
			if sl, ok := p.Type().Underlying().(*types.Slice); ok {
				if b, isB := sl.Elem().Underlying().(*types.Basic); isB && b.Kind() == types.Byte {
					sid = p
				}
			}
		}
		if sid == nil {
			r.Unresolved(rule, "pkg/protocol."+cn+" session id parameter")
			continue
		}
		allInstrs(fn, func(in ssa.Instruction) {
			call, ok := in.(*ssa.Call)
			if !ok || call.Call.IsInvoke() || call.Call.StaticCallee() != nil || len(call.Call.Args) != 1 {
				return
			}
			if _, isP := call.Call.Value.(*ssa.Parameter); !isP {
				return
			}
			r.Analysed(c.FuncName(fn))
			ok2 := contentFrom(call.Call.Args[0], sid, call)
			r.Check(rule, c.FuncName(fn)+"|session id handed to the start function", c.Pos(call.Pos()), ok2, "the start function receives the caller's session identifier (its bytes)",
				"the start function receives "+path(call.Call.Args[0])+", which does not carry the bytes of the constructor's sessionID parameter on every path (a copy into a zero-length buffer copies nothing): sessions started with different identifiers share tag, transcript and derived nonces")
		})
	}
	for _, sf := range startFuncs(c) {
		if sf.Parent() == nil || len(sf.Params) != 1 {
			continue // the closure func(sessionID []byte) (round.Session, error)
		}
		sid := ssa.Value(sf.Params[0])
		allInstrs(sf, func(in ssa.Instruction) {
			call, ok := in.(*ssa.Call)
			if !ok || call.Call.StaticCallee() != ns || len(call.Call.Args) < 2 {
				return
			}
			r.Analysed(c.FuncName(sf))
			ok2 := contentFrom(call.Call.Args[1], sid, call)
			r.Check(rule, c.FuncName(sf)+"|session id forwarded", c.Pos(call.Pos()), ok2, "the caller's session identifier (its bytes) is what NewSession hashes into the tag",
				"NewSession receives "+path(call.Call.Args[1])+", which does not carry the bytes of the closure's sessionID parameter (at most its length): sessions started with different identifiers share tag, transcript and derived nonces")
		})
	}
}

func allConstStrings(ph *ssa.Phi) bool {
	for _, e := range ph.Edges {
		if _, ok := constString(e); !ok {
			return false
		}
	}
	return len(ph.Edges) > 0
}
