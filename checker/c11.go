package main

import (
	"fmt"
	"strings"

	"golang.org/x/tools/go/ssa"
)

func init() {
	register("C11", propMeta{
		Explanation: "A dependency property decided by a conservative may-depend analysis with object-level effects on SSA (a hasher depends on what was written into it before its digest is taken; a buffer on what filled it). " +
			"DEP-N1: in FROST round1.Finalize both published nonce commitments D_i and E_i must-depend on (a) the signer's secret share (through the hash key), (b) the session hash (Hash(): session id, protocol variant, signer set), (c) the message, (d) fresh system randomness; a value is reported missing when no dependency path exists at all — 'written into a hasher that is never read' or 'written after the digest' do not count. " +
			"DEP-N2: in taproot SecretKey.Sign the nonce depends on the secret key, the message, the public key and the auxiliary value, which is filled from the caller's reader when present and from the process-wide atomic counter otherwise (both branches). DEP-N3: neither nonce is read from, or cached in, a package-level variable. NOT decided: that the hash behaves as a PRF.",
		Trusted:     append([]string{"effect summaries of blake3.Hasher.Write/Digest, blake3.DeriveKey, blake3.NewKeyed, crypto/rand.Read, io.ReadFull, binary.PutUint64, sync/atomic (dep.go)"}, commonTrusted...),
		Assumptions: []string{"the keyed hash is a PRF"},
	}, runC11)
}

func runC11(c *Ctx, r *Run) {
	checkSinkAccumulates(c, r, "SINK-1")
	checkResultsUsed(c, r, "USE-1", 100)
	r.Rule("DEP-N1", "FROST nonces: D_i and E_i depend on the secret share, the session hash, the message and fresh randomness")
	r.Rule("DEP-N2", "BIP-340 nonce: depends on secret key, message, public key and aux (reader or atomic counter)")
	r.Rule("START-S3", "the session identifier that separates two signing sessions reaches the session hash the nonces are derived from")
	r.Rule("SPEC-TH", "TaggedHash streams SHA256(tag) twice and then every data field, whole, into one SHA-256")
	r.Rule("ENC-1", "the writers behind the session hash (participant list, identifiers, key material) have an injective layout")
	r.Rule("DEP-N3", "no nonce is taken from or cached in package-level state")

	// ---- FROST
	fin := c.LookupMethod("protocols/frost/sign", "round1", "Finalize")
	if fin == nil {
		r.Unresolved("DEP-N1", "protocols/frost/sign.(*round1).Finalize")
	} else {
		r.Analysed(c.FuncName(fin))
		// the values stored into the outgoing broadcast's D_i / E_i
		found := 0
		allInstrs(fin, func(in ssa.Instruction) {
			st, ok := in.(*ssa.Store)
			if !ok {
				return
			}
			fa, ok := st.Addr.(*ssa.FieldAddr)
			if !ok {
				return
			}
			fv := fieldVar(fa.X.Type(), fa.Field)
			if fv == nil || (fv.Name() != "D_i" && fv.Name() != "E_i") || !strings.HasPrefix(shortType(fa.X.Type()), "broadcast") {
				return
			}
			found++
			d := newDep(fin, st)
			ls := d.labels(st.Val)
			for _, req := range [][2]string{{"recv.s_i", "the signer's secret share"}, {"recv.Hash()", "the session hash (session id, protocol, signer set)"}, {"recv.M", "the message"}, {"RANDOM", "fresh system randomness"}} {
				ok := false
				for _, l := range ls {
					if l == req[0] || strings.HasPrefix(l, req[0]+".") {
						ok = true
					}
				}
				r.Check("DEP-N1", "protocols/frost/sign.(*round1).Finalize|"+fv.Name()+" <- "+req[0], c.Pos(st.Pos()), ok,
					"published commitment "+fv.Name()+" depends on "+req[1],
					fmt.Sprintf("no dependency path from %s to the published nonce commitment %s (it depends on: %s): two signing attempts differing only in %s publish the same nonce when the random source repeats, which leaks the share", req[1], fv.Name(), strings.Join(ls, ", "), req[1]))
			}
		})
		if found < 2 {
			r.Fail("DEP-N1", "protocols/frost/sign.(*round1).Finalize|commitments", c.Pos(fin.Pos()), "D_i and E_i of the outgoing broadcast located", fmt.Sprintf("%d found", found))
		}
	}

	// ---- taproot
	sign := c.LookupMethod("pkg/taproot", "SecretKey", "Sign")
	if sign == nil {
		r.Unresolved("DEP-N2", "pkg/taproot.(SecretKey).Sign")
	} else {
		r.Analysed(c.FuncName(sign))
		// R = k.ActOnBase(): k is the nonce
		var kUse *ssa.Call
		allInstrs(sign, func(in ssa.Instruction) {
			call, ok := in.(*ssa.Call)
			if !ok {
				return
			}
			if o := calleeObj(call); o != nil && o.Name() == "ActOnBase" {
				kUse = call // the last ActOnBase is on the nonce (the first is on the key)
			}
		})
		if kUse == nil {
			r.Fail("DEP-N2", "pkg/taproot.(SecretKey).Sign|nonce", c.Pos(sign.Pos()), "nonce located (receiver of the last ActOnBase)", "not found")
		} else {
			var k ssa.Value
			if kUse.Call.IsInvoke() {
				k = kUse.Call.Value
			} else {
				k = kUse.Call.Args[0]
			}
			d := newDep(sign, kUse)
			ls := d.labels(k)
			for _, req := range [][2]string{{"recv", "the secret key"}, {"[]byte", "the message"}, {"Reader", "the caller's randomness"}, {"COUNTER", "the process-wide atomic counter (no-randomness branch)"}} {
				ok := false
				for _, l := range ls {
					if l == req[0] || strings.HasPrefix(l, req[0]+".") {
						ok = true
					}
				}
				r.Check("DEP-N2", "pkg/taproot.(SecretKey).Sign|nonce <- "+req[0], c.Pos(kUse.Pos()), ok, "the BIP-340 nonce depends on "+req[1],
					fmt.Sprintf("no dependency path from %s to the nonce (it depends on: %s)", req[1], strings.Join(ls, ", ")))
			}
		}
	}

	// ---- DEP-N3: no package-level variable feeds or stores nonces
	for _, fn := range []*ssa.Function{fin, sign} {
		if fn == nil {
			continue
		}
		bad := ""
		allInstrs(fn, func(in ssa.Instruction) {
			if st, ok := in.(*ssa.Store); ok {
				if g, ok := st.Addr.(*ssa.Global); ok {
					bad = "store to package variable " + g.Name() + " at " + c.Pos(st.Pos())
				}
			}
			if u, ok := in.(*ssa.UnOp); ok {
				if g, ok := u.X.(*ssa.Global); ok && g.Pkg == fn.Pkg && !strings.Contains(g.Name(), "Counter") && !strings.HasPrefix(g.Name(), "init$") && !isErrorType(derefType(g.Type())) {
					bad = "read of package variable " + g.Name() + " at " + c.Pos(u.Pos())
				}
			}
		})
		r.Check("DEP-N3", c.FuncName(fn)+"|no-package-state", c.Pos(fn.Pos()), bad == "", "nonce generation uses no package-level state besides the atomic counter", bad+": a nonce (or its inputs) outlives the call and can be reused")
	}

	r.Require("DEP-N1", 8)
	r.Require("DEP-N2", 4)
	// the session hash separates signer sets only if the participant list is written injectively
	checkWriterShapes(c, r, writerImplementers(c))
	r.Require("ENC-1", 17)
	// the BIP-340 nonce absorbs the whole message only if the tagged hash absorbs all of its data
	checkTaggedHashShapeAs(c, r, "SPEC-TH")
	r.Require("SPEC-TH", 4)
	checkSessionIDForwarded(c, r, "START-S3")
	r.Require("START-S3", 8)
	r.Require("DEP-N3", 2)
	// the session hash the nonces are derived from separates protocol variants, curves, signer sets and thresholds only
	// if NewSession writes each of them (rule shared with C09)
	r.Rule("DEP-5", "tag completeness: every field of round.Info, the session id and every auxiliary item are written into the session hash")
	sub := NewRun("tmp", r.Tier)
	runC09(c, sub)
	for _, o := range sub.Obs {
		if o.Rule == "DEP-5" {
			r.Check("DEP-5", o.Key, o.Pos, o.Held, o.Desc, o.Detail)
		}
	}
	r.Require("DEP-5", 6)
}
