package main

import (
	"fmt"
	"go/token"
	"sort"
	"strings"

	"golang.org/x/tools/go/ssa"
)

func init() {
	register("C01", propMeta{
		Explanation: "The property (every returned signature is valid under an independent verifier, all parties agree, honest sessions complete) quantifies over whole protocol runs and run-time arithmetic; it is NOT decided as stated. Decided are the structural links that turn it into properties checked elsewhere, plus the places where a mistake is shared by signer and verifier and therefore invisible to self-comparing tests: " +
			"OB-R1: every signature handed to ResultRound was, on that very path, the subject of a passed Verify whose key argument is the session's group key and whose message argument is the session's message (so an invalid signature can only end in an abort; with C16 deciding the structure of those Verify routines). " +
			"LAG-1/2/3: Lagrange coefficients are computed over the session's signer set (never over all key holders); every coefficient is paired with the share of the same party (lagrange[j] with Public[j], the self coefficient with the own secret share); the session's group key is the sum of all scaled public shares over the session's parties. " +
			"FH-1: hash-to-scalar keeps the leftmost order-many bits: the bit excess is computed from the length of the very byte slice that is converted (after truncation), and every ECDSA path (signer shares, presignature shares, share blame, verifier, Doerner) converts the digest with that one function. " +
			"SPEC-F: the FROST-Taproot challenge uses the BIP-340 tag with (R.x, P.x, m) in that order; when R has odd Y the signer negates both nonces and every nonce share, when the group key has odd Y key generation negates the own share and every verification share. " +
			"RG-1/RG-2: message contents are numbered like the round that consumes them and the final round number of every start function admits every reachable round, without which an all-honest session cannot complete. NOT decided: the MtA/OT arithmetic, correctness of the Lagrange formula itself, agreement of results between parties.",
		Trusted:     append([]string{"C16 rules for the structure of the library verifiers", "dep.go effect summaries"}, commonTrusted...),
		Assumptions: []string{"arithmetic of the protocols is as published; only wiring, pairing, ordering and presence are decided"},
	}, runC01)
}

func runC01(c *Ctx, r *Run) {
	r.Rule("OB-R1", "every returned signature passed Verify(session group key, session message) on the returning path")
	r.Rule("LAG-1", "Lagrange coefficients are computed over the session's signer set")
	r.Rule("LAG-2", "each Lagrange coefficient multiplies the share of the same party")
	r.Rule("LAG-4", "coefficients computed over a domain are consumed over that whole domain, never over a sub-slice")
	r.Rule("LAG-3", "the session's group key is the sum over the session's parties of the scaled public shares")
	r.Rule("FH-1", "hash-to-scalar: excess bits from the converted slice; one conversion function on every ECDSA path")
	r.Rule("SPEC-F", "FROST-Taproot: BIP-340 challenge fields and the even-Y negation sets")
	r.Rule("ALIAS-S", "signing never rewrites stored key material or presignatures: in-place scalar operations only on fresh objects")
	r.Rule("RG-1", "content RoundNumber() equals the consuming round's Number()")
	r.Rule("RG-2", "every start function's FinalRoundNumber admits every round reachable from its first round")

	checkResultVerified(c, r)
	checkLagrange(c, r)
	checkFromHash(c, r)
	checkFrostTaproot(c, r)
	checkRoundWindow(c, r)

	// ALIAS-S: signing reads long-lived material (configurations, presignatures) and must not rewrite it in place:
	// the scalars' Add/Mul/Negate/... mutate their receiver, so each such call must act on an object created in the
	// function (or on round state whose every origin is fresh)
	{
		var fns []*ssa.Function
		for _, k := range []struct{ rel, name string }{{"pkg/ecdsa", "PreSignature"}, {"pkg/ecdsa", "Signature"}, {"protocols/cmp/config", "Config"},
			{"protocols/frost/keygen", "Config"}, {"protocols/frost/keygen", "TaprootConfig"}, {"protocols/doerner/keygen", "ConfigReceiver"}, {"protocols/doerner/keygen", "ConfigSender"}} {
			T := c.LookupNamed(k.rel, k.name)
			if T == nil {
				r.Unresolved("ALIAS-S", k.rel+"."+k.name)
				continue
			}
			for i := 0; i < T.NumMethods(); i++ {
				if fn := c.Prog.FuncValue(T.Method(i)); fn != nil && len(fn.Blocks) > 0 && T.Method(i).Name() != "SigEthereum" {
					fns = append(fns, fn)
				}
			}
		}
		for _, ri := range getRoundModel(c).rounds {
			if !strings.Contains(ri.rel, "sign") {
				continue
			}
			for _, mn := range []string{"Finalize", "StoreMessage", "StoreBroadcastMessage", "VerifyMessage"} {
				if f := ri.methods[mn]; f != nil {
					fns = append(fns, f)
				}
			}
		}
		for _, sf := range startFuncs(c) {
			if strings.Contains(c.FuncName(sf), "sign") {
				fns = append(fns, sf)
			}
		}
		// every other function of the signing packages (helpers a mutation could be moved into)
		have := map[*ssa.Function]bool{}
		for _, f := range fns {
			have[f] = true
		}
		for _, p := range c.LibPkgs() {
			rel := c.Rel(p.Types)
			if !(strings.HasPrefix(rel, "protocols/") && strings.Contains(rel, "sign")) && rel != "pkg/ecdsa" {
				continue
			}
			for _, fn := range funcsOfPkg(c, c.SSA[p.Types]) {
				withAnon(fn, func(f *ssa.Function) {
					if !have[f] && f.Name() != "SigEthereum" {
						have[f] = true
						fns = append(fns, f)
					}
				})
			}
		}
		sort.Slice(fns, func(i, j int) bool { return c.FuncName(fns[i]) < c.FuncName(fns[j]) })
		for _, f := range fns {
			r.Analysed(c.FuncName(f))
		}
		checkAlias(c, r, "ALIAS-S", fns)
	}

	r.Require("OB-R1", 6)
	r.Require("LAG-1", 3)
	r.Require("LAG-2", 6)
	r.Require("LAG-4", 6)
	r.Require("LAG-3", 2)
	r.Require("FH-1", 8)
	r.Require("SPEC-F", 8)
	r.Require("RG-1", 30)
	r.Require("RG-2", 9)
}

var sessionKeyFields = map[string]bool{"recv.PublicKey": true, "recv.Y": true, "recv.config.Public": true, "recv.public": true}
var sessionMsgFields = map[string]bool{"recv.Message": true, "recv.M": true, "recv.hash": true}

// checkResultVerified: OB-R1.
func checkResultVerified(c *Ctx, r *Run) {
	rm := getRoundModel(c)
	helperResult := c.LookupMethod("internal/round", "Helper", "ResultRound")
	for _, ri := range rm.rounds {
		for _, mn := range []string{"Finalize", "StoreMessage"} {
			fn := ri.methods[mn]
			if fn == nil {
				continue
			}
			allInstrs(fn, func(in ssa.Instruction) {
				call, ok := in.(*ssa.Call)
				if !ok || call.Call.StaticCallee() != helperResult || len(call.Call.Args) < 2 {
					return
				}
				res := stripConv(call.Call.Args[1])
				n := namedOf(derefType(res.Type()))
				if n == nil || n.Obj().Name() != "Signature" {
					return
				}
				r.Analysed(c.FuncName(fn))
				key := ri.name + "." + mn + "|ResultRound(" + n.Obj().Pkg().Name() + "." + n.Obj().Name() + ")"
				// a passed Verify dominating the call whose subject is res
				type found struct{ subj, keyOK, msgOK bool }
				best := found{}
				judge := func(f *ssa.Function, g guard, needSubject bool) {
					vc := condCall(g.cond)
					if vc == nil {
						return
					}
					subj := !needSubject
					all := append([]ssa.Value{}, vc.Call.Args...)
					if vc.Call.IsInvoke() {
						all = append(all, vc.Call.Value)
					}
					for _, a := range all {
						if sameObject(a, res) || sameObject(resolveLoad(a), resolveLoad(res)) {
							subj = true
						}
					}
					args := argsOf(vc)
					kOK, mOK := false, false
					isKey := func(v ssa.Value) bool {
						p := path(stripConv(v))
						return strings.HasSuffix(p, ".PublicKey") || strings.HasSuffix(p, ".Y") || strings.HasSuffix(p, ".config.Public")
					}
					isMsg := func(v ssa.Value) bool {
						p := path(stripConv(v))
						return strings.HasSuffix(p, ".Message") || strings.HasSuffix(p, ".M") || strings.HasSuffix(p, ".hash")
					}
					rooted := func(v ssa.Value) bool {
						return len(f.Params) > 0 && strings.HasPrefix(path(stripConv(v)), f.Params[0].Name()+".")
					}
					if len(args) >= 2 {
						kOK = isKey(args[0]) && rooted(args[0])
						mOK = isMsg(args[1]) && rooted(args[1])
						// taproot: the key is the receiver of Verify (built from the x coordinate of recv.Y), args are (sig, m)
						if o := calleeObj(vc); o != nil && o.Pkg() != nil && strings.HasSuffix(o.Pkg().Path(), "pkg/taproot") {
							kOK = dependsOn(recvOf(vc), func(x ssa.Value) bool {
								u, ok := x.(*ssa.UnOp)
								return ok && u.Op == token.MUL && isKey(u) && rooted(u)
							})
						}
					}
					if subj && (!best.subj || (kOK && mOK)) {
						best = found{subj, kOK, mOK}
					}
				}
				for _, g := range rejectGuards(fn) {
					if !decHasSuffix(g.decider, ".Verify") || g.iff == nil || g.passBlk == nil {
						continue
					}
					if !(g.passBlk == call.Block() || g.passBlk.Dominates(call.Block())) {
						continue
					}
					judge(fn, g, true)
				}
				how := "on the returning path"
				if !best.subj {
					// stored by StoreMessage after VerifyMessage verified it (two-party last round)
					if fld := loadedRecvField(res); fld != "" {
						for _, ri2 := range rm.rounds {
							if ri2.pkg != ri.pkg {
								continue
							}
							vmf, smf := ri2.methods["VerifyMessage"], ri2.methods["StoreMessage"]
							if vmf == nil || smf == nil {
								continue
							}
							stored := false
							allInstrs(smf, func(x ssa.Instruction) {
								if st, ok := x.(*ssa.Store); ok {
									for _, f := range paramFields(smf, st.Addr) {
										if f == "recv."+fld && containsField(paramFields(smf, st.Val), "body") {
											stored = true
										}
									}
								}
							})
							if !stored {
								continue
							}
							for _, g := range rejectGuards(vmf) {
								if decHasSuffix(g.decider, ".Verify") && guardCoversAccepts(g) && containsField(g.fields, "body") {
									judge(vmf, g, false)
									how = "in " + c.FuncName(vmf) + " before StoreMessage kept it (handler order, C03 OB-H)"
								}
							}
						}
					}
				}
				r.Check("OB-R1", key+"|verified", c.Pos(call.Pos()), best.subj, "the returned signature was the subject of a passed Verify "+how,
					"ResultRound is reached with a signature that no passed Verify examined on this path: an invalid signature can be returned to the user")
				r.Check("OB-R1", key+"|under-session-key", c.Pos(call.Pos()), best.subj && best.keyOK, "that Verify used the session's group public key",
					"the Verify guarding the result does not take the session's group key (PublicKey / Y / config.Public): a signature valid under some other key is returned")
				r.Check("OB-R1", key+"|for-session-message", c.Pos(call.Pos()), best.subj && best.msgOK, "that Verify used the session's message digest",
					"the Verify guarding the result does not take the session's message: a signature on different data is returned")
			})
		}
	}
}

// checkLagrange: LAG-1..3.
func checkLagrange(c *Ctx, r *Run) {
	lag := c.LookupFunc("pkg/math/polynomial", "Lagrange")
	if lag == nil {
		r.Unresolved("LAG-1", "pkg/math/polynomial.Lagrange")
		return
	}
	// every entry point that takes an interpolation domain (argument 1)
	lagFns := map[*ssa.Function]bool{lag: true}
	for _, n := range []string{"LagrangeFor", "LagrangeSingle"} {
		if f := c.LookupFunc("pkg/math/polynomial", n); f != nil {
			lagFns[f] = true
		}
	}
	var fns []*ssa.Function
	for _, p := range c.LibPkgs() {
		if !strings.Contains(p.PkgPath, "/protocols/") {
			continue
		}
		for _, fn := range funcsOfPkg(c, c.SSA[p.Types]) {
			withAnon(fn, func(f *ssa.Function) { fns = append(fns, f) })
		}
	}
	sort.Slice(fns, func(i, j int) bool { return c.FuncName(fns[i]) < c.FuncName(fns[j]) })
	// round-state fields that hold a Lagrange map (frost Lambda)
	lagFields := map[string]bool{}
	for _, fn := range fns {
		fn := fn
		allInstrs(fn, func(in ssa.Instruction) {
			call, ok := in.(*ssa.Call)
			if !ok || !lagFns[call.Call.StaticCallee()] {
				return
			}
			name := c.FuncName(fn)
			r.Analysed(name)
			dom := call.Call.Args[1]
			ls := paramFields(fn, dom)
			ok1 := len(ls) > 0
			why := ""
			isSignStart := strings.Contains(name, "/sign.") || strings.Contains(name, "/presign.")
			for _, l := range ls {
				if isSignStart && (strings.Contains(l, "Config") || strings.Contains(l, "Public") || strings.Contains(l, "VerificationShares")) {
					ok1 = false
					why = l
				}
			}
			if isSignStart {
				r.Check("LAG-1", name+"|domain", c.Pos(call.Pos()), ok1, "the interpolation domain is the session's signer set ("+strings.Join(ls, ", ")+")",
					"the interpolation domain derives from "+why+" (the key holders) instead of the session's signers: with a strict subset of the holders every share is scaled for the wrong set and the signature is invalid")
			}
			// stores of the result into round state
			if refs := call.Referrers(); refs != nil {
				for _, ref := range *refs {
					if st, ok := ref.(*ssa.Store); ok {
						if fa, ok := st.Addr.(*ssa.FieldAddr); ok {
							lagFields[fieldName(fa.X.Type(), fa.Field)] = true
						}
					}
				}
			}
		})
	}
	lagFields["Lambda"] = true
	// LAG-2: uses of coefficients
	isLagMap := func(fn *ssa.Function, v ssa.Value) bool {
		v = resolveLoad(v)
		if call, ok := v.(*ssa.Call); ok && lagFns[call.Call.StaticCallee()] && call.Call.StaticCallee().Name() != "LagrangeSingle" {
			return true
		}
		if u, ok := v.(*ssa.UnOp); ok && u.Op == token.MUL {
			if fa, ok := u.X.(*ssa.FieldAddr); ok && lagFields[fieldName(fa.X.Type(), fa.Field)] {
				if _, isMap := u.Type().Underlying().(interface{ Key() interface{} }); !isMap {
					return strings.HasPrefix(u.Type().String(), "map[")
				}
			}
		}
		return false
	}
	for _, fn := range fns {
		fn := fn
		cnt := 0
		allInstrs(fn, func(in ssa.Instruction) {
			lk, ok := in.(*ssa.Lookup)
			if !ok || !isLagMap(fn, lk.X) {
				return
			}
			name := c.FuncName(fn)
			r.Analysed(name)
			// find the multiplication this coefficient enters: follow Set(...) copies to a Mul / Act
			var op ssa.CallInstruction
			var other ssa.Value
			seen := map[ssa.Value]bool{}
			var follow func(v ssa.Value, d int)
			follow = func(v ssa.Value, d int) {
				if d > 5 || v.Referrers() == nil || seen[v] || op != nil {
					return
				}
				seen[v] = true
				for _, ref := range *v.Referrers() {
					switch y := ref.(type) {
					case *ssa.Extract:
						follow(y, d+1)
					case *ssa.MakeInterface:
						follow(y, d+1)
					case ssa.CallInstruction:
						o := calleeObj(y)
						if o == nil {
							continue
						}
						val, isVal := y.(ssa.Value)
						switch o.Name() {
						case "Set":
							if isVal {
								follow(val, d+1)
							}
						case "Mul", "Act":
							rv := y.Common().Value
							args := y.Common().Args
							if !y.Common().IsInvoke() {
								continue
							}
							if rv == v && len(args) == 1 {
								op, other = y, args[0]
							} else if len(args) == 1 && args[0] == v {
								op, other = y, rv
							}
						}
					}
				}
			}
			follow(lk, 0)
			if op == nil && onlyComparedWithNil(lk) {
				return // a presence test (`lagrange[j] == nil`): the coefficient is not used here
			}
			cnt++
			key := fmt.Sprintf("%s|coefficient[%s] #%d", name, strings.Join(paramFields(fn, lk.Index), "+"), cnt)
			if op == nil {
				r.Check("LAG-2", key, c.Pos(lk.Pos()), false, "", "the Lagrange coefficient "+path(lk)+" is looked up but its multiplication could not be located (rule out of date)")
				return
			}
			// the other operand: a lookup with the same index, or a self share with a self index
			pair, why := false, ""
			var otherIdx ssa.Value
			dependsOn(other, func(v ssa.Value) bool {
				if l2, ok := v.(*ssa.Lookup); ok && l2 != lk && otherIdx == nil {
					otherIdx = l2.Index
				}
				return false
			})
			idxLabels := paramFields(fn, lk.Index)
			if ex, ok := lk.Index.(*ssa.Extract); ok && otherIdx == nil {
				// for j, partyJ := range table: key and value of the same iteration step
				if _, isNext := ex.Tuple.(*ssa.Next); isNext && ex.Index == 1 {
					sameStep := dependsOn(other, func(v ssa.Value) bool {
						e2, ok := v.(*ssa.Extract)
						return ok && e2.Tuple == ex.Tuple && e2.Index == 2
					})
					if sameStep {
						otherIdx = lk.Index
					}
				}
			}
			if otherIdx != nil {
				pair = sameObject(otherIdx, lk.Index) || path(otherIdx) == path(lk.Index)
				if !pair {
					why = "coefficient of " + path(lk.Index) + " multiplies the share of " + path(otherIdx)
				}
			} else {
				self := false
				for _, l := range idxLabels {
					if strings.HasSuffix(l, ".ID") || strings.HasSuffix(l, "SelfID()") {
						self = true
					}
				}
				ol := paramFields(fn, other)
				own := false
				for _, l := range ol {
					if strings.HasSuffix(l, ".ECDSA") || strings.HasSuffix(l, ".s_i") || strings.HasSuffix(l, ".PrivateShare") {
						own = true
					}
				}
				pair = self && own
				if !pair {
					why = fmt.Sprintf("coefficient index %v with operand %v is neither a same-index pair nor (own id, own secret share)", idxLabels, ol)
				}
			}
			// LAG-4: the party the coefficient belongs to is drawn from a whole list, not from a prefix/sub-slice of it
			sub := ""
			dependsOn(lk.Index, func(v ssa.Value) bool {
				var base ssa.Value
				switch x := v.(type) {
				case *ssa.IndexAddr:
					base = x.X
				case *ssa.Index:
					base = x.X
				}
				if base != nil {
					if sl, ok := resolveLoad(base).(*ssa.Slice); ok && (sl.Low != nil || sl.High != nil) {
						sub = path(sl)
					}
				}
				return false
			})
			r.Check("LAG-4", key, c.Pos(lk.Pos()), sub == "", "the coefficients are consumed for every party of the list they are indexed by",
				"the loop that consumes the coefficients ranges over the sub-slice "+sub+" while the coefficients were computed for the whole interpolation domain: the partial sum is not the interpolated value (wrong group key / share whenever the prefix is a strict subset, i.e. t < n-1)")
			r.Check("LAG-2", key, c.Pos(op.Pos()), pair, "coefficient of "+path(lk.Index)+" scales the share of the same party", why+": the shares no longer interpolate to the group key, the session signs under a different key or fails")
		})
	}
	// LAG-3: in the CMP start functions PublicKey accumulates ECDSA[j] over helper.PartyIDs()
	for _, sf := range startFuncs(c) {
		name := c.FuncName(sf)
		if !(strings.Contains(name, "cmp/sign.StartSign") || strings.Contains(name, "cmp/presign.StartPresign$")) {
			if !(strings.HasPrefix(name, "protocols/cmp/sign.StartSign$") || strings.HasPrefix(name, "protocols/cmp/presign.StartPresign$")) {
				continue
			}
		}
		// the PublicKey field of the returned round literal
		var pk ssa.Value
		var pkStore *ssa.Store
		allInstrs(sf, func(in ssa.Instruction) {
			if st, ok := in.(*ssa.Store); ok {
				if fa, ok := st.Addr.(*ssa.FieldAddr); ok && fieldName(fa.X.Type(), fa.Field) == "PublicKey" {
					pk, pkStore = st.Val, st
				}
			}
		})
		if pk == nil {
			continue
		}
		r.Analysed(name)
		// pk is a phi accumulating Add(ECDSA[j]) where ECDSA[j] = lagrange[j].Act(public.ECDSA), inside a loop over PartyIDs()
		accOK, scaled, overParties := false, false, false
		dependsOn(pk, func(v ssa.Value) bool {
			call, ok := v.(*ssa.Call)
			if !ok {
				return false
			}
			o := calleeObj(call)
			if o == nil {
				return false
			}
			if o.Name() == "Add" && blockInLoop(call.Block()) {
				accOK = true
				isAct := func(x ssa.Value) bool {
					c2, ok := x.(*ssa.Call)
					if !ok {
						return false
					}
					o2 := calleeObj(c2)
					return o2 != nil && o2.Name() == "Act"
				}
				for _, a := range call.Call.Args {
					if dependsOn(a, isAct) {
						scaled = true
					}
					// ECDSA[j] read back from the local table it was just stored in
					if lk, ok := resolveLoad(a).(*ssa.Lookup); ok {
						if mm, ok := resolveLoad(lk.X).(*ssa.MakeMap); ok && mm.Referrers() != nil {
							all, n := true, 0
							for _, ref := range *mm.Referrers() {
								if mu, ok := ref.(*ssa.MapUpdate); ok {
									n++
									if !dependsOn(mu.Value, isAct) {
										all = false
									}
								}
							}
							if all && n > 0 {
								scaled = true
							}
						}
					}
				}
				// (summed inside a helper: the list it ranges over is an argument of the helper's call, taken from PartyIDs())
				if call.Parent() != sf {
					allInstrs(sf, func(in ssa.Instruction) {
						hc, isCall := in.(*ssa.Call)
						if !isCall || hc.Call.StaticCallee() != call.Parent() {
							return
						}
						for _, a := range hc.Call.Args {
							if dependsOn(a, func(x ssa.Value) bool {
								c4, ok := x.(*ssa.Call)
								if !ok {
									return false
								}
								o4 := calleeObj(c4)
								return o4 != nil && o4.Name() == "PartyIDs"
							}) {
								overParties = true
							}
						}
					})
				}
				// the loop ranges over helper.PartyIDs()
				for _, b := range sf.Blocks {
					for _, in := range b.Instrs {
						if c3, ok := in.(*ssa.Call); ok {
							if o3 := calleeObj(c3); o3 != nil && o3.Name() == "PartyIDs" && blockReaches(c3.Block(), call.Block()) {
								overParties = true
							}
						}
					}
				}
			}
			return false
		})
		// or: the configuration's own group key (the same value by definition, LAG-2 covers PublicPoint)
		viaConfig := false
		if call, ok := resolveLoad(pk).(*ssa.Call); ok {
			if o := calleeObj(call); o != nil && o.Name() == "PublicPoint" {
				viaConfig = true
			}
		}
		r.Check("LAG-3", name+"|group-key", c.Pos(pkStore.Pos()), (accOK && scaled && overParties) || viaConfig, "PublicKey = Σ_j lagrange[j]·X_j over the session's parties",
			"the session's PublicKey is not the loop-sum of the Lagrange-scaled public shares over PartyIDs(): the final Verify checks against a key other than the group key")
	}
}

// checkFromHash: FH-1.
func checkFromHash(c *Ctx, r *Run) {
	fn := c.LookupFunc("pkg/math/curve", "FromHash")
	if fn == nil {
		r.Unresolved("FH-1", "pkg/math/curve.FromHash")
		return
	}
	name := c.FuncName(fn)
	r.Analysed(name)
	var setBytes *ssa.Call
	entry := fn
	for _, call := range callsNamed(fn, "SetBytes") {
		setBytes = call
	}
	if setBytes == nil {
		// the truncate-and-shift half may live in a helper of the package (`truncateHash(h, orderBits)`): the shape rules
		// are then decided on that helper, the call-site rules below stay on FromHash itself
		for _, g := range regionOf(fn)[1:] {
			for _, call := range callsNamed(g, "SetBytes") {
				setBytes = call
				fn = g
			}
		}
	}
	defer func() { fn = entry }()
	if setBytes == nil {
		r.Fail("FH-1", name+"|convert", c.Pos(fn.Pos()), "the digest is converted with SetBytes", "no SetBytes call found")
		return
	}
	conv := argsOf(setBytes)[0]
	// truncation: the converted slice is h or h[:orderBytes] (leftmost bytes)
	truncOK := false
	leftmost := true
	dependsOn(conv, func(v ssa.Value) bool {
		if sl, ok := v.(*ssa.Slice); ok {
			truncOK = true
			if sl.Low != nil {
				if k, ok := constInt(sl.Low); !ok || k != 0 {
					leftmost = false
				}
			}
		}
		return false
	})
	r.Check("FH-1", name+"|leftmost-bytes", c.Pos(setBytes.Pos()), truncOK && leftmost, "a digest longer than the order is cut to its leftmost bytes", "the digest is not truncated to h[:orderBytes] (leftmost): digests longer than 32 bytes map to a different scalar than the standard's")
	// the excess: len(X)*8 - orderBits with X the converted value
	var rsh *ssa.Call
	for _, call := range callsNamed(fn, "Rsh") {
		rsh = call
	}
	lenOK, found := false, false
	if rsh != nil {
		amt := argsOf(rsh)[1]
		dependsOn(amt, func(v ssa.Value) bool {
			if call, ok := v.(*ssa.Call); ok {
				if b, ok := call.Call.Value.(*ssa.Builtin); ok && b.Name() == "len" {
					found = true
					if call.Call.Args[0] == conv {
						lenOK = true
					}
				}
			}
			return false
		})
	}
	r.Check("FH-1", name+"|excess-of-converted-slice", c.Pos(fn.Pos()), rsh != nil && found && lenOK, "the right shift amount is computed from the length of the slice that is converted (after truncation)",
		"the bit excess is computed from a different length than that of the converted slice (e.g. before truncation): digests longer than the order are shifted too far and sign/verify agree on a wrong scalar")
	// the shift is conditional on excess > 0
	condOK := false
	if rsh != nil {
		for d := rsh.Block(); d != nil; d = d.Idom() {
			if len(d.Instrs) == 0 {
				continue
			}
			if iff, ok := d.Instrs[len(d.Instrs)-1].(*ssa.If); ok {
				if bo, ok := iff.Cond.(*ssa.BinOp); ok && (bo.Op == token.GTR || bo.Op == token.LSS) {
					condOK = true
				}
			}
		}
	}
	r.Check("FH-1", name+"|shift-only-when-positive", c.Pos(fn.Pos()), condOK, "the shift happens only for a positive excess (short digests are not shifted)", "the right shift is unconditional")
	// every ECDSA path uses FromHash on the session message
	sites := []struct{ rel, typ, method string }{
		{"protocols/cmp/sign", "round4", "Finalize"},
		{"pkg/ecdsa", "PreSignature", "SignatureShare"},
		{"pkg/ecdsa", "PreSignature", "VerifySignatureShares"},
		{"pkg/ecdsa", "Signature", "Verify"},
		{"protocols/doerner/sign", "round1S", "Finalize"},
		{"protocols/doerner/sign", "round2R", "Finalize"},
	}
	for _, s := range sites {
		f := c.LookupMethod(s.rel, s.typ, s.method)
		if f == nil {
			r.Unresolved("FH-1", s.rel+"."+s.typ+"."+s.method)
			continue
		}
		r.Analysed(c.FuncName(f))
		n := 0
		msgOK := false
		allInstrs(f, func(in ssa.Instruction) {
			if call, ok := in.(*ssa.Call); ok && call.Call.StaticCallee() == entry {
				n++
				for _, l := range paramFields(f, call.Call.Args[1]) {
					if sessionMsgFields[l] || l == "[]byte" {
						msgOK = true
					}
				}
			}
		})
		r.Check("FH-1", c.FuncName(f)+"|uses-FromHash", c.Pos(f.Pos()), n == 1 && msgOK, "the message digest enters the ECDSA equation through curve.FromHash",
			fmt.Sprintf("%d FromHash calls on the session message: this path converts the digest differently from the verifier", n))
	}
}

// checkFrostTaproot: SPEC-F.
func checkFrostTaproot(c *Ctx, r *Run) {
	fin := c.LookupMethod("protocols/frost/sign", "round2", "Finalize")
	if fin == nil {
		r.Unresolved("SPEC-F", "protocols/frost/sign.(*round2).Finalize")
	} else {
		r.Analysed(c.FuncName(fin))
		tags := map[string][]roleSpec{
			"BIP0340/challenge": {
				{name: "the group nonce R.x", must: []string{"recv.D", "recv.E"}, why: "derives from all commitments"},
				{name: "the group key x coordinate", must: []string{"recv.Y"}, only: []string{"recv.Y"}, why: "the group key only"},
				{name: "the message", must: []string{"recv.M"}, only: []string{"recv.M"}, why: "the session message only"},
			},
		}
		calls := taggedHashCalls(c, fin)
		for _, call := range calls {
			checkTagCall(c, r, "SPEC-F", fin, call, tags)
		}
		r.Check("SPEC-F", c.FuncName(fin)+"|one-challenge", c.Pos(fin.Pos()), len(calls) == 1, "the taproot branch computes exactly one tagged challenge", fmt.Sprintf("%d TaggedHash calls", len(calls)))
		checkOddBranchNegations(c, r, fin, "recv.D", []string{"recv.d_i", "recv.e_i", "RShares"})
	}
	kg := c.LookupMethod("protocols/frost/keygen", "round3", "Finalize")
	if kg == nil {
		r.Unresolved("SPEC-F", "protocols/frost/keygen.(*round3).Finalize")
	} else {
		r.Analysed(c.FuncName(kg))
		checkOddBranchNegations(c, r, kg, "recv.publicKey", []string{"recv.privateShare", "recv.verificationShares"})
	}
}

// checkOddBranchNegations: on the branch where the tested point has odd Y, exactly the listed objects are negated.
func checkOddBranchNegations(c *Ctx, r *Run, fn *ssa.Function, pointLabel string, want []string) {
	name := c.FuncName(fn)
	var br *ssa.If
	for _, b := range fn.Blocks {
		if len(b.Instrs) == 0 {
			continue
		}
		if iff, ok := b.Instrs[len(b.Instrs)-1].(*ssa.If); ok {
			if call := condCall(iff.Cond); call != nil {
				if o := calleeObj(call); o != nil && o.Name() == "HasEvenY" {
					br = iff
				}
			}
		}
	}
	if br == nil {
		r.Fail("SPEC-F", name+"|even-Y-branch", c.Pos(fn.Pos()), "a branch on HasEvenY exists", "no branch on HasEvenY: odd-Y nonces/keys are not adjusted and the BIP-340 verifier rejects about half of the signatures")
		return
	}
	call := condCall(br.Cond)
	ptOK := containsField(paramFields(fn, recvOf(call)), pointLabel) || dependsOnLabel(fn, recvOf(call), pointLabel)
	r.Check("SPEC-F", name+"|tests "+pointLabel, c.Pos(br.Cond.Pos()), ptOK, "the parity test is on the point derived from "+pointLabel, "HasEvenY is not applied to the point derived from "+pointLabel)
	even, odd := br.Block().Succs[0], br.Block().Succs[1]
	if u, ok := br.Cond.(*ssa.UnOp); ok && u.Op == token.NOT {
		even, odd = odd, even
	}
	negs := func(region *ssa.BasicBlock) map[string]bool {
		out := map[string]bool{}
		if len(region.Preds) != 1 {
			return out // the arm has no block of its own
		}
		for _, b := range fn.Blocks {
			if !(b == region || region.Dominates(b)) {
				continue
			}
			for _, in := range b.Instrs {
				cc, ok := in.(ssa.CallInstruction)
				if !ok {
					continue
				}
				if o := calleeObj(cc); o == nil || o.Name() != "Negate" {
					continue
				}
				rv := recvOf(cc)
				if rv == nil {
					rv = cc.Common().Value
				}
				for _, l := range paramFields(fn, rv) {
					out[strings.SplitN(l, "[", 2)[0]] = true
				}
				// a local table (RShares): named by the round-state field it is stored into
				if lk, ok := resolveLoad(rv).(*ssa.Lookup); ok {
					if mm, ok := resolveLoad(lk.X).(*ssa.MakeMap); ok && mm.Referrers() != nil {
						for _, ref := range *mm.Referrers() {
							if st, ok := ref.(*ssa.Store); ok && st.Val == ssa.Value(mm) {
								if fa, ok := st.Addr.(*ssa.FieldAddr); ok {
									out[fieldName(fa.X.Type(), fa.Field)] = true
								}
							}
						}
					}
				}
			}
		}
		return out
	}
	on := negs(odd)
	for _, w := range want {
		r.Check("SPEC-F", name+"|odd-Y negates "+w, c.Pos(br.Pos()), on[w], w+" is negated on the odd-Y branch", w+" is not negated when the point has odd Y: shares and point disagree, the session aborts or signs for the wrong key half of the time")
	}
	en := negs(even)
	r.Check("SPEC-F", name+"|even-Y negates nothing", c.Pos(br.Pos()), len(en) == 0, "nothing is negated when Y is even", fmt.Sprintf("negations on the even-Y branch: %v", en))
}

func dependsOnLabel(fn *ssa.Function, v ssa.Value, label string) bool {
	d := newDep(fn, nil)
	return d.has(v, label)
}

// onlyComparedWithNil: the value's only uses are comparisons with nil.
func onlyComparedWithNil(v ssa.Value) bool {
	if v.Referrers() == nil || len(*v.Referrers()) == 0 {
		return false
	}
	for _, ref := range *v.Referrers() {
		switch x := ref.(type) {
		case *ssa.DebugRef:
		case *ssa.BinOp:
			if !(x.Op == token.EQL || x.Op == token.NEQ) || !(isNilConst(x.X) || isNilConst(x.Y)) {
				return false
			}
		default:
			return false
		}
	}
	return true
}
