package main

import (
	"fmt"
	"go/token"
	"go/types"
	"sort"
	"strings"

	"golang.org/x/tools/go/ssa"
)

func init() {
	register("C05", propMeta{
		Explanation: "Panic containment and residual crash-safety, decided on SSA. PANIC-1: in both handlers, Accept registers — before any call into decoder or round code and with the lock's release already deferred — a deferred function that calls recover() and, on a non-nil value, ends the session through the abort transition; with it every panic on the caller's goroutine (nil dereference, index out of range, failed type assertion, the CBOR library's own panics, explicit panic sites) becomes 'session ends cleanly'. " +
			"PANIC-2: closures handed to the worker pool run on goroutines the barrier cannot protect: every peer-controlled field such a closure touches (proof fields in zk verifiers, message parameters in internal/ot) is covered by a nil-rejecting validator guard, either inside the closure or dominating the pool call; pointer-typed sub-protocol messages are nil-checked by the consuming round. " +
			"PANIC-3: inventory of explicit panic sites (new sites are reported). PANIC-4: custom UnmarshalBinary implementations index / fixed-width-read their input only under a len() guard and size allocations only under a bound tied to the input length. PANIC-5: CanAccept dereferences the message only after its nil guard; library code reachable from Accept starts no goroutine. " +
			"NOT decided: running time of big-integer operations on attacker-sized operands; allocation inside the CBOR library below its default limits.",
		Trusted:     append([]string{"CBOR decode model (DESIGN §2): absent keys leave pre-shaped values, null yields nil pointers/slices/elements, the library may itself panic", "recover() in a deferred function stops a panic of the same goroutine (Go spec)"}, commonTrusted...),
		Assumptions: []string{"fxamacker/cbor default limits (131072 elements, 32 nesting levels) bound decode-time allocation by message size"},
	}, runC05)
}

// tabled explicit panic sites: function -> reason it cannot be driven by peer data (or is contained)
var panicSites = map[string]string{
	"internal/bip32.DeriveScalar":                "hardened index: caller-supplied parameter of a local API (Derive), not network data",
	"internal/ot.NewRandomOTReceiver":            "blake3.NewKeyed fails only for a key that is not 32 bytes; the nonce is produced locally with that length",
	"internal/ot.NewRandomOTSender":              "same as NewRandomOTReceiver",
	"pkg/hash.(*Hash).Sum":                       "reading from an extendable-output hash does not fail",
	"pkg/math/curve.MakeInt":                     "MarshalBinary of a scalar does not fail",
	"pkg/math/curve.secp256k1CastScalar":         "mixed-curve programming error; reachable with a nil interface from decoded data, but only on the handler goroutine (contained by PANIC-1)",
	"pkg/math/curve.secp256k1CastPoint":          "same as secp256k1CastScalar",
	"pkg/math/sample.mustReadBits":               "255 consecutive failures of the random source",
	"pkg/math/sample.ModN":                       "same as mustReadBits",
	"pkg/math/sample.UnitModN":                   "same as mustReadBits",
	"pkg/math/sample.QNR":                        "same as mustReadBits",
	"pkg/math/sample.Scalar":                     "same as mustReadBits",
	"pkg/math/sample.ScalarUnit":                 "same as mustReadBits",
	"pkg/math/polynomial.(*Polynomial).Evaluate": "evaluation at zero would leak the secret: party identifiers are validated non-zero scalars? (local data: own polynomial and the session's party list)",
	"pkg/protocol.(*TwoPartyHandler).advance":    "cbor.Marshal of an own, well-formed round message; on the handler goroutine (contained)",
	"pkg/protocol.(*MultiHandler).finalize":      "cbor.Marshal of an own, well-formed round message; on the handler goroutine (contained)",
	"pkg/paillier.(PublicKey).EncWithNonce":      "plaintext out of range: callers pass own values or range-checked proof responses; verifier-side uses sit on the handler goroutine (contained)",
}

var nilRejecting = []string{"arith.IsValidBigModN", "arith.IsValidNatModN", "arith.IsInInterval", "== nil", "!= nil", ".IsValid", "ValidateCiphertexts", ".Validate", "IsIdentity", "IsZero"}

func isNilRejecting(decider string) bool {
	for _, n := range nilRejecting {
		if strings.Contains(decider, n) {
			return true
		}
	}
	return false
}

func runC05(c *Ctx, r *Run) {
	checkDecodedPointerNil(c, r, "PANIC-6")
	checkFailureReported(c, r, "ERR-3")
	r.Rule("PANIC-1", "containment: Accept of every handler defers, before any other work and after the deferred unlock, a function that recovers and ends the session through the abort transition")
	r.Rule("PANIC-2", "worker goroutines: every peer-controlled field touched by a closure handed to the pool is covered by a nil-rejecting validator guard (inside the closure or dominating the pool call); pointer-typed sub-protocol messages are nil-checked by the consuming round")
	r.Rule("PANIC-3", "explicit panic sites are the tabled ones (each with the reason it is unreachable from peer data or contained)")
	r.Rule("PANIC-4", "custom UnmarshalBinary: index / slice / fixed-width reads of the input only under a len() guard; allocation sizes taken from the input only under a bound that depends on the input length")
	r.Rule("PANIC-5", "header filter: CanAccept dereferences the message only after its nil guard; no go statement in library code other than the pool's worker start")

	// ---- PANIC-1
	for _, hn := range []string{"MultiHandler", "TwoPartyHandler"} {
		H := c.LookupNamed("pkg/protocol", hn)
		acc := c.LookupMethod("pkg/protocol", hn, "Accept")
		if H == nil || acc == nil {
			r.Unresolved("PANIC-1", "pkg/protocol."+hn+".Accept")
			continue
		}
		r.Analysed(c.FuncName(acc))
		m := newLockModel(c, H)
		key := "pkg/protocol." + hn + ".Accept"
		var barrier *ssa.Defer
		var target *ssa.Function
		allInstrs(acc, func(in ssa.Instruction) {
			d, ok := in.(*ssa.Defer)
			if !ok {
				return
			}
			var fn *ssa.Function
			if mc, isC := d.Call.Value.(*ssa.MakeClosure); isC {
				fn = mc.Fn.(*ssa.Function)
			} else {
				fn = d.Call.StaticCallee()
			}
			if fn == nil {
				return
			}
			rec := false
			allInstrs(fn, func(x ssa.Instruction) {
				if call, ok := x.(*ssa.Call); ok {
					if b, ok := call.Call.Value.(*ssa.Builtin); ok && b.Name() == "recover" {
						rec = true
					}
				}
			})
			if rec {
				barrier, target = d, fn
			}
		})
		if barrier == nil {
			r.Fail("PANIC-1", key+"|recover-barrier", c.Pos(acc.Pos()), "Accept defers a recovering function", "no deferred function calling recover(): any panic in decoding or round code (nil dereference, index out of range, CBOR library panic on null, explicit panic) propagates to the caller and kills the process")
			continue
		}
		r.Analysed(c.FuncName(target))
		// registered first: every other call of Accept (except lock/unlock) comes after it
		early := ""
		allInstrs(acc, func(in ssa.Instruction) {
			ci, ok := in.(ssa.CallInstruction)
			if !ok || in == ssa.Instruction(barrier) {
				return
			}
			if m != nil && (m.isLock(acc, in) || m.isUnlock(acc, in)) {
				return
			}
			if _, isDefer := in.(*ssa.Defer); isDefer && m != nil && m.isUnlock(acc, in) {
				return
			}
			if b, ok := ci.Common().Value.(*ssa.Builtin); ok && b.Name() != "recover" {
				_ = b
				return
			}
			if !instrDominates(barrier, in) {
				early = c.Pos(in.Pos())
			}
		})
		r.Check("PANIC-1", key+"|barrier-registered-first", c.Pos(barrier.Pos()), early == "", "the barrier is in place before Accept calls anything that can panic", "a call at "+early+" runs before the recover barrier is registered")
		// lock still held when it runs
		if m != nil {
			r.Check("PANIC-1", key+"|barrier-runs-under-lock", c.Pos(barrier.Pos()), m.heldWhenDeferredRuns(acc, barrier), "the barrier runs before the deferred unlock (it touches handler state)", "the recover function runs after the mutex was released")
		}
		// the recovering function reaches the abort transition on recover() != nil
		reaches := false
		guarded := false
		allInstrs(target, func(x ssa.Instruction) {
			cal := staticCallee(x)
			if cal == nil || canonFnName(cal) != "abort" {
				return
			}
			reaches = true
			a := callArgs(x)
			if len(a) >= 2 && !isNilConst(a[1]) {
				// dominated by recover() != nil
				for d := x.Block(); d != nil; d = d.Idom() {
					if len(d.Preds) != 1 {
						continue
					}
					if iff, ok := d.Preds[0].Instrs[len(d.Preds[0].Instrs)-1].(*ssa.If); ok {
						if dependsOn(iff.Cond, func(v ssa.Value) bool {
							call, ok := v.(*ssa.Call)
							if !ok {
								return false
							}
							b, ok := call.Call.Value.(*ssa.Builtin)
							return ok && b.Name() == "recover"
						}) {
							guarded = true
						}
					}
				}
			}
		})
		r.Check("PANIC-1", key+"|barrier-ends-session", c.Pos(target.Pos()), reaches && guarded, "a recovered panic ends the session with a non-nil error (channel closed, Result reports the error)", "the recovering function does not call abort(err) under recover() != nil: the panic is swallowed and the session is left half-processed")
	}

	// ---- PANIC-2
	checkWorkerClosures(c, r)

	// ---- PANIC-3
	found := map[string]string{}
	foundFn := map[string]*ssa.Function{} // the function holding the panic (a closure counts for itself: it may be a pool task)
	for _, p := range c.LibPkgs() {
		if c.Rel(p.Types) == "internal/test" {
			continue
		}
		for _, fn := range funcsOfPkg(c, c.SSA[p.Types]) {
			fn := fn
			allInstrs(fn, func(in ssa.Instruction) {
				pn, ok := in.(*ssa.Panic)
				if !ok || !pn.Pos().IsValid() {
					return
				}
				root := fn
				for root.Parent() != nil {
					root = root.Parent()
				}
				found[c.FuncName(root)] = c.Pos(pn.Pos())
				if _, has := foundFn[c.FuncName(root)]; !has || uncontainedFirst(fn, foundFn[c.FuncName(root)]) {
					foundFn[c.FuncName(root)] = fn
				}
			})
		}
	}
	names := make([]string, 0, len(found))
	for k := range found {
		names = append(names, k)
	}
	sort.Strings(names)
	// callers of every function (static calls), to recognise a tabled site whose panicking statement moved into an
	// unexported helper that only tabled sites call
	callersOf := map[string]map[string]bool{}
	unexported := map[string]bool{}
	for _, p := range c.LibPkgs() {
		for _, top := range funcsOfPkg(c, c.SSA[p.Types]) {
			root := top
			for root.Parent() != nil {
				root = root.Parent()
			}
			if o := root.Object(); o != nil && !o.Exported() {
				unexported[c.FuncName(root)] = true
			}
			allInstrs(top, func(in ssa.Instruction) {
				if cal := staticCallee(in); cal != nil && cal.Pkg != nil && c.InModule(cal.Pkg.Pkg) {
					cn := c.FuncName(cal)
					if callersOf[cn] == nil {
						callersOf[cn] = map[string]bool{}
					}
					callersOf[cn][c.FuncName(root)] = true
				}
			})
		}
	}
	var tabledVia func(n string, d int) (string, bool)
	tabledVia = func(n string, d int) (string, bool) {
		if reason, ok := panicSites[n]; ok {
			return reason, true
		}
		if d > 2 || !unexported[n] || len(callersOf[n]) == 0 {
			return "", false
		}
		via := ""
		for caller := range callersOf[n] {
			if caller == n {
				continue
			}
			reason, ok := tabledVia(caller, d+1)
			if !ok {
				return "", false
			}
			via = "helper of " + caller + ": " + reason
		}
		return via, via != ""
	}
	// a site outside the table is decided by where it can run: only panics outside Accept's recover (PANIC-1) take the
	// process down - on a pool worker (anything the worker entry reaches, i.e. every task closure), or in a decoder /
	// header filter the application calls directly with foreign bytes. Reachability over the VTA call graph.
	uncontained := map[*ssa.Function]string{}
	{
		var roots []*ssa.Function
		why := map[*ssa.Function]string{}
		for _, p := range c.LibPkgs() {
			for _, fn := range funcsOfPkg(c, c.SSA[p.Types]) {
				allInstrs(fn, func(in ssa.Instruction) {
					if g, isGo := in.(*ssa.Go); isGo {
						if cal := g.Call.StaticCallee(); cal != nil {
							roots = append(roots, cal)
							why[cal] = "goroutine started at " + c.Pos(g.Pos())
						} else if mc, isMC := g.Call.Value.(*ssa.MakeClosure); isMC {
							roots = append(roots, mc.Fn.(*ssa.Function))
							why[mc.Fn.(*ssa.Function)] = "goroutine started at " + c.Pos(g.Pos())
						}
					}
				})
				if fn.Parent() == nil && fn.Signature.Recv() != nil {
					switch fn.Name() {
					case "UnmarshalBinary", "UnmarshalCBOR", "UnmarshalJSON", "UnmarshalText", "CanAccept":
						roots = append(roots, fn)
						why[fn] = "entry point " + c.FuncName(fn) + " (called by the application with foreign bytes)"
					}
				}
			}
		}
		cg := c.CG()
		var work []*ssa.Function
		for _, rt := range roots {
			if _, seen := uncontained[rt]; !seen {
				uncontained[rt] = why[rt]
				work = append(work, rt)
			}
		}
		for len(work) > 0 {
			f := work[len(work)-1]
			work = work[:len(work)-1]
			n := cg.Nodes[f]
			if n == nil {
				continue
			}
			for _, e := range n.Out {
				if g := e.Callee.Func; g != nil {
					if _, seen := uncontained[g]; !seen {
						uncontained[g] = uncontained[f]
						work = append(work, g)
					}
				}
			}
		}
	}
	for _, n := range names {
		reason, ok := tabledVia(n, 0)
		if !ok {
			if fn := foundFn[n]; fn != nil {
				if from, un := uncontained[fn]; !un {
					ok, reason = true, "not in the table, but reachable neither from a pool worker nor from a decoder/filter entry point: it can only fire under Accept's recover (PANIC-1) or in a local API call"
				} else {
					r.Check("PANIC-3", n+"|explicit-panic", found[n], false, "", "new explicit panic site in "+n+": not in the reviewed table and reachable outside Accept's recover ("+from+"): is it reachable with peer-controlled data?")
					continue
				}
			}
		}
		r.Check("PANIC-3", n+"|explicit-panic", found[n], ok, "explicit panic is tabled: "+reason, "new explicit panic site in "+n+": not in the reviewed table (is it reachable with peer-controlled data? on which goroutine?)")
	}

	// the nil-rejecting validators themselves (pkg/math/arith): every element is examined before acceptance
	checkGuardInventory(c, r, "PANIC-2", "round_guards.json", func(n string) bool { return strings.HasPrefix(n, "pkg/math/arith.IsValid") })
	// restoring stored key material / wire values: every recorded refusal of a decoder is still made on the same datum
	// (a constructor fed an unvalidated part - NewSecretKeyFromPrimes(P, Q) with Q unchecked - panics on damaged bytes)
	r.Rule("PANIC-7", "decoders (UnmarshalBinary of key material and wire values) keep every recorded refusal, on the same data")
	checkGuardInventory(c, r, "PANIC-7", "round_guards.json", func(n string) bool { return strings.HasSuffix(n, ".UnmarshalBinary") })
	// ---- PANIC-4
	checkUnmarshalers(c, r)

	// ---- PANIC-5
	type filterFn struct {
		fn   *ssa.Function
		msg  *ssa.Parameter
		name string
	}
	var filters []filterFn
	seenFilter := map[*ssa.Function]bool{}
	for _, hn := range []string{"MultiHandler", "TwoPartyHandler"} {
		for _, mn := range []string{"canAccept", "CanAccept"} {
			fn := c.LookupMethod("pkg/protocol", hn, mn)
			if fn == nil || len(fn.Params) < 2 {
				continue
			}
			filters = append(filters, filterFn{fn, fn.Params[1], "pkg/protocol." + hn + "." + mn})
			// helpers of the package that are handed the message (a header filter shared by the handlers)
			allInstrs(fn, func(in ssa.Instruction) {
				call, ok := in.(*ssa.Call)
				if !ok {
					return
				}
				g := localHelperOf(call)
				if g == nil || seenFilter[g] || canonFnName(g) == "canAccept" {
					return
				}
				for k, a := range call.Call.Args {
					if a == ssa.Value(fn.Params[1]) && k < len(g.Params) {
						seenFilter[g] = true
						filters = append(filters, filterFn{g, g.Params[k], c.FuncName(g)})
					}
				}
			})
		}
	}
	for _, ff := range filters {
		{
			fn, msg := ff.fn, ff.msg
			bad := ""
			n := 0
			allInstrs(fn, func(in ssa.Instruction) {
				deref := false
				switch x := in.(type) {
				case *ssa.FieldAddr:
					deref = x.X == ssa.Value(msg)
				case *ssa.UnOp:
					deref = x.Op == token.MUL && x.X == ssa.Value(msg)
				}
				if !deref {
					return
				}
				n++
				ok := false
				for d := in.Block(); d != nil; d = d.Idom() {
					if len(d.Preds) != 1 {
						continue
					}
					p := d.Preds[0]
					iff, isIf := p.Instrs[len(p.Instrs)-1].(*ssa.If)
					if !isIf {
						continue
					}
					// the test may live in a helper that is handed the message and refuses nil: `if !headerOK(msg, r) { return false }`
					if call := condCall(iff.Cond); call != nil {
						if g := call.Call.StaticCallee(); g != nil {
							for k, a := range call.Call.Args {
								if a != ssa.Value(msg) || !calleeRefusesNil(g, k, 0) {
									continue
								}
								// the passing edge of the helper's verdict dominates the dereference
								pass := p.Succs[0]
								if _, neg := iff.Cond.(*ssa.UnOp); neg {
									pass = p.Succs[1]
								}
								if pass == d {
									ok = true
								}
							}
						}
					}
					bo, isB := iff.Cond.(*ssa.BinOp)
					if !isB || bo.X != ssa.Value(msg) || !isNilConst(bo.Y) {
						continue
					}
					if (bo.Op == token.EQL && p.Succs[1] == d) || (bo.Op == token.NEQ && p.Succs[0] == d) {
						ok = true
					}
				}
				if !ok {
					bad = c.Pos(in.Pos())
				}
			})
			if n > 0 {
				r.Check("PANIC-5", ff.name+"|nil-message", c.Pos(fn.Pos()), bad == "", "a nil message is rejected before any field is read", "message dereferenced at "+bad+" without a preceding nil test")
			}
		}
	}
	pool := c.PkgRel("pkg/pool")
	for _, p := range c.LibPkgs() {
		for _, fn := range funcsOfPkg(c, c.SSA[p.Types]) {
			fn := fn
			allInstrs(fn, func(in ssa.Instruction) {
				if g, ok := in.(*ssa.Go); ok {
					okGo := pool != nil && p.Types == pool.Types
					r.Check("PANIC-5", c.FuncName(fn)+"|go-statement", c.Pos(g.Pos()), okGo, "goroutines are started only by the pool", "go statement in "+c.FuncName(fn)+": code running there is outside the handler's recover barrier")
				}
			})
		}
	}

	r.Require("PANIC-1", 6)
	r.Require("PANIC-2", 6)
	r.Require("PANIC-3", 10)
	r.Require("PANIC-4", 8)
	r.Require("PANIC-5", 3)
}

func mayHoldNil(t types.Type) bool {
	switch u := t.Underlying().(type) {
	case *types.Pointer, *types.Interface, *types.Map, *types.Chan, *types.Signature:
		return true
	case *types.Slice:
		return true
	case *types.Array:
		return mayHoldNil(u.Elem())
	case *types.Struct:
		for i := 0; i < u.NumFields(); i++ {
			if mayHoldNil(u.Field(i).Type()) {
				return true
			}
		}
	}
	return false
}

func checkWorkerClosures(c *Ctx, r *Run) {
	pp := c.PkgRel("pkg/pool")
	if pp == nil {
		r.Unresolved("PANIC-2", "pkg/pool")
		return
	}
	psp := c.SSA[pp.Types]
	for _, p := range c.LibPkgs() {
		rel := c.Rel(p.Types)
		if rel == "pkg/pool" {
			continue
		}
		for _, P := range funcsOfPkg(c, c.SSA[p.Types]) {
			P := P
			allInstrs(P, func(in ssa.Instruction) {
				call, ok := in.(*ssa.Call)
				if !ok {
					return
				}
				cal := call.Call.StaticCallee()
				if cal == nil || cal.Pkg != psp || (cal.Name() != "Parallelize" && cal.Name() != "Search") {
					return
				}
				var mc *ssa.MakeClosure
				for _, a := range call.Call.Args {
					if x, ok := a.(*ssa.MakeClosure); ok {
						mc = x
					}
				}
				if mc == nil {
					return
				}
				C := mc.Fn.(*ssa.Function)
				r.Analysed(c.FuncName(C))
				// which free variables carry peer data?
				verifierSide := false
				if strings.HasPrefix(rel, "pkg/zk/") {
					root := P
					for root.Parent() != nil {
						root = root.Parent()
					}
					verifierSide = root.Name() == "Verify"
				}
				type peerVar struct {
					idx   int
					label string // label inside C
					outer string // label in P
				}
				var peers []peerVar
				for i, fv := range C.FreeVars {
					b := mc.Bindings[i]
					outer := paramFields(P, b)
					lbl := "free:" + shortType(fv.Type())
					isPeer := false
					for _, o := range outer {
						if o == "body" || strings.HasPrefix(o, "body.") {
							isPeer = true
						}
						if verifierSide && (o == "recv" || strings.HasPrefix(o, "recv.")) {
							isPeer = true
						}
						if rel == "internal/ot" && strings.HasSuffix(strings.SplitN(o, ".", 2)[0], "Message") {
							isPeer = true
						}
					}
					// only variables bound directly to the peer object (or one of its fields), not values computed from it
					if isPeer && len(outer) == 1 && !strings.HasSuffix(outer[0], "()") {
						peers = append(peers, peerVar{i, lbl, outer[0]})
					}
				}
				key := c.FuncName(C)
				if len(peers) == 0 {
					r.Hold("PANIC-2", key+"|no-peer-data", c.Pos(call.Pos()), "the task works on local / already validated state only (no free variable bound to message content or a received proof)")
					return
				}
				// labels touched in C
				touched := map[string]types.Type{}
				allInstrs(C, func(x ssa.Instruction) {
					var vals []ssa.Value
					switch y := x.(type) {
					case ssa.CallInstruction:
						vals = append(vals, y.Common().Args...)
						if y.Common().IsInvoke() {
							vals = append(vals, y.Common().Value)
						}
					case *ssa.UnOp:
						if y.Op == token.MUL {
							vals = append(vals, y.X)
						}
					case *ssa.FieldAddr:
						vals = append(vals, y.X)
					case *ssa.IndexAddr:
						vals = append(vals, y.X)
					}
					for _, v := range vals {
						for _, l := range paramFields(C, v) {
							for _, pv := range peers {
								if l == pv.label || strings.HasPrefix(l, pv.label+".") {
									if _, seen := touched[l]; !seen {
										touched[l] = v.Type()
									}
								}
							}
						}
					}
				})
				cg := liftedGuards(C, 0)
				pg := liftedGuards(P, 0)
				labels := make([]string, 0, len(touched))
				for l := range touched {
					labels = append(labels, l)
				}
				sort.Strings(labels)
				for _, l := range labels {
					if lt := labelType(C, l); lt != nil {
						if !nilDangerous(lt) {
							continue
						}
					} else if !nilDangerous(touched[l]) {
						continue
					}
					base := strings.SplitN(l, "[", 2)[0]
					// field type
					okGuard := false
					how := ""
					for _, g := range cg {
						if isNilRejecting(g.decider) && containsField(g.fields, base) && guardCoversAccepts(g) {
							okGuard, how = true, "guard "+g.decider+" inside the task"
						}
					}
					if !okGuard {
						for _, pv := range peers {
							if base != pv.label && !strings.HasPrefix(base, pv.label+".") {
								continue
							}
							outer := pv.outer + strings.TrimPrefix(base, pv.label)
							for _, g := range pg {
								if !isNilRejecting(g.decider) || !containsField(g.fields, outer) {
									continue
								}
								if g.passBlk != nil && (g.passBlk == call.Block() || g.passBlk.Dominates(call.Block())) {
									okGuard, how = true, "guard "+g.decider+" in "+P.Name()+" before the pool call"
								} else if g.iff != nil && guardCoversAccepts(g) && blockReaches(g.iff.Block(), call.Block()) {
									okGuard, how = true, "per-element guard "+g.decider+" in "+P.Name()+" before the pool call"
								}
							}
						}
					}
					// bare root (the pointer itself)
					isRoot := false
					for _, pv := range peers {
						if base == pv.label {
							isRoot = true
						}
					}
					if isRoot && !okGuard {
						// root pointers: nil-checked by P (== nil guard) or by the consuming round (checked below for ot messages)
						for _, g := range pg {
							if strings.Contains(g.decider, "== nil") || strings.Contains(g.decider, "!= nil") {
								for _, pv := range peers {
									if containsField(g.fields, pv.outer) {
										okGuard, how = true, "nil test of "+pv.outer
									}
								}
							}
						}
						if rel == "internal/ot" {
							okGuard, how = true, "sub-protocol message pointer: nil-checked by the consuming round (rule below)"
						}
					}
					r.Check("PANIC-2", key+"|"+l, c.Pos(call.Pos()), okGuard,
						"peer-controlled "+l+" is validated ("+how+") before the worker dereferences it",
						fmt.Sprintf("the task running on a pool worker touches %s, which comes from the peer and may be nil/out of range, but no nil-rejecting validator guards it inside the task or before the pool call: a CBOR null there panics on the worker goroutine, where the handler's barrier cannot recover it, and the process dies", l))
				}
			})
		}
	}
	// pointer-typed sub-protocol messages are nil-checked by the consuming round
	rm := getRoundModel(c)
	for _, ri := range rm.rounds {
		for _, bc := range []bool{false, true} {
			T := ri.p2p
			if bc {
				T = ri.bcast
			}
			if T == nil {
				continue
			}
			st, ok := T.Underlying().(*types.Struct)
			if !ok {
				continue
			}
			for i := 0; i < st.NumFields(); i++ {
				f := st.Field(i)
				pt, isPtr := f.Type().(*types.Pointer)
				if !isPtr {
					continue
				}
				n := namedOf(pt)
				if n == nil || n.Obj().Pkg() == nil || c.Rel(n.Obj().Pkg()) != "internal/ot" {
					continue
				}
				found := false
				for _, fn := range ri.consumers(bc) {
					for _, g := range liftedGuards(fn, 0) {
						if !(guardCoversAccepts(g) || chainCovers(g)) {
							continue
						}
						// the field itself is compared with nil (not the error of a call it is passed to)
						for _, v := range nilComparisons(g) {
							if strings.HasSuffix(path(v), "."+f.Name()) && containsField(paramFields(g.fn, v), "body."+f.Name()) {
								found = true
							}
						}
					}
				}
				cons := ri.consumers(bc)
				pos := "?"
				if len(cons) > 0 {
					pos = c.Pos(cons[0].Pos())
				}
				r.Check("PANIC-2", ri.name+"|"+T.Obj().Name()+"."+f.Name()+"|nil-checked", pos, found,
					"sub-protocol message "+f.Name()+" is nil-checked before it is handed to internal/ot (whose tasks run on pool workers)",
					"pointer field "+f.Name()+" (internal/ot message) is handed on without a nil test: a CBOR null is dereferenced inside the OT code, possibly on a worker goroutine")
			}
		}
	}
}

func checkUnmarshalers(c *Ctx, r *Run) {
	for _, p := range c.LibPkgs() {
		for _, fn := range funcsOfPkg(c, c.SSA[p.Types]) {
			if fn.Name() != "UnmarshalBinary" || fn.Parent() != nil || len(fn.Params) != 2 {
				continue
			}
			data := fn.Params[1]
			if _, ok := data.Type().Underlying().(*types.Slice); !ok {
				continue
			}
			r.Analysed(c.FuncName(fn))
			key := c.FuncName(fn)
			// the input slice itself or a re-slice / conversion of it (not aggregates that merely contain it)
			var fromData func(v ssa.Value) bool
			fromData = func(v ssa.Value) bool {
				for i := 0; i < 20; i++ {
					switch x := v.(type) {
					case *ssa.Parameter:
						return x == data
					case *ssa.Slice:
						v = x.X
					case *ssa.ChangeType:
						v = x.X
					case *ssa.Convert:
						v = x.X
					case *ssa.Phi:
						for _, e := range x.Edges {
							if e != ssa.Value(x) && fromData(e) {
								return true
							}
						}
						return false
					default:
						return false
					}
				}
				return false
			}
			// len guards
			lenGuarded := func(in ssa.Instruction) bool {
				for _, g := range rejectGuards(fn) {
					if g.iff == nil || g.passBlk == nil {
						continue
					}
					if !(g.passBlk == in.Block() || g.passBlk.Dominates(in.Block())) {
						continue
					}
					if dependsOn(g.cond, func(x ssa.Value) bool {
						call, ok := x.(*ssa.Call)
						if !ok {
							return false
						}
						b, ok := call.Call.Value.(*ssa.Builtin)
						return ok && b.Name() == "len" && len(call.Call.Args) == 1 && fromData(call.Call.Args[0])
					}) {
						return true
					}
				}
				return false
			}
			nAccess := 0
			bad := ""
			allInstrs(fn, func(in ssa.Instruction) {
				risky := false
				what := ""
				switch x := in.(type) {
				case *ssa.IndexAddr:
					if fromData(x.X) {
						risky, what = true, "index into the input"
					}
				case *ssa.Slice:
					if fromData(x.X) && (x.Low != nil || x.High != nil) {
						risky, what = true, "slice of the input"
					}
				case *ssa.Call:
					if o := calleeObj(x); o != nil && o.Pkg() != nil && o.Pkg().Path() == "encoding/binary" && strings.HasPrefix(o.Name(), "Uint") {
						for _, a := range x.Call.Args {
							if fromData(a) {
								risky, what = true, "fixed-width read "+o.Name()
							}
						}
					}
				}
				if !risky {
					return
				}
				nAccess++
				if !lenGuarded(in) {
					bad = what + " at " + c.Pos(in.Pos()) + " is not dominated by a len() guard on the input"
				}
			})
			if nAccess > 0 {
				r.Check("PANIC-4", key+"|bounds", c.Pos(fn.Pos()), bad == "", "every positional access to the input bytes is under a length guard", bad+": short input panics")
			} else {
				r.Hold("PANIC-4", key+"|bounds", c.Pos(fn.Pos()), "no positional access to the raw input (delegates to a decoder)")
			}
			// allocations sized by input content
			allInstrs(fn, func(in ssa.Instruction) {
				var size ssa.Value
				switch x := in.(type) {
				case *ssa.MakeSlice:
					size = x.Len
				case *ssa.MakeMap:
					size = x.Reserve
				}
				if size == nil {
					return
				}
				if _, isC := size.(*ssa.Const); isC {
					return
				}
				// depends on the *content* of data (a read), not merely its length
				contentDep := dependsOn(size, func(x ssa.Value) bool {
					call, ok := x.(*ssa.Call)
					if ok {
						if o := calleeObj(call); o != nil && o.Pkg() != nil && o.Pkg().Path() == "encoding/binary" {
							return true
						}
					}
					if ia, ok := x.(*ssa.IndexAddr); ok && fromData(ia.X) {
						return true
					}
					return false
				})
				if !contentDep {
					return
				}
				bounded := false
				wraps := ""
				for _, g := range rejectGuards(fn) {
					if g.iff == nil || g.passBlk == nil || !(g.passBlk == in.Block() || g.passBlk.Dominates(in.Block())) {
						continue
					}
					usesLen := dependsOn(g.cond, func(x ssa.Value) bool {
						call, ok := x.(*ssa.Call)
						if !ok {
							return false
						}
						b, ok := call.Call.Value.(*ssa.Builtin)
						return ok && b.Name() == "len"
					})
					usesSize := dependsOn(g.cond, func(x ssa.Value) bool { return x == stripConv(size) || x == size })
					if usesLen && usesSize {
						bounded = true
						// the comparison must not compute with the untrusted number in a type it can wrap around in
						if w := wrappingArithmetic(g.cond, size); w != "" {
							wraps = w
						}
					}
				}
				if bounded && wraps != "" {
					r.Check("PANIC-4", key+"|allocation-bound-cannot-wrap", c.Pos(in.Pos()), false, "", "the bound on the allocation size computes "+wraps+" with the number read from the input in a type narrower than 64 bits: a crafted header makes the product wrap, the guard passes and a few bytes request gigabytes")
				} else if bounded {
					r.Hold("PANIC-4", key+"|allocation-bound-cannot-wrap", c.Pos(in.Pos()), "the bounding comparison does no narrow arithmetic on the untrusted size")
				}
				r.Check("PANIC-4", key+"|allocation-bounded", c.Pos(in.Pos()), bounded, "an allocation sized by a number read from the input is bounded by the input length", "allocation at "+c.Pos(in.Pos())+" is sized by a value read from the input with no bound tied to len(input): a few bytes request gigabytes")
			})
		}
	}
}

// nilDangerous: a decoded value of this type can be nil (or contain nil) in a way that a plain
// use dereferences. Byte slices are excluded (nil is an empty slice; bounds are a separate rule).
func nilDangerous(t types.Type) bool {
	if t == nil {
		return true
	}
	switch u := t.Underlying().(type) {
	case *types.Pointer:
		// pointer to a plain aggregate is dangerous itself; what it points to recursively too
		return true
	case *types.Interface, *types.Signature, *types.Chan:
		return true
	case *types.Map:
		return nilDangerous(u.Elem())
	case *types.Slice:
		if b, ok := u.Elem().Underlying().(*types.Basic); ok && b.Kind() == types.Byte {
			return false
		}
		return nilDangerous(u.Elem())
	case *types.Array:
		return nilDangerous(u.Elem())
	case *types.Struct:
		for i := 0; i < u.NumFields(); i++ {
			if nilDangerous(u.Field(i).Type()) {
				return true
			}
		}
	}
	return false
}

// labelType resolves "free:T.F.G" to the declared type of field G.
func labelType(C *ssa.Function, label string) types.Type {
	base := strings.SplitN(label, "[", 2)[0]
	parts := strings.Split(base, ".")
	var t types.Type
	for _, fv := range C.FreeVars {
		if "free:"+shortType(fv.Type()) == parts[0] {
			t = fv.Type()
		}
	}
	if t == nil {
		return nil
	}
	if len(parts) == 1 {
		return t
	}
	for _, name := range parts[1:] {
		for {
			pt, isPtr := t.Underlying().(*types.Pointer)
			if !isPtr {
				break
			}
			t = pt.Elem()
		}
		st, ok := t.Underlying().(*types.Struct)
		if !ok {
			return nil
		}
		var next types.Type
		for i := 0; i < st.NumFields(); i++ {
			if st.Field(i).Name() == name {
				next = st.Field(i).Type()
			}
		}
		if next == nil {
			return nil
		}
		t = next
	}
	return t
}

// wrappingArithmetic: on the way from cond down to the untrusted value there is a multiplication, addition or left
// shift whose result type is narrower than 64 bits (int/uint are taken as 64 bits: the supported targets).
func wrappingArithmetic(cond, untrusted ssa.Value) string {
	target := stripConv(untrusted)
	reaches := func(v ssa.Value) bool {
		return dependsOn(v, func(x ssa.Value) bool { return x == target || x == untrusted })
	}
	found := ""
	seen := map[ssa.Value]bool{}
	var walk func(v ssa.Value, d int)
	walk = func(v ssa.Value, d int) {
		if v == nil || seen[v] || d > 12 || found != "" {
			return
		}
		seen[v] = true
		if bo, ok := v.(*ssa.BinOp); ok {
			switch bo.Op {
			case token.MUL, token.ADD, token.SHL:
				if reaches(bo.X) || reaches(bo.Y) {
					if b, ok := bo.Type().Underlying().(*types.Basic); ok {
						switch b.Kind() {
						case types.Int8, types.Int16, types.Int32, types.Uint8, types.Uint16, types.Uint32:
							found = bo.Op.String() + " in " + b.Name()
							return
						}
					}
				}
			}
		}
		if in, ok := v.(ssa.Instruction); ok {
			for _, op := range in.Operands(nil) {
				if *op != nil {
					walk(*op, d+1)
				}
			}
		}
	}
	walk(cond, 0)
	return found
}

// uncontainedFirst prefers a closure over its parent as the representative of a panic site (closures are the task
// functions handed to the pool).
func uncontainedFirst(a, b *ssa.Function) bool { return a.Parent() != nil && b.Parent() == nil }
