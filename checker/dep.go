package main

import (
	"fmt"
	"go/token"
	"go/types"
	"os"
	"sort"
	"strings"

	"golang.org/x/tools/go/ssa"
)

// depEngine computes a conservative may-depend set for a value of one function, including
// object-level effects: an object (pointer / slice / map / local aggregate) depends on whatever is
// stored into it or passed alongside it to a call that may write it, provided that effect can
// execute before the point of use. Leaves are rendered with the same labels as the guard
// inventory ("recv.s_i", "Message.From", "[]byte", "recv.Hash()") plus the tokens RANDOM (system
// randomness) and COUNTER (process-wide atomic counter).
type depEngine struct {
	fn    *ssa.Function
	at    ssa.Instruction // effects must be able to execute before this instruction (nil: any)
	memo  map[ssa.Value]map[string]bool
	busy  map[ssa.Value]bool
	subs  map[ssa.Instruction]*depEngine
	root  *depEngine
	loads map[string][]ssa.Value
}

func newDep(fn *ssa.Function, at ssa.Instruction) *depEngine {
	d := &depEngine{fn: fn, at: at, memo: map[ssa.Value]map[string]bool{}, busy: map[ssa.Value]bool{}, subs: map[ssa.Instruction]*depEngine{}}
	d.root = d
	return d
}

// fieldLoads indexes the loads of struct fields by the access path of their address.
func (d *depEngine) fieldLoads() map[string][]ssa.Value {
	if d.loads != nil {
		return d.loads
	}
	d.loads = map[string][]ssa.Value{}
	allInstrs(d.fn, func(in ssa.Instruction) {
		if u, ok := in.(*ssa.UnOp); ok && u.Op == token.MUL {
			if _, isFA := u.X.(*ssa.FieldAddr); isFA {
				k := path(u.X)
				d.loads[k] = append(d.loads[k], u)
			}
		}
	})
	return d.loads
}

// sub: the engine that evaluates values as of instruction `at` (object state at a call site).
func (d *depEngine) sub(at ssa.Instruction) *depEngine {
	r := d.root
	if r.at == at {
		return r
	}
	if s, ok := r.subs[at]; ok {
		return s
	}
	s := &depEngine{fn: d.fn, at: at, memo: map[ssa.Value]map[string]bool{}, busy: map[ssa.Value]bool{}, root: r}
	r.subs[at] = s
	return s
}

func (d *depEngine) labels(v ssa.Value) []string {
	m := d.deps(v, 0)
	out := make([]string, 0, len(m))
	for k := range m {
		out = append(out, k)
	}
	sort.Strings(out)
	return out
}

func (d *depEngine) has(v ssa.Value, label string) bool {
	for _, l := range d.labels(v) {
		if l == label || strings.HasPrefix(l, label+".") || strings.HasPrefix(l, label+"[") {
			return true
		}
	}
	return false
}

func isObjectType(t types.Type) bool {
	switch t.Underlying().(type) {
	case *types.Pointer, *types.Slice, *types.Map, *types.Interface:
		return true
	}
	return false
}

func (d *depEngine) before(in ssa.Instruction) bool {
	if d.at == nil {
		return true
	}
	return in == d.at || instrReaches(in, d.at)
}

func union(dst, src map[string]bool) {
	for k := range src {
		dst[k] = true
	}
}

func (d *depEngine) deps(v ssa.Value, depth int) map[string]bool {
	out := map[string]bool{}
	if v == nil || depth > 80 {
		return out
	}
	if m, ok := d.memo[v]; ok {
		return m
	}
	if d.busy[v] {
		return out
	}
	d.busy[v] = true
	defer func() { d.busy[v] = false }()

	// leaves through the inventory's labeller (single-root values)
	switch x := v.(type) {
	case *ssa.Const:
		d.memo[v] = out
		return out
	case *ssa.Global:
		if x.Pkg != nil && x.Pkg.Pkg.Path() == "crypto/rand" && x.Name() == "Reader" {
			out["RANDOM"] = true
		} else {
			out["global:"+x.Name()] = true
		}
		d.memo[v] = out
		return out
	case *ssa.Parameter, *ssa.FreeVar:
		for _, l := range paramFields(d.fn, v) {
			out[l] = true
		}
		// parameters are objects too: they may be written by calls (e.g. io.ReadFull(rand, a))
	case *ssa.FieldAddr, *ssa.Field:
		ls := paramFields(d.fn, v)
		if len(ls) == 1 && !strings.Contains(ls[0], "(") {
			out[ls[0]] = true
		}
	}

	// structural operands
	if in, ok := v.(ssa.Instruction); ok {
		switch x := v.(type) {
		case *ssa.Call:
			d.callDeps(x, out, depth)
		case *ssa.Extract:
			if call, isCall := x.Tuple.(*ssa.Call); isCall && !call.Call.IsInvoke() && isLocalHelper(d.fn, call.Call.StaticCallee()) {
				// one result of a helper: only what that result depends on (not, say, the error it may also return)
				d.callDepsIdx(call, x.Index, out, depth)
			} else {
				union(out, d.deps(x.Tuple, depth+1))
			}
		case *ssa.Phi:
			for _, e := range x.Edges {
				union(out, d.deps(e, depth+1))
			}
			// control dependence of a phi on its selecting branch is not data flow: ignored
		default:
			for _, op := range in.Operands(nil) {
				if *op != nil {
					union(out, d.deps(*op, depth+1))
				}
			}
		}
	}

	// object-level effects
	if isObjectType(v.Type()) || isAllocLike(v) {
		d.effects(v, out, depth)
	}
	// loads: what was stored to the location
	if u, ok := v.(*ssa.UnOp); ok && u.Op == token.MUL {
		d.effects(u.X, out, depth)
		// other loads of the same field path denote the same object: their in-place effects count too
		if _, isFA := u.X.(*ssa.FieldAddr); isFA && isObjectType(v.Type()) {
			key := path(u.X)
			for _, other := range d.root.fieldLoads()[key] {
				if other != v && !d.busy[other] {
					d.busy[other] = true
					d.effects(other, out, depth+1)
					d.busy[other] = false
				}
			}
		}
	}
	d.memo[v] = out
	return out
}

func isAllocLike(v ssa.Value) bool {
	switch v.(type) {
	case *ssa.Alloc, *ssa.MakeSlice, *ssa.MakeMap:
		return true
	}
	return false
}

// callDeps: dependencies of a call's result.
func (d *depEngine) callDeps(call *ssa.Call, out map[string]bool, depth int) {
	d.callDepsIdx(call, -1, out, depth)
}

// callDepsIdx: dependencies of result number idx of a call (-1: of all results).
func (d *depEngine) callDepsIdx(call *ssa.Call, idx int, out map[string]bool, depth int) {
	o := calleeObj(call)
	name, pkg := "", ""
	if o != nil {
		name = o.Name()
		if o.Pkg() != nil {
			pkg = o.Pkg().Path()
		}
	}
	// session accessors on the receiver chain: label and stop
	ls := paramFields(d.fn, call)
	for _, l := range ls {
		if strings.HasSuffix(l, "()") {
			out[l] = true
		}
	}
	if pkg == "sync/atomic" {
		out["COUNTER"] = true
	}
	if b, ok := call.Call.Value.(*ssa.Builtin); ok {
		_ = b
	}
	// the result reflects the state of its operands at the time of the call
	e := d.sub(call)
	if call.Call.IsInvoke() {
		union(out, e.deps(call.Call.Value, depth+1))
	} else if _, isFn := call.Call.Value.(*ssa.Function); !isFn {
		if _, isB := call.Call.Value.(*ssa.Builtin); !isB {
			union(out, e.deps(call.Call.Value, depth+1))
		}
	}
	for _, a := range call.Call.Args {
		union(out, e.deps(a, depth+1))
	}
	_ = name
	// an unexported helper of the same package (a block of the method moved into a method of its own): the result also
	// depends on whatever the helper's returned values depend on, in the caller's vocabulary
	if cal := call.Call.StaticCallee(); !call.Call.IsInvoke() && isLocalHelper(d.fn, cal) && depHelperDepth < 2 {
		depHelperDepth++
		mkey := depHelperKey{cal, idx}
		sum, ok := depHelperMemo[mkey]
		if !ok {
			sum = map[string]bool{}
			hd := newDep(cal, nil)
			for _, ret := range returnsOf(cal) {
				for i, res := range ret.Results {
					if idx >= 0 && i != idx {
						continue
					}
					for _, l := range hd.labels(res) {
						sum[l] = true
					}
				}
			}
			depHelperMemo[mkey] = sum
			if os.Getenv("MPS_DEPDBG") != "" {
				fmt.Fprintf(os.Stderr, "DEPSUM %s: %v\n", cal, sum)
			}
		}
		depHelperDepth--
		type sub struct {
			from string
			to   []string
		}
		var subs []sub
		for i := range cal.Params {
			pl := paramLabel(cal, i)
			if pl == "" || i >= len(call.Call.Args) {
				continue
			}
			if pl == "recv" && d.fn.Signature.Recv() != nil && len(d.fn.Params) > 0 && call.Call.Args[i] == ssa.Value(d.fn.Params[0]) {
				continue // the same object: its field labels carry over unchanged
			}
			var to []string
			for l := range e.deps(call.Call.Args[i], depth+1) {
				to = append(to, l)
			}
			sort.Strings(to)
			subs = append(subs, sub{pl, to})
		}
		for l := range sum {
			cur := []string{l}
			for _, sb := range subs {
				var next []string
				for _, c := range cur {
					if !mentionsToken(c, sb.from) || len(sb.to) == 0 {
						next = append(next, c)
						continue
					}
					for _, t := range sb.to {
						if c == sb.from || len(sb.to) > 1 && strings.HasPrefix(c, sb.from+".") {
							next = append(next, t)
						} else {
							next = append(next, replaceToken(c, sb.from, t))
						}
					}
				}
				cur = next
			}
			for _, c := range cur {
				out[c] = true
			}
		}
	}
}

var depHelperDepth int

type depHelperKey struct {
	fn  *ssa.Function
	idx int
}

var depHelperMemo = map[depHelperKey]map[string]bool{}

// effects: what flows into object obj through stores and calls that can precede d.at.
func (d *depEngine) effects(obj ssa.Value, out map[string]bool, depth int) {
	refs := obj.Referrers()
	if refs == nil {
		return
	}
	for _, ref := range *refs {
		switch x := ref.(type) {
		case *ssa.Store:
			if x.Addr == obj && d.before(x) {
				union(out, d.deps(x.Val, depth+1))
			}
		case *ssa.MapUpdate:
			if x.Map == obj && d.before(x) {
				union(out, d.deps(x.Value, depth+1))
			}
		case *ssa.IndexAddr:
			if x.X == obj {
				d.effects(x, out, depth+1)
			}
		case *ssa.FieldAddr:
			if x.X == obj {
				d.effects(x, out, depth+1)
			}
		case *ssa.Slice:
			if x.X == obj {
				d.effects(x, out, depth+1)
			}
		case *ssa.UnOp:
			// load of a pointer variable: the loaded pointer denotes the same object as other loads; skip
		case ssa.CallInstruction:
			if !d.before(x) {
				continue
			}
			cc := x.Common()
			pos := -1
			for i, a := range cc.Args {
				if a == obj {
					pos = i
				}
			}
			isRecv := cc.IsInvoke() && cc.Value == obj
			if pos < 0 && !isRecv {
				continue
			}
			o := calleeObj(x)
			nm, pk := "", ""
			if o != nil {
				nm = o.Name()
				if o.Pkg() != nil {
					pk = o.Pkg().Path()
				}
			}
			switch {
			case pk == "crypto/rand" && nm == "Read":
				out["RANDOM"] = true
			case pk == "io" && nm == "ReadFull":
				if pos == 1 {
					union(out, d.deps(cc.Args[0], depth+1))
				}
			case strings.Contains(pk, "blake3") && nm == "DeriveKey":
				if pos == 2 {
					union(out, d.deps(cc.Args[0], depth+1))
					union(out, d.deps(cc.Args[1], depth+1))
				}
			case pk == "encoding/binary" && strings.HasPrefix(nm, "PutUint"):
				if pos == len(cc.Args)-2 {
					union(out, d.deps(cc.Args[len(cc.Args)-1], depth+1))
				}
			case readOnlyCallee(pk, nm):
				// no effect on the object
			case !isRecv && !(pos == 0 && !cc.IsInvoke() && cc.StaticCallee() != nil && cc.StaticCallee().Signature.Recv() != nil) && !writesArgs(pk, nm):
				// Go convention: a call mutates its receiver and explicit out-parameters (tabled), not its other arguments
			default:
				// receiver / argument of a call that may write it: depends on the other arguments
				for i, a := range cc.Args {
					if i != pos {
						union(out, d.deps(a, depth+1))
					}
				}
				if cc.IsInvoke() && !isRecv {
					union(out, d.deps(cc.Value, depth+1))
				}
			}
		}
	}
}

func readOnlyCallee(pkg, name string) bool {
	switch name {
	case "Digest", "Sum", "Clone", "MarshalBinary", "Bytes", "String", "Equal", "IsZero", "IsIdentity", "ActOnBase", "Act", "XBytes", "Curve", "HasEvenY", "Len", "Error":
		return true
	}
	if pkg == "fmt" {
		return true
	}
	return false
}

// writesArgs: functions known to write into a non-receiver argument.
func writesArgs(pkg, name string) bool {
	switch name {
	case "Read", "ReadFull", "DeriveKey", "FillBytes", "Unmarshal", "Decode", "copy", "Parallelize", "Search", "XORBytes", "ConstantTimeCopy":
		return true
	}
	return strings.HasPrefix(name, "PutUint")
}

// depLabelsUp: may-depend labels of v in the vocabulary of the function whose helper region v's function belongs to.
func depLabelsUp(v ssa.Value) []string {
	owner := valueParent(v)
	if owner == nil {
		return nil
	}
	ls := newDep(owner, nil).labels(v)
	for i, p := range owner.Params {
		a, bound := helperArg[p]
		pl := paramLabel(owner, i)
		if !bound || pl == "" || pl == "recv" || valueParent(a) == nil || valueParent(a) == owner {
			continue
		}
		to := depLabelsUp(a)
		var next []string
		for _, l := range ls {
			if !mentionsToken(l, pl) || len(to) == 0 {
				next = append(next, l)
				continue
			}
			for _, t := range to {
				if l == pl {
					next = append(next, t)
				} else {
					next = append(next, replaceToken(l, pl, t))
				}
			}
		}
		ls = next
	}
	sort.Strings(ls)
	return ls
}
