package main

import (
	"fmt"
	"go/token"
	"go/types"
	"sort"
	"strings"

	"golang.org/x/tools/go/ssa"
)

func init() {
	register("C14", propMeta{
		Explanation: "CODEC-1: every literal of a key-material type (cmp Config, frost Config / TaprootConfig, doerner ConfigReceiver / ConfigSender) that is handed to ResultRound or returned by a method of that type (Derive, DeriveBIP32, Clone) sets its ChainKey field. " +
			"DEP-7: the chain key of a key-generation result must-depend (dep.go) on every party's decommitted contribution (the whole ChainKeys table / both parties' contributions for Doerner) — or is exactly the previous chain key on a CMP refresh. DEP-8: in every Derive the child chain key is the newChainKey argument, and the secret share as well as every public share must-depend on the adjust argument. " +
			"ALIAS-1: derivation and round code never mutates, in place, a scalar or RID object that belongs to the caller's (parent / previous) key material: in-place mutators (Add, Sub, Mul, Negate, Invert, Set, SetNat, XOR) are applied only to fresh objects. " +
			"SPEC-1: bip32.DeriveScalar keys HMAC with the chain code, absorbs the compressed public key then the 4-byte big-endian index, splits the output at 32, refuses hardened indices and zero/overflowing scalars (guard inventory + dependency checks). NOT decided: numeric equality with BIP-32 test vectors; that the derived sharing reconstructs the child key.",
		Trusted:     append([]string{"tables/round_guards.json (bip32, Derive guards)", "mutator table for curve.Scalar / types.RID (ALIAS-1)"}, commonTrusted...),
		Assumptions: []string{"HMAC-SHA512 and curve arithmetic are implemented correctly by their libraries"},
	}, runC14)
}

var keyMaterialTypes = []struct{ rel, name string }{
	{"protocols/cmp/config", "Config"},
	{"protocols/frost/keygen", "Config"},
	{"protocols/frost/keygen", "TaprootConfig"},
	{"protocols/doerner/keygen", "ConfigReceiver"},
	{"protocols/doerner/keygen", "ConfigSender"},
}

func keyMaterialNamed(c *Ctx) []*types.Named {
	var out []*types.Named
	for _, k := range keyMaterialTypes {
		if n := c.LookupNamed(k.rel, k.name); n != nil {
			out = append(out, n)
		}
	}
	return out
}

// resultLiterals: allocations of key-material type T in fn together with the values stored into their fields.
type lit struct {
	fn     *ssa.Function
	alloc  *ssa.Alloc
	fields map[string]ssa.Value
	stores map[string]*ssa.Store
}

func literalsOf(fn *ssa.Function, T *types.Named) []lit {
	var out []lit
	allInstrs(fn, func(in ssa.Instruction) {
		a, ok := in.(*ssa.Alloc)
		if !ok {
			return
		}
		pt, ok := a.Type().(*types.Pointer)
		if !ok || namedOf(pt.Elem()) != T {
			return
		}
		l := lit{fn: fn, alloc: a, fields: map[string]ssa.Value{}, stores: map[string]*ssa.Store{}}
		for _, ref := range *a.Referrers() {
			fa, ok := ref.(*ssa.FieldAddr)
			if !ok {
				continue
			}
			fv := fieldVar(fa.X.Type(), fa.Field)
			for _, rr := range *fa.Referrers() {
				if st, ok := rr.(*ssa.Store); ok && st.Addr == ssa.Value(fa) && fv != nil {
					l.fields[fv.Name()] = st.Val
					l.stores[fv.Name()] = st
				}
			}
		}
		out = append(out, l)
	})
	return out
}

var scalarMutators = map[string]bool{"Add": true, "Sub": true, "Mul": true, "Negate": true, "Invert": true, "Set": true, "SetNat": true, "XOR": true}

// freshValue: the value denotes an object created in this function (never the caller's).
func freshValue(v ssa.Value, depth int) bool {
	if depth > 12 {
		return false
	}
	v = stripConv(v)
	switch x := v.(type) {
	case *ssa.Alloc, *ssa.MakeSlice, *ssa.MakeMap:
		return true
	case *ssa.Const:
		return true
	case *ssa.Phi:
		for _, e := range x.Edges {
			if e != ssa.Value(x) && !freshValue(e, depth+1) {
				return false
			}
		}
		return true
	case *ssa.Extract:
		if call, ok := x.Tuple.(*ssa.Call); ok {
			if calleeReturnsFresh(call, x.Index, depth) {
				return true
			}
		}
		return freshValue(x.Tuple, depth+1)
	case *ssa.UnOp:
		// load of a local variable cell: fresh iff every definition reaching the load is fresh
		if x.Op.String() == "*" {
			if defs, fromEntry := reachingStores(x); !fromEntry && len(defs) > 0 {
				for _, st := range defs {
					if !freshValue(st.Val, depth+1) {
						return false
					}
				}
				return true
			}
		}
	case *ssa.Call:
		o := calleeObj(x)
		if o == nil {
			return false
		}
		switch o.Name() {
		case "NewScalar", "NewPoint", "NewBasePoint", "Copy", "EmptyRID", "NewRID", "Clone", "ActOnBase", "Act", "Scalar", "XScalar", "MakeInt", "FromHash":
			return true
		}
		if o.Pkg() != nil && (strings.HasSuffix(o.Pkg().Path(), "math/sample") || strings.HasSuffix(o.Pkg().Path(), "math/polynomial")) {
			return true
		}
		// chained mutator on a fresh receiver returns the receiver: x.Set(y).Add(z)
		if scalarMutators[o.Name()] {
			var recv ssa.Value
			if x.Call.IsInvoke() {
				recv = x.Call.Value
			} else if len(x.Call.Args) > 0 {
				recv = x.Call.Args[0]
			}
			return recv != nil && freshValue(recv, depth+1)
		}
		// point operations return new points
		if o.Name() == "Evaluate" || o.Name() == "Constant" || o.Name() == "Mod" || o.Name() == "Dec" {
			return true
		}
		if calleeReturnsFresh(x, 0, depth) {
			return true
		}
	}
	return false
}

// checkAlias: ALIAS-1 over the given functions. originOK decides whether a round-state field may be mutated in place.
func checkAlias(c *Ctx, r *Run, rule string, fns []*ssa.Function) {
	rm := getRoundModel(c)
	kms := keyMaterialNamed(c)
	isKM := func(n *types.Named) bool {
		for _, k := range kms {
			if k == n {
				return true
			}
		}
		return false
	}
	// field origins for round types: every store into field F of a round struct, package-wide
	originFresh := func(pkg *ssa.Package, fieldName string) (bool, string) {
		ok, where := true, ""
		n := 0
		for _, fn := range funcsOfPkg(c, pkg) {
			fn := fn
			allInstrs(fn, func(in ssa.Instruction) {
				st, isSt := in.(*ssa.Store)
				if !isSt {
					return
				}
				fa, isFA := st.Addr.(*ssa.FieldAddr)
				if !isFA {
					return
				}
				fv := fieldVar(fa.X.Type(), fa.Field)
				if fv == nil || fv.Name() != fieldName {
					return
				}
				if nn := namedOf(fa.X.Type()); nn == nil || rm.byType[nn] == nil {
					return
				}
				n++
				if !freshValue(st.Val, 0) {
					// reassignment from the field itself (r.x = f(r.x)) is judged by the producing call
					ok = false
					where = c.Pos(st.Pos()) + " (" + path(st.Val) + ")"
				}
			})
		}
		return ok && n > 0, where
	}
	for _, fn := range fns {
		fn := fn
		allInstrs(fn, func(in ssa.Instruction) {
			call, ok := in.(*ssa.Call)
			if !ok {
				return
			}
			o := calleeObj(call)
			if o == nil || !scalarMutators[o.Name()] {
				return
			}
			// only scalar-like receivers: curve.Scalar (interface), *Secp256k1Scalar, types.RID
			var recv ssa.Value
			if call.Call.IsInvoke() {
				recv = call.Call.Value
			} else if len(call.Call.Args) > 0 && call.Call.StaticCallee() != nil && call.Call.StaticCallee().Signature.Recv() != nil {
				recv = call.Call.Args[0]
			}
			if recv == nil {
				return
			}
			st := shortType(recv.Type())
			if st != "Scalar" && st != "Secp256k1Scalar" && st != "RID" {
				return
			}
			if freshValue(recv, 0) {
				return
			}
			r.Analysed(c.FuncName(fn))
			labels := paramFields(fn, recv)
			key := c.FuncName(fn) + "|" + o.Name() + " on " + strings.Join(labels, "+")
			// whose object is it?
			okSite, why := false, "in-place "+o.Name()+" on "+path(recv)+", an object that is not created in this function"
			if len(labels) == 1 && strings.HasPrefix(labels[0], "recv.") && fn.Signature.Recv() != nil {
				owner := namedOf(fn.Signature.Recv().Type())
				fieldName := strings.SplitN(strings.TrimPrefix(labels[0], "recv."), "[", 2)[0]
				if owner != nil && rm.byType[owner] != nil {
					// round state: fine if every origin of that field is fresh
					fresh, where := originFresh(fn.Pkg, fieldName)
					if fresh {
						okSite = true
					} else {
						why = fmt.Sprintf("in-place %s on round field %s, which is initialised at %s from an object owned by the caller: the caller's previous key material is rewritten", o.Name(), fieldName, where)
					}
				} else if owner != nil && isKM(owner) {
					why = fmt.Sprintf("in-place %s on field %s of the receiver: the parent/previous key material is modified (and shared with the result)", o.Name(), fieldName)
				}
			}
			r.Check(rule, key, c.Pos(call.Pos()), okSite, "in-place scalar/RID mutation is applied to an object created in this function (or to round state that was created fresh)", why)
		})
	}
}

func runC14(c *Ctx, r *Run) {
	r.Rule("CK-BIND", "chain-key contributions are committed when sampled and revealed only as openings that gate acceptance")
	r.Rule("CODEC-1", "every key-material literal that becomes a result (ResultRound argument or return of Derive/DeriveBIP32/Clone) sets ChainKey")
	r.Rule("DEP-7", "the chain key of a keygen result depends on every party's contribution (or is the previous chain key on refresh)")
	r.Rule("DEP-8", "Derive: child chain key is the newChainKey argument; secret share and every public share depend on the adjust argument")
	r.Rule("ALIAS-1", "no in-place mutation of scalar/RID objects owned by the caller's key material (parent config in Derive, previous config in refresh)")
	r.Rule("SPEC-1", "bip32.DeriveScalar: HMAC keyed by the chain code over compressed key then big-endian index, output split at 32, hardened index / zero / overflow refused")

	rm := getRoundModel(c)
	kms := keyMaterialNamed(c)
	if len(kms) < 5 {
		r.Unresolved("CODEC-1", "key-material types")
	}
	helperResult := c.LookupMethod("internal/round", "Helper", "ResultRound")

	// ---- CODEC-1 + DEP-7
	for _, ri := range rm.rounds {
		for _, mn := range []string{"Finalize"} {
			fn := ri.methods[mn]
			if fn == nil {
				continue
			}
			for _, T := range kms {
				for _, l := range literalsOf(fn, T) {
					// is this literal the ResultRound argument?
					isResult := false
					for _, ref := range *l.alloc.Referrers() {
						if mi, ok := ref.(*ssa.MakeInterface); ok {
							for _, rr := range *mi.Referrers() {
								if call, ok := rr.(*ssa.Call); ok && call.Call.StaticCallee() == helperResult {
									isResult = true
								}
							}
						}
					}
					if !isResult {
						continue
					}
					r.Analysed(c.FuncName(fn))
					key := c.FuncName(fn) + "|" + T.Obj().Name()
					ck, has := l.fields["ChainKey"]
					r.Check("CODEC-1", key+"|ChainKey-set", c.Pos(l.alloc.Pos()), has, "the result "+T.Obj().Name()+" carries the agreed chain key", "the "+T.Obj().Name()+" literal passed to ResultRound does not set ChainKey: the chain key computed by the protocol is dropped")
					if !has {
						continue
					}
					d := newDep(fn, l.stores["ChainKey"])
					ls := d.labels(ck)
					src := []string{}
					for _, x := range ls {
						if strings.Contains(strings.ToLower(x), "chainkey") {
							src = append(src, x)
						}
					}
					sort.Strings(src)
					okDep := len(src) > 0
					r.Check("DEP-7", key+"|ChainKey <- "+strings.Join(src, "+"), c.Pos(l.alloc.Pos()), okDep, "the result chain key derives from the chain-key state of the protocol ("+strings.Join(src, ", ")+")", "the result chain key does not depend on any chain-key contribution (depends on: "+strings.Join(ls, ", ")+")")
				}
			}
		}
	}
	// chain-key accumulation sites: the combined chain key depends on the whole contribution table
	for _, spec := range []struct{ rel, typ, method, field, table string }{
		{"protocols/frost/keygen", "round3", "Finalize", "ChainKey", "recv.ChainKeys"},
		{"protocols/cmp/keygen", "round3", "Finalize", "ChainKey", "recv.ChainKeys"},
	} {
		fn := c.LookupMethod(spec.rel, spec.typ, spec.method)
		if fn == nil {
			r.Unresolved("DEP-7", spec.rel+"."+spec.typ+"."+spec.method)
			continue
		}
		// any literal (result config or next round) with that field
		found := false
		allInstrs(fn, func(in ssa.Instruction) {
			st, ok := in.(*ssa.Store)
			if !ok {
				return
			}
			fa, ok := st.Addr.(*ssa.FieldAddr)
			if !ok {
				return
			}
			fv := fieldVar(fa.X.Type(), fa.Field)
			if fv == nil || fv.Name() != spec.field {
				return
			}
			found = true
			d := newDep(fn, st)
			okT := d.has(st.Val, spec.table)
			okAll := d.has(st.Val, "recv.PartyIDs()")
			r.Check("DEP-7", c.FuncName(fn)+"|"+spec.field+" <- all of "+spec.table, c.Pos(st.Pos()), okT && okAll,
				"the combined chain key absorbs the contribution of every participant (loop over PartyIDs())",
				fmt.Sprintf("the chain key stored at %s does not depend on %s over all PartyIDs() (depends on: %s)", c.Pos(st.Pos()), spec.table, strings.Join(d.labels(st.Val), ", ")))
		})
		if !found {
			r.Unresolved("DEP-7", c.FuncName(fn)+" "+spec.field+" store")
		}
	}
	// doerner: both sides XOR the peer's contribution into their own
	for _, spec := range []struct{ typ, peer string }{{"round2R", "body.ChainKey"}, {"round2S", "body.ChainKey"}} {
		fn := c.LookupMethod("protocols/doerner/keygen", spec.typ, "StoreMessage")
		if fn == nil {
			r.Unresolved("DEP-7", "protocols/doerner/keygen."+spec.typ+".StoreMessage")
			continue
		}
		ok := false
		allInstrs(fn, func(in ssa.Instruction) {
			st, isSt := in.(*ssa.Store)
			if !isSt {
				return
			}
			if !containsField(paramFields(fn, st.Addr), "recv.chainKey") {
				return
			}
			d := newDep(fn, nil)
			if d.has(st.Val, spec.peer) && (d.has(st.Val, "recv.chainKey") || d.has(st.Val, "recv.ourChainKey")) {
				ok = true
			}
		})
		if !ok {
			// the standard-library form: subtle.XORBytes(chainKey, chainKey, other)
			allInstrs(fn, func(in ssa.Instruction) {
				call, isCall := in.(*ssa.Call)
				if !isCall || !isCallToPkgFunc(call, "crypto/subtle", "XORBytes") || len(call.Call.Args) != 3 {
					return
				}
				dst := paramFields(fn, call.Call.Args[0])
				d := newDep(fn, call)
				has := func(l string) bool { return d.has(call.Call.Args[1], l) || d.has(call.Call.Args[2], l) }
				if containsField(dst, "recv.chainKey") && has(spec.peer) && (has("recv.chainKey") || has("recv.ourChainKey")) {
					ok = true
				}
			})
		}
		if !ok {
			// the combination moved into a helper: g(dst, src) storing dst[i] ^ src[i] into dst, called with the chain key and the other contribution
			pur := newPurity(c)
			allInstrs(fn, func(in ssa.Instruction) {
				call, isCall := in.(*ssa.Call)
				if !isCall {
					return
				}
				g := call.Call.StaticCallee()
				if g == nil || g.Pkg == nil || !c.InModule(g.Pkg.Pkg) || len(g.Blocks) == 0 {
					return
				}
				dst, src := -1, -1
				for i, a := range call.Call.Args {
					fs := paramFields(fn, a)
					if containsField(fs, "recv.chainKey") {
						dst = i
					} else if containsField(fs, spec.peer) || containsField(fs, "recv.ourChainKey") {
						src = i
					}
				}
				if dst < 0 || src < 0 {
					return
				}
				allInstrs(g, func(gin ssa.Instruction) {
					st, isSt := gin.(*ssa.Store)
					if !isSt {
						return
					}
					bo, isBo := st.Val.(*ssa.BinOp)
					if !isBo || bo.Op != token.XOR {
						return
					}
					ka, ia := pur.root(g, st.Addr, 0)
					k1, i1 := pur.root(g, bo.X, 0)
					k2, i2 := pur.root(g, bo.Y, 0)
					if ka == rootParam && ia == dst && k1 == rootParam && k2 == rootParam && ((i1 == dst && i2 == src) || (i1 == src && i2 == dst)) {
						ok = true
					}
				})
			})
		}
		r.Check("DEP-7", "protocols/doerner/keygen.(*"+spec.typ+").StoreMessage|chainKey <- own+peer", c.Pos(fn.Pos()), ok, "the Doerner chain key combines this party's and the peer's contribution", "chainKey is not computed from both contributions")
	}

	// ---- CODEC-1 + DEP-8 for Derive / Clone methods
	var aliasFns []*ssa.Function
	for _, T := range kms {
		for i := 0; i < T.NumMethods(); i++ {
			mf := T.Method(i)
			fn := c.Prog.FuncValue(mf)
			if fn == nil {
				continue
			}
			switch mf.Name() {
			case "Derive", "DeriveBIP32", "Clone", "DeriveChild":
				aliasFns = append(aliasFns, fn)
			default:
				continue
			}
			r.Analysed(c.FuncName(fn))
			for _, l := range literalsOf(fn, T) {
				key := c.FuncName(fn)
				_, has := l.fields["ChainKey"]
				r.Check("CODEC-1", key+"|ChainKey-set", c.Pos(l.alloc.Pos()), has, "the "+T.Obj().Name()+" built by "+mf.Name()+" carries a chain key", mf.Name()+" builds a "+T.Obj().Name()+" without ChainKey: derived/cloned material cannot be derived again")
				if mf.Name() != "Derive" {
					continue
				}
				d := newDep(fn, nil)
				if ck, ok := l.fields["ChainKey"]; ok {
					r.Check("DEP-8", key+"|ChainKey <- newChainKey", c.Pos(l.alloc.Pos()), d.has(ck, "[]byte"), "the child chain key is the newChainKey argument (defaulting to the parent's only when empty)", "the child's chain key does not depend on the newChainKey argument: every child keeps the parent's chain code")
				}
				// secret share and public material depend on adjust (first non-receiver parameter)
				adj := ""
				if len(fn.Params) > 1 {
					adj = paramLabel(fn, 1)
				}
				for fname, v := range l.fields {
					switch fname {
					case "ECDSA", "PrivateShare", "SecretShare", "Public", "PublicKey", "VerificationShares":
					default:
						continue
					}
					dep := d.has(v, adj)
					// the doerner Sender keeps its additive share on purpose
					if T.Obj().Name() == "ConfigSender" && fname == "SecretShare" {
						r.Check("DEP-8", key+"|"+fname+" independent of adjust", c.Pos(l.alloc.Pos()), !dep, "in the additive two-party sharing exactly one share (the Receiver's) absorbs the adjustment", "the Sender's share also absorbs the adjustment: the shared secret moves by twice the child scalar")
						continue
					}
					r.Check("DEP-8", key+"|"+fname+" <- adjust", c.Pos(l.alloc.Pos()), dep, "derived "+fname+" depends on the child scalar", "derived "+fname+" does not depend on the adjust argument: the child material equals the parent's")
				}
			}
		}
	}

	// ---- ALIAS-1
	for _, ri := range rm.rounds {
		if strings.Contains(ri.rel, "keygen") {
			for _, mn := range []string{"Finalize", "StoreMessage", "StoreBroadcastMessage"} {
				if f := ri.methods[mn]; f != nil {
					aliasFns = append(aliasFns, f)
				}
			}
		}
	}
	// every other function of the key-material packages (a mutation moved into a helper is still found)
	{
		have := map[*ssa.Function]bool{}
		for _, f := range aliasFns {
			have[f] = true
		}
		for _, p := range c.LibPkgs() {
			rel := c.Rel(p.Types)
			if !(strings.HasPrefix(rel, "protocols/") && (strings.Contains(rel, "keygen") || strings.Contains(rel, "config"))) && rel != "internal/bip32" {
				continue
			}
			for _, fn := range funcsOfPkg(c, c.SSA[p.Types]) {
				withAnon(fn, func(f *ssa.Function) {
					if !have[f] {
						have[f] = true
						aliasFns = append(aliasFns, f)
					}
				})
			}
		}
	}
	checkAlias(c, r, "ALIAS-1", aliasFns)

	// ---- SPEC-1
	ds := c.LookupFunc("internal/bip32", "DeriveScalar")
	if ds == nil {
		r.Unresolved("SPEC-1", "internal/bip32.DeriveScalar")
	} else {
		r.Analysed(c.FuncName(ds))
		// hmac.New(sha512.New, chaining)
		keyed, okOrder, split := false, false, 0
		var writes []*ssa.Call
		dsRegion := regionOf(ds)
		eachDS := func(f func(ssa.Instruction)) {
			for _, g := range dsRegion {
				allInstrs(g, f)
			}
		}
		eachDS(func(in ssa.Instruction) {
			call, ok := in.(*ssa.Call)
			if !ok {
				return
			}
			if isCallToPkgFunc(call, "crypto/hmac", "New") && len(call.Call.Args) == 2 {
				if callerVal(call.Call.Args[1]) == ssa.Value(ds.Params[1]) {
					if f, ok := call.Call.Args[0].(*ssa.Function); ok && f.Pkg != nil && f.Pkg.Pkg.Path() == "crypto/sha512" && f.Name() == "New" {
						keyed = true
					}
				}
			}
			if call.Call.IsInvoke() && call.Call.Method.Name() == "Write" {
				writes = append(writes, call)
			}
		})
		if len(writes) == 2 {
			first := depLabelsUp(writes[0].Call.Args[0])
			second := depLabelsUp(writes[1].Call.Args[0])
			okOrder = containsField(first, "Secp256k1Point") && containsField(second, "uint32") && !containsField(first, "uint32") && instrDominates(writes[0], writes[1])
			// 4-byte big-endian index
			okOrder = okOrder && dependsOn(writes[1].Call.Args[0], func(v ssa.Value) bool {
				if ms, ok := v.(*ssa.MakeSlice); ok {
					k, isK := constInt(ms.Len)
					return isK && k == 4
				}
				if a, ok := v.(*ssa.Alloc); ok {
					if arr, ok := a.Type().(*types.Pointer).Elem().Underlying().(*types.Array); ok {
						return arr.Len() == 4
					}
				}
				return false
			})
		}
		eachDS(func(in ssa.Instruction) {
			if sl, ok := in.(*ssa.Slice); ok {
				if sl.High != nil {
					if k, ok := constInt(sl.High); ok && k == 32 && sl.Low == nil {
						split++
					}
				}
				if sl.Low != nil {
					if k, ok := constInt(sl.Low); ok && k == 32 && sl.High == nil {
						split++
					}
				}
			}
		})
		r.Check("SPEC-1", "internal/bip32.DeriveScalar|hmac-sha512-keyed-by-chain-code", c.Pos(ds.Pos()), keyed, "I = HMAC-SHA512(key = chain code, ...)", "HMAC is not SHA-512 keyed by the chain code parameter")
		r.Check("SPEC-1", "internal/bip32.DeriveScalar|data-is-serP-then-ser32", c.Pos(ds.Pos()), okOrder, "HMAC data = compressed public key || 4-byte big-endian index", "HMAC data is not serP(K) followed by ser32(i)")
		// I_L feeds the scalar, I_R is the returned chain code
		roleOK := false
		for _, ret := range returnsOf(ds) {
			if len(ret.Results) == 3 {
				if sl, ok := ret.Results[1].(*ssa.Slice); ok && sl.Low != nil && sl.High == nil {
					if k, ok := constInt(sl.Low); ok && k == 32 {
						roleOK = true
					}
				} else if !isNilConst(ret.Results[1]) {
					roleOK = false
				}
			}
		}
		scalarOK := false
		allInstrs(ds, func(in ssa.Instruction) {
			if call, ok := in.(*ssa.Call); ok {
				if o := calleeObj(call); o != nil && o.Name() == "UnmarshalBinary" {
					for _, a := range call.Call.Args {
						if sl, ok := a.(*ssa.Slice); ok && sl.Low == nil && sl.High != nil {
							if k, ok := constInt(sl.High); ok && k == 32 {
								scalarOK = true
							}
						}
					}
				}
			}
		})
		r.Check("SPEC-1", "internal/bip32.DeriveScalar|split-at-32", c.Pos(ds.Pos()), split == 2 && roleOK && scalarOK, "I_L = out[:32] is parsed as the scalar, I_R = out[32:] is returned as the child chain code", "the 64-byte HMAC output is not used as I_L (scalar) = out[:32], I_R (chain code) = out[32:]")
		checkGuardInventory(c, r, "SPEC-1", "round_guards.json", func(n string) bool { return strings.HasPrefix(n, "internal/bip32.") })
		// hardened index refusal
		hard := false
		allInstrs(ds, func(in ssa.Instruction) {
			if iff, ok := in.(*ssa.If); ok {
				if bo, ok := iff.Cond.(*ssa.BinOp); ok {
					if sh, ok := bo.X.(*ssa.BinOp); ok && sh.Op.String() == ">>" {
						if k, ok := constInt(sh.Y); ok && k == 31 {
							hard = true
						}
					}
					// the same test as a comparison: i >= 1<<31 (or i > 1<<31 - 1) on the index parameter
					if k, ok := constInt(bo.Y); ok && stripConv(bo.X) == ssa.Value(ds.Params[2]) {
						if (bo.Op == token.GEQ && k == 1<<31) || (bo.Op == token.GTR && k == 1<<31-1) || (bo.Op == token.LSS && k == 1<<31) || (bo.Op == token.LEQ && k == 1<<31-1) {
							hard = true
						}
					}
				}
			}
		})
		r.Check("SPEC-1", "internal/bip32.DeriveScalar|hardened-refused", c.Pos(ds.Pos()), hard, "indices >= 2^31 are refused", "no test of the hardened bit")
	}

	// ---- CK-BIND: a party's chain-key contribution is revealed only as the opening of a commitment made before
	// anybody else's contribution was known: the revealed field is data of a Decommit that gates acceptance, and
	// the committed value on the dealing side is the very contribution that is later revealed
	for _, site := range []struct{ rel, typ, method, field string }{
		{"protocols/cmp/keygen", "round3", "StoreBroadcastMessage", "body.C"},
		{"protocols/frost/keygen", "round3", "StoreBroadcastMessage", "body.C_l"},
		{"protocols/doerner/keygen", "round2S", "VerifyMessage", "body.ChainKey"},
	} {
		fn := c.LookupMethod(site.rel, site.typ, site.method)
		if fn == nil {
			r.Unresolved("CK-BIND", site.rel+"."+site.typ+"."+site.method)
			continue
		}
		r.Analysed(c.FuncName(fn))
		bound := false
		for _, g := range liftedGuards(fn, 0) {
			if !decHasSuffix(g.decider, "Hash.Decommit") || !guardCoversAccepts(g) {
				continue
			}
			call := condCall(g.cond)
			if call == nil || len(call.Call.Args) < 4 {
				continue
			}
			for _, el := range variadicElems(call.Call.Args[3]) {
				if containsField(paramFields(call.Parent(), el), site.field) {
					bound = true
				}
			}
		}
		r.Check("CK-BIND", c.FuncName(fn)+"|"+site.field+" opened", c.Pos(fn.Pos()), bound, "the revealed chain-key contribution "+site.field+" is data of a Decommit that gates acceptance",
			"the revealed contribution "+site.field+" is not covered by any gating Decommit: a party can choose it after seeing the others' (or reveal different values to different parties), so honest parties end with different or biased chain keys")
	}
	for _, site := range []struct{ rel, typ, local string }{
		{"protocols/cmp/keygen", "round1", "chainKey"},
		{"protocols/frost/keygen", "round1", "c_i"},
		{"protocols/doerner/keygen", "round1R", "chainKey"},
	} {
		fn := c.LookupMethod(site.rel, site.typ, "Finalize")
		if fn == nil {
			r.Unresolved("CK-BIND", site.rel+"."+site.typ+".Finalize")
			continue
		}
		r.Analysed(c.FuncName(fn))
		// the contribution: the value this round keeps under a chain-key field of the next round until it is revealed
		var contrib []ssa.Value
		allInstrs(fn, func(in ssa.Instruction) {
			var val ssa.Value
			var fa *ssa.FieldAddr
			switch x := in.(type) {
			case *ssa.Store:
				if f, ok := x.Addr.(*ssa.FieldAddr); ok {
					fa, val = f, x.Val
				}
			}
			if fa == nil || !strings.Contains(strings.ToLower(fieldName(fa.X.Type(), fa.Field)), "chainkey") {
				return
			}
			// stored directly, or as the own entry of a fresh map
			if mm, ok := resolveLoad(val).(*ssa.MakeMap); ok && mm.Referrers() != nil {
				for _, ref := range *mm.Referrers() {
					if mu, ok := ref.(*ssa.MapUpdate); ok {
						contrib = append(contrib, mu.Value)
					}
				}
				return
			}
			contrib = append(contrib, val)
		})
		rid := len(contrib) > 0
		committed := false
		for _, cv := range contrib {
			for _, call := range callsNamed(fn, "Commit") {
				args := call.Call.Args
				if len(args) < 2 {
					continue
				}
				for _, el := range variadicElems(args[len(args)-1]) {
					if sameObject(stripConv(el), stripConv(cv)) || dependsOn(el, func(v ssa.Value) bool { return v == stripConv(cv) }) {
						committed = true
					}
				}
			}
		}
		r.Check("CK-BIND", c.FuncName(fn)+"|contribution committed", c.Pos(fn.Pos()), rid && committed, "the chain-key contribution kept for the reveal is an argument of the round's Commit",
			"the chain-key contribution sampled in this round is not part of any commitment: it is not bound before the reveal")
	}
	r.Require("CK-BIND", 6)
	// ---- CK-COMB: both Doerner parties combine the two chain-key contributions on every accepting path (fresh key
	// generation and refresh alike): a side that skips the combination on some path ends with another chain key than its peer
	r.Rule("CK-COMB", "the XOR that combines the two chain-key contributions lies on every accepting path of the method that performs it (both Doerner sides)")
	if p := c.PkgRel("protocols/doerner/keygen"); p != nil {
		for _, fn := range funcsOfPkg(c, c.SSA[p.Types]) {
			var xorBlk *ssa.BasicBlock
			allInstrs(fn, func(in ssa.Instruction) {
				st, ok := in.(*ssa.Store)
				if !ok {
					return
				}
				bo, ok := st.Val.(*ssa.BinOp)
				if !ok || bo.Op != token.XOR {
					return
				}
				ia, ok := st.Addr.(*ssa.IndexAddr)
				if !ok || !containsField(paramFields(fn, ia.X), "recv.chainKey") {
					return
				}
				xorBlk = st.Block()
			})
			viaHelper := false
			if xorBlk == nil {
				allInstrs(fn, func(in ssa.Instruction) {
					if call, ok := in.(*ssa.Call); ok && isCallToPkgFunc(call, "crypto/subtle", "XORBytes") && len(call.Call.Args) == 3 &&
						containsField(paramFields(fn, call.Call.Args[0]), "recv.chainKey") {
						xorBlk, viaHelper = call.Block(), true
					}
				})
			}
			if xorBlk == nil {
				// the combined key is built into a fresh slice and then assigned: r.chainKey = <bytes computed with ^>
				allInstrs(fn, func(in ssa.Instruction) {
					st, ok := in.(*ssa.Store)
					if !ok {
						return
					}
					fa, ok := st.Addr.(*ssa.FieldAddr)
					if !ok || fieldName(fa.X.Type(), fa.Field) != "chainKey" {
						return
					}
					if dependsOn(st.Val, func(v ssa.Value) bool {
						bo, isBo := v.(*ssa.BinOp)
						return isBo && bo.Op == token.XOR
					}) {
						xorBlk, viaHelper = st.Block(), true
					}
				})
			}
			if xorBlk == nil {
				// the combination moved into a helper: a call handing recv.chainKey to a module function that XORs into its parameter
				allInstrs(fn, func(in ssa.Instruction) {
					call, ok := in.(*ssa.Call)
					if !ok {
						return
					}
					g := call.Call.StaticCallee()
					if g == nil || g.Pkg == nil || !c.InModule(g.Pkg.Pkg) || len(g.Blocks) == 0 {
						return
					}
					takes := false
					for _, a := range call.Call.Args {
						if containsField(paramFields(fn, a), "recv.chainKey") {
							takes = true
						}
					}
					if !takes {
						return
					}
					allInstrs(g, func(gin ssa.Instruction) {
						st, ok := gin.(*ssa.Store)
						if !ok {
							return
						}
						if bo, ok := st.Val.(*ssa.BinOp); ok && bo.Op == token.XOR {
							if _, isIA := st.Addr.(*ssa.IndexAddr); isIA {
								xorBlk, viaHelper = call.Block(), true
							}
						}
					})
				})
			}
			if xorBlk == nil {
				continue
			}
			r.Analysed(c.FuncName(fn))
			// the loop header: the topmost dominator of the XOR that still lies on the loop's cycle
			hdr := xorBlk
			for !viaHelper && hdr.Idom() != nil && blockInLoop(hdr.Idom()) && blockReaches(xorBlk, hdr.Idom()) {
				hdr = hdr.Idom()
			}
			bad := ""
			for _, ret := range returnsOf(fn) {
				if len(ret.Results) == 0 || !isNilConst(ret.Results[len(ret.Results)-1]) {
					continue
				}
				if ret.Block() == hdr || hdr.Dominates(ret.Block()) {
					continue
				}
				if ret.Block() == fn.Blocks[0] || reachesAvoiding(fn.Blocks[0], ret.Block(), hdr) {
					bad = c.Pos(ret.Pos())
				}
			}
			r.Check("CK-COMB", c.FuncName(fn)+"|xor-on-every-accepting-path", c.Pos(fn.Pos()), bad == "",
				"every accepting return passes the loop that XORs the peer's contribution into the chain key",
				"the accepting return at "+bad+" is reachable without passing the XOR of the two chain-key contributions (an early return, e.g. on refresh): this party keeps only one contribution while its peer combines both, so the two configs hold different chain keys and derive different child keys")
		}
	} else {
		r.Unresolved("CK-COMB", "protocols/doerner/keygen")
	}
	r.Require("CK-COMB", 2)
	r.Require("CODEC-1", 10)
	r.Require("DEP-7", 8)
	r.Require("DEP-8", 12)
	r.Require("SPEC-1", 5)
}

// reachingStores: the stores into the variable cell loaded by ld that can be the last one before ld.
// fromEntry reports that the load can also see the cell's value at function entry (a captured variable).
func reachingStores(ld *ssa.UnOp) (defs []*ssa.Store, fromEntry bool) {
	cell := ld.X
	switch cell.(type) {
	case *ssa.Alloc, *ssa.FreeVar:
	default:
		return nil, true
	}
	storesIn := func(b *ssa.BasicBlock, before int) *ssa.Store {
		var last *ssa.Store
		for i, in := range b.Instrs {
			if before >= 0 && i >= before {
				break
			}
			if st, ok := in.(*ssa.Store); ok && st.Addr == cell {
				last = st
			}
		}
		return last
	}
	idx := -1
	for i, in := range ld.Block().Instrs {
		if in == ssa.Instruction(ld) {
			idx = i
		}
	}
	if st := storesIn(ld.Block(), idx); st != nil {
		return []*ssa.Store{st}, false
	}
	seen := map[*ssa.BasicBlock]bool{}
	var walk func(b *ssa.BasicBlock)
	walk = func(b *ssa.BasicBlock) {
		if len(b.Preds) == 0 {
			if _, isFV := cell.(*ssa.FreeVar); isFV {
				fromEntry = true
			}
			// an Alloc has no value before its first store
			return
		}
		for _, p := range b.Preds {
			if seen[p] {
				continue
			}
			seen[p] = true
			if st := storesIn(p, -1); st != nil {
				defs = append(defs, st)
				continue
			}
			walk(p)
		}
	}
	walk(ld.Block())
	return defs, fromEntry
}

// calleeReturnsFresh: the call's static callee is a function of the module all of whose returns yield, at result
// position idx, an object created inside the callee.
func calleeReturnsFresh(call *ssa.Call, idx int, depth int) bool {
	f := call.Call.StaticCallee()
	if f == nil || f.Pkg == nil || !strings.HasPrefix(f.Pkg.Pkg.Path(), modPath) || len(f.Blocks) == 0 || depth > 6 {
		return false
	}
	n := 0
	for _, ret := range returnsOf(f) {
		if idx >= len(ret.Results) {
			return false
		}
		v := ret.Results[idx]
		if isNilConst(v) {
			continue // error paths
		}
		n++
		if !freshValue(v, depth+3) {
			return false
		}
	}
	return n > 0
}
