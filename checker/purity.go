package main

import (
	"fmt"
	"go/token"
	"go/types"
	"os"
	"sort"
	"strings"

	"golang.org/x/tools/go/ssa"
)

// Effect summaries ("which of its arguments can a function change, and does it touch anything else") and the rule built
// on them: USE-1, the result of a call that has no effect other than its result is not discarded. A discarded pure call
// is a statement that does nothing; in this code base it is what is left when an in-place writer was replaced by a
// value-returning sibling (hash.Fork for hash.WriteAny, binary.AppendUint32 for PutUint32, Point.Add whose receiver is
// immutable): the write the surrounding code relies on silently does not happen.

type effects struct {
	params map[int]bool // indices into fn.Params (receiver first) whose referents may be written
	global bool         // writes to globals, captured variables, unknown memory; channel traffic; unknown callees
}

func (e *effects) pure() bool { return !e.global && len(e.params) == 0 }

type purity struct {
	c      *Ctx
	memo   map[*ssa.Function]*effects
	inprog map[*ssa.Function]bool
	seen   map[ssa.Value]bool
	fresh  map[string]bool
}

func newPurity(c *Ctx) *purity {
	return &purity{c: c, memo: map[*ssa.Function]*effects{}, inprog: map[*ssa.Function]bool{}, fresh: map[string]bool{}}
}

// extEffects: functions outside the module, by ssa name -> indices of the arguments they write (receiver = 0).
// Only functions listed here are ever considered free of other effects; everything else outside the module is "global".
var extEffects = map[string][]int{
	"(encoding/binary.bigEndian).AppendUint16":    {},
	"(encoding/binary.bigEndian).AppendUint32":    {},
	"(encoding/binary.bigEndian).AppendUint64":    {},
	"(encoding/binary.littleEndian).AppendUint16": {},
	"(encoding/binary.littleEndian).AppendUint32": {},
	"(encoding/binary.littleEndian).AppendUint64": {},
	"(encoding/binary.bigEndian).Uint16":          {},
	"(encoding/binary.bigEndian).Uint32":          {},
	"(encoding/binary.bigEndian).Uint64":          {},
	"(encoding/binary.littleEndian).Uint16":       {},
	"(encoding/binary.littleEndian).Uint32":       {},
	"(encoding/binary.littleEndian).Uint64":       {},
	"(encoding/binary.bigEndian).PutUint16":       {1},
	"(encoding/binary.bigEndian).PutUint32":       {1},
	"(encoding/binary.bigEndian).PutUint64":       {1},
	"(encoding/binary.littleEndian).PutUint16":    {1},
	"(encoding/binary.littleEndian).PutUint32":    {1},
	"(encoding/binary.littleEndian).PutUint64":    {1},
	"bytes.Equal":   {},
	"bytes.Compare": {},
	"errors.New":    {},
	"fmt.Errorf":    {},
	"fmt.Sprintf":   {},
	"(*github.com/zeebo/blake3.Hasher).Clone":                                 {},
	"(*github.com/zeebo/blake3.Hasher).Write":                                 {0},
	"(*github.com/zeebo/blake3.Hasher).WriteString":                           {0},
	"(*github.com/zeebo/blake3.Hasher).Digest":                                {},
	"(*bytes.Buffer).Write":                                                   {0},
	"(*bytes.Buffer).Bytes":                                                   {},
	"(*bytes.Buffer).Len":                                                     {},
	"reflect.TypeOf":                                                          {},
	"(*reflect.rtype).String":                                                 {},
	"(*math/big.Int).GobEncode":                                               {},
	"(*math/big.Int).Bytes":                                                   {},
	"(*math/big.Int).BitLen":                                                  {},
	"(*math/big.Int).Sign":                                                    {},
	"(*math/big.Int).Cmp":                                                     {},
	"(*github.com/cronokirby/saferith.Nat).Bytes":                             {},
	"(*github.com/cronokirby/saferith.Nat).Big":                               {},
	"(*github.com/cronokirby/saferith.Nat).Eq":                                {},
	"(*github.com/cronokirby/saferith.Nat).EqZero":                            {},
	"(*github.com/cronokirby/saferith.Nat).TrueLen":                           {},
	"(*github.com/cronokirby/saferith.Nat).AnnouncedLen":                      {},
	"(*github.com/cronokirby/saferith.Modulus).BitLen":                        {},
	"(*github.com/cronokirby/saferith.Modulus).Nat":                           {},
	"(*github.com/cronokirby/saferith.Modulus).Bytes":                         {},
	"(*github.com/cronokirby/saferith.Modulus).Big":                           {},
	"(*github.com/cronokirby/saferith.Nat).ModMul":                            {0},
	"(*github.com/cronokirby/saferith.Nat).Mul":                               {0},
	"(*github.com/cronokirby/saferith.Nat).Add":                               {0},
	"(*github.com/cronokirby/saferith.Nat).Sub":                               {0},
	"(*github.com/cronokirby/saferith.Nat).ModAdd":                            {0},
	"(*github.com/cronokirby/saferith.Nat).ModSub":                            {0},
	"(*github.com/cronokirby/saferith.Nat).ModNeg":                            {0},
	"(*github.com/cronokirby/saferith.Nat).ModInverse":                        {0},
	"(*github.com/cronokirby/saferith.Nat).Exp":                               {0},
	"(*github.com/cronokirby/saferith.Nat).ExpI":                              {0},
	"(*github.com/cronokirby/saferith.Nat).Rsh":                               {0},
	"(*github.com/cronokirby/saferith.Nat).Lsh":                               {0},
	"(*github.com/cronokirby/saferith.Nat).SetUint64":                         {0},
	"(*github.com/cronokirby/saferith.Nat).SetNat":                            {0},
	"(*github.com/cronokirby/saferith.Nat).SetBytes":                          {0},
	"(*github.com/cronokirby/saferith.Nat).SetBig":                            {0},
	"(*github.com/cronokirby/saferith.Nat).Resize":                            {0},
	"(*github.com/cronokirby/saferith.Nat).Mod":                               {0},
	"(*github.com/cronokirby/saferith.Nat).ModSqrt":                           {0},
	"(*github.com/cronokirby/saferith.Nat).Div":                               {0},
	"(*github.com/cronokirby/saferith.Nat).SetHex":                            {0},
	"(*github.com/cronokirby/saferith.Nat).IsUnit":                            {},
	"(*github.com/cronokirby/saferith.Nat).CmpMod":                            {},
	"(*github.com/cronokirby/saferith.Nat).Cmp":                               {},
	"(*github.com/cronokirby/saferith.Nat).Coprime":                           {},
	"(*github.com/cronokirby/saferith.Nat).Byte":                              {},
	"(*github.com/cronokirby/saferith.Nat).Uint64":                            {},
	"(*github.com/cronokirby/saferith.Nat).String":                            {},
	"(*github.com/cronokirby/saferith.Nat).MarshalBinary":                     {},
	"(*github.com/cronokirby/saferith.Nat).Hex":                               {},
	"(*github.com/cronokirby/saferith.Int).Mul":                               {0},
	"(*github.com/cronokirby/saferith.Int).Add":                               {0},
	"(*github.com/cronokirby/saferith.Int).Mod":                               {0},
	"(*github.com/cronokirby/saferith.Int).SetInt":                            {0},
	"(*github.com/cronokirby/saferith.Int).Neg":                               {0},
	"(*github.com/cronokirby/saferith.Int).SetNat":                            {0},
	"(*github.com/cronokirby/saferith.Int).SetBytes":                          {0},
	"(*github.com/cronokirby/saferith.Int).SetBig":                            {0},
	"(*github.com/cronokirby/saferith.Int).SetModSymmetric":                   {0},
	"(*github.com/cronokirby/saferith.Int).Resize":                            {0},
	"(*github.com/cronokirby/saferith.Int).SetUint64":                         {0},
	"(*github.com/cronokirby/saferith.Int).TrueLen":                           {},
	"(*github.com/cronokirby/saferith.Int).AnnouncedLen":                      {},
	"(*github.com/cronokirby/saferith.Int).Eq":                                {},
	"(*github.com/cronokirby/saferith.Int).IsNegative":                        {},
	"(*github.com/cronokirby/saferith.Int).CheckInRange":                      {},
	"(*github.com/cronokirby/saferith.Int).Big":                               {},
	"(*github.com/cronokirby/saferith.Int).String":                            {},
	"(*github.com/cronokirby/saferith.Int).MarshalBinary":                     {},
	"(*github.com/cronokirby/saferith.Int).Cmp":                               {},
	"(*math/big.Int).Mod":                                                     {0},
	"(*math/big.Int).Mul":                                                     {0},
	"(*math/big.Int).SetUint64":                                               {0},
	"(*math/big.Int).SetBytes":                                                {0},
	"(*math/big.Int).Set":                                                     {0},
	"(*math/big.Int).Rsh":                                                     {0},
	"(*math/big.Int).Lsh":                                                     {0},
	"(*math/big.Int).Neg":                                                     {0},
	"(*math/big.Int).Add":                                                     {0},
	"(*math/big.Int).Sub":                                                     {0},
	"(*math/big.Int).Exp":                                                     {0},
	"(*math/big.Int).ModInverse":                                              {0},
	"(*math/big.Int).SetBit":                                                  {0},
	"(*math/big.Int).SetInt64":                                                {0},
	"(*math/big.Int).GCD":                                                     {0, 1, 2},
	"(*math/big.Int).ProbablyPrime":                                           {},
	"(*math/big.Int).Bit":                                                     {},
	"(*math/big.Int).Uint64":                                                  {},
	"(*math/big.Int).IsUint64":                                                {},
	"(*math/big.Int).String":                                                  {},
	"math/big.NewInt":                                                         {},
	"math/big.Jacobi":                                                         {},
	"github.com/cronokirby/saferith.ModulusFromNat":                           {},
	"github.com/cronokirby/saferith.ModulusFromBytes":                         {},
	"github.com/cronokirby/saferith.ModulusFromUint64":                        {},
	"github.com/decred/dcrd/dcrec/secp256k1/v4.AddNonConst":                   {2},
	"github.com/decred/dcrd/dcrec/secp256k1/v4.ScalarMultNonConst":            {2},
	"github.com/decred/dcrd/dcrec/secp256k1/v4.ScalarBaseMultNonConst":        {1},
	"github.com/decred/dcrd/dcrec/secp256k1/v4.DecompressY":                   {2},
	"github.com/decred/dcrd/dcrec/secp256k1/v4.DoubleNonConst":                {1},
	"(*github.com/decred/dcrd/dcrec/secp256k1/v4.JacobianPoint).ToAffine":     {0},
	"(*github.com/decred/dcrd/dcrec/secp256k1/v4.FieldVal).IsZero":            {},
	"(*github.com/decred/dcrd/dcrec/secp256k1/v4.FieldVal).Bytes":             {},
	"(*github.com/decred/dcrd/dcrec/secp256k1/v4.FieldVal).IsOdd":             {},
	"(*github.com/decred/dcrd/dcrec/secp256k1/v4.FieldVal).Equals":            {},
	"(*github.com/decred/dcrd/dcrec/secp256k1/v4.ModNScalar).IsZero":          {},
	"(*github.com/decred/dcrd/dcrec/secp256k1/v4.ModNScalar).Equals":          {},
	"(*github.com/decred/dcrd/dcrec/secp256k1/v4.ModNScalar).Bytes":           {},
	"(*github.com/zeebo/blake3.Hasher).Reset":                                 {0},
	"(*github.com/zeebo/blake3.Digest).Read":                                  {0, 1},
	"github.com/zeebo/blake3.New":                                             {},
	"github.com/zeebo/blake3.NewKeyed":                                        {},
	"io.ReadFull":                                                             {0, 1},
	"crypto/subtle.ConstantTimeCompare":                                       {},
	"crypto/sha256.Sum256":                                                    {},
	"crypto/sha256.New":                                                       {},
	"crypto/hmac.New":                                                         {},
	"sort.Search":                                                             {},
	"math.Log":                                                                {},
	"runtime.NumCPU":                                                          {},
	"github.com/fxamacker/cbor/v2.Marshal":                                    {},
	"github.com/fxamacker/cbor/v2.Unmarshal":                                  {1},
	"(*github.com/decred/dcrd/dcrec/secp256k1/v4.ModNScalar).SetBytes":        {0},
	"(*github.com/decred/dcrd/dcrec/secp256k1/v4.ModNScalar).Negate":          {0},
	"(*github.com/decred/dcrd/dcrec/secp256k1/v4.ModNScalar).Mul":             {0},
	"(*github.com/decred/dcrd/dcrec/secp256k1/v4.ModNScalar).Add":             {0},
	"(*github.com/decred/dcrd/dcrec/secp256k1/v4.ModNScalar).Set":             {0},
	"(*github.com/decred/dcrd/dcrec/secp256k1/v4.ModNScalar).SetByteSlice":    {0},
	"(*github.com/decred/dcrd/dcrec/secp256k1/v4.ModNScalar).SetInt":          {0},
	"(*github.com/decred/dcrd/dcrec/secp256k1/v4.ModNScalar).InverseNonConst": {0},
	"(*github.com/decred/dcrd/dcrec/secp256k1/v4.JacobianPoint).Set":          {0},
	"(*github.com/decred/dcrd/dcrec/secp256k1/v4.FieldVal).SetInt":            {0},
	"(*github.com/decred/dcrd/dcrec/secp256k1/v4.FieldVal).SetByteSlice":      {0},
	"(*github.com/decred/dcrd/dcrec/secp256k1/v4.FieldVal).Normalize":         {0},
	"(*github.com/decred/dcrd/dcrec/secp256k1/v4.FieldVal).Negate":            {0},
	"(*github.com/decred/dcrd/dcrec/secp256k1/v4.FieldVal).Set":               {0},
	"(*github.com/decred/dcrd/dcrec/secp256k1/v4.FieldVal).SetBytes":          {0},
	"(*github.com/decred/dcrd/dcrec/secp256k1/v4.FieldVal).IsOddBit":          {},
	"(*github.com/cronokirby/saferith.Nat).FillBytes":                         {1},
	"(*github.com/cronokirby/saferith.Nat).CondAssign":                        {0},
	"(*github.com/cronokirby/saferith.Int).Abs":                               {},
	"encoding/binary.Write":                                                   {0},
}

// extFresh: functions outside the module whose result is a new object.
var extFresh = map[string]bool{
	"(*github.com/zeebo/blake3.Hasher).Clone":       true,
	"github.com/zeebo/blake3.New":                   true,
	"github.com/zeebo/blake3.NewKeyed":              true,
	"(*github.com/zeebo/blake3.Hasher).Digest":      true,
	"math/big.NewInt":                               true,
	"crypto/sha256.New":                             true,
	"crypto/hmac.New":                               true,
	"github.com/cronokirby/saferith.ModulusFromNat": true,
	"errors.New":                                    true,
	"fmt.Errorf":                                    true,
}

// ifaceEffects: conventions for calls through an interface, by method name: indices written (0 = the interface value).
var ifaceEffects = map[string][]int{
	"WriteTo":       {1},
	"Write":         {0},
	"MarshalBinary": {},
	"Domain":        {},
	"Error":         {},
	"String":        {},
}

const (
	rootLocal = iota
	rootParam
	rootGlobal
)

func (p *purity) root(fn *ssa.Function, v ssa.Value, depth int) (int, int) {
	if depth == 0 {
		p.seen = map[ssa.Value]bool{}
	}
	if depth > 40 {
		return rootGlobal, 0
	}
	if _, isPhi := v.(*ssa.Phi); isPhi {
		if p.seen[v] {
			return rootLocal, 0 // a cycle adds nothing to the join
		}
		p.seen[v] = true
	}
	switch x := v.(type) {
	case *ssa.Alloc, *ssa.MakeSlice, *ssa.MakeMap, *ssa.MakeChan, *ssa.Const, *ssa.BinOp, *ssa.MakeClosure, *ssa.Function, *ssa.Builtin:
		return rootLocal, 0
	case *ssa.Parameter:
		for i, q := range fn.Params {
			if q == x {
				return rootParam, i
			}
		}
		return rootGlobal, 0
	case *ssa.FreeVar, *ssa.Global:
		return rootGlobal, 0
	case *ssa.FieldAddr:
		return p.root(fn, x.X, depth+1)
	case *ssa.IndexAddr:
		return p.root(fn, x.X, depth+1)
	case *ssa.Field:
		return p.root(fn, x.X, depth+1)
	case *ssa.Index:
		return p.root(fn, x.X, depth+1)
	case *ssa.Slice:
		return p.root(fn, x.X, depth+1)
	case *ssa.Lookup:
		return p.root(fn, x.X, depth+1)
	case *ssa.ChangeType:
		return p.root(fn, x.X, depth+1)
	case *ssa.Convert:
		return p.root(fn, x.X, depth+1)
	case *ssa.ChangeInterface:
		return p.root(fn, x.X, depth+1)
	case *ssa.MakeInterface:
		return p.root(fn, x.X, depth+1)
	case *ssa.TypeAssert:
		return p.root(fn, x.X, depth+1)
	case *ssa.SliceToArrayPointer:
		return p.root(fn, x.X, depth+1)
	case *ssa.UnOp:
		if x.Op != token.MUL {
			return rootLocal, 0
		}
		k, i := p.root(fn, x.X, depth+1)
		if k != rootLocal {
			return k, i
		}
		// load from a local cell: where do the stored values come from
		if r := resolveLoad(x); r != ssa.Value(x) {
			return p.root(fn, r, depth+1)
		}
		if defs, fromEntry := reachingStores(x); !fromEntry && len(defs) > 0 {
			kind, idx := rootLocal, 0
			for _, st := range defs {
				k2, i2 := p.root(fn, st.Val, depth+1)
				kind, idx = joinRoot(kind, idx, k2, i2)
			}
			return kind, idx
		}
		if !pointerLike(x.Type()) {
			return rootLocal, 0
		}
		return rootGlobal, 0
	case *ssa.Phi:
		kind, idx := rootLocal, 0
		for _, e := range x.Edges {
			if e == ssa.Value(x) {
				continue
			}
			k2, i2 := p.root(fn, e, depth+1)
			kind, idx = joinRoot(kind, idx, k2, i2)
		}
		return kind, idx
	case *ssa.Call:
		if p.callFresh(x, 0) {
			return rootLocal, 0
		}
		// a module function whose result is one of its own arguments (or fresh): the root of that argument here
		if g := x.Call.StaticCallee(); g != nil && !x.Call.IsInvoke() && p.inModule(g) && len(g.Blocks) > 0 && depth < 12 {
			saved := p.seen
			kind, idx, n, okAll := rootLocal, 0, 0, true
			for _, ret := range returnsOf(g) {
				if len(ret.Results) == 0 {
					okAll = false
					break
				}
				rv := ret.Results[0]
				if isNilConst(rv) {
					continue
				}
				n++
				k2, i2 := p.root(g, rv, depth+13)
				switch k2 {
				case rootLocal:
				case rootParam:
					if i2 < len(x.Call.Args) {
						k3, i3 := p.root(fn, x.Call.Args[i2], depth+1)
						kind, idx = joinRoot(kind, idx, k3, i3)
					} else {
						okAll = false
					}
				default:
					okAll = false
				}
			}
			p.seen = saved
			if okAll && n > 0 {
				return kind, idx
			}
		}
		// big-number methods return their receiver: z.Exp(x, e, m) is z
		if g := x.Call.StaticCallee(); g != nil && !x.Call.IsInvoke() && g.Signature.Recv() != nil && len(x.Call.Args) > 0 && !p.inModule(g) {
			if idx, known := extEffects[g.String()]; known && len(idx) > 0 && idx[0] == 0 && types.Identical(g.Signature.Recv().Type(), x.Type()) {
				return p.root(fn, x.Call.Args[0], depth+1)
			}
		}
		if !pointerLike(x.Type()) {
			return rootLocal, 0
		}
		return rootGlobal, 0
	case *ssa.Extract:
		if call, ok := x.Tuple.(*ssa.Call); ok && p.callFresh(call, x.Index) {
			return rootLocal, 0
		}
		if !pointerLike(x.Type()) {
			return rootLocal, 0
		}
		return rootGlobal, 0
	case *ssa.Next, *ssa.Range:
		return rootGlobal, 0
	}
	return rootGlobal, 0
}

func joinRoot(k1, i1, k2, i2 int) (int, int) {
	switch {
	case k1 == rootGlobal || k2 == rootGlobal:
		return rootGlobal, 0
	case k1 == rootLocal:
		return k2, i2
	case k2 == rootLocal:
		return k1, i1
	case i1 == i2:
		return rootParam, i1
	}
	return rootGlobal, 0
}

// pointerLike: values of this type can refer to memory that outlives them.
func pointerLike(t types.Type) bool {
	switch u := t.Underlying().(type) {
	case *types.Basic:
		return u.Kind() == types.UnsafePointer
	case *types.Struct:
		for i := 0; i < u.NumFields(); i++ {
			if pointerLike(u.Field(i).Type()) {
				return true
			}
		}
		return false
	case *types.Array:
		return pointerLike(u.Elem())
	case *types.Tuple:
		for i := 0; i < u.Len(); i++ {
			if pointerLike(u.At(i).Type()) {
				return true
			}
		}
		return false
	}
	return true
}

func (p *purity) callFresh(call *ssa.Call, idx int) bool {
	f := call.Call.StaticCallee()
	if f == nil {
		return false
	}
	if len(f.Blocks) == 0 || !p.inModule(f) {
		return extFresh[f.String()]
	}
	key := fmt.Sprintf("%p/%d", f, idx)
	if v, ok := p.fresh[key]; ok {
		return v
	}
	p.fresh[key] = false
	v := calleeReturnsFresh(call, idx, 0)
	if !v {
		// the engine's own notion: every non-nil return at that position is rooted in an object made by the callee
		saved := p.seen
		n, all := 0, true
		for _, ret := range returnsOf(f) {
			if idx >= len(ret.Results) {
				all = false
				break
			}
			rv := ret.Results[idx]
			if isNilConst(rv) {
				continue
			}
			n++
			if k, _ := p.root(f, rv, 1); k != rootLocal {
				all = false
			}
		}
		p.seen = saved
		v = all && n > 0
	}
	p.fresh[key] = v
	return v
}

func (p *purity) of(f *ssa.Function) *effects {
	if e, ok := p.memo[f]; ok {
		return e
	}
	if p.inprog[f] {
		return &effects{global: true}
	}
	e := &effects{params: map[int]bool{}}
	if len(f.Blocks) == 0 || !p.inModule(f) {
		idx, known := extEffects[f.String()]
		if !known {
			e.global = true
		}
		for _, i := range idx {
			e.params[i] = true
		}
		p.memo[f] = e
		return e
	}
	p.inprog[f] = true
	dbg := os.Getenv("MPS_PURITY") != "" && strings.Contains(f.String(), os.Getenv("MPS_PURITY"))
	touch := func(v ssa.Value) {
		k, i := p.root(f, v, 0)
		switch k {
		case rootParam:
			e.params[i] = true
		case rootGlobal:
			if dbg {
				fmt.Fprintf(os.Stderr, "PURITY %s: global via %s (%T) @ %s\n", f, v, v, p.c.Pos(v.Pos()))
			}
			e.global = true
		}
	}
	callEffects := func(cc *ssa.CallCommon) {
		if cc.IsInvoke() {
			idx, known := ifaceEffects[cc.Method.Name()]
			if !known {
				if dbg {
					fmt.Fprintf(os.Stderr, "PURITY %s: global via invoke %s\n", f, cc.Method.Name())
				}
				e.global = true
				return
			}
			for _, i := range idx {
				if i == 0 {
					touch(cc.Value)
				} else if i-1 < len(cc.Args) {
					touch(cc.Args[i-1])
				}
			}
			return
		}
		if b, isB := cc.Value.(*ssa.Builtin); isB {
			switch b.Name() {
			case "copy", "delete", "clear":
				touch(cc.Args[0])
			}
			return
		}
		g := cc.StaticCallee()
		if g == nil {
			e.global = true
			return
		}
		ge := p.of(g)
		if ge.global {
			if dbg {
				fmt.Fprintf(os.Stderr, "PURITY %s: global via callee %s\n", f, g)
			}
			e.global = true
		}
		for i := range ge.params {
			if i < len(cc.Args) {
				touch(cc.Args[i])
			}
		}
	}
	for _, b := range f.Blocks {
		for _, in := range b.Instrs {
			switch x := in.(type) {
			case *ssa.Store:
				touch(x.Addr)
			case *ssa.MapUpdate:
				touch(x.Map)
			case *ssa.Send, *ssa.Go, *ssa.Select:
				e.global = true
			case *ssa.Call:
				callEffects(&x.Call)
			case *ssa.Defer:
				callEffects(&x.Call)
			}
		}
	}
	delete(p.inprog, f)
	p.memo[f] = e
	return e
}

// callIsPure: the call can change nothing its caller can observe except through its result.
func (p *purity) callIsPure(call *ssa.Call) (bool, string) {
	cc := &call.Call
	if cc.IsInvoke() {
		idx, known := ifaceEffects[cc.Method.Name()]
		return known && len(idx) == 0, cc.Method.Name()
	}
	if _, isB := cc.Value.(*ssa.Builtin); isB {
		return false, ""
	}
	g := cc.StaticCallee()
	if g == nil {
		return false, ""
	}
	name := g.String()
	if g.Pkg != nil && p.c.InModule(g.Pkg.Pkg) {
		name = p.c.FuncName(g)
	}
	return p.of(g).pure(), name
}

func hasResult(call *ssa.Call) bool {
	if t, ok := call.Type().(*types.Tuple); ok {
		return t.Len() > 0
	}
	return true
}

// checkResultsUsed: USE-1 over the given package prefixes.
func checkResultsUsed(c *Ctx, r *Run, rule string, min int) {
	r.Rule(rule, "the result of a call without any other effect is used (a discarded pure call is a write that does not happen)")
	p := newPurity(c)
	sites := 0
	for _, pk := range c.LibPkgs() {
		for _, top := range funcsOfPkg(c, c.SSA[pk.Types]) {
			withAnon(top, func(fn *ssa.Function) {
				nth := map[string]int{}
				allInstrs(fn, func(in ssa.Instruction) {
					call, ok := in.(*ssa.Call)
					if !ok {
						return
					}
					if !hasResult(call) {
						// a call without results to a function of the module that stores something and yet changes nothing
						// the caller can see (it writes into a copy: a value receiver, a by-value array): a lost update
						cal := call.Call.StaticCallee()
						if cal == nil || !p.inModule(cal) || len(cal.Blocks) == 0 {
							return
						}
						stores := false
						allInstrs(cal, func(in2 ssa.Instruction) {
							if st, isSt := in2.(*ssa.Store); isSt {
								if _, isParam := st.Val.(*ssa.Parameter); !isParam {
									stores = true
								}
							}
						})
						if !stores {
							return
						}
						if pure, name := p.callIsPure(call); pure {
							nth[name]++
							r.Check(rule, fmt.Sprintf("%s|%s #%d|update-kept", c.FuncName(fn), name, nth[name]), c.Pos(call.Pos()), false, "",
								name+" returns nothing and changes nothing outside its own frame (what it writes is a copy - a value receiver or a by-value array/struct parameter): the update the caller relies on is lost")
						}
						return
					}
					pure, name := p.callIsPure(call)
					if !pure {
						return
					}
					sites++
					nth[name]++
					used := len(*call.Referrers()) > 0
					if used {
						return
					}
					r.Check(rule, fmt.Sprintf("%s|%s #%d|result-used", c.FuncName(fn), name, nth[name]), c.Pos(call.Pos()), used,
						"the value computed by "+name+" is consumed",
						"the result of "+name+" is discarded, and "+name+" changes nothing but its result (it works on a copy / returns a new value): the statement has no effect, so whatever the surrounding code expects it to have written — a hash input, an encoded field, an updated point — is missing")
				})
			})
		}
	}
	r.Check(rule, "pure-call-sites|examined", "", sites >= min, fmt.Sprintf("%d calls to effect-free functions examined, each result is consumed", sites),
		fmt.Sprintf("only %d effect-free call sites recognised (at least %d expected): the effect summaries no longer resolve", sites, min))
	_ = sort.Strings
	_ = strings.Join
}

func (p *purity) inModule(f *ssa.Function) bool {
	for g := f; g != nil; g = g.Parent() {
		if o := g.Object(); o != nil {
			return p.c.InModule(o.Pkg())
		}
		if g.Pkg != nil {
			return p.c.InModule(g.Pkg.Pkg)
		}
		if g.Origin() != nil && g.Origin() != g {
			return p.inModule(g.Origin())
		}
	}
	return false
}
