package main

import (
	"fmt"
	"go/ast"
	"go/token"
	"go/types"
	"os"
	"path/filepath"
	"sort"
	"strings"

	"golang.org/x/tools/go/callgraph"
	"golang.org/x/tools/go/callgraph/cha"
	"golang.org/x/tools/go/callgraph/vta"
	"golang.org/x/tools/go/packages"
	"golang.org/x/tools/go/ssa"
	"golang.org/x/tools/go/ssa/ssautil"
)

const modPath = "github.com/taurusgroup/multi-party-sig"

// Ctx is the loaded, type-checked program plus lazily built SSA / call graph.
type Ctx struct {
	RepoDir string
	Fset    *token.FileSet
	All     []*packages.Package          // every package reachable (incl. deps)
	Mod     []*packages.Package          // packages of the module, sorted by path
	ByRel   map[string]*packages.Package // "pkg/pool" -> package
	Prog    *ssa.Program
	SSA     map[*types.Package]*ssa.Package

	cgVTA *callgraph.Graph
	cgCHA *callgraph.Graph

	declOf map[*types.Func]*ast.FuncDecl
	fileOf map[*ast.File]*packages.Package
}

func loadEnv() []string {
	env := os.Environ()
	out := env[:0:0]
	for _, e := range env {
		if strings.HasPrefix(e, "GOWORK=") || strings.HasPrefix(e, "GOFLAGS=") ||
			strings.HasPrefix(e, "GOPROXY=") || strings.HasPrefix(e, "GOSUMDB=") ||
			strings.HasPrefix(e, "GOTOOLCHAIN=") {
			continue
		}
		out = append(out, e)
	}
	return append(out, "GOWORK=off", "GOFLAGS=-mod=mod", "GOPROXY=off", "GOSUMDB=off", "GOTOOLCHAIN=local")
}

// Load type-checks ./... of repoDir. Any type error or a short package count is fatal
// (exit 2): an unanalysable tree is never reported as "held".
func Load(repoDir string) (*Ctx, error) {
	cfg := &packages.Config{
		Mode:  packages.LoadAllSyntax,
		Dir:   repoDir,
		Tests: false,
		Env:   loadEnv(),
	}
	pkgs, err := packages.Load(cfg, "./...")
	if err != nil {
		return nil, fmt.Errorf("packages.Load: %w", err)
	}
	var errs []string
	packages.Visit(pkgs, nil, func(p *packages.Package) {
		for _, e := range p.Errors {
			errs = append(errs, e.Error())
		}
	})
	if len(errs) > 0 {
		if len(errs) > 10 {
			errs = errs[:10]
		}
		return nil, fmt.Errorf("type/load errors:\n  %s", strings.Join(errs, "\n  "))
	}
	c := &Ctx{RepoDir: repoDir, ByRel: map[string]*packages.Package{}, SSA: map[*types.Package]*ssa.Package{},
		declOf: map[*types.Func]*ast.FuncDecl{}, fileOf: map[*ast.File]*packages.Package{}}
	packages.Visit(pkgs, nil, func(p *packages.Package) {
		c.All = append(c.All, p)
		if p.PkgPath == modPath || strings.HasPrefix(p.PkgPath, modPath+"/") {
			c.Mod = append(c.Mod, p)
			rel := strings.TrimPrefix(strings.TrimPrefix(p.PkgPath, modPath), "/")
			c.ByRel[rel] = p
		}
	})
	sort.Slice(c.Mod, func(i, j int) bool { return c.Mod[i].PkgPath < c.Mod[j].PkgPath })
	if len(c.Mod) < 45 {
		return nil, fmt.Errorf("only %d module packages loaded (expected >= 45): coverage incomplete", len(c.Mod))
	}
	if len(pkgs) > 0 {
		c.Fset = pkgs[0].Fset
	}
	// Build-coverage assertion: the module has no build-tagged files; a constraint
	// appearing later means part of the program was not analysed.
	for _, p := range c.Mod {
		if len(p.IgnoredFiles) > 0 {
			return nil, fmt.Errorf("package %s has files excluded by build constraints (%v): coverage incomplete", p.PkgPath, p.IgnoredFiles)
		}
		for _, f := range p.Syntax {
			c.fileOf[f] = p
			for _, d := range f.Decls {
				if fd, ok := d.(*ast.FuncDecl); ok {
					if obj, ok := p.TypesInfo.Defs[fd.Name].(*types.Func); ok {
						c.declOf[obj] = fd
					}
				}
			}
		}
	}
	prog, _ := ssautil.AllPackages(pkgs, ssa.InstantiateGenerics)
	prog.Build()
	c.Prog = prog
	for _, p := range c.All {
		if sp := prog.Package(p.Types); sp != nil {
			c.SSA[p.Types] = sp
		}
	}
	c.buildCanon()
	return c, nil
}

// IsLib reports whether p is library code of the module (not example/, not internal/test).
func IsLib(p *packages.Package) bool {
	rel := strings.TrimPrefix(strings.TrimPrefix(p.PkgPath, modPath), "/")
	if rel == "example" || strings.HasPrefix(rel, "protocols/example") || rel == "internal/test" {
		return false
	}
	return true
}

func (c *Ctx) LibPkgs() []*packages.Package {
	var out []*packages.Package
	for _, p := range c.Mod {
		if IsLib(p) {
			out = append(out, p)
		}
	}
	return out
}

func (c *Ctx) InModule(p *types.Package) bool {
	return p != nil && (p.Path() == modPath || strings.HasPrefix(p.Path(), modPath+"/"))
}

func (c *Ctx) Rel(p *types.Package) string {
	if p == nil {
		return ""
	}
	return strings.TrimPrefix(strings.TrimPrefix(p.Path(), modPath), "/")
}

func (c *Ctx) CG() *callgraph.Graph {
	if c.cgVTA == nil {
		c.cgVTA = vta.CallGraph(ssautil.AllFunctions(c.Prog), c.CHA())
	}
	return c.cgVTA
}

func (c *Ctx) CHA() *callgraph.Graph {
	if c.cgCHA == nil {
		c.cgCHA = cha.CallGraph(c.Prog)
	}
	return c.cgCHA
}

// Pos renders a position relative to the repository root.
func (c *Ctx) Pos(p token.Pos) string {
	if !p.IsValid() {
		return "?"
	}
	pp := c.Fset.Position(p)
	f := pp.Filename
	if r, err := filepath.Rel(c.RepoDir, f); err == nil && !strings.HasPrefix(r, "..") {
		f = r
	}
	return fmt.Sprintf("%s:%d", f, pp.Line)
}

// PkgRel returns the module package with the given relative path or nil.
func (c *Ctx) PkgRel(rel string) *packages.Package { return c.ByRel[rel] }

// LookupFunc finds a package-level function.
func (c *Ctx) LookupFunc(rel, name string) *ssa.Function {
	p := c.ByRel[rel]
	if p == nil {
		return nil
	}
	sp := c.SSA[p.Types]
	if sp == nil {
		return nil
	}
	return sp.Func(name)
}

// LookupNamed finds a named type.
func (c *Ctx) LookupNamed(rel, name string) *types.Named {
	p := c.ByRel[rel]
	if p == nil {
		return nil
	}
	obj := p.Types.Scope().Lookup(name)
	if obj == nil {
		return nil
	}
	n, _ := obj.Type().(*types.Named)
	return n
}

// LookupMethod finds the SSA function for method `name` on named type (value or pointer receiver).
func (c *Ctx) LookupMethod(rel, typ, name string) *ssa.Function {
	n := c.LookupNamed(rel, typ)
	if n == nil {
		return nil
	}
	if fn := c.MethodOf(n, name); fn != nil {
		// the name survives but its work moved into another method (finalize -> `for h.finalizeRound() {}`): the rules
		// about that work follow the role
		if role, has := handlerRoles[name]; has && n.Obj().Pkg() != nil && strings.HasSuffix(n.Obj().Pkg().Path(), "pkg/protocol") && !role(c, fn) {
			if alt := c.methodByRole(n, name); alt != nil && alt != fn {
				return alt
			}
		}
		return fn
	}
	// renamed helper of a handler: resolve by role (roles.go)
	if name == "abortOnPanic" && n.Obj().Pkg() != nil && strings.HasSuffix(n.Obj().Pkg().Path(), "pkg/protocol") {
		return c.recoverBarrierOf(n)
	}
	return c.methodByRole(n, name)
}

func (c *Ctx) MethodOf(n *types.Named, name string) *ssa.Function {
	for _, t := range []types.Type{n, types.NewPointer(n)} {
		ms := c.Prog.MethodSets.MethodSet(t)
		for i := 0; i < ms.Len(); i++ {
			sel := ms.At(i)
			if sel.Obj().Name() == name {
				if f, ok := sel.Obj().(*types.Func); ok {
					// resolve to the declared (non-wrapper) function
					if fn := c.Prog.FuncValue(f); fn != nil {
						return fn
					}
				}
			}
		}
	}
	return nil
}

func (c *Ctx) Decl(f *types.Func) *ast.FuncDecl { return c.declOf[f] }

// DeclOfSSA returns the AST declaration of a source function.
func (c *Ctx) DeclOfSSA(fn *ssa.Function) *ast.FuncDecl {
	if fn == nil {
		return nil
	}
	if fd, ok := fn.Syntax().(*ast.FuncDecl); ok {
		return fd
	}
	return nil
}

// InfoFor returns the types.Info that covers the given AST node position.
func (c *Ctx) InfoFor(pos token.Pos) *types.Info {
	for _, p := range c.Mod {
		for _, f := range p.Syntax {
			if f.Pos() <= pos && pos <= f.End() {
				return p.TypesInfo
			}
		}
	}
	return nil
}

func (c *Ctx) PkgOfPos(pos token.Pos) *packages.Package {
	for _, p := range c.Mod {
		for _, f := range p.Syntax {
			if f.Pos() <= pos && pos <= f.End() {
				return p
			}
		}
	}
	return nil
}

// FuncName is a stable, human readable name: "pkg/pool.worker" or "pkg/protocol.(*MultiHandler).Accept".
func (c *Ctx) FuncName(fn *ssa.Function) string {
	if fn == nil {
		return "<nil>"
	}
	if fn.Parent() != nil {
		return c.FuncName(fn.Parent()) + "$" + strings.TrimPrefix(fn.Name(), fn.Parent().Name()+"$")
	}
	pk := ""
	if fn.Pkg != nil {
		pk = c.Rel(fn.Pkg.Pkg)
	} else if o := fn.Object(); o != nil && o.Pkg() != nil {
		pk = c.Rel(o.Pkg())
	}
	if recv := fn.Signature.Recv(); recv != nil {
		t := recv.Type()
		ptr := ""
		if p, ok := t.(*types.Pointer); ok {
			t = p.Elem()
			ptr = "*"
		}
		tn := t.String()
		if n, ok := t.(*types.Named); ok {
			tn = n.Obj().Name()
		}
		return fmt.Sprintf("%s.(%s%s).%s", pk, ptr, tn, canonFnName(fn))
	}
	return pk + "." + fn.Name()
}

func (c *Ctx) ObjName(o types.Object) string {
	if o == nil {
		return "<nil>"
	}
	if f, ok := o.(*types.Func); ok {
		if sig, ok := f.Type().(*types.Signature); ok && sig.Recv() != nil {
			t := sig.Recv().Type()
			ptr := ""
			if p, ok := t.(*types.Pointer); ok {
				t = p.Elem()
				ptr = "*"
			}
			tn := t.String()
			if n, ok := t.(*types.Named); ok {
				tn = n.Obj().Name()
			}
			return fmt.Sprintf("%s.(%s%s).%s", c.Rel(f.Pkg()), ptr, tn, f.Name())
		}
	}
	return c.Rel(o.Pkg()) + "." + o.Name()
}

// LookupBody: like LookupMethod, but when the method is a thin wrapper - it takes the lock, installs its defers and
// hands all its parameters to one unexported method of the same object, returning that method's results - the rules
// about *what the method does* look at that inner method (Accept -> accept, as CanAccept -> canAccept already is).
func (c *Ctx) LookupBody(rel, typ, name string) *ssa.Function {
	fn := c.LookupMethod(rel, typ, name)
	if fn == nil {
		return nil
	}
	if inner := thinWrapperInner(fn); inner != nil {
		return inner
	}
	return fn
}

// thinWrapperInner: the unexported method fn hands all its parameters to while doing nothing else but locking and
// deferring (nil if fn is not such a wrapper).
func thinWrapperInner(fn *ssa.Function) *ssa.Function {
	var inner *ssa.Function
	calls := 0
	other := false
	allInstrs(fn, func(in ssa.Instruction) {
		switch x := in.(type) {
		case *ssa.Call:
			g := x.Call.StaticCallee()
			if g == nil {
				other = true
				return
			}
			if g.Pkg != nil && g.Pkg.Pkg.Path() == "sync" {
				return
			}
			if isLocalHelper(fn, g) && g.Signature.Recv() != nil && len(x.Call.Args) == len(fn.Params) {
				same := true
				for i, a := range x.Call.Args {
					if a != ssa.Value(fn.Params[i]) {
						same = false
					}
				}
				if same {
					inner = g
					calls++
					return
				}
			}
			other = true
		case *ssa.Store, *ssa.MapUpdate, *ssa.If, *ssa.Send, *ssa.Go:
			other = true
		}
	})
	if inner != nil && calls == 1 && !other {
		return inner
	}
	return nil
}
