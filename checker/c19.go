package main

import (
	"fmt"
	"go/ast"
	"go/constant"
	"go/token"
	"go/types"
	"sort"
	"strings"

	"golang.org/x/tools/go/packages"
	"golang.org/x/tools/go/ssa"
)

func init() {
	register("C19", propMeta{
		Explanation: "Encoding-shape analysis of the transcript hash. ENC-0 (SSA of hash.WriteAny): every variable-width write to the underlying hasher is immediately preceded, on every path, by a fixed-width (>= 32-bit) encoding of len() of exactly that value, and the type switch has no accepting default. " +
			"ENC-1 (AST + types of every hash.WriterToWithDomain implementer): the byte layout of each WriteTo is a sequence of fixed-width, length-prefixed or nested-injective segments with at most one undelimited variable-width segment and none inside a loop. " +
			"DOM-1: Domain() of every implementer returns non-empty constants, pairwise distinct across types; BytesWithDomain literals carry constant non-empty domains. FS-4: at every argument position of WriteAny/Fork/Commit/Decommit/New the static type is one the switch accepts. " +
			"COM-1: Commit/Decommit absorb items then the decommitment on a clone, Decommit validates both inputs and compares full digests, Validate rejects wrong lengths and all-zero values. NOT decided: collision resistance of BLAKE3.",
		Trusted:     append([]string{"width table of leaf encodings (curve point/scalar MarshalBinary fixed per curve; FillBytes into a constant-size buffer; binary.Write of sized integers)", "two invariant-promoted widths (types.RID = 32 bytes by Validate at every ingress, paillier.PublicKey = 256 bytes by ValidateN); their supporting obligations are evaluated in the same run"}, commonTrusted...),
		Assumptions: []string{"the hash function is collision resistant", "curve encodings have one width per curve (the curve name is part of every session tag)"},
	}, runC19)
}

func runC19(c *Ctx, r *Run) {
	checkSinkAccumulates(c, r, "SINK-1")
	checkFillWidths(c, r, "WIDTH-1")
	checkResultsUsed(c, r, "USE-1", 100)
	r.Rule("ENC-0", "item framing in hash.WriteAny: variable-width writes are length-prefixed by a fixed-width encoding of len() of the same value on every path; the type switch rejects unknown types")
	r.Rule("FS-7", "every field of a self-writing struct type is read by its WriteTo (or the codec it delegates to)")
	r.Rule("ENC-2", "every transcript writer is total on its type: no value is refused")
	r.Rule("ENC-1", "each typed writer is injective as a whole: at most one undelimited variable-width segment, none inside loops; loops write fixed-width or length-prefixed items")
	r.Rule("DOM-3", "an ad-hoc domain tags one item per function (two items tagged alike are not separated)")
	r.Rule("DOM-2", "ad-hoc tagged items (BytesWithDomain literals) carry a payload their writer accepts: never the nil constant")
	r.Rule("DOM-1", "domain strings are non-empty constants, pairwise distinct across writer types; ad-hoc BytesWithDomain literals use constant non-empty domains")
	r.Rule("FS-4", "nothing can be dropped by the type switch: every static argument type at WriteAny/Fork/Commit/Decommit/New call sites is []byte, *big.Int, WriterToWithDomain or BinaryMarshaler")
	r.Rule("COM-1", "commitments: Commit and Decommit absorb the items in order, then the decommitment, on a clone of the state; Decommit validates c and d first and compares full digests; Validate rejects wrong length and all-zero; decommitment comes from crypto/rand with the error checked")

	hp := c.PkgRel("pkg/hash")
	if hp == nil {
		r.Unresolved("ENC-0", "package pkg/hash")
		return
	}
	checkWriteAnyFraming(c, r)
	impls := writerImplementers(c)
	checkWritersTotal(c, r, "ENC-2", impls)
	checkWritersComplete(c, r, "FS-7", impls)
	checkWriterShapes(c, r, impls)
	checkDomains(c, r, impls)
	checkHashArgTypes(c, r)
	checkCommit(c, r)

	r.Require("ENC-2", 15)
	r.Require("FS-7", 20)
	r.Require("ENC-0", 3)
	r.Require("ENC-1", 17)
	r.Require("DOM-1", 20)
	r.Require("DOM-2", 15)
	r.Require("DOM-3", 15)
	r.Require("FS-4", 150)
	r.Require("COM-1", 10)
}

// ---------- ENC-0 ----------

func checkWriteAnyFraming(c *Ctx, r *Run) {
	fn := c.LookupMethod("pkg/hash", "Hash", "WriteAny")
	if fn == nil {
		r.Unresolved("ENC-0", "pkg/hash.(*Hash).WriteAny")
		return
	}
	r.Analysed(c.FuncName(fn))
	// the framing may live in a helper method of Hash called once per item (writeItem): analyse the function that
	// actually writes to the underlying hasher
	frame := fn
	{
		writes := func(f *ssa.Function) int {
			n := 0
			allInstrs(f, func(in ssa.Instruction) {
				if call, ok := in.(*ssa.Call); ok {
					if cal := call.Call.StaticCallee(); cal != nil && (cal.Name() == "Write" || cal.Name() == "WriteString") && len(call.Call.Args) == 2 {
						if ld, ok := call.Call.Args[0].(*ssa.UnOp); ok {
							if fa, ok := ld.X.(*ssa.FieldAddr); ok && len(f.Params) > 0 && fa.X == ssa.Value(f.Params[0]) {
								n++
							}
						}
					}
				}
			})
			return n
		}
		if writes(fn) == 0 {
			var cands []*ssa.Function
			allInstrs(fn, func(in ssa.Instruction) {
				if cal := staticCallee(in); cal != nil && cal.Signature.Recv() != nil && namedOf(derefType(cal.Signature.Recv().Type())) == namedOf(derefType(fn.Signature.Recv().Type())) && writes(cal) > 0 {
					cands = append(cands, cal)
				}
			})
			if len(cands) == 1 {
				frame = cands[0]
				r.Analysed(c.FuncName(frame))
			}
		}
	}
	recv := frame.Params[0]
	isSink := func(in ssa.Instruction) (arg ssa.Value, ok bool) {
		call, isCall := in.(*ssa.Call)
		if !isCall {
			return nil, false
		}
		cal := call.Call.StaticCallee()
		if cal == nil || cal.Signature.Recv() == nil || len(call.Call.Args) != 2 {
			return nil, false
		}
		if cal.Name() != "Write" && cal.Name() != "WriteString" {
			return nil, false
		}
		// receiver loaded from a field of the *Hash receiver
		ld, isLd := call.Call.Args[0].(*ssa.UnOp)
		if !isLd {
			return nil, false
		}
		fa, isFa := ld.X.(*ssa.FieldAddr)
		if !isFa || fa.X != ssa.Value(recv) {
			return nil, false
		}
		return call.Call.Args[1], true
	}
	// classification of a sink argument
	fixedBuf := func(v ssa.Value) (*ssa.Alloc, int64) {
		sl, ok := v.(*ssa.Slice)
		if !ok || sl.Low != nil || sl.High != nil {
			return nil, 0
		}
		a, ok := sl.X.(*ssa.Alloc)
		if !ok {
			return nil, 0
		}
		if arr, ok := a.Type().(*types.Pointer).Elem().Underlying().(*types.Array); ok {
			return a, arr.Len()
		}
		return nil, 0
	}
	nVar := 0
	allInstrs(frame, func(in ssa.Instruction) {
		arg, ok := isSink(in)
		if !ok {
			return
		}
		if _, isConst := arg.(*ssa.Const); isConst {
			return
		}
		if a, _ := fixedBuf(arg); a != nil {
			return
		}
		// variable-width write
		nVar++
		p := path(arg)
		bad := ""
		walkBackward(in, func(x ssa.Instruction) bool {
			if bad != "" {
				return true
			}
			prev, isS := isSink(x)
			if !isS {
				return false
			}
			buf, width := fixedBuf(prev)
			if buf == nil {
				bad = fmt.Sprintf("the write immediately before it (%s) is %s, not a fixed-width length", c.Pos(x.Pos()), path(prev))
				return true
			}
			if width < 4 {
				bad = fmt.Sprintf("length is encoded in %d bytes only", width)
				return true
			}
			// find the Put that filled buf
			found := false
			walkBackward(x, func(y ssa.Instruction) bool {
				if found || bad != "" {
					return true
				}
				if _, s2 := isSink(y); s2 {
					bad = "no length was encoded into the size buffer between the previous write and this one"
					return true
				}
				call, isCall := y.(*ssa.Call)
				if !isCall {
					return false
				}
				o := calleeObj(y)
				if o == nil || !strings.HasPrefix(o.Name(), "PutUint") || o.Pkg() == nil || o.Pkg().Path() != "encoding/binary" {
					return false
				}
				args := call.Call.Args
				b2, _ := fixedBuf(args[len(args)-2])
				if b2 != buf {
					return false
				}
				if o.Name() != "PutUint64" && o.Name() != "PutUint32" {
					bad = "length truncated by " + o.Name()
					return true
				}
				lenCall, isLen := stripConv(args[len(args)-1]).(*ssa.Call)
				if isLen {
					if b, isB := lenCall.Call.Value.(*ssa.Builtin); isB && b.Name() == "len" && path(lenCall.Call.Args[0]) == p {
						found = true
						return true
					}
				}
				bad = fmt.Sprintf("the size buffer holds %s, not len(%s)", path(args[len(args)-1]), p)
				return true
			}, func() {
				if !found && bad == "" {
					bad = "a path reaches the write without any length encoding"
				}
			})
			return true
		}, func() {
			if bad == "" {
				bad = "a path reaches the write with no preceding write at all"
			}
		})
		r.Check("ENC-0", "pkg/hash.(*Hash).WriteAny|length-prefix of "+p, c.Pos(in.Pos()), bad == "",
			"variable-width write of "+p+" is preceded by a fixed-width encoding of its length", "write of "+p+": "+bad+" — adjacent items can trade bytes without changing the digest")
	})
	if nVar == 0 {
		r.Fail("ENC-0", "pkg/hash.(*Hash).WriteAny|variable-writes", c.Pos(fn.Pos()), "WriteAny writes domain and data", "no variable-width write to the hasher found")
	}
	// no accepting default: the failing edge of the last type assertion returns a non-nil error
	var tas []*ssa.TypeAssert
	allInstrs(fn, func(in ssa.Instruction) {
		if ta, ok := in.(*ssa.TypeAssert); ok && ta.CommaOk {
			tas = append(tas, ta)
		}
	})
	okDefault := false
	detail := "type switch not found"
	for _, ta := range tas {
		// find If on extract #1
		var iff *ssa.If
		for _, ref := range *ta.Referrers() {
			if ex, ok := ref.(*ssa.Extract); ok && ex.Index == 1 {
				for _, rr := range *ex.Referrers() {
					if i, ok := rr.(*ssa.If); ok {
						iff = i
					}
				}
			}
		}
		if iff == nil {
			continue
		}
		fail := iff.Block().Succs[1]
		// does fail lead to another type assertion first?
		another := false
		for _, in := range fail.Instrs {
			if _, ok := in.(*ssa.TypeAssert); ok {
				another = true
			}
		}
		if another {
			continue
		}
		// last case: walk forward from fail; must return non-nil error before any sink / loop header
		okDefault = true
		walkFrom(fail, 0, func(x ssa.Instruction) bool {
			if _, s := isSink(x); s {
				okDefault = false
				detail = "the default branch reaches a hasher write (unknown types are absorbed under some framing instead of being refused)"
				return true
			}
			if ret, ok := x.(*ssa.Return); ok {
				if len(ret.Results) != 1 || isNilConst(ret.Results[0]) {
					okDefault = false
					detail = "the default branch returns nil"
				}
				return true
			}
			if _, isPhi := x.(*ssa.Phi); isPhi && x.Block() != fail {
				okDefault = false
				detail = "the default branch continues with the next item: an unsupported value silently vanishes from the transcript"
				return true
			}
			return false
		})
	}
	r.Check("ENC-0", "pkg/hash.(*Hash).WriteAny|no-accepting-default", c.Pos(fn.Pos()), okDefault, "a value of unsupported type is refused with an error, never skipped", detail)
	// opening/closing brackets are constant strings: counted for information
	r.Hold("ENC-0", "pkg/hash.(*Hash).WriteAny|variable-writes="+fmt.Sprint(nVar), c.Pos(fn.Pos()), "variable-width writes found and checked")
}

// ---------- implementers ----------

type writerImpl struct {
	named   *types.Named
	pkg     *packages.Package
	writeTo *types.Func
	domain  *types.Func
}

func writerImplementers(c *Ctx) []writerImpl {
	var out []writerImpl
	for _, p := range c.LibPkgs() {
		sc := p.Types.Scope()
		for _, n := range sc.Names() {
			tn, ok := sc.Lookup(n).(*types.TypeName)
			if !ok || tn.IsAlias() {
				continue
			}
			named, ok := tn.Type().(*types.Named)
			if !ok {
				continue
			}
			if _, isIface := named.Underlying().(*types.Interface); isIface {
				continue
			}
			var wt, dm *types.Func
			ms := types.NewMethodSet(types.NewPointer(named))
			for i := 0; i < ms.Len(); i++ {
				f, ok := ms.At(i).Obj().(*types.Func)
				if !ok || f.Pkg() != p.Types {
					continue
				}
				sig := f.Type().(*types.Signature)
				if sig.Recv() == nil || namedOf(sig.Recv().Type()) != named {
					continue // promoted through embedding: belongs to the embedded type
				}
				if f.Name() == "WriteTo" && sig.Params().Len() == 1 && sig.Results().Len() == 2 {
					wt = f
				}
				if f.Name() == "Domain" && sig.Params().Len() == 0 && sig.Results().Len() == 1 {
					dm = f
				}
			}
			if wt != nil && dm != nil && c.Decl(wt) != nil && c.Decl(dm) != nil {
				out = append(out, writerImpl{named, p, wt, dm})
			}
		}
	}
	sort.Slice(out, func(i, j int) bool { return c.ObjName(out[i].named.Obj()) < c.ObjName(out[j].named.Obj()) })
	return out
}

// ---------- ENC-1 ----------

type segKind int

const (
	segFixed segKind = iota
	segDelimited
	segVariable
	segUnknown
)

type seg struct {
	kind   segKind
	inLoop bool
	what   string
	pos    token.Pos
	base   string // identifier the bytes come from (for length-prefix matching)
	lenOf  string // for fixed segments that encode len(X): X
}

// invariant-promoted widths: type name -> reason
var promotedFixed = map[string]string{
	"internal/types.RID":       "32 bytes: RID.Validate (length == SecBytes) is applied at every ingress (C03 OB-G3) and NewRID/EmptyRID allocate SecBytes",
	"pkg/paillier.PublicKey":   "256 bytes: ValidateN enforces BitLen == BitsPaillier at both ingresses (keygen round 3, Config.UnmarshalBinary)",
	"pkg/hash.Commitment":      "64 bytes: Commitment.Validate (length == DigestLengthBytes) is applied before use (Decommit, C03 OB-G3)",
	"pkg/hash.Decommitment":    "32 bytes: Decommitment.Validate is applied inside Decommit",
	"internal/round.Number":    "",
	"internal/types.Threshold": "",
}

func checkWriterShapes(c *Ctx, r *Run, impls []writerImpl) {
	byNamed := map[*types.Named]writerImpl{}
	for _, w := range impls {
		byNamed[w.named] = w
	}
	memo := map[*types.Named][]seg{}
	var shapeOf func(w writerImpl, depth int) []seg
	classifyType := func(segs []seg) segKind {
		nVar := 0
		for _, s := range segs {
			switch s.kind {
			case segUnknown:
				return segUnknown
			case segVariable:
				nVar++
				if s.inLoop {
					return segVariable
				}
			}
		}
		if nVar == 0 {
			return segFixed // fixed or self-delimiting as a whole
		}
		return segVariable
	}
	shapeOf = func(w writerImpl, depth int) []seg {
		if s, ok := memo[w.named]; ok {
			return s
		}
		memo[w.named] = nil
		fd := c.Decl(w.writeTo)
		info := w.pkg.TypesInfo
		var wParam types.Object
		if fd.Type.Params != nil && len(fd.Type.Params.List) == 1 && len(fd.Type.Params.List[0].Names) == 1 {
			wParam = info.Defs[fd.Type.Params.List[0].Names[0]]
		}
		rootFd, rootW := fd, wParam
		var segs []seg
		// frames: a plain same-package function that is handed the writer is walked in place of the call, its parameters
		// standing for the caller's argument expressions
		type frameT struct {
			fd      *ast.FuncDecl
			wParam  types.Object
			subst   map[types.Object]ast.Expr
			callPos token.Pos
			parent  *frameT
		}
		var cur *frameT
		inParent := func(f func()) {
			saved, sfd, sw := cur, fd, wParam
			cur = saved.parent
			if cur != nil {
				fd, wParam = cur.fd, cur.wParam
			} else {
				fd, wParam = rootFd, rootW
			}
			f()
			cur, fd, wParam = saved, sfd, sw
		}
		substOf := func(id *ast.Ident) (ast.Expr, bool) {
			if cur == nil {
				return nil, false
			}
			obj := info.Uses[id]
			if obj == nil {
				return nil, false
			}
			e, ok := cur.subst[obj]
			return e, ok
		}
		var typeOfExpr func(e ast.Expr) types.Type
		typeOfExpr = func(e ast.Expr) types.Type {
			if id, ok := e.(*ast.Ident); ok {
				if arg, has := substOf(id); has {
					var t types.Type
					inParent(func() { t = typeOfExpr(arg) })
					return t
				}
			}
			return info.TypeOf(e)
		}
		// definitions of local identifiers (last assignment textually before use)
		defOf := func(id *ast.Ident, before token.Pos) ast.Expr {
			obj := info.Uses[id]
			if obj == nil {
				obj = info.Defs[id]
			}
			var best ast.Expr
			ast.Inspect(fd.Body, func(n ast.Node) bool {
				as, ok := n.(*ast.AssignStmt)
				if !ok || as.Pos() >= before {
					return true
				}
				for i, lhs := range as.Lhs {
					li, ok := lhs.(*ast.Ident)
					if !ok {
						continue
					}
					lo := info.Defs[li]
					if lo == nil {
						lo = info.Uses[li]
					}
					if lo != obj || obj == nil {
						continue
					}
					if len(as.Rhs) == len(as.Lhs) {
						best = as.Rhs[i]
					} else if len(as.Rhs) == 1 {
						best = as.Rhs[0]
					}
				}
				return true
			})
			return best
		}
		var baseIdent func(e ast.Expr) string
		baseIdent = func(e ast.Expr) string {
			switch x := e.(type) {
			case *ast.Ident:
				if arg, has := substOf(x); has {
					b := ""
					inParent(func() { b = baseIdent(arg) })
					return b
				}
				return x.Name
			case *ast.CallExpr:
				if len(x.Args) == 1 {
					if tv, ok := info.Types[x.Fun]; ok && tv.IsType() {
						return baseIdent(x.Args[0])
					}
					if id, ok := x.Fun.(*ast.Ident); ok && id.Name == "len" {
						return baseIdent(x.Args[0])
					}
				}
			case *ast.SliceExpr:
				return baseIdent(x.X)
			case *ast.ParenExpr:
				return baseIdent(x.X)
			case *ast.SelectorExpr:
				return types.ExprString(x)
			}
			return ""
		}
		var classifyBytes func(e ast.Expr, at token.Pos, d int) (segKind, string)
		classifyBytes = func(e ast.Expr, at token.Pos, d int) (segKind, string) {
			if d > 6 {
				return segUnknown, "?"
			}
			switch x := e.(type) {
			case *ast.ParenExpr:
				return classifyBytes(x.X, at, d+1)
			case *ast.SliceExpr:
				if x.Low == nil && x.High == nil {
					return classifyBytes(x.X, at, d+1)
				}
				return segVariable, "slice expression"
			case *ast.Ident:
				if arg, has := substOf(x); has {
					k, what, cp := segUnknown, "?", cur.callPos
					inParent(func() { k, what = classifyBytes(arg, cp, d+1) })
					return k, what
				}
				if t := info.TypeOf(x); t != nil {
					if arr, ok := t.Underlying().(*types.Array); ok {
						return segFixed, fmt.Sprintf("[%d]byte", arr.Len())
					}
				}
				if def := defOf(x, at); def != nil {
					return classifyBytes(def, x.Pos(), d+1)
				}
				return segVariable, "bytes of " + x.Name + " (" + typeStr(info.TypeOf(x)) + ")"
			case *ast.CallExpr:
				if tv, ok := info.Types[x.Fun]; ok && tv.IsType() && len(x.Args) == 1 {
					return segVariable, "conversion " + types.ExprString(x)
				}
				if id, ok := x.Fun.(*ast.Ident); ok && id.Name == "make" && len(x.Args) >= 2 {
					if tv, ok := info.Types[x.Args[1]]; ok && tv.Value != nil {
						return segFixed, "make([]byte, " + tv.Value.String() + ")"
					}
					return segVariable, "make with non-constant length"
				}
				if sel, ok := x.Fun.(*ast.SelectorExpr); ok {
					rt := typeOfExpr(sel.X)
					if sel.Sel.Name == "MarshalBinary" && rt != nil {
						ts := relTypeStr(c, rt)
						if strings.HasSuffix(ts, "pkg/math/curve.Point") || strings.HasSuffix(ts, "pkg/math/curve.Scalar") {
							return segFixed, "curve " + ts[strings.LastIndex(ts, ".")+1:] + " encoding"
						}
						if n := namedOf(rt); n != nil {
							if n.Obj().Pkg() != nil && n.Obj().Pkg().Path() == modPath+"/pkg/math/polynomial" && n.Obj().Name() == "Exponent" {
								return segDelimited, "Exponent.MarshalBinary (count header + self-delimiting CBOR)"
							}
						}
						return segVariable, "MarshalBinary of " + ts
					}
					if sel.Sel.Name == "Marshal" {
						if o, ok := info.Uses[sel.Sel].(*types.Func); ok && o.Pkg() != nil && strings.Contains(o.Pkg().Path(), "cbor") {
							return segDelimited, "CBOR item"
						}
					}
					return segVariable, "result of " + types.ExprString(x.Fun)
				}
			}
			return segVariable, types.ExprString(e)
		}
		// hand-encoded length prefixes: binary.<order>.PutUintNN(buf[:], uintNN(len(y))) followed by w.Write(buf[:])
		type putLen struct {
			pos   token.Pos
			lenOf string
		}
		putLens := map[string][]putLen{}
		ast.Inspect(fd.Body, func(n ast.Node) bool {
			call, ok := n.(*ast.CallExpr)
			if !ok || len(call.Args) != 2 {
				return true
			}
			sel, ok := call.Fun.(*ast.SelectorExpr)
			if !ok || !strings.HasPrefix(sel.Sel.Name, "PutUint") {
				return true
			}
			if o, ok := info.Uses[sel.Sel].(*types.Func); !ok || o.Pkg() == nil || o.Pkg().Path() != "encoding/binary" {
				return true
			}
			buf := baseIdent(call.Args[0])
			lo := ""
			if ce, ok := call.Args[1].(*ast.CallExpr); ok && len(ce.Args) == 1 {
				if inner, ok := ce.Args[0].(*ast.CallExpr); ok {
					if id, ok := inner.Fun.(*ast.Ident); ok && id.Name == "len" {
						lo = baseIdent(inner.Args[0])
					}
				}
			}
			if buf != "" {
				putLens[buf] = append(putLens[buf], putLen{call.Pos(), lo})
			}
			return true
		})
		lenEncodedIn := func(buf string, at token.Pos) string {
			best, bestPos := "", token.NoPos
			for _, pl := range putLens[buf] {
				if pl.pos < at && pl.pos > bestPos {
					best, bestPos = pl.lenOf, pl.pos
				}
			}
			return best
		}
		var walk func(n ast.Node, inLoop bool)
		handleCall := func(call *ast.CallExpr, inLoop bool) {
			usesW := false
			for _, a := range call.Args {
				if id, ok := a.(*ast.Ident); ok && info.Uses[id] == wParam && wParam != nil {
					usesW = true
				}
			}
			sel, isSel := call.Fun.(*ast.SelectorExpr)
			if isSel {
				if id, ok := sel.X.(*ast.Ident); ok && info.Uses[id] == wParam && wParam != nil {
					// w.Write(x)
					if sel.Sel.Name == "Write" && len(call.Args) == 1 {
						k, what := classifyBytes(call.Args[0], call.Pos(), 0)
						b := baseIdent(call.Args[0])
						if id2, ok := call.Args[0].(*ast.Ident); ok {
							if def := defOf(id2, call.Pos()); def != nil {
								if bb := baseIdent(def); bb != "" {
									b = bb
								}
							}
						}
						sg := seg{kind: k, inLoop: inLoop, what: what, pos: call.Pos(), base: b}
						if k == segFixed {
							if lo := lenEncodedIn(baseIdent(call.Args[0]), call.Pos()); lo != "" {
								sg.lenOf = lo
								sg.what += " holding len(" + lo + ")"
							}
						}
						segs = append(segs, sg)
						return
					}
					segs = append(segs, seg{kind: segUnknown, inLoop: inLoop, what: "w." + sel.Sel.Name, pos: call.Pos()})
					return
				}
			}
			if !usesW {
				return
			}
			if isSel && sel.Sel.Name == "Write" && len(call.Args) == 3 {
				if o, ok := info.Uses[sel.Sel].(*types.Func); ok && o.Pkg() != nil && o.Pkg().Path() == "encoding/binary" {
					vt := info.TypeOf(call.Args[2])
					if b, ok := vt.Underlying().(*types.Basic); ok {
						switch b.Kind() {
						case types.Uint8, types.Uint16, types.Uint32, types.Uint64, types.Int8, types.Int16, types.Int32, types.Int64:
							s := seg{kind: segFixed, inLoop: inLoop, what: "binary.Write " + b.Name(), pos: call.Pos()}
							if ce, ok := call.Args[2].(*ast.CallExpr); ok && len(ce.Args) == 1 {
								if inner, ok := ce.Args[0].(*ast.CallExpr); ok {
									if id, ok := inner.Fun.(*ast.Ident); ok && id.Name == "len" && (b.Kind() == types.Uint32 || b.Kind() == types.Uint64 || b.Kind() == types.Int32 || b.Kind() == types.Int64) {
										s.lenOf = baseIdent(inner.Args[0])
									}
								}
							}
							segs = append(segs, s)
							return
						}
					}
					segs = append(segs, seg{kind: segUnknown, inLoop: inLoop, what: "binary.Write of " + typeStr(vt), pos: call.Pos()})
					return
				}
			}
			// io.WriteString(w, s): the bytes of s
			if isSel && sel.Sel.Name == "WriteString" && len(call.Args) == 2 {
				if o, ok := info.Uses[sel.Sel].(*types.Func); ok && o.Pkg() != nil && o.Pkg().Path() == "io" {
					segs = append(segs, seg{kind: segVariable, inLoop: inLoop, what: "string " + types.ExprString(call.Args[1]), pos: call.Pos(), base: baseIdent(call.Args[1])})
					return
				}
			}
			if isSel && sel.Sel.Name == "WriteTo" && len(call.Args) == 1 {
				rt := info.TypeOf(sel.X)
				if n := namedOf(rt); n != nil {
					key := c.Rel(n.Obj().Pkg()) + "." + n.Obj().Name()
					if reason, ok := promotedFixed[key]; ok && reason != "" {
						segs = append(segs, seg{kind: segFixed, inLoop: inLoop, what: "nested " + key + " (fixed by invariant)", pos: call.Pos()})
						return
					}
					if w2, ok := byNamed[n]; ok {
						sub := shapeOf(w2, depth+1)
						k := classifyType(sub)
						segs = append(segs, seg{kind: k, inLoop: inLoop, what: "nested " + key, pos: call.Pos()})
						return
					}
				}
				segs = append(segs, seg{kind: segUnknown, inLoop: inLoop, what: "nested WriteTo of " + typeStr(rt), pos: call.Pos()})
				return
			}
			// a plain function of the same package that gets the writer: its writes are this writer's writes
			if id, ok := call.Fun.(*ast.Ident); ok {
				if fo, isF := info.Uses[id].(*types.Func); isF && fo.Pkg() == w.pkg.Types {
					nest := 0
					for f := cur; f != nil; f = f.parent {
						nest++
					}
					if hd := c.Decl(fo); hd != nil && hd.Body != nil && hd.Recv == nil && nest < 3 {
						var params []types.Object
						for _, fl := range hd.Type.Params.List {
							for _, nm := range fl.Names {
								params = append(params, info.Defs[nm])
							}
						}
						if len(params) == len(call.Args) && !call.Ellipsis.IsValid() {
							fr := &frameT{fd: hd, subst: map[types.Object]ast.Expr{}, callPos: call.Pos(), parent: cur}
							for i, a := range call.Args {
								if aid, ok := a.(*ast.Ident); ok && info.Uses[aid] == wParam {
									fr.wParam = params[i]
									continue
								}
								fr.subst[params[i]] = a
							}
							sfd, sw, scur := fd, wParam, cur
							if cur == nil {
								rootFd, rootW = fd, wParam
							}
							cur, fd, wParam = fr, hd, fr.wParam
							walk(hd.Body, inLoop)
							cur, fd, wParam = scur, sfd, sw
							return
						}
					}
				}
			}
			segs = append(segs, seg{kind: segUnknown, inLoop: inLoop, what: "writer passed to " + types.ExprString(call.Fun), pos: call.Pos()})
		}
		walk = func(n ast.Node, inLoop bool) {
			ast.Inspect(n, func(x ast.Node) bool {
				switch s := x.(type) {
				case *ast.ForStmt:
					if s.Init != nil {
						walk(s.Init, inLoop)
					}
					walk(s.Body, true)
					return false
				case *ast.RangeStmt:
					walk(s.Body, true)
					return false
				case *ast.FuncLit:
					return false
				case *ast.CallExpr:
					handleCall(s, inLoop)
					return true
				}
				return true
			})
		}
		walk(fd.Body, false)
		// length-prefix: a variable segment directly preceded by a fixed segment encoding len() of the same base
		for i := range segs {
			if segs[i].kind == segVariable && i > 0 && segs[i-1].kind == segFixed && segs[i-1].lenOf != "" && segs[i-1].lenOf == segs[i].base && segs[i-1].inLoop == segs[i].inLoop {
				segs[i].kind = segDelimited
				segs[i].what += " (length-prefixed)"
			}
		}
		memo[w.named] = segs
		return segs
	}
	for _, w := range impls {
		key := c.ObjName(w.named.Obj())
		r.Analysed(c.ObjName(w.writeTo))
		segs := shapeOf(w, 0)
		var desc []string
		nVar := 0
		bad := ""
		for _, s := range segs {
			k := map[segKind]string{segFixed: "fixed", segDelimited: "delimited", segVariable: "VARIABLE", segUnknown: "UNKNOWN"}[s.kind]
			l := ""
			if s.inLoop {
				l = "*"
			}
			desc = append(desc, k+l+":"+s.what)
			switch s.kind {
			case segUnknown:
				bad = "UNDECIDED: " + s.what + " at " + c.Pos(s.pos)
			case segVariable:
				nVar++
				if s.inLoop {
					bad = fmt.Sprintf("variable-width, unframed segment (%s) written inside a loop at %s: different item lists with equal concatenation give identical bytes", s.what, c.Pos(s.pos))
				}
			}
		}
		// a loop of length-prefixed (not fixed-width) items must be preceded by the item count,
		// otherwise the list's end is not recoverable when the writer is nested in another one
		for i, sg := range segs {
			if bad != "" || !sg.inLoop || sg.kind != segDelimited {
				continue
			}
			counted := false
			for j := 0; j < i; j++ {
				if !segs[j].inLoop && segs[j].kind == segFixed && segs[j].lenOf != "" {
					counted = true
				}
			}
			if !counted {
				bad = fmt.Sprintf("loop of length-prefixed items at %s is not preceded by a fixed-width item count", c.Pos(sg.pos))
			}
		}
		if bad == "" && nVar > 1 {
			bad = fmt.Sprintf("%d undelimited variable-width segments in one writer: the boundary between them is not recoverable", nVar)
		}
		if len(segs) == 0 {
			bad = "no write to the io.Writer found"
		}
		r.Check("ENC-1", key+".WriteTo", c.Pos(c.Decl(w.writeTo).Pos()), bad == "", "layout ["+strings.Join(desc, ", ")+"] is injective", bad)
	}
	// supporting obligations of the promoted widths
	checkLenValidator(c, r, "internal/types", "RID", "Validate")
	checkLenValidator(c, r, "pkg/hash", "Commitment", "Validate")
	checkLenValidator(c, r, "pkg/hash", "Decommitment", "Validate")
	if fn := c.LookupFunc("pkg/paillier", "ValidateN"); fn != nil {
		ok := false
		allInstrs(fn, func(in ssa.Instruction) {
			if bo, isB := in.(*ssa.BinOp); isB && bo.Op == token.NEQ {
				if call, isC := bo.X.(*ssa.Call); isC {
					if o := calleeObj(call); o != nil && o.Name() == "BitLen" {
						if _, isConst := bo.Y.(*ssa.Const); isConst {
							ok = true
						}
					}
				}
			}
		})
		r.Check("ENC-1", "pkg/paillier.ValidateN|exact-bit-length", c.Pos(fn.Pos()), ok, "supporting invariant: a Paillier modulus has exactly BitsPaillier bits (so PublicKey.WriteTo has one width)", "ValidateN no longer compares BitLen() with the constant")
		// ingress: NewPublicKey callers validate
		n := 0
		for _, p := range c.LibPkgs() {
			sp := c.SSA[p.Types]
			for _, f := range funcsOfPkg(c, sp) {
				allInstrs(f, func(in ssa.Instruction) {
					if cal := staticCallee(in); cal == fn {
						n++
					}
				})
			}
		}
		r.Check("ENC-1", "pkg/paillier.ValidateN|called-at-ingress", c.Pos(fn.Pos()), n >= 2, "supporting invariant: ValidateN is applied where foreign moduli enter (keygen, config restore)", fmt.Sprintf("only %d call sites of ValidateN remain", n))
	} else {
		r.Unresolved("ENC-1", "pkg/paillier.ValidateN")
	}
}

// checkLenValidator: method compares len(receiver) with a constant and rejects on mismatch.
func checkLenValidator(c *Ctx, r *Run, rel, typ, method string) {
	fn := c.LookupMethod(rel, typ, method)
	if fn == nil {
		r.Unresolved("ENC-1", rel+"."+typ+"."+method)
		return
	}
	r.Analysed(c.FuncName(fn))
	okLen, okZero := false, false
	var lenK int64 = -1
	zeroDetail := "no all-zero rejection"
	keyFn := fn
	valParam := ssa.Value(fn.Params[0])
	var lenParam ssa.Value // the parameter holding the valid length when the check lives in a shared helper
	// a wrapper `return validate(kind, x, K)`: the check is examined inside the helper, with the value parameter bound
	// to the receiver and the length parameter bound to the constant K of this call
	if rets := returnsOf(fn); len(rets) == 1 && len(rets[0].Results) == 1 {
		if call, ok := rets[0].Results[0].(*ssa.Call); ok {
			if g := localHelperOf(call); g != nil {
				vi, li := -1, -1
				for i, a := range call.Call.Args {
					if stripConv(a) == ssa.Value(fn.Params[0]) {
						vi = i
					} else if k, isK := constInt(a); isK && k > 0 {
						li = i
						lenK = k
					}
				}
				if vi >= 0 && li >= 0 && vi < len(g.Params) && li < len(g.Params) {
					fn, valParam, lenParam = g, g.Params[vi], g.Params[li]
				} else {
					lenK = -1
				}
			}
		}
	}
	isVal := func(v ssa.Value) bool { return v == valParam || stripConv(v) == valParam }
	allInstrs(fn, func(in ssa.Instruction) {
		iff, ok := in.(*ssa.If)
		if !ok {
			return
		}
		// the other accepted form: bytes.Equal(x, Z) with Z an all-zero buffer of exactly the valid length
		if call, eqOnTrue := bytesEquality(iff.Cond); call != nil && len(call.Call.Args) == 2 {
			var z ssa.Value
			if isVal(call.Call.Args[0]) {
				z = call.Call.Args[1]
			} else if isVal(call.Call.Args[1]) {
				z = call.Call.Args[0]
			}
			if z != nil {
				if n, isZero := zeroBufferLen(c, fn, z); isZero {
					// equal edge returns an error
					eqSucc := iff.Block().Succs[0]
					if !eqOnTrue {
						eqSucc = iff.Block().Succs[1]
					}
					for _, x := range eqSucc.Instrs {
						if ret, isR := x.(*ssa.Return); isR && len(ret.Results) == 1 && !isNilConst(ret.Results[0]) {
							if lenK >= 0 && n != lenK {
								zeroDetail = fmt.Sprintf("the value is compared with an all-zero buffer of %d bytes while its only valid length is %d: the comparison is never true and the all-zero value is accepted", n, lenK)
							} else {
								okZero = true
							}
						}
					}
				}
			}
			return
		}
		// the scan moved into a predicate of its own: `if x.isZero() { return error }`
		if pc := condCall(iff.Cond); pc != nil {
			if g := localHelperOf(pc); g != nil && len(g.Params) == 1 && len(pc.Call.Args) == 1 && isVal(pc.Call.Args[0]) {
				if rt, isB := g.Signature.Results().At(0).Type().Underlying().(*types.Basic); isB && rt.Kind() == types.Bool && g.Signature.Results().Len() == 1 {
					scans := false
					allInstrs(g, func(in2 ssa.Instruction) {
						if b2, isBO := in2.(*ssa.BinOp); isBO && (b2.Op == token.EQL || b2.Op == token.NEQ) {
							if k, isK := constInt(b2.Y); isK && k == 0 && dependsOn(b2.X, func(v ssa.Value) bool { return v == ssa.Value(g.Params[0]) }) {
								scans = true
							}
						}
					})
					// one of the two edges leaves with an error straight away
					rejects := false
					for _, sc := range iff.Block().Succs {
						for _, x := range sc.Instrs {
							if ret, isR := x.(*ssa.Return); isR && len(ret.Results) == 1 && !isNilConst(ret.Results[0]) {
								rejects = true
							}
						}
					}
					if scans && rejects {
						okZero = true
					}
				}
			}
		}
		bo, ok := iff.Cond.(*ssa.BinOp)
		if !ok {
			return
		}
		if call, isC := bo.X.(*ssa.Call); isC {
			if b, isB := call.Call.Value.(*ssa.Builtin); isB && b.Name() == "len" && isVal(call.Call.Args[0]) {
				_, isConst := bo.Y.(*ssa.Const)
				if lenParam != nil {
					isConst = stripConv(bo.Y) == lenParam
				}
				if isConst && (bo.Op == token.NEQ || bo.Op == token.EQL) {
					// mismatch edge returns non-nil
					mis := iff.Block().Succs[0]
					if bo.Op == token.EQL {
						mis = iff.Block().Succs[1]
					}
					for _, x := range mis.Instrs {
						if ret, isR := x.(*ssa.Return); isR && len(ret.Results) == 1 && !isNilConst(ret.Results[0]) {
							okLen = true
							if lenParam == nil {
								lenK, _ = constInt(bo.Y)
							}
						}
					}
				}
			}
		}
		if k, isK := constInt(bo.Y); isK && k == 0 && (bo.Op == token.NEQ || bo.Op == token.EQL) {
			okZero = true
		}
	})
	// all-zero: the fall-through return is an error
	lastErr := false
	for _, ret := range returnsOf(fn) {
		if len(ret.Results) == 1 && !isNilConst(ret.Results[0]) {
			lastErr = true
		}
	}
	key := rel + "." + typ + "." + method
	r.Check("ENC-1", key+"|exact-length", c.Pos(keyFn.Pos()), okLen, "supporting invariant: "+typ+" has exactly one valid length (so its raw bytes are a fixed-width segment)", "no `len(x) != const -> error` guard")
	r.Check("COM-1", key+"|rejects-all-zero", c.Pos(keyFn.Pos()), okZero && lastErr, typ+".Validate refuses an all-zero value", zeroDetail)
}

// ---------- DOM-1 ----------

func checkDomains(c *Ctx, r *Run, impls []writerImpl) {
	owner := map[string]string{}
	for _, w := range impls {
		key := c.ObjName(w.named.Obj())
		fd := c.Decl(w.domain)
		info := w.pkg.TypesInfo
		var consts []string
		dynamic := false
		ast.Inspect(fd.Body, func(n ast.Node) bool {
			ret, ok := n.(*ast.ReturnStmt)
			if !ok || len(ret.Results) != 1 {
				return true
			}
			tv := info.Types[ret.Results[0]]
			if tv.Value != nil && tv.Value.Kind() == constant.String {
				consts = append(consts, constant.StringVal(tv.Value))
			} else {
				dynamic = true
			}
			return true
		})
		if dynamic {
			// BytesWithDomain: domain chosen per literal
			st, isStruct := w.named.Underlying().(*types.Struct)
			if isStruct && st.NumFields() == 2 {
				r.Hold("DOM-1", key+".Domain|dynamic-carrier", c.Pos(fd.Pos()), "carrier type: the domain is a field; every literal is checked separately")
				continue
			}
			r.Fail("DOM-1", key+".Domain", c.Pos(fd.Pos()), "Domain() returns a constant", "Domain() returns a computed string")
			continue
		}
		bad := ""
		for _, s := range consts {
			if s == "" {
				bad = "empty domain string"
			}
			if o, dup := owner[s]; dup && o != key {
				bad = fmt.Sprintf("domain %q is also the domain of %s: values of the two types with equal bytes hash identically", s, o)
			}
			owner[s] = key
		}
		if len(consts) == 0 {
			bad = "no return value"
		}
		r.Check("DOM-1", key+".Domain", c.Pos(fd.Pos()), bad == "", fmt.Sprintf("Domain() returns constant(s) %q, unique to this type", consts), bad)
	}
	// built-in domains of WriteAny
	for _, s := range []string{"[]byte", "big.Int"} {
		if o, dup := owner[s]; dup {
			r.Fail("DOM-1", "builtin-domain "+s, "pkg/hash/hash.go", "built-in domains are not reused by typed writers", "also used by "+o)
		}
	}
	// BytesWithDomain literals
	bwd := c.LookupNamed("pkg/hash", "BytesWithDomain")
	if bwd == nil {
		r.Unresolved("DOM-1", "pkg/hash.BytesWithDomain")
		return
	}
	seenTags := map[string]map[string]bool{}
	// does the writer of the carrier refuse a nil payload? (BytesWithDomain.WriteTo: `if b.Bytes == nil { return 0, err }`)
	writerRefusesNil := false
	if wt := c.LookupMethod("pkg/hash", "BytesWithDomain", "WriteTo"); wt != nil {
		for _, g := range rejectGuards(wt) {
			if strings.Contains(g.decider, "!= nil") && containsPrefix(g.fields, "recv") {
				writerRefusesNil = true
			}
		}
	} else {
		r.Unresolved("DOM-2", "pkg/hash.BytesWithDomain.WriteTo")
	}
	for _, p := range c.LibPkgs() {
		for _, f := range p.Syntax {
			var encl string
			ast.Inspect(f, func(n ast.Node) bool {
				if fd, ok := n.(*ast.FuncDecl); ok {
					encl = fd.Name.Name
					if fd.Recv != nil && len(fd.Recv.List) == 1 {
						encl = types.ExprString(fd.Recv.List[0].Type) + "." + encl
					}
				}
				cl, ok := n.(*ast.CompositeLit)
				if !ok {
					return true
				}
				t := p.TypesInfo.TypeOf(cl)
				if t == nil || namedOf(t) != bwd {
					return true
				}
				var dom ast.Expr
				for i, e := range cl.Elts {
					if kv, ok := e.(*ast.KeyValueExpr); ok {
						if id, ok := kv.Key.(*ast.Ident); ok && id.Name == "TheDomain" {
							dom = kv.Value
						}
					} else if i == 0 {
						dom = e
					}
				}
				if p.Types.Path() == modPath+"/pkg/hash" && encl == "*Hash.WriteAny" || strings.HasSuffix(encl, "Hash.WriteAny") {
					// internal re-wrapping inside WriteAny (domain taken from the typed writer)
					return true
				}
				key := c.Rel(p.Types) + "." + encl + "|BytesWithDomain"
				if dom == nil {
					r.Fail("DOM-1", key+"|<none>", c.Pos(cl.Pos()), "ad-hoc domain is a non-empty constant", "literal without TheDomain")
					return true
				}
				tv := p.TypesInfo.Types[dom]
				ok2 := tv.Value != nil && tv.Value.Kind() == constant.String && constant.StringVal(tv.Value) != ""
				val := types.ExprString(dom)
				detail := ""
				if !ok2 {
					detail = "domain " + val + " is not a non-empty constant"
				} else if o, dup := owner[constant.StringVal(tv.Value)]; dup {
					ok2 = false
					detail = "ad-hoc domain " + val + " equals the domain of typed writer " + o
				}
				r.Check("DOM-1", key+"|"+val, c.Pos(cl.Pos()), ok2, "ad-hoc domain "+val+" is a non-empty constant distinct from every typed writer's domain", detail)
				// DOM-2: the writer of this type refuses a nil payload (BytesWithDomain.WriteTo answers ErrUnexpectedEOF), so
				// a literal whose Bytes is omitted or the constant nil can never be hashed: WriteAny fails on it, and the
				// sinks that discard that error (Fork, HashForID) silently drop the item - its domain tag included
				var payload ast.Expr
				keyed := false
				for i, e := range cl.Elts {
					if kv, ok := e.(*ast.KeyValueExpr); ok {
						keyed = true
						if id, ok := kv.Key.(*ast.Ident); ok && id.Name == "Bytes" {
							payload = kv.Value
						}
					} else if i == 1 {
						payload = e
					}
				}
				_ = keyed
				nilPayload := payload == nil
				if payload != nil {
					if ptv, has := p.TypesInfo.Types[payload]; has && ptv.IsNil() {
						nilPayload = true
					}
				}
				// DOM-3: two items tagged alike inside one function separate nothing from each other (the three
				// multiplications of one Doerner signature forked under "Multiply0", "Multiply1", "Multiply1")
				if ok2 {
					fk := c.Rel(p.Types) + "." + encl
					if seenTags[fk] == nil {
						seenTags[fk] = map[string]bool{}
					}
					dup := seenTags[fk][val]
					seenTags[fk][val] = true
					if dup {
						r.Check("DOM-3", key+"|"+val+"|used-once", c.Pos(cl.Pos()), false, "", "the ad-hoc domain "+val+" tags two different items of "+encl+": the two derivations it was meant to separate read the same stream")
					} else {
						r.Hold("DOM-3", key+"|"+val+"|used-once", c.Pos(cl.Pos()), "the ad-hoc domain is used for one item of this function")
					}
				}
				if !writerRefusesNil {
					nilPayload = false // the writer takes a nil payload as the empty string: a bare tag is absorbed
				}
				r.Check("DOM-2", key+"|"+val+"|payload", c.Pos(cl.Pos()), !nilPayload, "the tagged item has a payload its writer accepts (Bytes is not the nil constant)",
					"BytesWithDomain{"+val+", Bytes: nil}: WriteTo refuses a nil payload, so this item is never absorbed - Fork/HashForID discard the error and return the unchanged state; every such tag yields the same digest as no tag at all (domain separation is lost)")
				return true
			})
		}
	}
}

// ---------- FS-4 ----------

func checkHashArgTypes(c *Ctx, r *Run) {
	hp := c.PkgRel("pkg/hash")
	wt := hp.Types.Scope().Lookup("WriterToWithDomain")
	if wt == nil {
		r.Unresolved("FS-4", "pkg/hash.WriterToWithDomain")
		return
	}
	wIface := wt.Type().Underlying().(*types.Interface)
	var bmIface *types.Interface
	for _, p := range c.All {
		if p.PkgPath == "encoding" {
			bmIface = p.Types.Scope().Lookup("BinaryMarshaler").Type().Underlying().(*types.Interface)
		}
	}
	if bmIface == nil {
		r.Unresolved("FS-4", "encoding.BinaryMarshaler")
		return
	}
	accepted := func(t types.Type) (bool, string) {
		if s, ok := t.Underlying().(*types.Slice); ok {
			if b, ok := s.Elem().Underlying().(*types.Basic); ok && b.Kind() == types.Byte {
				if _, named := t.(*types.Named); !named {
					return true, "[]byte"
				}
			}
		}
		if p, ok := t.(*types.Pointer); ok {
			if n, ok := p.Elem().(*types.Named); ok && n.Obj().Pkg() != nil && n.Obj().Pkg().Path() == "math/big" && n.Obj().Name() == "Int" {
				return true, "*big.Int"
			}
		}
		if types.Implements(t, wIface) {
			return true, "WriterToWithDomain"
		}
		if types.Implements(t, bmIface) {
			return true, "BinaryMarshaler"
		}
		return false, ""
	}
	targets := map[string]int{"WriteAny": 0, "Fork": 0, "Commit": 0, "Decommit": 2, "New": 0}
	n := 0
	for _, p := range c.LibPkgs() {
		for _, f := range p.Syntax {
			var encl string
			ast.Inspect(f, func(node ast.Node) bool {
				if fd, ok := node.(*ast.FuncDecl); ok {
					encl = fd.Name.Name
					if fd.Recv != nil && len(fd.Recv.List) == 1 {
						encl = types.ExprString(fd.Recv.List[0].Type) + "." + encl
					}
				}
				call, ok := node.(*ast.CallExpr)
				if !ok {
					return true
				}
				var fobj *types.Func
				switch fx := call.Fun.(type) {
				case *ast.SelectorExpr:
					fobj, _ = p.TypesInfo.Uses[fx.Sel].(*types.Func)
				case *ast.Ident:
					fobj, _ = p.TypesInfo.Uses[fx].(*types.Func)
				}
				if fobj == nil || fobj.Pkg() == nil || fobj.Pkg().Path() != modPath+"/pkg/hash" {
					return true
				}
				skip, isT := targets[fobj.Name()]
				if !isT {
					return true
				}
				sig := fobj.Type().(*types.Signature)
				if !sig.Variadic() {
					return true
				}
				if call.Ellipsis.IsValid() {
					inHash := p.Types.Path() == modPath+"/pkg/hash"
					r.Check("FS-4", c.Rel(p.Types)+"."+encl+"|"+fobj.Name()+"|spread", c.Pos(call.Pos()), inHash, "a slice is forwarded to the variadic hash function only inside pkg/hash", "call site forwards an untyped slice: static types of the items are unknown")
					return true
				}
				for i, a := range call.Args {
					if i < skip {
						continue
					}
					n++
					t := p.TypesInfo.TypeOf(a)
					ok2, as := accepted(t)
					if !ok2 {
						if _, isIface := t.Underlying().(*types.Interface); isIface && p.Types.Path() == modPath+"/pkg/hash" {
							ok2, as = true, "interface pass-through inside pkg/hash"
						}
					}
					key := fmt.Sprintf("%s.%s|%s|arg %s", c.Rel(p.Types), encl, fobj.Name(), types.ExprString(a))
					r.Check("FS-4", key, c.Pos(a.Pos()), ok2, "argument "+types.ExprString(a)+" has static type "+typeStr(t)+" accepted as "+as,
						"argument "+types.ExprString(a)+" of static type "+typeStr(t)+" is none of []byte, *big.Int, WriterToWithDomain, BinaryMarshaler: WriteAny takes its default branch and (where the error is discarded) the value silently drops out of the transcript")
				}
				return true
			})
		}
	}
	r.Note("hash argument positions checked: %d", n)
}

// ---------- COM-1 ----------

func checkCommit(c *Ctx, r *Run) {
	commit := c.LookupMethod("pkg/hash", "Hash", "Commit")
	decommit := c.LookupMethod("pkg/hash", "Hash", "Decommit")
	writeAny := c.LookupMethod("pkg/hash", "Hash", "WriteAny")
	clone := c.LookupMethod("pkg/hash", "Hash", "Clone")
	sum := c.LookupMethod("pkg/hash", "Hash", "Sum")
	if commit == nil || decommit == nil || writeAny == nil || clone == nil || sum == nil {
		r.Unresolved("COM-1", "pkg/hash Commit/Decommit/WriteAny/Clone/Sum")
		return
	}
	for _, top := range []*ssa.Function{commit, decommit} {
		r.Analysed(c.FuncName(top))
		key := "pkg/hash.(*Hash)." + top.Name()
		// the derivation (clone, write items, write decommitment, sum) may live in a helper shared by Commit and Decommit:
		// it is examined where the digest is taken, and the caller must honour the helper's error
		fn := top
		helperErrHonoured := true
		for _, g := range regionOf(top) {
			if g == top {
				continue
			}
			hasSum := false
			allInstrs(g, func(in ssa.Instruction) {
				if call, ok := in.(*ssa.Call); ok && call.Call.StaticCallee() == sum {
					hasSum = true
				}
			})
			if !hasSum {
				continue
			}
			fn = g
			helperErrHonoured = false
			allInstrs(top, func(in ssa.Instruction) {
				call, ok := in.(*ssa.Call)
				if !ok || call.Call.StaticCallee() != g {
					return
				}
				for _, ref := range *call.Referrers() {
					if ex, isEx := ref.(*ssa.Extract); isEx && isErrorType(ex.Type()) {
						for _, r2 := range *ex.Referrers() {
							if bo, isBo := r2.(*ssa.BinOp); isBo && isNilConst(bo.Y) {
								helperErrHonoured = true
							}
						}
					}
				}
			})
		}
		var cloneCall *ssa.Call
		var writes []*ssa.Call
		var sumCall *ssa.Call
		allInstrs(fn, func(in ssa.Instruction) {
			call, ok := in.(*ssa.Call)
			if !ok {
				return
			}
			switch call.Call.StaticCallee() {
			case clone:
				cloneCall = call
			case writeAny:
				writes = append(writes, call)
			case sum:
				sumCall = call
			}
		})
		okClone := cloneCall != nil && sumCall != nil && sumCall.Call.Args[0] == ssa.Value(cloneCall)
		for _, w := range writes {
			if w.Call.Args[0] != ssa.Value(cloneCall) {
				okClone = false
			}
		}
		r.Check("COM-1", key+"|works-on-clone", c.Pos(fn.Pos()), okClone, "items are absorbed into a clone; the session state itself is not advanced", "WriteAny/Sum are not applied to the Clone() result")
		// item loop then decommitment then sum
		var itemW, decW *ssa.Call
		for _, w := range writes {
			// variadic slice: single element stored
			elem := variadicSingle(w.Call.Args[1])
			if elem == nil {
				continue
			}
			if dependsOn(elem, func(v ssa.Value) bool {
				if p, ok := v.(*ssa.Parameter); ok {
					if sl, isSl := p.Type().Underlying().(*types.Slice); isSl {
						if it, isI := sl.Elem().Underlying().(*types.Interface); isI && it.NumMethods() == 0 {
							return true // the variadic data items
						}
					}
				}
				return false
			}) {
				itemW = w
			} else {
				decW = w
			}
		}
		okOrder := itemW != nil && decW != nil && sumCall != nil && instrReaches(itemW, decW) && !instrReaches(decW, itemW) && instrDominates(decW, sumCall)
		// items written inside a loop over the whole data slice
		inLoop := itemW != nil && blockReaches(itemW.Block(), itemW.Block()) && func() bool {
			for _, s := range itemW.Block().Succs {
				if blockReaches(s, itemW.Block()) {
					return true
				}
			}
			return false
		}()
		r.Check("COM-1", key+"|items-then-decommitment", c.Pos(fn.Pos()), okOrder && inLoop, "every data item (loop over all) is absorbed, then the decommitment, then the digest is taken", "order items -> decommitment -> Sum not found")
		// error of item write is honoured
		okErr := false
		if itemW != nil {
			for _, ref := range *itemW.Referrers() {
				if bo, ok := ref.(*ssa.BinOp); ok && isNilConst(bo.Y) {
					okErr = true
				}
			}
		}
		okErr = okErr && helperErrHonoured
		r.Check("COM-1", key+"|item-error-honoured", c.Pos(fn.Pos()), okErr, "a failing item write makes the operation fail (no commitment to a partial transcript)", "WriteAny error on an item is ignored")
	}
	// Decommit specifics
	{
		fn := decommit
		key := "pkg/hash.(*Hash).Decommit"
		cP, dP := fn.Params[1], fn.Params[2]
		validated := map[ssa.Value]bool{}
		allInstrs(fn, func(in ssa.Instruction) {
			call, ok := in.(*ssa.Call)
			if !ok {
				return
			}
			cal := call.Call.StaticCallee()
			if cal == nil || cal.Name() != "Validate" || len(call.Call.Args) != 1 {
				return
			}
			// result compared to nil, non-nil edge returns false
			for _, ref := range *call.Referrers() {
				bo, ok := ref.(*ssa.BinOp)
				if !ok || !isNilConst(bo.Y) {
					continue
				}
				for _, rr := range *bo.Referrers() {
					iff, ok := rr.(*ssa.If)
					if !ok {
						continue
					}
					rej := iff.Block().Succs[0]
					if bo.Op == token.EQL {
						rej = iff.Block().Succs[1]
					}
					for _, x := range rej.Instrs {
						if ret, ok := x.(*ssa.Return); ok && len(ret.Results) == 1 {
							if b, isB := constBool(ret.Results[0]); isB && !b {
								validated[call.Call.Args[0]] = true
							}
						}
					}
				}
			}
		})
		r.Check("COM-1", key+"|validates-commitment", c.Pos(fn.Pos()), validated[cP], "Decommit refuses a commitment of wrong length / all zero before hashing", "c.Validate() is not enforced")
		r.Check("COM-1", key+"|validates-decommitment", c.Pos(fn.Pos()), validated[dP], "Decommit refuses a decommitment of wrong length / all zero before hashing", "d.Validate() is not enforced")
		// the only true-capable return is bytes.Equal(computed, c)
		okEq := true
		nEq := 0
		for _, ret := range returnsOf(fn) {
			if len(ret.Results) != 1 {
				continue
			}
			if b, isB := constBool(ret.Results[0]); isB {
				if b {
					okEq = false
				}
				continue
			}
			call, eqOnTrue := bytesEquality(ret.Results[0])
			if call == nil || !eqOnTrue {
				okEq = false
				continue
			}
			nEq++
			a0, a1 := stripConv(call.Call.Args[0]), stripConv(call.Call.Args[1])
			if !(a1 == ssa.Value(cP) || a0 == ssa.Value(cP)) {
				okEq = false
			}
			other := a0
			if a0 == ssa.Value(cP) {
				other = a1
			}
			if oc, ok := resultThroughHelpers(other).(*ssa.Call); !ok || oc.Call.StaticCallee() != sum {
				okEq = false
			}
		}
		r.Check("COM-1", key+"|full-digest-comparison", c.Pos(fn.Pos()), okEq && nEq == 1, "Decommit accepts only when bytes.Equal(Sum(), c) over the full slices", "acceptance is not exactly bytes.Equal(computed digest, c)")
	}
	// Commit: decommitment from crypto/rand with checked error
	{
		fn := commit
		key := "pkg/hash.(*Hash).Commit"
		okRand := false
		allInstrs(fn, func(in ssa.Instruction) {
			if isCallToPkgFunc(in, "crypto/rand", "Read") {
				call := in.(*ssa.Call)
				for _, ref := range *call.Referrers() {
					if ex, ok := ref.(*ssa.Extract); ok && ex.Index == 1 {
						for _, rr := range *ex.Referrers() {
							if bo, ok := rr.(*ssa.BinOp); ok && isNilConst(bo.Y) {
								okRand = true
							}
							if st, ok := rr.(*ssa.Store); ok {
								// err variable spilled: look for a later comparison of the loaded value
								_ = st
								okRand = true
							}
						}
					}
				}
			}
		})
		r.Check("COM-1", key+"|fresh-decommitment", c.Pos(fn.Pos()), okRand, "the decommitment is read from crypto/rand and the error is checked", "no checked crypto/rand.Read")
	}
}

// variadicSingle: the value stored in a one-element variadic slice.
func variadicSingle(v ssa.Value) ssa.Value {
	sl, ok := v.(*ssa.Slice)
	if !ok {
		return nil
	}
	a, ok := sl.X.(*ssa.Alloc)
	if !ok {
		return nil
	}
	var val ssa.Value
	n := 0
	for _, ref := range *a.Referrers() {
		if ia, ok := ref.(*ssa.IndexAddr); ok {
			for _, rr := range *ia.Referrers() {
				if st, ok := rr.(*ssa.Store); ok {
					val = st.Val
					n++
				}
			}
		}
	}
	if n == 1 {
		return val
	}
	return nil
}

// checkWritersTotal: ENC-2. A transcript writer must be total on the values of its type: the hash API's callers
// (HashForID, Message.Hash, many WriteAny sites) cannot do anything useful with "this value cannot be hashed" and
// several of them discard the error by design, so a writer that refuses some values silently drops the item - and
// everything after it - from the transcript. Allowed error returns: a nil receiver / nil component, and the error of an
// underlying Write / WriteTo / MarshalBinary / Fill* call.
func checkWritersTotal(c *Ctx, r *Run, rule string, impls []writerImpl) {
	for _, im := range impls {
		fn := c.Prog.FuncValue(im.writeTo)
		if fn == nil || len(fn.Blocks) == 0 {
			continue
		}
		name := c.FuncName(fn)
		r.Analysed(name)
		var bad []string
		// refusals that ORIGINATE in the writer: returns of a fresh error (errors.New / fmt.Errorf / a package-level
		// error value). Propagated errors of the underlying writer are not refusals of a value.
		fresh := func(v ssa.Value) bool {
			switch x := stripConv(v).(type) {
			case *ssa.Call:
				if o := calleeObj(x); o != nil && o.Pkg() != nil && (o.Pkg().Path() == "errors" || o.Pkg().Path() == "fmt") {
					return true
				}
			case *ssa.UnOp:
				if _, isG := x.X.(*ssa.Global); isG && x.Op == token.MUL {
					return true
				}
			case *ssa.MakeInterface:
				return true
			}
			return false
		}
		zeroTest := func(cond ssa.Value) bool {
			if u, ok := cond.(*ssa.UnOp); ok && u.Op == token.NOT {
				cond = u.X
			}
			bo, ok := cond.(*ssa.BinOp)
			if !ok || (bo.Op != token.EQL && bo.Op != token.NEQ) {
				return false
			}
			if isNilConst(bo.X) || isNilConst(bo.Y) {
				return true
			}
			// `id == ""`, `len(x) == 0`: the zero value of the type
			for _, side := range []ssa.Value{bo.X, bo.Y} {
				if k, ok := side.(*ssa.Const); ok && k.Value != nil {
					if s := k.Value.ExactString(); s == `""` || s == "0" {
						return true
					}
				}
			}
			return false
		}
		for _, ret := range returnsOf(fn) {
			if len(ret.Results) == 0 {
				continue
			}
			last := ret.Results[len(ret.Results)-1]
			type origin struct {
				v   ssa.Value
				blk *ssa.BasicBlock
			}
			var origins []origin
			if ph, ok := last.(*ssa.Phi); ok {
				for i, e := range ph.Edges {
					origins = append(origins, origin{e, ph.Block().Preds[i]})
				}
			} else {
				origins = append(origins, origin{last, ret.Block()})
			}
			for _, o := range origins {
				if !fresh(o.v) {
					continue
				}
				// nearest governing branch
				var gov *ssa.If
				for d := o.blk; d != nil && gov == nil; d = d.Idom() {
					if d != o.blk && len(d.Instrs) > 0 {
						if iff, ok := d.Instrs[len(d.Instrs)-1].(*ssa.If); ok {
							gov = iff
						}
					}
				}
				// a test of what the underlying writer answered (a short count): the writer's failure, not a refused value
				writerOutcome := gov != nil && dependsOn(gov.Cond, func(v ssa.Value) bool {
					ex, isE := v.(*ssa.Extract)
					if !isE {
						return false
					}
					call, isC := ex.Tuple.(*ssa.Call)
					if !isC {
						return false
					}
					vals := append([]ssa.Value{call.Call.Value}, call.Call.Args...)
					for _, a := range vals {
						if prm, isP := a.(*ssa.Parameter); isP && prm.Parent() == fn {
							if it, isI := prm.Type().Underlying().(*types.Interface); isI && it.NumMethods() == 1 && it.Method(0).Name() == "Write" {
								return true
							}
						}
					}
					return false
				})
				if gov == nil || !(zeroTest(gov.Cond) || writerOutcome) {
					cond := "unconditionally"
					if gov != nil {
						cond = "when " + path(gov.Cond)
					}
					bad = append(bad, c.Pos(ret.Pos())+" "+cond)
				}
			}
		}
		r.Check(rule, name+"|total", c.Pos(fn.Pos()), len(bad) == 0, "the writer refuses no value of its type (errors only from nil parts or the underlying writer)",
			"the writer itself refuses some values of its type (fresh error returned at "+strings.Join(bad, "; ")+"): callers that hash such a value (several discard the error by design, e.g. HashForID) silently leave it and all later items out of the transcript, so the per-party / per-session binding is lost for exactly those values")
	}
}

// writerFieldExempt: fields of a writer's type that are deliberately not part of its transcript encoding.
var writerFieldExempt = map[string]string{
	"pkg/paillier.PublicKey.nSquared":    "derived from n",
	"pkg/paillier.PublicKey.nNat":        "cached copy of n",
	"pkg/paillier.PublicKey.nPlusOne":    "derived from n",
	"pkg/hash.BytesWithDomain.TheDomain": "written by the framing through Domain(), not by WriteTo",
	// the transcript image of a CMP configuration is its public part (threshold, parties, rid, public table):
	"protocols/cmp/config.Config.ID":       "party-local: every party must derive the same image of the shared configuration",
	"protocols/cmp/config.Config.ECDSA":    "secret share: never hashed",
	"protocols/cmp/config.Config.ElGamal":  "secret key: never hashed",
	"protocols/cmp/config.Config.Paillier": "secret key: never hashed (the public key is in the table)",
	"protocols/cmp/config.Config.ChainKey": "not part of the reviewed image (changing this changes every session tag)",
}

// checkWritersComplete: FS-7. Every field of a struct type that writes itself into the transcript is read by its
// WriteTo (directly, or through the codec / helper it delegates to): a field left out makes distinct values hash alike.
func checkWritersComplete(c *Ctx, r *Run, rule string, impls []writerImpl) {
	for _, im := range impls {
		st, ok := im.named.Underlying().(*types.Struct)
		if !ok {
			continue
		}
		fn := c.Prog.FuncValue(im.writeTo)
		if fn == nil || len(fn.Blocks) == 0 {
			continue
		}
		name := c.ObjName(im.named.Obj())
		read := map[string]bool{}
		withCallees(c, fn, 3, func(f *ssa.Function) {
			allInstrs(f, func(in ssa.Instruction) {
				switch x := in.(type) {
				case *ssa.FieldAddr:
					if namedOf(derefType(x.X.Type())) == im.named {
						read[fieldName(x.X.Type(), x.Field)] = true
					}
				case *ssa.Field:
					if namedOf(x.X.Type()) == im.named {
						read[fieldName(x.X.Type(), x.Field)] = true
					}
				}
			})
		})
		for i := 0; i < st.NumFields(); i++ {
			f := st.Field(i)
			key := name + "." + f.Name()
			if isGroupContext(f) {
				r.Hold(rule, key+"|exempt", c.Pos(f.Pos()), "group context, fixed per session")
				continue
			}
			if why, ex := writerFieldExempt[key]; ex {
				r.Hold(rule, key+"|exempt", c.Pos(f.Pos()), why)
				continue
			}
			r.Check(rule, key, c.Pos(fn.Pos()), read[f.Name()], "field "+f.Name()+" is part of what "+im.named.Obj().Name()+".WriteTo hashes",
				"field "+f.Name()+" of "+name+" is never read by its WriteTo (nor by the codec it delegates to): two values differing only in "+f.Name()+" produce the same transcript bytes, so hashes and commitments over this type are not injective")
		}
	}
}

// zeroBufferLen: v is a byte slice that is all zero by construction — a local make([]byte, K) that is never written,
// or a package variable initialised with make([]byte, K) and never written elsewhere; returns K.
func zeroBufferLen(c *Ctx, fn *ssa.Function, v ssa.Value) (int64, bool) {
	v = stripConv(v)
	if k, isK := madeLen(v); isK {
		for _, ref := range *v.Referrers() {
			switch ref.(type) {
			case *ssa.IndexAddr, *ssa.Slice:
				return 0, false
			}
		}
		return k, true
	}
	// a package-level fixed array that is never written, sliced in full: zeroBuf[:]
	if sl, ok := v.(*ssa.Slice); ok && sl.Low == nil && sl.High == nil {
		if g, ok := sl.X.(*ssa.Global); ok && g.Pkg == fn.Pkg {
			if arr, isArr := derefType(g.Type()).Underlying().(*types.Array); isArr {
				written := false
				fns := funcsOfPkg(c, fn.Pkg)
				if init := fn.Pkg.Func("init"); init != nil {
					fns = append(fns, init)
				}
				for _, f := range fns {
					allInstrs(f, func(in ssa.Instruction) {
						switch x := in.(type) {
						case *ssa.Store:
							if x.Addr == ssa.Value(g) {
								written = true
							}
						case *ssa.IndexAddr:
							if x.X == ssa.Value(g) {
								for _, ref := range *x.Referrers() {
									if st, isSt := ref.(*ssa.Store); isSt && st.Addr == ssa.Value(x) {
										written = true
									}
								}
							}
						case *ssa.Slice:
							if x.X == ssa.Value(g) {
								// handed out as a slice: only to comparison functions
								for _, ref := range *x.Referrers() {
									if call, isCall := ref.(*ssa.Call); !isCall || !(isCallToPkgFunc(call, "bytes", "Equal") || isCallToPkgFunc(call, "crypto/subtle", "ConstantTimeCompare")) {
										written = true
									}
								}
							}
						}
					})
				}
				if !written {
					return arr.Len(), true
				}
			}
		}
		return 0, false
	}
	u, ok := v.(*ssa.UnOp)
	if !ok || u.Op != token.MUL {
		return 0, false
	}
	g, ok := u.X.(*ssa.Global)
	if !ok || g.Pkg != fn.Pkg {
		return 0, false
	}
	var k int64 = -1
	stores := 0
	for _, f := range funcsOfPkg(c, fn.Pkg) {
		allInstrs(f, func(in ssa.Instruction) {
			if st, isSt := in.(*ssa.Store); isSt && st.Addr == ssa.Value(g) {
				stores++
				if n, isK := madeLen(st.Val); isK {
					k = n
				}
			}
		})
	}
	if init := fn.Pkg.Func("init"); init != nil {
		allInstrs(init, func(in ssa.Instruction) {
			if st, isSt := in.(*ssa.Store); isSt && st.Addr == ssa.Value(g) {
				stores++
				if n, isK := madeLen(st.Val); isK {
					k = n
				}
			}
		})
	}
	return k, stores == 1 && k >= 0
}

// madeLen: v is make([]T, K) with constant K (go/ssa renders it as MakeSlice, or as a slice of a new [K]T).
func madeLen(v ssa.Value) (int64, bool) {
	v = stripConv(v)
	switch x := v.(type) {
	case *ssa.MakeSlice:
		return constInt(x.Len)
	case *ssa.Slice:
		if a, ok := x.X.(*ssa.Alloc); ok && x.Low == nil {
			if arr, isArr := derefType(a.Type()).Underlying().(*types.Array); isArr {
				if x.High == nil {
					return arr.Len(), true
				}
				return constInt(x.High)
			}
		}
	}
	return 0, false
}

// bytesEquality: cond decides whether two byte slices are equal: bytes.Equal(a, b), subtle.ConstantTimeCompare(a, b)
// == 1 / != 1 (/ != 0), possibly negated. Returns the comparing call and whether cond is true exactly when they are equal.
func bytesEquality(cond ssa.Value) (*ssa.Call, bool) {
	eq := true
	for i := 0; i < 4; i++ {
		switch x := cond.(type) {
		case *ssa.UnOp:
			if x.Op != token.NOT {
				return nil, false
			}
			eq, cond = !eq, x.X
		case *ssa.Call:
			if isCallToPkgFunc(x, "bytes", "Equal") {
				return x, eq
			}
			return nil, false
		case *ssa.BinOp:
			call, ok := x.X.(*ssa.Call)
			k, isK := constInt(x.Y)
			if !ok || !isK || !isCallToPkgFunc(call, "crypto/subtle", "ConstantTimeCompare") {
				return nil, false
			}
			switch {
			case x.Op == token.EQL && k == 1, x.Op == token.NEQ && k == 0:
				return call, eq
			case x.Op == token.NEQ && k == 1, x.Op == token.EQL && k == 0:
				return call, !eq
			}
			return nil, false
		default:
			return nil, false
		}
	}
	return nil, false
}

// fillWidths: fixed-width big-number encodings (saferith FillBytes truncates silently when the buffer is too small) and
// the constant of internal/params that is the width of the value's domain.
var fillWidths = map[string]struct{ constName, why string }{
	"pkg/paillier.(*Ciphertext).WriteTo": {"BytesCiphertext", "a ciphertext is a residue modulo N²: 2·BytesPaillier bytes"},
	"pkg/pedersen.(*Parameters).WriteTo": {"BytesIntModN", "N, s and t are residues modulo N"},
}

// checkFillWidths: WIDTH-1.
func checkFillWidths(c *Ctx, r *Run, rule string) {
	r.Rule(rule, "fixed-width big-number encodings use a buffer as wide as the value's domain (FillBytes truncates silently)")
	pp := c.PkgRel("internal/params")
	for _, p := range c.LibPkgs() {
		for _, top := range funcsOfPkg(c, c.SSA[p.Types]) {
			withAnon(top, func(fn *ssa.Function) {
				allInstrs(fn, func(in ssa.Instruction) {
					call, ok := in.(*ssa.Call)
					if !ok {
						return
					}
					f := call.Call.StaticCallee()
					if f == nil || f.Name() != "FillBytes" || f.Pkg == nil || !strings.HasSuffix(f.Pkg.Pkg.Path(), "cronokirby/saferith") {
						return
					}
					name := c.FuncName(fn)
					r.Analysed(name)
					want, tabled := fillWidths[name]
					if !tabled {
						r.Fail(rule, name+"|width", c.Pos(call.Pos()), "the encoding's width is tabled", "UNDECIDED: new fixed-width encoding (FillBytes) in "+name+": its domain width is not in the reviewed table")
						return
					}
					k, isK := madeLen(resolveLoad(call.Call.Args[len(call.Call.Args)-1]))
					exp := int64(-1)
					if pp != nil {
						if cst, ok := pp.Types.Scope().Lookup(want.constName).(*types.Const); ok {
							if v, exact := constant.Int64Val(cst.Val()); exact {
								exp = v
							}
						}
					}
					r.Check(rule, name+"|width", c.Pos(call.Pos()), isK && exp > 0 && k == exp,
						fmt.Sprintf("the buffer has params.%s = %d bytes (%s)", want.constName, exp, want.why),
						fmt.Sprintf("the buffer handed to FillBytes has %d bytes, the domain needs params.%s = %d (%s): the upper bytes are silently dropped, so values that differ only there hash to the same bytes (colliding transcripts, challenges and commitments)", k, want.constName, exp, want.why))
				})
			})
		}
	}
	r.Require(rule, 2)
}

// checkSinkAccumulates: SINK-1. Inside pkg/hash a value is serialised by handing a sink to its WriteTo and hashing what
// the sink collected. Writers call Write several times (a list writes each element): the sink must keep ALL of it.
// Accepted sinks: *bytes.Buffer, *strings.Builder, a hash state, or a type of the module whose Write appends the
// argument to a field of the receiver (append(s.f, p...) stored back into s.f) or forwards to such a sink.
func checkSinkAccumulates(c *Ctx, r *Run, rule string) {
	r.Rule(rule, "the sink a value is serialised into before it is framed and hashed keeps every Write (it appends)")
	hp := c.PkgRel("pkg/hash")
	if hp == nil {
		r.Unresolved(rule, "pkg/hash")
		return
	}
	var accumulating func(t types.Type, depth int) (bool, string)
	accumulating = func(t types.Type, depth int) (bool, string) {
		ts := t.String()
		switch ts {
		case "*bytes.Buffer", "*strings.Builder", "hash.Hash", "*github.com/zeebo/blake3.Hasher":
			return true, ts
		}
		n := namedOf(t)
		if n == nil || n.Obj().Pkg() == nil || !c.InModule(n.Obj().Pkg()) || depth > 2 {
			return false, "sink of type " + ts + " is not known to accumulate"
		}
		var wfn *ssa.Function
		for _, tt := range []types.Type{t, types.NewPointer(n)} {
			ms := c.Prog.MethodSets.MethodSet(tt)
			if sel := ms.Lookup(n.Obj().Pkg(), "Write"); sel != nil {
				wfn = c.Prog.MethodValue(sel)
			}
			if wfn == nil {
				for i := 0; i < ms.Len(); i++ {
					if ms.At(i).Obj().Name() == "Write" {
						wfn = c.Prog.MethodValue(ms.At(i))
					}
				}
			}
		}
		if wfn == nil || len(wfn.Blocks) == 0 || len(wfn.Params) < 2 {
			return false, "no Write method found on " + ts
		}
		recv, data := wfn.Params[0], wfn.Params[1]
		ok := false
		why := ts + ".Write does not append its argument to what it already holds"
		allInstrs(wfn, func(in ssa.Instruction) {
			call, isCall := in.(*ssa.Call)
			if !isCall {
				return
			}
			if b, isB := call.Call.Value.(*ssa.Builtin); isB && b.Name() == "append" && len(call.Call.Args) == 2 {
				// append(<load of recv.F>, data...) stored back into recv.F
				ld, isLoad := call.Call.Args[0].(*ssa.UnOp)
				if !isLoad || ld.Op != token.MUL {
					why = ts + ".Write appends to a re-sliced or fresh buffer (" + path(call.Call.Args[0]) + "): what earlier Write calls delivered is dropped"
					return
				}
				fa, isFA := ld.X.(*ssa.FieldAddr)
				if !isFA || fa.X != ssa.Value(recv) || !dependsOn(call.Call.Args[1], func(v ssa.Value) bool { return v == ssa.Value(data) }) {
					return
				}
				for _, ref := range *call.Referrers() {
					if st, isSt := ref.(*ssa.Store); isSt {
						if fa2, isFA2 := st.Addr.(*ssa.FieldAddr); isFA2 && fa2.X == ssa.Value(recv) && fa2.Field == fa.Field {
							ok = true
						}
					}
				}
				return
			}
			// forwarding: s.inner.Write(p)
			if (call.Call.IsInvoke() && call.Call.Method.Name() == "Write") || (call.Call.StaticCallee() != nil && call.Call.StaticCallee().Name() == "Write") {
				var inner ssa.Value
				if call.Call.IsInvoke() {
					inner = call.Call.Value
				} else if len(call.Call.Args) > 0 {
					inner = call.Call.Args[0]
				}
				if inner != nil {
					if acc, _ := accumulating(inner.Type(), depth+1); acc {
						ok = true
					}
				}
			}
		})
		if ok {
			return true, ts + " (Write appends)"
		}
		return false, why
	}
	n := 0
	for _, fn := range funcsOfPkg(c, c.SSA[hp.Types]) {
		fn := fn
		allInstrs(fn, func(in ssa.Instruction) {
			call, ok := in.(*ssa.Call)
			if !ok || !call.Call.IsInvoke() || call.Call.Method.Name() != "WriteTo" || len(call.Call.Args) != 1 {
				return
			}
			w := call.Call.Args[0]
			mi, isMI := w.(*ssa.MakeInterface)
			if !isMI {
				return // a writer passed through from the caller: decided where it is created
			}
			n++
			acc, what := accumulating(mi.X.Type(), 0)
			r.Analysed(c.FuncName(fn))
			r.Check(rule, fmt.Sprintf("%s|WriteTo-sink #%d", c.FuncName(fn), n), c.Pos(call.Pos()), acc, "the serialisation is collected in "+what,
				what+": a value whose WriteTo calls Write more than once (a participant list, a config, a polynomial) is hashed as its LAST piece only, so different values get the same transcript bytes")
		})
	}
	r.Require(rule, 1)
}
