package main

import (
	"fmt"
	"go/token"
	"go/types"
	"sort"
	"strings"

	"golang.org/x/tools/go/ssa"
)

func init() {
	register("C13", propMeta{
		Explanation: "Structural necessary conditions of the OT stack in internal/ot; the algebraic identities (pads, correlations, alpha*beta = sum of shares) quantify over run-time values and are NOT decided. " +
			"OB-T: reject-guard inventory of every OT layer function (Schnorr proof of the setup point, challenge/response comparisons of the random OT, batch-size checks, the GF(2^128) monochrome check q == T fed by U, X, T and Delta, the per-element integrity check of the multiplication fed by both check values, the choices and the pads, decode errors): every recorded guard is present, decides on the same data and gates acceptance. " +
			"OT-L / OT-N: an altered message must end in an error, not a crash: every slice reached from a message parameter is indexed only under a dominating length guard on that very slice, and every pointer- or interface-typed message field is used only under a dominating nil guard (in the function or at the entry of the internal/ot callee it is handed to). " +
			"FS-5: on both sides of the extended OT the check weights chi are read from the context hash only after all OTParam columns of U were written into it, and they depend on U. " +
			"SIB-1: sender and receiver of the multiplication sample chi0, chi1 from the same forked domain in the same order, build the gadget with the same function and weight the same pad component by the gadget. " +
			"BIT-1: every bit access in internal/ot uses one convention (byte i>>3, bit i&7 of the same index, LSB first), so encode, the choice masks, bitAt and transposeBits agree.",
		Trusted:     append([]string{"tables/round_guards.json (entries of internal/ot)", "dep.go effect summaries (hash.Hash.WriteAny/Digest, blake3)"}, commonTrusted...),
		Assumptions: []string{"KOS/Doerner protocol soundness; correctness of GF(2^128) arithmetic in accumulate; only presence, inputs and placement of checks are decided"},
	}, runC13)
}

func isOTFunc(name string) bool { return strings.HasPrefix(name, "internal/ot.") }

func runC13(c *Ctx, r *Run) {
	checkResultsUsed(c, r, "USE-1", 100)
	checkBitMasks(c, r, "BIT-2")
	r.Rule("OB-T", "guard inventory over internal/ot: every recorded reject guard (deciding callee + message/state data feeding it) is present and covers acceptance")
	r.Rule("OT-L", "every slice reached from a message parameter is indexed only under a dominating length guard on the same access path")
	r.Rule("OT-N", "every pointer/interface field of a message is used only under a dominating nil guard (locally or at the entry of the internal/ot callee)")
	r.Rule("FS-5", "extended OT: chi is drawn after all columns of U entered the context hash, on both sides")
	r.Rule("SIB-1", "multiplication: both sides sample chi from the same domain in the same order and use the same gadget construction")
	r.Rule("CMP-1", "equality tests over fixed-size arrays compare every element (loop bound = array length)")
	r.Rule("BIT-1", "one bit-addressing convention (byte i>>3, bit i&7) at every bit access of internal/ot")

	checkGuardInventory(c, r, "OB-T", "round_guards.json", isOTFunc)

	p := c.PkgRel("internal/ot")
	if p == nil {
		r.Unresolved("OT-L", "internal/ot")
		return
	}
	var fns []*ssa.Function
	for _, fn := range funcsOfPkg(c, c.SSA[p.Types]) {
		withAnon(fn, func(f *ssa.Function) { fns = append(fns, f) })
	}
	sort.Slice(fns, func(i, j int) bool { return c.FuncName(fns[i]) < c.FuncName(fns[j]) })
	for _, fn := range fns {
		checkMessageUses(c, r, fn)
	}
	checkChi(c, r)
	checkMultiplySiblings(c, r)
	for _, fn := range fns {
		checkBitAccess(c, r, fn)
	}

	checkComparators(c, r, fns)

	checkStrides(c, r, "LIMB-1", "internal/ot")
	r.Require("LIMB-1", 1)
	r.Require("CMP-1", 1)
	r.Require("OB-T", 25)
	r.Require("OT-L", 3)
	r.Require("OT-N", 8)
	r.Require("FS-5", 6)
	r.Require("SIB-1", 5)
	r.Require("BIT-1", 6)
}

// isMessageType: pointer to (or value of) a struct type of internal/ot whose name ends in "Message".
func isMessageType(t types.Type) bool {
	if pt, ok := t.Underlying().(*types.Pointer); ok {
		t = pt.Elem()
	}
	n := namedOf(t)
	if n == nil || n.Obj().Pkg() == nil {
		return false
	}
	return strings.HasSuffix(n.Obj().Pkg().Path(), "internal/ot") && strings.HasSuffix(n.Obj().Name(), "Message")
}

// msgRoot: v is reached from a message parameter of fn through field / element accesses and loads.
func msgRoot(fn *ssa.Function, v ssa.Value) (*ssa.Parameter, int) {
	depth := 0
	for i := 0; i < 40; i++ {
		switch x := v.(type) {
		case *ssa.Parameter:
			if isMessageType(x.Type()) {
				return x, depth
			}
			return nil, 0
		case *ssa.FieldAddr:
			v = x.X
			depth++
		case *ssa.Field:
			v = x.X
			depth++
		case *ssa.IndexAddr:
			v = x.X
		case *ssa.Index:
			v = x.X
		case *ssa.UnOp:
			if x.Op != token.MUL {
				return nil, 0
			}
			v = x.X
		case *ssa.Slice:
			v = x.X
		default:
			return nil, 0
		}
	}
	return nil, 0
}

// nilGuardedParams: indices of parameters of fn that a covering reject guard compares with nil at entry.
func nilGuardedParams(fn *ssa.Function) map[int]bool {
	out := map[int]bool{}
	for _, g := range rejectGuards(fn) {
		for _, cmp := range nilComparisons(g) {
			for i, p := range fn.Params {
				if cmp == ssa.Value(p) && (guardCoversAccepts(g) || chainCovers(g)) {
					out[i] = true
				}
			}
		}
	}
	return out
}

// calleeRefusesNil: parameter i of fn is compared with nil by a covering reject guard, or handed to a
// callee whose result gates acceptance and which refuses nil itself (p.IsValid() with `p == nil` inside).
func calleeRefusesNil(fn *ssa.Function, i int, depth int) bool {
	if fn == nil || len(fn.Blocks) == 0 || i >= len(fn.Params) {
		return false
	}
	if nilGuardedParams(fn)[i] {
		return true
	}
	if depth >= 2 {
		return false
	}
	for _, g := range rejectGuards(fn) {
		if !(guardCoversAccepts(g) || chainCovers(g)) {
			continue
		}
		for _, cnd := range chainConds(g) {
			call := condCall(cnd)
			if call == nil {
				continue
			}
			h := call.Call.StaticCallee()
			if h == nil {
				continue
			}
			for k, a := range call.Call.Args {
				if a == ssa.Value(fn.Params[i]) && calleeRefusesNil(h, k, depth+1) {
					return true
				}
			}
		}
	}
	return false
}

// chainConds: the guard's condition and the earlier conditions of its short-circuit chain.
func chainConds(g guard) []ssa.Value {
	out := []ssa.Value{g.cond}
	if g.iff == nil {
		return out
	}
	rej := g.iff.Block().Succs[0]
	if g.passBlk == rej {
		rej = g.iff.Block().Succs[1]
	}
	seen := map[*ssa.BasicBlock]bool{}
	var up func(b *ssa.BasicBlock)
	up = func(b *ssa.BasicBlock) {
		if seen[b] {
			return
		}
		seen[b] = true
		for _, p := range b.Preds {
			if len(p.Instrs) == 0 {
				continue
			}
			iff, ok := p.Instrs[len(p.Instrs)-1].(*ssa.If)
			if !ok {
				continue
			}
			if (p.Succs[0] == rej && p.Succs[1] == b) || (p.Succs[1] == rej && p.Succs[0] == b) {
				out = append(out, iff.Cond)
				up(p)
			}
		}
	}
	up(g.iff.Block())
	return out
}

// nilComparisons: the values compared with nil by the guard's condition, including the earlier
// operands of a short-circuit `a == nil || b == nil` chain that ends in this guard.
func nilComparisons(g guard) []ssa.Value {
	var out []ssa.Value
	add := func(cond ssa.Value) {
		if b, ok := cond.(*ssa.BinOp); ok && (b.Op == token.EQL || b.Op == token.NEQ) {
			if isNilConst(b.Y) {
				out = append(out, b.X)
			} else if isNilConst(b.X) {
				out = append(out, b.Y)
			}
		}
	}
	add(g.cond)
	if g.iff != nil {
		// walk up the || chain: predecessors whose other edge goes to the same rejecting block
		rej := g.iff.Block().Succs[0]
		if g.passBlk == rej {
			rej = g.iff.Block().Succs[1]
		}
		seen := map[*ssa.BasicBlock]bool{}
		var up func(b *ssa.BasicBlock)
		up = func(b *ssa.BasicBlock) {
			if seen[b] {
				return
			}
			seen[b] = true
			for _, p := range b.Preds {
				if len(p.Instrs) == 0 {
					continue
				}
				iff, ok := p.Instrs[len(p.Instrs)-1].(*ssa.If)
				if !ok {
					continue
				}
				if (p.Succs[0] == rej && p.Succs[1] == b) || (p.Succs[1] == rej && p.Succs[0] == b) {
					add(iff.Cond)
					up(p)
				}
			}
		}
		up(g.iff.Block())
	}
	return out
}

// chainCovers: the guard ends a short-circuit chain whose first test dominates all accepting returns
// and all of whose tests reject into the same block.
func chainCovers(g guard) bool {
	if g.iff == nil {
		return false
	}
	rej := g.iff.Block().Succs[0]
	if g.passBlk == rej {
		rej = g.iff.Block().Succs[1]
	}
	// every path into passBlk comes from the chain (passBlk's preds all end in Ifs rejecting to rej)
	if g.passBlk == nil {
		return false
	}
	for _, p := range g.passBlk.Preds {
		if len(p.Instrs) == 0 {
			return false
		}
		if _, ok := p.Instrs[len(p.Instrs)-1].(*ssa.If); !ok {
			return false
		}
		if p.Succs[0] != rej && p.Succs[1] != rej {
			return false
		}
	}
	for _, ret := range acceptReturns(g.fn) {
		if !(g.passBlk == ret.Block() || g.passBlk.Dominates(ret.Block())) {
			return false
		}
	}
	return true
}

// nilGuardFor: a reject guard comparing a value with access path `p` against nil, whose passing
// region contains `at`.
func nilGuardFor(fn *ssa.Function, p string, at ssa.Instruction) bool {
	for _, g := range rejectGuards(fn) {
		if g.iff == nil || g.passBlk == nil {
			continue
		}
		for _, v := range nilComparisons(g) {
			if path(v) != p {
				continue
			}
			if g.passBlk == at.Block() || g.passBlk.Dominates(at.Block()) {
				return true
			}
			// a validation loop that ran before: the loop's exit dominates `at`
			if blockInLoop(g.iff.Block()) && loopPrecedes(g.iff.Block(), at.Block()) && loopCoversWhole(fn, g, v) {
				return true
			}
		}
	}
	for _, dg := range delegatedGuards(fn, at) {
		if !strings.HasPrefix(p, dg.argPath) {
			continue
		}
		want := normPhi(dg.h.Params[dg.k].Name() + p[len(dg.argPath):])
		for _, g := range rejectGuards(dg.h) {
			if !(guardCoversAccepts(g) || chainCovers(g)) {
				continue
			}
			for _, v := range nilComparisons(g) {
				if normPhi(path(v)) == want {
					return true
				}
			}
		}
	}
	return false
}

// loopPrecedes: the loop containing b is left before `at` is reached (its header dominates at, at is outside the loop).
func loopPrecedes(b, at *ssa.BasicBlock) bool {
	for d := b; d != nil; d = d.Idom() {
		if blockReaches(b, d) && d.Dominates(at) && !blockReaches(at, d) || (blockReaches(b, d) && d.Dominates(at) && !sameLoop(at, d, b)) {
			return true
		}
	}
	return false
}

// sameLoop: at lies on a cycle through header d that also contains b.
func sameLoop(at, d, b *ssa.BasicBlock) bool {
	return blockReaches(at, d) && blockReaches(d, at) && blockReaches(at, b)
}

// loopCoversWhole: the index of the element test v (base[i]) is bounded by len(base) in the loop condition.
func loopCoversWhole(fn *ssa.Function, g guard, v ssa.Value) bool {
	u, ok := v.(*ssa.UnOp)
	if !ok {
		return false
	}
	ia, ok := u.X.(*ssa.IndexAddr)
	if !ok {
		return false
	}
	base := path(ia.X)
	found := false
	for _, b := range fn.Blocks {
		if len(b.Instrs) == 0 {
			continue
		}
		iff, ok := b.Instrs[len(b.Instrs)-1].(*ssa.If)
		if !ok {
			continue
		}
		bo, ok := iff.Cond.(*ssa.BinOp)
		if !ok || bo.Op != token.LSS || bo.X != ia.Index {
			continue
		}
		if call, ok := bo.Y.(*ssa.Call); ok {
			if bi, ok := call.Call.Value.(*ssa.Builtin); ok && bi.Name() == "len" && path(call.Call.Args[0]) == base {
				found = true
			}
		}
	}
	return found
}

// lenGuardFor: a length test on access path p that governs `at`: a covering/ dominating reject guard
// on len(p), or a branch `idx < len(p)` whose true edge dominates `at`.
func lenGuardFor(fn *ssa.Function, p string, idx ssa.Value, at ssa.Instruction) bool {
	isLenOf := func(v ssa.Value) bool {
		call, ok := v.(*ssa.Call)
		if !ok {
			return false
		}
		bi, ok := call.Call.Value.(*ssa.Builtin)
		return ok && bi.Name() == "len" && path(call.Call.Args[0]) == p
	}
	for _, g := range rejectGuards(fn) {
		if g.iff == nil || g.passBlk == nil {
			continue
		}
		conds := []ssa.Value{g.cond}
		// earlier members of an || chain
		for _, b := range fn.Blocks {
			if len(b.Instrs) == 0 {
				continue
			}
			if iff, ok := b.Instrs[len(b.Instrs)-1].(*ssa.If); ok && iff != g.iff && (b.Succs[0] == g.iff.Block() || b.Succs[1] == g.iff.Block()) && len(g.iff.Block().Preds) == 1 {
				conds = append(conds, iff.Cond)
			}
		}
		for _, cnd := range conds {
			bo, ok := cnd.(*ssa.BinOp)
			if !ok {
				continue
			}
			if !(isLenOf(bo.X) || isLenOf(bo.Y)) {
				continue
			}
			if g.passBlk == at.Block() || g.passBlk.Dominates(at.Block()) {
				return true
			}
		}
	}
	// loop bound idx < len(p)
	for _, b := range fn.Blocks {
		if len(b.Instrs) == 0 {
			continue
		}
		iff, ok := b.Instrs[len(b.Instrs)-1].(*ssa.If)
		if !ok {
			continue
		}
		bo, ok := iff.Cond.(*ssa.BinOp)
		if !ok || bo.Op != token.LSS || bo.X != idx || !isLenOf(bo.Y) {
			continue
		}
		t := b.Succs[0]
		if t == at.Block() || t.Dominates(at.Block()) {
			return true
		}
	}
	for _, dg := range delegatedGuards(fn, at) {
		if !strings.HasPrefix(p, dg.argPath) {
			continue
		}
		want := normPhi(dg.h.Params[dg.k].Name() + p[len(dg.argPath):])
		for _, g := range rejectGuards(dg.h) {
			if !(guardCoversAccepts(g) || chainCovers(g)) {
				continue
			}
			for _, cnd := range chainConds(g) {
				bo, ok := cnd.(*ssa.BinOp)
				if !ok {
					continue
				}
				for _, side := range []ssa.Value{bo.X, bo.Y} {
					if call, ok := side.(*ssa.Call); ok {
						if bi, ok := call.Call.Value.(*ssa.Builtin); ok && bi.Name() == "len" && normPhi(path(call.Call.Args[0])) == want {
							return true
						}
					}
				}
			}
		}
	}
	return false
}

func checkMessageUses(c *Ctx, r *Run, fn *ssa.Function) {
	hasMsg := false
	for _, p := range fn.Params {
		if isMessageType(p.Type()) {
			hasMsg = true
		}
	}
	if !hasMsg {
		return
	}
	name := c.FuncName(fn)
	r.Analysed(name)
	doneL := map[string]bool{}
	doneN := map[string]bool{}
	allInstrs(fn, func(in ssa.Instruction) {
		// ---- OT-L: indexing
		var base, idx ssa.Value
		switch x := in.(type) {
		case *ssa.IndexAddr:
			base, idx = x.X, x.Index
		case *ssa.Index:
			base, idx = x.X, x.Index
		}
		if base != nil {
			if _, isSlice := base.Type().Underlying().(*types.Slice); isSlice {
				if root, depth := msgRoot(fn, base); root != nil && depth > 0 {
					p := path(base)
					key := name + "|" + p
					ok := lenGuardFor(fn, p, idx, in)
					if !doneL[key] || !ok {
						if !doneL[key+"#fail"] {
							r.Check("OT-L", key, c.Pos(in.Pos()), ok, "peer-supplied slice "+p+" is indexed under a length guard on that slice",
								fmt.Sprintf("%s is indexed with %s but no dominating test of len(%s) exists (a guard on a different element does not count): a shortened message crashes the checking side instead of being refused", p, path(idx), p))
						}
						doneL[key] = true
						if !ok {
							doneL[key+"#fail"] = true
						}
					}
				}
			}
		}
		// ---- OT-N: uses of pointer / interface fields
		u, ok := in.(*ssa.UnOp)
		if !ok || u.Op != token.MUL {
			return
		}
		switch u.Type().Underlying().(type) {
		case *types.Pointer, *types.Interface:
		default:
			return
		}
		root, depth := msgRoot(fn, u.X)
		if root == nil || depth == 0 {
			return
		}
		p := path(u)
		refs := u.Referrers()
		if refs == nil {
			return
		}
		for _, ref := range *refs {
			use := ""
			switch y := ref.(type) {
			case *ssa.FieldAddr:
				if y.X == ssa.Value(u) {
					use = "field access"
				}
			case *ssa.IndexAddr:
				if y.X == ssa.Value(u) {
					use = "element access"
				}
			case *ssa.UnOp:
				if y.Op == token.MUL && y.X == ssa.Value(u) {
					use = "load"
				}
			case ssa.CallInstruction:
				cc := y.Common()
				if cc.IsInvoke() && cc.Value == ssa.Value(u) {
					use = "method call on it"
					break
				}
				for i, a := range cc.Args {
					if a != ssa.Value(u) {
						continue
					}
					use = "argument of " + path(cc.Value)
					if callee := cc.StaticCallee(); callee != nil {
						use = "argument of " + callee.Name()
						if callee.Pkg != nil && strings.HasPrefix(callee.Pkg.Pkg.Path(), modPath) && calleeRefusesNil(callee, i, 0) {
							// the callee refuses nil itself: recorded as an obligation of its own
							key := name + "|" + p + " -> " + callee.Name()
							if !doneN[key] {
								doneN[key] = true
								r.Hold("OT-N", key, c.Pos(ref.Pos()), "message field "+p+" is handed to "+callee.Name()+", which refuses nil at its entry")
							}
							use = ""
						}
					}
				}
			}
			if use == "" {
				continue
			}
			key := name + "|" + p
			ok := nilGuardFor(fn, p, ref)
			if doneN[key] && ok {
				continue
			}
			if doneN[key+"#fail"] {
				continue
			}
			doneN[key] = true
			if !ok {
				doneN[key+"#fail"] = true
			}
			r.Check("OT-N", key, c.Pos(ref.Pos()), ok, "message field "+p+" ("+shortType(u.Type())+") is used only after a nil test",
				fmt.Sprintf("%s (%s, nil when the peer sends null) reaches a %s without a dominating nil test: an altered message crashes the checking side instead of being refused", p, shortType(u.Type()), use))
		}
	})
}

// checkChi: FS-5 on ExtendedOTSend / ExtendedOTReceive.
func checkChi(c *Ctx, r *Run) {
	for _, fname := range []string{"ExtendedOTSend", "ExtendedOTReceive"} {
		fn := c.LookupFunc("internal/ot", fname)
		if fn == nil {
			r.Unresolved("FS-5", "internal/ot."+fname)
			continue
		}
		name := c.FuncName(fn)
		r.Analysed(name)
		ctx := ssa.Value(fn.Params[0])
		var writes []*ssa.Call
		var digest *ssa.Call
		allInstrs(fn, func(in ssa.Instruction) {
			call, ok := in.(*ssa.Call)
			if !ok {
				return
			}
			o := calleeObj(call)
			if o == nil || len(call.Call.Args) == 0 || call.Call.Args[0] != ctx {
				return
			}
			switch o.Name() {
			case "WriteAny":
				writes = append(writes, call)
			case "Digest":
				digest = call
			}
		})
		// the write: in a loop bounded by the constant OTParam, argument U[i]
		wOK, wDetail := false, "no WriteAny on the context hash"
		for _, w := range writes {
			el := variadicSingle(w.Call.Args[1])
			if el == nil {
				continue
			}
			if mi, ok := el.(*ssa.MakeInterface); ok {
				el = mi.X
			}
			p := path(el)
			isU := strings.HasSuffix(p, ".U[phi:i]") || strings.HasSuffix(p, "._U[phi:i]")
			bound := loopConstBound(w.Block())
			if isU && blockInLoop(w.Block()) && bound == otParam(c) {
				wOK = true
			} else {
				wDetail = fmt.Sprintf("WriteAny(%s) in a loop bounded by %d (OTParam=%d)", p, bound, otParam(c))
			}
		}
		r.Check("FS-5", name+"|U-absorbed", c.Pos(fn.Pos()), wOK, "every one of the OTParam columns U[i] is written into the context hash", wDetail+": the check weights do not bind the whole correlation message, a cheating receiver can choose U after seeing chi")
		dOK := digest != nil && len(writes) > 0
		if dOK {
			for _, w := range writes {
				// the loop is left before the digest: digest's block is dominated by the loop header and outside the loop
				if !loopPrecedes(w.Block(), digest.Block()) {
					dOK = false
				}
			}
		}
		r.Check("FS-5", name+"|digest-after-U", c.Pos(fn.Pos()), dOK, "the digest chi is read from is taken after the loop that absorbs U", "the Digest of the context hash is not taken after all U columns were written")
		// chi flows into accumulate
		accOK := false
		var firstAcc *ssa.Call
		allInstrs(fn, func(in ssa.Instruction) {
			call, ok := in.(*ssa.Call)
			if !ok {
				return
			}
			// the weighted-sum step by role, not by name: a method of the package's field-element type (an array of
			// words) whose two other operands are pointers to OTBytes-sized vectors
			if cal := call.Call.StaticCallee(); cal != nil && firstAcc == nil && cal.Signature.Recv() != nil && cal.Pkg == fn.Pkg && len(call.Call.Args) == 3 {
				rt := cal.Signature.Recv().Type()
				if pt, isP := rt.(*types.Pointer); isP {
					rt = pt.Elem()
				}
				_, recvIsArray := rt.Underlying().(*types.Array)
				vecs := 0
				for _, a := range call.Call.Args[1:] {
					if pt, isP := a.Type().Underlying().(*types.Pointer); isP {
						if arr, isA := pt.Elem().Underlying().(*types.Array); isA && arr.Len() == 16 {
							vecs++
						}
					}
				}
				if recvIsArray && vecs == 2 {
					firstAcc = call
				}
			}
		})
		if firstAcc != nil && digest != nil {
			chiArg := firstAcc.Call.Args[len(firstAcc.Call.Args)-1]
			// chi[i] is an element of a slice filled by digest.Read
			accOK = dependsOn(chiArg, func(v ssa.Value) bool {
				// the buffer chi is read into: a slice of vectors filled up front, or one vector refilled per iteration
				var ms ssa.Value
				switch x := v.(type) {
				case *ssa.MakeSlice:
					ms = x
				case *ssa.Alloc:
					ms = x
				default:
					return false
				}
				filled := false
				walkUses(ms, 4, func(in ssa.Instruction) {
					if call, ok := in.(*ssa.Call); ok && call.Call.IsInvoke() && call.Call.Method.Name() == "Read" && call.Call.Value == ssa.Value(digest) {
						filled = true
					}
				})
				return filled
			})
		}
		r.Check("FS-5", name+"|chi-weights", c.Pos(fn.Pos()), accOK, "the weights of the consistency sum are the values read from that digest", "accumulate is not fed with values read from the context digest")
	}
}

// walkUses visits instructions using v, through element/slice addressing, to a small depth.
func walkUses(v ssa.Value, depth int, f func(ssa.Instruction)) {
	if depth == 0 || v.Referrers() == nil {
		return
	}
	for _, ref := range *v.Referrers() {
		f(ref)
		switch x := ref.(type) {
		case *ssa.IndexAddr:
			walkUses(x, depth-1, f)
		case *ssa.Slice:
			walkUses(x, depth-1, f)
		case *ssa.FieldAddr:
			walkUses(x, depth-1, f)
		}
	}
}

// loopConstBound: the constant N of the innermost enclosing loop condition `i < N` of block b (-1 if none).
func loopConstBound(b *ssa.BasicBlock) int64 {
	for d := b; d != nil; d = d.Idom() {
		if len(d.Instrs) == 0 || !blockReaches(b, d) {
			continue
		}
		iff, ok := d.Instrs[len(d.Instrs)-1].(*ssa.If)
		if !ok {
			continue
		}
		if bo, ok := iff.Cond.(*ssa.BinOp); ok && bo.Op == token.LSS {
			if k, ok := constInt(bo.Y); ok {
				return k
			}
		}
	}
	return -1
}

func otParam(c *Ctx) int64 {
	p := c.PkgRel("internal/params")
	if p == nil {
		return -2
	}
	if o, ok := p.Types.Scope().Lookup("OTParam").(*types.Const); ok {
		if v, ok := constValInt(o); ok {
			return v
		}
	}
	return -2
}

func constValInt(o *types.Const) (int64, bool) {
	s := o.Val().ExactString()
	var v int64
	if _, err := fmt.Sscan(s, &v); err != nil {
		return 0, false
	}
	return v, true
}

// checkMultiplySiblings: SIB-1.
func checkMultiplySiblings(c *Ctx, r *Run) {
	snd := c.LookupMethod("internal/ot", "MultiplySender", "Round1")
	rcv := c.LookupMethod("internal/ot", "MultiplyReceiver", "Round2")
	if snd == nil || rcv == nil {
		r.Unresolved("SIB-1", "internal/ot Multiply rounds")
		return
	}
	type chiInfo struct {
		domain  string
		samples int
		sameSrc bool
		onCtx   bool
	}
	info := func(top *ssa.Function) chiInfo {
		var ci chiInfo
		var digest *ssa.Call
		region := regionOf(top)
		eachInstr := func(f func(fn *ssa.Function, in ssa.Instruction)) {
			for _, g := range region {
				g := g
				allInstrs(g, func(in ssa.Instruction) { f(g, in) })
			}
		}
		eachInstr(func(fn *ssa.Function, in ssa.Instruction) {
			call, ok := in.(*ssa.Call)
			if !ok {
				return
			}
			o := calleeObj(call)
			if o == nil {
				return
			}
			switch o.Name() {
			case "Fork":
				// &hash.BytesWithDomain{TheDomain: "..."}
				allInstrs(fn, func(in2 ssa.Instruction) {
					if st, ok := in2.(*ssa.Store); ok {
						if fa, ok := st.Addr.(*ssa.FieldAddr); ok && fieldName(fa.X.Type(), fa.Field) == "TheDomain" {
							if s, ok := constString(st.Val); ok {
								ci.domain = s
							}
						}
					}
				})
				ci.onCtx = containsField(paramFieldsUp(call.Call.Args[0]), "recv.ctxHash")
			case "Digest":
				digest = call
			}
		})
		ci.sameSrc = true
		eachInstr(func(fn *ssa.Function, in ssa.Instruction) {
			call, ok := in.(*ssa.Call)
			if !ok {
				return
			}
			if o := calleeObj(call); o != nil && o.Pkg() != nil && strings.HasSuffix(o.Pkg().Path(), "pkg/math/sample") && o.Name() == "Scalar" {
				ci.samples++
				src := call.Call.Args[0]
				if mi, ok := src.(*ssa.MakeInterface); ok {
					src = mi.X
				}
				if digest == nil || src != ssa.Value(digest) {
					ci.sameSrc = false
				}
			}
		})
		return ci
	}
	a, b := info(snd), info(rcv)
	r.Analysed(c.FuncName(snd))
	r.Analysed(c.FuncName(rcv))
	r.Check("SIB-1", "Multiply|chi-domain", c.Pos(snd.Pos()), a.domain != "" && a.domain == b.domain, "both sides fork the context hash with the same domain ("+a.domain+")", fmt.Sprintf("sender domain %q, receiver domain %q: the two sides weight the check differently", a.domain, b.domain))
	r.Check("SIB-1", "Multiply|chi-source", c.Pos(snd.Pos()), a.onCtx && b.onCtx && a.sameSrc && b.sameSrc, "both sides draw chi from one digest of their session's context hash", "chi is not drawn from a single digest of recv.ctxHash on both sides")
	r.Check("SIB-1", "Multiply|chi-count", c.Pos(snd.Pos()), a.samples == 2 && b.samples == 2, "both sides draw exactly two weights in the same order (chi0, chi1)", fmt.Sprintf("sender draws %d, receiver %d", a.samples, b.samples))
	// gadget: both constructors call makeGadget(ctxHash, group)
	mk := c.LookupFunc("internal/ot", "makeGadget")
	for _, cn := range []string{"NewMultiplySender", "NewMultiplyReceiver"} {
		fn := c.LookupFunc("internal/ot", cn)
		ok := false
		if fn != nil && mk != nil {
			allInstrs(fn, func(in ssa.Instruction) {
				if call, isCall := in.(*ssa.Call); isCall && call.Call.StaticCallee() == mk && call.Call.Args[0] == ssa.Value(fn.Params[0]) {
					ok = true
				}
			})
		}
		r.Check("SIB-1", "Multiply|gadget|"+cn, "internal/ot/multiply.go", ok, cn+" builds the gadget with makeGadget on the caller's context hash", cn+" does not derive its gadget from makeGadget(ctxHash, group)")
	}
	// the share is weighted with the gadget on both sides, using component 0 of the pads
	for _, fn := range []*ssa.Function{snd, rcv} {
		ok := false
		for _, ret := range acceptReturns(fn) {
			var share ssa.Value
			for _, res := range ret.Results {
				if n := namedOf(res.Type()); n != nil && n.Obj().Name() == "Scalar" {
					share = res
				}
			}
			if share == nil {
				continue
			}
			d := newDep(fn, ret)
			ls := d.labels(share)
			if labelsMatch(ls, "recv.gadget") {
				ok = true
			}
		}
		r.Check("SIB-1", c.FuncName(fn)+"|share-uses-gadget", c.Pos(fn.Pos()), ok, "the returned share is the gadget-weighted sum of the pads", "the returned share does not depend on recv.gadget")
	}
}

// checkBitAccess: BIT-1.
func checkBitAccess(c *Ctx, r *Run, fn *ssa.Function) {
	name := c.FuncName(fn)
	n := 0
	// uses of the shared accessor count as instances of the convention
	if ba := c.LookupFunc("internal/ot", "bitAt"); ba != nil {
		k := 0
		allInstrs(fn, func(in ssa.Instruction) {
			if call, ok := in.(*ssa.Call); ok && call.Call.StaticCallee() == ba {
				k++
				r.Hold("BIT-1", fmt.Sprintf("%s|bitAt #%d", name, k), c.Pos(call.Pos()), "bit read through the shared accessor bitAt")
			}
		})
	}
	allInstrs(fn, func(in ssa.Instruction) {
		// a byte element addressed with v>>3
		var idx ssa.Value
		var elem ssa.Value
		switch x := in.(type) {
		case *ssa.IndexAddr:
			idx, elem = x.Index, x
		default:
			return
		}
		sh, ok := stripConv(idx).(*ssa.BinOp)
		if !ok || sh.Op != token.SHR {
			return
		}
		if k, ok := constInt(sh.Y); !ok || k != 3 {
			return
		}
		v := stripConv(sh.X)
		// shift amounts applied to the loaded byte (reads) or to the value OR-ed into it (writes)
		var shifts []*ssa.BinOp
		seen := map[ssa.Value]bool{}
		var fwd func(x ssa.Value, d int)
		fwd = func(x ssa.Value, d int) {
			if d > 4 || x.Referrers() == nil || seen[x] {
				return
			}
			seen[x] = true
			for _, ref := range *x.Referrers() {
				switch y := ref.(type) {
				case *ssa.UnOp:
					if y.Op == token.MUL {
						fwd(y, d+1)
					}
				case *ssa.Convert:
					fwd(y, d+1)
				case *ssa.BinOp:
					if (y.Op == token.SHR || y.Op == token.SHL) && y.X == x {
						shifts = append(shifts, y)
					} else if y.Op == token.OR || y.Op == token.XOR {
						// write side: byte |= bit << s
						for _, op := range []ssa.Value{y.X, y.Y} {
							if b, ok := stripConv(op).(*ssa.BinOp); ok && (b.Op == token.SHL) {
								shifts = append(shifts, b)
							}
						}
					}
				}
			}
		}
		fwd(elem, 0)
		if len(shifts) == 0 {
			return
		}
		for _, s := range shifts {
			n++
			amt := stripConv(s.Y)
			ok := false
			if a, isB := amt.(*ssa.BinOp); isB && a.Op == token.AND {
				if k, isC := constInt(a.Y); isC && k == 7 && stripConv(a.X) == v {
					ok = true
				}
			}
			r.Check("BIT-1", fmt.Sprintf("%s|%s bit of [%s>>3]", name, map[token.Token]string{token.SHR: "read", token.SHL: "write"}[s.Op], path(v)), c.Pos(s.Pos()), ok,
				"bit "+path(v)+" lives in byte "+path(v)+">>3 at position "+path(v)+"&7 (LSB first)",
				fmt.Sprintf("the byte is addressed with %s>>3 but the bit position is %s: this site numbers bits differently from bitAt/encode/transposeBits, so only some bit patterns still multiply correctly", path(v), path(amt)))
		}
	})
	_ = n
}

type delegatedGuard struct {
	h       *ssa.Function
	k       int
	argPath string
}

// delegatedGuards: reject guards of fn governing `at` that are decided by a call to a module helper;
// one entry per argument of that call (the helper may validate what is reachable from it).
func delegatedGuards(fn *ssa.Function, at ssa.Instruction) []delegatedGuard {
	var out []delegatedGuard
	for _, g := range rejectGuards(fn) {
		if g.iff == nil || g.passBlk == nil {
			continue
		}
		if !(g.passBlk == at.Block() || g.passBlk.Dominates(at.Block())) {
			continue
		}
		for _, cnd := range chainConds(g) {
			call := condCall(cnd)
			if call == nil {
				continue
			}
			h := call.Call.StaticCallee()
			if h == nil || h.Pkg == nil || !strings.HasPrefix(h.Pkg.Pkg.Path(), modPath) || len(h.Blocks) == 0 {
				continue
			}
			for k, a := range call.Call.Args {
				if k < len(h.Params) {
					out = append(out, delegatedGuard{h, k, path(a)})
				}
			}
		}
	}
	return out
}

// normPhi: loop variables compare by position, not by name.
func normPhi(p string) string {
	var b strings.Builder
	for i := 0; i < len(p); {
		if strings.HasPrefix(p[i:], "phi:") {
			b.WriteString("phi")
			i += 4
			for i < len(p) && (p[i] == '_' || p[i] >= '0' && p[i] <= '9' || p[i] >= 'a' && p[i] <= 'z' || p[i] >= 'A' && p[i] <= 'Z') {
				i++
			}
			continue
		}
		b.WriteByte(p[i])
		i++
	}
	return b.String()
}

// checkComparators: CMP-1. A bool-returning function that walks two fixed-size arrays of the same type with a
// constant loop bound must walk all of them.
func checkComparators(c *Ctx, r *Run, fns []*ssa.Function) {
	for _, fn := range fns {
		sig := fn.Signature
		if sig.Results().Len() != 1 || !returnsBoolSig(sig) || len(fn.Params) != 2 {
			continue
		}
		arr := func(t types.Type) *types.Array {
			if pt, ok := t.Underlying().(*types.Pointer); ok {
				t = pt.Elem()
			}
			a, _ := t.Underlying().(*types.Array)
			return a
		}
		a0, a1 := arr(fn.Params[0].Type()), arr(fn.Params[1].Type())
		if a0 == nil || a1 == nil || a0.Len() != a1.Len() {
			continue
		}
		name := c.FuncName(fn)
		r.Analysed(name)
		// loops indexing both parameters with the same induction variable
		for _, b := range fn.Blocks {
			if len(b.Instrs) == 0 {
				continue
			}
			iff, ok := b.Instrs[len(b.Instrs)-1].(*ssa.If)
			if !ok {
				continue
			}
			bo, ok := iff.Cond.(*ssa.BinOp)
			if !ok || bo.Op != token.LSS {
				continue
			}
			k, isConst := constInt(bo.Y)
			if !isConst {
				continue
			}
			used := map[ssa.Value]bool{}
			allInstrs(fn, func(in ssa.Instruction) {
				if ia, ok := in.(*ssa.IndexAddr); ok && ia.Index == bo.X {
					used[ia.X] = true
				}
			})
			if !used[ssa.Value(fn.Params[0])] || !used[ssa.Value(fn.Params[1])] {
				continue
			}
			// starts at 0
			from0 := false
			if ph, ok := bo.X.(*ssa.Phi); ok {
				for _, e := range ph.Edges {
					if v, ok := constInt(e); ok && v == 0 {
						from0 = true
					}
				}
			}
			// `for i := range a`: the index is phi(-1, i+1)+1, tested before use
			if inc, ok := bo.X.(*ssa.BinOp); ok && inc.Op == token.ADD {
				if one, ok := constInt(inc.Y); ok && one == 1 {
					if ph, ok := inc.X.(*ssa.Phi); ok {
						for _, e := range ph.Edges {
							if v, ok := constInt(e); ok && v == -1 {
								from0 = true
							}
						}
					}
				}
			}
			r.Check("CMP-1", name+"|whole array", c.Pos(iff.Cond.Pos()), k == a0.Len() && from0, fmt.Sprintf("the comparison walks all %d elements", a0.Len()),
				fmt.Sprintf("the comparison loop covers elements 0..%d of a %d-element array: differences in the remaining elements go unnoticed, so a consistency check built on it accepts altered messages", k-1, a0.Len()))
		}
	}
}

func returnsBoolSig(sig *types.Signature) bool {
	b, ok := sig.Results().At(0).Type().Underlying().(*types.Basic)
	return ok && b.Kind() == types.Bool
}

// checkStrides: LIMB-1. A fixed-width load or store (binary.*.UintNN / PutUintNN) whose offset into the buffer varies
// with a loop variable advances by whole words: the offset is a multiple of the width. An offset advancing by single
// bytes makes consecutive limbs overlap and leaves the tail of the operand unread.
func checkStrides(c *Ctx, r *Run, rule string, rels ...string) {
	r.Rule(rule, "loop-indexed fixed-width loads/stores step by the word width (limbs do not overlap, the whole operand is read)")
	width := map[string]int64{"Uint16": 2, "Uint32": 4, "Uint64": 8, "PutUint16": 2, "PutUint32": 4, "PutUint64": 8}
	var multipleOf func(v ssa.Value, w int64, d int) bool
	multipleOf = func(v ssa.Value, w int64, d int) bool {
		if d > 8 {
			return false
		}
		v = stripConv(v)
		if k, ok := constInt(v); ok {
			return k%w == 0
		}
		switch x := v.(type) {
		case *ssa.BinOp:
			switch x.Op {
			case token.MUL:
				return multipleOf(x.X, w, d+1) || multipleOf(x.Y, w, d+1)
			case token.ADD, token.SUB:
				return multipleOf(x.X, w, d+1) && multipleOf(x.Y, w, d+1)
			case token.SHL:
				if k, ok := constInt(x.Y); ok && (int64(1)<<uint(k))%w == 0 {
					return true
				}
				return multipleOf(x.X, w, d+1)
			}
		case *ssa.Phi:
			for _, e := range x.Edges {
				if e == ssa.Value(x) {
					continue
				}
				// induction variable: start and step both multiples of w
				if bo, ok := e.(*ssa.BinOp); ok && (bo.Op == token.ADD || bo.Op == token.SUB) && (bo.X == ssa.Value(x) || bo.Y == ssa.Value(x)) {
					other := bo.Y
					if bo.Y == ssa.Value(x) {
						other = bo.X
					}
					if !multipleOf(other, w, d+1) {
						return false
					}
					continue
				}
				if !multipleOf(e, w, d+1) {
					return false
				}
			}
			return true
		}
		return false
	}
	for _, rel := range rels {
		p := c.PkgRel(rel)
		if p == nil {
			r.Unresolved(rule, rel)
			continue
		}
		for _, top := range funcsOfPkg(c, c.SSA[p.Types]) {
			withAnon(top, func(fn *ssa.Function) {
				nth := 0
				allInstrs(fn, func(in ssa.Instruction) {
					call, ok := in.(*ssa.Call)
					if !ok {
						return
					}
					f := call.Call.StaticCallee()
					if f == nil || f.Pkg == nil || f.Pkg.Pkg.Path() != "encoding/binary" {
						return
					}
					w, isW := width[f.Name()]
					if !isW || len(call.Call.Args) < 2 {
						return
					}
					sl, isSl := stripConv(call.Call.Args[1]).(*ssa.Slice)
					if !isSl || sl.Low == nil {
						return
					}
					if _, isC := constInt(sl.Low); isC {
						return
					}
					nth++
					r.Analysed(c.FuncName(fn))
					r.Check(rule, fmt.Sprintf("%s|%s #%d|word-stride", c.FuncName(fn), f.Name(), nth), c.Pos(call.Pos()), multipleOf(sl.Low, w, 0),
						fmt.Sprintf("the offset %s is a multiple of %d", path(sl.Low), w),
						fmt.Sprintf("%s reads/writes %d bytes at offset %s, which is not a multiple of %d: successive words overlap and the last %d·(n-1) bytes of the operand never enter the computation (for the OT consistency check: a receiver can cheat in the unread columns undetected)", f.Name(), w, path(sl.Low), w, w-1))
				})
			})
		}
	}
}
