package main

import (
	"encoding/json"
	"fmt"
	"os"
	"os/exec"
	"path/filepath"
	"sort"
	"strings"
	"sync"
)

// A variant is a patch against /repo's current tree that still compiles, keeps the
// baseline tests green (checked when it was written) and breaks the property; the
// thorough tier applies each to a scratch copy and requires the rules to report it.
// "<name>.benign.patch" variants are behaviour-preserving refactors that must stay silent.
type variant struct {
	Name   string
	Patch  string
	Expect string // substring of a FAIL line that must appear (optional)
	Benign bool
}

func listVariants(verifDir, prop string) []variant {
	var out []variant
	dir := filepath.Join(verifDir, "variants", prop)
	ents, _ := os.ReadDir(dir)
	for _, e := range ents {
		if !strings.HasSuffix(e.Name(), ".patch") {
			continue
		}
		v := variant{Name: "variants/" + prop + "/" + e.Name(), Patch: filepath.Join(dir, e.Name()), Benign: strings.HasSuffix(e.Name(), ".benign.patch")}
		if b, err := os.ReadFile(strings.TrimSuffix(v.Patch, ".patch") + ".expect"); err == nil {
			v.Expect = strings.TrimSpace(string(b))
		}
		out = append(out, v)
	}
	// seeded changes written by independent agents: only those recorded as caught by this property's check
	sd, _ := os.ReadDir(filepath.Join(verifDir, "seeded"))
	for _, e := range sd {
		if !e.IsDir() {
			continue
		}
		mb, err := os.ReadFile(filepath.Join(verifDir, "seeded", e.Name(), "meta.json"))
		if err != nil {
			continue
		}
		var m struct {
			Property string   `json:"property"`
			CaughtBy []string `json:"caught_by"`
			Expect   string   `json:"expect"`
		}
		if json.Unmarshal(mb, &m) != nil {
			continue
		}
		for _, cb := range m.CaughtBy {
			if cb == prop {
				out = append(out, variant{Name: "seeded/" + e.Name(), Patch: filepath.Join(verifDir, "seeded", e.Name(), "patch.diff"), Expect: m.Expect})
			}
		}
	}
	sort.Slice(out, func(i, j int) bool { return out[i].Name < out[j].Name })
	return out
}

func failKeys(out string) map[string]bool {
	m := map[string]bool{}
	for _, l := range strings.Split(out, "\n") {
		if strings.HasPrefix(l, "FAIL ") {
			// "FAIL <rule> <key> @ <pos>: <detail>": the key may contain spaces
			rest := strings.TrimPrefix(l, "FAIL ")
			if i := strings.Index(rest, " @ "); i > 0 {
				m[rest[:i]] = true
			} else if f := strings.Fields(l); len(f) >= 3 {
				m[f[1]+" "+f[2]] = true
			}
		}
	}
	return m
}

func runVariants(verifDir, repo, prop string) (run, caught int, samples []interface{}, selfFail bool) {
	vs := listVariants(verifDir, prop)
	if len(vs) == 0 {
		return
	}
	exe, _ := os.Executable()
	base, _ := exec.Command(exe, "-p", prop, "-tier", "quick", "-repo", repo, "-verif", verifDir, "-noevidence").CombinedOutput()
	baseFails := failKeys(string(base))

	type res struct {
		v       variant
		status  string
		newFail []string
	}
	results := make([]res, len(vs))
	sem := make(chan struct{}, 4)
	var wg sync.WaitGroup
	for i, v := range vs {
		wg.Add(1)
		go func(i int, v variant) {
			defer wg.Done()
			sem <- struct{}{}
			defer func() { <-sem }()
			results[i] = res{v: v}
			tmp, err := os.MkdirTemp("", "mpsvar-")
			if err != nil {
				results[i].status = "skipped: " + err.Error()
				return
			}
			defer os.RemoveAll(tmp)
			if out, err := exec.Command("rsync", "-a", "--exclude", ".git", repo+"/", tmp+"/").CombinedOutput(); err != nil {
				results[i].status = "skipped: rsync: " + string(out)
				return
			}
			ap := exec.Command("patch", "-p1", "-s", "-f", "--no-backup-if-mismatch", "-i", v.Patch)
			ap.Dir = tmp
			if out, err := ap.CombinedOutput(); err != nil {
				results[i].status = "skipped: patch no longer applies: " + firstLine(string(out))
				return
			}
			out, err := exec.Command(exe, "-p", prop, "-tier", "quick", "-repo", tmp, "-verif", verifDir, "-noevidence").CombinedOutput()
			code := 0
			if ee, ok := err.(*exec.ExitError); ok {
				code = ee.ExitCode()
			}
			if code == 2 {
				results[i].status = "skipped: variant does not load: " + firstLine(string(out))
				return
			}
			fk := failKeys(string(out))
			for k := range fk {
				if !baseFails[k] {
					results[i].newFail = append(results[i].newFail, k)
				}
			}
			sort.Strings(results[i].newFail)
			hit := len(results[i].newFail) > 0
			if hit && v.Expect != "" {
				hit = false
				for _, k := range results[i].newFail {
					if strings.Contains(k, v.Expect) {
						hit = true
					}
				}
			}
			switch {
			case v.Benign && len(results[i].newFail) == 0:
				results[i].status = "silent (as required for a benign refactor)"
			case v.Benign:
				results[i].status = "FALSE-ALARM on benign refactor"
			case hit:
				results[i].status = "caught"
			default:
				results[i].status = "MISSED"
			}
		}(i, v)
	}
	wg.Wait()
	for _, r := range results {
		if strings.HasPrefix(r.status, "skipped") {
			fmt.Printf("   variant %-60s %s\n", r.v.Name, r.status)
			samples = append(samples, map[string]interface{}{"variant": r.v.Name, "status": r.status})
			continue
		}
		run++
		if r.status == "caught" || strings.HasPrefix(r.status, "silent") {
			caught++
		} else {
			selfFail = true
		}
		fmt.Printf("   variant %-60s %s %v\n", r.v.Name, r.status, r.newFail)
		samples = append(samples, map[string]interface{}{"variant": r.v.Name, "status": r.status, "reported": r.newFail})
	}
	return
}
