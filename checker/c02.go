package main

import (
	"fmt"
	"go/token"
	"go/types"
	"sort"
	"strings"

	"golang.org/x/tools/go/ssa"
)

func init() {
	register("C02", propMeta{
		Explanation: "That key generation yields one consistent, reconstructible sharing for every n, t, subset and identifier set is a statement about run-time algebra over whole protocol runs; it is NOT decided as stated. Decided are the wiring facts it needs, for the configurations the tests never run (t < n-1): " +
			"DEG-1: every dealing polynomial is created with the session threshold as its degree, NewPolynomial allocates degree+1 coefficients and samples all non-constant ones; DEG-2: every receiver refuses a committed polynomial whose degree differs from that same threshold, and Exponent.Degree() accounts for the omitted identity constant. " +
			"EVAL-P: the sub-share put into a message for party j is the dealer's polynomial evaluated at j's own scalar (evaluation point and destination are the same loop variable); EVAL-S: the receiver checks the sub-share against the sender's committed polynomial evaluated at the receiver's own identifier, and keeps the own sub-share evaluated at the own identifier. " +
			"TABLE-1: the public share table entry of party j is the summed commitment polynomial evaluated at j's scalar and stored under j, the sum ranging over every party's polynomial; SECRET-1: the own secret share accumulates every received sub-share. " +
			"ID-1: every evaluation point anywhere in the protocols is party.ID.Scalar(group) of an identifier, one mapping for dealers, receivers, the table and Lagrange interpolation. " +
			"The rejection of tampered sub-shares / polynomials / proofs is decided under C03 (inventory), refresh under C08, agreement across delivery orders under C07.",
		Trusted:     append([]string{"C03 guard inventory (Feldman, degree, constant-term, Schnorr checks)"}, commonTrusted...),
		Assumptions: []string{"Horner evaluation and exponent-polynomial addition are arithmetically correct"},
	}, runC02)
}

func isKeygenFunc(name string) bool {
	return strings.HasPrefix(name, "protocols/cmp/keygen.") || strings.HasPrefix(name, "protocols/frost/keygen.")
}

// idOfScalarCall: v is X.Scalar(group) with X a party.ID -> X.
func idOfScalarCall(v ssa.Value) ssa.Value {
	call, ok := stripConv(v).(*ssa.Call)
	if !ok {
		return nil
	}
	f := call.Call.StaticCallee()
	if f == nil || f.Name() != "Scalar" || f.Signature.Recv() == nil {
		return nil
	}
	if n := namedOf(f.Signature.Recv().Type()); n == nil || n.Obj().Name() != "ID" {
		return nil
	}
	return call.Call.Args[0]
}

func runC02(c *Ctx, r *Run) {
	r.Rule("SIB-2", "the two roles of the Doerner key generation update their same-named state fields under the same conditions")
	checkSiblingStores(c, r, "SIB-2", "protocols/doerner/keygen", "round2R", "round2S", "StoreMessage")
	r.Require("SIB-2", 2)
	checkResultsUsed(c, r, "USE-1", 100)
	r.Rule("DEG-1", "dealing polynomials have degree = session threshold; NewPolynomial allocates degree+1 coefficients and samples coefficients 1..degree")
	r.Rule("DEG-2", "receivers refuse committed polynomials whose degree differs from the session threshold; Exponent.Degree counts the omitted constant")
	r.Rule("EVAL-P", "the sub-share sent to party j is the dealer's polynomial evaluated at j's scalar")
	r.Rule("EVAL-S", "sub-shares are verified and kept at the receiver's own identifier, against the sender's polynomial")
	r.Rule("TABLE-1", "public share table: entry j = (sum of all commitment polynomials)(j), stored under j")
	r.Rule("TABLE-2", "in-place updates of a caller-provided share table range over the table itself, not over the session's party list")
	r.Rule("SECRET-1", "the own secret share accumulates every received sub-share")
	r.Rule("ID-1", "every polynomial evaluation point is party.ID.Scalar(group)")

	var fns []*ssa.Function
	for _, rel := range []string{"protocols/cmp/keygen", "protocols/frost/keygen"} {
		p := c.PkgRel(rel)
		if p == nil {
			r.Unresolved("DEG-1", rel)
			continue
		}
		for _, fn := range funcsOfPkg(c, c.SSA[p.Types]) {
			withAnon(fn, func(f *ssa.Function) { fns = append(fns, f) })
		}
	}
	sort.Slice(fns, func(i, j int) bool { return c.FuncName(fns[i]) < c.FuncName(fns[j]) })

	isThreshold := func(fn *ssa.Function, v ssa.Value) (bool, string) {
		// helper.Threshold() on the session helper, whatever the helper's provenance
		if call, ok := stripConv(v).(*ssa.Call); ok {
			if f := call.Call.StaticCallee(); f != nil && f.Name() == "Threshold" && f.Signature.Recv() != nil {
				if n := namedOf(derefType(f.Signature.Recv().Type())); n != nil && n.Obj().Name() == "Helper" {
					return true, "Helper.Threshold()"
				}
			}
		}
		ls := paramFields(fn, v)
		ok := len(ls) > 0
		// the threshold itself, not an expression over it (t+1, n-1)
		if _, isExpr := stripConv(v).(*ssa.BinOp); isExpr {
			return false, "an arithmetic expression over " + strings.Join(ls, ", ")
		}
		for _, l := range ls {
			if !(strings.HasSuffix(l, "Threshold()") || strings.HasSuffix(l, ".threshold") || strings.HasSuffix(l, ".Threshold") || l == "int" || strings.HasPrefix(l, "free:int")) {
				ok = false
			}
		}
		return ok, strings.Join(ls, ", ")
	}

	// ---- DEG-1 creation sites
	newPoly := c.LookupFunc("pkg/math/polynomial", "NewPolynomial")
	for _, fn := range fns {
		fn := fn
		k := 0
		allInstrs(fn, func(in ssa.Instruction) {
			call, ok := in.(*ssa.Call)
			if !ok || call.Call.StaticCallee() != newPoly || newPoly == nil {
				return
			}
			k++
			r.Analysed(c.FuncName(fn))
			ok2, ls := isThreshold(fn, call.Call.Args[1])
			// a bare int parameter is the threshold only if the start function passes it on as Info.Threshold: accept only accessor/field forms
			if ls == "int" || strings.HasPrefix(ls, "free:int") {
				ok2 = dependsOnThresholdParam(fn, call.Call.Args[1])
			}
			r.Check("DEG-1", fmt.Sprintf("%s|NewPolynomial #%d", c.FuncName(fn), k), c.Pos(call.Pos()), ok2, "the dealing polynomial's degree is the session threshold ("+ls+")",
				"NewPolynomial is called with degree "+ls+" instead of the session threshold: with t < n-1 a different number of parties than t+1 is needed (or suffices) to reconstruct")
		})
	}
	if newPoly != nil {
		name := c.FuncName(newPoly)
		r.Analysed(name)
		deg := ssa.Value(newPoly.Params[1])
		allocOK := false
		allInstrs(newPoly, func(in ssa.Instruction) {
			if ms, ok := in.(*ssa.MakeSlice); ok {
				if b, ok := ms.Len.(*ssa.BinOp); ok && b.Op == token.ADD && b.X == deg {
					if k, ok := constInt(b.Y); ok && k == 1 {
						allocOK = true
					}
				}
			}
		})
		// the append spelling: a₀ appended to an empty slice, then one sampled coefficient appended per turn while
		// len(coefficients) <= degree - degree+1 entries by construction
		appendOne := func(v ssa.Value) (base, elem ssa.Value, ok bool) {
			call, isC := v.(*ssa.Call)
			if !isC || len(call.Call.Args) != 2 {
				return nil, nil, false
			}
			if b, isB := call.Call.Value.(*ssa.Builtin); !isB || b.Name() != "append" {
				return nil, nil, false
			}
			sl, isS := call.Call.Args[1].(*ssa.Slice)
			if !isS {
				return nil, nil, false
			}
			al, isA := sl.X.(*ssa.Alloc)
			if !isA {
				return nil, nil, false
			}
			if arr, isArr := al.Type().(*types.Pointer).Elem().Underlying().(*types.Array); !isArr || arr.Len() != 1 {
				return nil, nil, false
			}
			for _, ref := range *al.Referrers() {
				if ia, isIA := ref.(*ssa.IndexAddr); isIA {
					for _, r2 := range *ia.Referrers() {
						if st, isSt := r2.(*ssa.Store); isSt {
							elem = st.Val
						}
					}
				}
			}
			return call.Call.Args[0], elem, elem != nil
		}
		appendLoop, appendRand := false, false
		for _, b := range newPoly.Blocks {
			iff, ok := b.Instrs[len(b.Instrs)-1].(*ssa.If)
			if !ok {
				continue
			}
			bo, ok := iff.Cond.(*ssa.BinOp)
			if !ok || bo.Op != token.LEQ || bo.Y != deg {
				continue
			}
			lc, ok := bo.X.(*ssa.Call)
			if !ok || len(lc.Call.Args) != 1 {
				continue
			}
			if bi, isB := lc.Call.Value.(*ssa.Builtin); !isB || bi.Name() != "len" {
				continue
			}
			ph, ok := lc.Call.Args[0].(*ssa.Phi)
			if !ok || len(ph.Edges) != 2 {
				continue
			}
			first, turn := false, false
			for _, e := range ph.Edges {
				base, elem, isApp := appendOne(e)
				if !isApp {
					continue
				}
				if ms, isMS := base.(*ssa.MakeSlice); isMS {
					if k, isK := constInt(ms.Len); isK && k == 0 {
						first = true
					}
				}
				if base == ssa.Value(ph) {
					turn = true
					if in, isIn := e.(ssa.Instruction); isIn && newDep(newPoly, in).has(elem, "RANDOM") {
						appendRand = true
					}
				}
			}
			appendLoop = first && turn
		}
		allocOK = allocOK || appendLoop
		r.Check("DEG-1", name+"|degree+1 coefficients", c.Pos(newPoly.Pos()), allocOK, "a polynomial of degree t has t+1 coefficients", "the coefficient slice is not make(..., degree+1)")
		// loop i from 1 while i <= degree, each coefficient sampled from crypto/rand
		loopOK, randOK := false, false
		for _, b := range newPoly.Blocks {
			if len(b.Instrs) == 0 {
				continue
			}
			if iff, ok := b.Instrs[len(b.Instrs)-1].(*ssa.If); ok {
				if bo, ok := iff.Cond.(*ssa.BinOp); ok && bo.Op == token.LEQ && bo.Y == deg {
					if ph, ok := bo.X.(*ssa.Phi); ok {
						for _, e := range ph.Edges {
							if k, ok := constInt(e); ok && k == 1 {
								loopOK = true
							}
						}
					}
				}
			}
		}
		allInstrs(newPoly, func(in ssa.Instruction) {
			if st, ok := in.(*ssa.Store); ok && blockInLoop(st.Block()) {
				if _, isIA := st.Addr.(*ssa.IndexAddr); isIA {
					d := newDep(newPoly, st)
					if d.has(st.Val, "RANDOM") {
						randOK = true
					}
				}
			}
		})
		if appendLoop && appendRand {
			loopOK, randOK = true, true
		}
		r.Check("DEG-1", name+"|all higher coefficients sampled", c.Pos(newPoly.Pos()), loopOK && randOK, "coefficients 1..degree are each drawn from crypto/rand", "the sampling loop does not run i = 1..degree with crypto/rand values: the top coefficient stays nil/zero (degree t-1) or the constant is overwritten")
	}

	// ---- DEG-2
	for _, site := range []struct{ rel, typ, method string }{
		{"protocols/cmp/keygen", "round3", "StoreBroadcastMessage"},
		{"protocols/frost/keygen", "round2", "StoreBroadcastMessage"},
	} {
		fn := c.LookupMethod(site.rel, site.typ, site.method)
		if fn == nil {
			r.Unresolved("DEG-2", site.rel+"."+site.typ+"."+site.method)
			continue
		}
		r.Analysed(c.FuncName(fn))
		found, cover, thr, onBody := false, false, false, false
		var pos token.Pos
		regionOf(fn) // binds the parameters of helpers (validation split into a function of its own) to the call's arguments
		for _, g := range liftedGuards(fn, 0) {
			bo, ok := g.cond.(*ssa.BinOp)
			if !ok || (bo.Op != token.NEQ && bo.Op != token.EQL) {
				continue
			}
			var degCall *ssa.Call
			var otherSide ssa.Value
			for _, side := range [][2]ssa.Value{{bo.X, bo.Y}, {bo.Y, bo.X}} {
				if call, ok := stripConv(side[0]).(*ssa.Call); ok {
					if o := calleeObj(call); o != nil && o.Name() == "Degree" {
						degCall, otherSide = call, side[1]
					}
				}
			}
			if degCall == nil {
				continue
			}
			found, pos = true, g.pos
			cover = !g.notCovering && guardCoversAccepts(g)
			thr, _ = isThreshold(fn, callerVal(otherSide))
			onBody = containsField(paramFieldsUp(recvOf(degCall)), "body")
		}
		key := c.FuncName(fn) + "|degree-check"
		r.Check("DEG-2", key, c.Pos(pos), found && cover && thr && onBody, "the received commitment polynomial is refused unless its Degree() equals the session threshold",
			fmt.Sprintf("degree check present=%v covering=%v against-threshold=%v on-received-polynomial=%v: a dealer can use a polynomial of another degree and change how many parties are needed to reconstruct", found, cover, thr, onBody))
	}
	if dg := c.LookupMethod("pkg/math/polynomial", "Exponent", "Degree"); dg != nil {
		r.Analysed(c.FuncName(dg))
		// returns len(coefficients) when IsConstant, len-1 otherwise
		plain, minus := false, false
		for _, ret := range returnsOf(dg) {
			v := ret.Results[0]
			cond := ""
			if len(ret.Block().Preds) == 1 {
				p := ret.Block().Preds[0]
				if iff, ok := p.Instrs[len(p.Instrs)-1].(*ssa.If); ok && strings.HasSuffix(path(iff.Cond), ".IsConstant") {
					if p.Succs[0] == ret.Block() {
						cond = "const"
					} else {
						cond = "nonconst"
					}
				}
			}
			if call, ok := v.(*ssa.Call); ok && cond == "const" {
				if b, ok := call.Call.Value.(*ssa.Builtin); ok && b.Name() == "len" {
					plain = true
				}
			}
			if bo, ok := v.(*ssa.BinOp); ok && bo.Op == token.SUB && cond == "nonconst" {
				if k, ok := constInt(bo.Y); ok && k == 1 {
					minus = true
				}
			}
		}
		r.Check("DEG-2", c.FuncName(dg)+"|omitted-constant", c.Pos(dg.Pos()), plain && minus, "Degree() is len(coefficients) when the identity constant is omitted and len-1 otherwise", "Exponent.Degree does not distinguish the omitted-constant encoding: refresh polynomials are accepted/refused with the wrong degree")
	} else {
		r.Unresolved("DEG-2", "pkg/math/polynomial.(*Exponent).Degree")
	}

	// ---- EVAL-P / ID-1 / EVAL-S / TABLE-1
	sendMsg := c.LookupMethod("internal/round", "Helper", "SendMessage")
	isEvaluate := func(v ssa.Value) *ssa.Call {
		call, ok := v.(*ssa.Call)
		if !ok {
			return nil
		}
		if o := calleeObj(call); o != nil && o.Name() == "Evaluate" && o.Pkg() != nil && strings.HasSuffix(o.Pkg().Path(), "math/polynomial") {
			return call
		}
		return nil
	}
	for _, fn := range fns {
		fn := fn
		name := c.FuncName(fn)
		nEval := 0
		allInstrs(fn, func(in ssa.Instruction) {
			if ev := isEvaluate(valueOf(in)); ev != nil {
				nEval++
				r.Analysed(name)
				a := argsOf(ev)[0]
				id := idOfScalarCall(a)
				r.Check("ID-1", fmt.Sprintf("%s|Evaluate #%d", name, nEval), c.Pos(ev.Pos()), id != nil, "the evaluation point is party.ID.Scalar(group) of "+pathOr(id),
					"a polynomial is evaluated at "+path(a)+", not at party.ID.Scalar(group) of an identifier: dealers, receivers and interpolation no longer use the same point for one party")
			}
			call, ok := in.(*ssa.Call)
			if !ok || sendMsg == nil || call.Call.StaticCallee() != sendMsg || len(call.Call.Args) < 4 {
				return
			}
			// content depends on an Evaluate?
			var ev *ssa.Call
			dependsOn(call.Call.Args[2], func(v ssa.Value) bool {
				if e := isEvaluate(v); e != nil && ev == nil {
					ev = e
				}
				return false
			})
			if ev == nil {
				return
			}
			r.Analysed(name)
			to := call.Call.Args[3]
			id := idOfScalarCall(argsOf(ev)[0])
			same := id != nil && (sameObject(id, to) || path(id) == path(to))
			r.Check("EVAL-P", name+"|share for destination", c.Pos(call.Pos()), same, "the sub-share in the message to "+path(to)+" is the polynomial evaluated at that party's scalar",
				"the message addressed to "+path(to)+" carries the polynomial evaluated at "+pathOr(id)+": the receiver's Feldman check fails, or with a matching receiver-side slip every party ends with shares of different points")
			// the polynomial is the dealer's own secret polynomial
			own := false
			for _, l := range paramFields(fn, recvOf(ev)) {
				if l == "recv.VSSSecret" || l == "recv.f_i" {
					own = true
				}
			}
			r.Check("EVAL-P", name+"|own polynomial", c.Pos(ev.Pos()), own, "the evaluated polynomial is the dealer's own secret polynomial", "the sub-share is not an evaluation of the dealer's secret polynomial (VSSSecret / f_i)")
		})
	}
	// EVAL-S: Feldman checks
	for _, site := range []struct{ rel, typ, polyField string }{
		{"protocols/cmp/keygen", "round4", "recv.VSSPolynomials[Message.From]"},
		{"protocols/frost/keygen", "round3", "recv.Phi[Message.From]"},
	} {
		fn := c.LookupMethod(site.rel, site.typ, "StoreMessage")
		if fn == nil {
			r.Unresolved("EVAL-S", site.rel+"."+site.typ+".StoreMessage")
			continue
		}
		name := c.FuncName(fn)
		r.Analysed(name)
		var ev *ssa.Call
		for _, f := range regionOf(fn) {
			allInstrs(f, func(in ssa.Instruction) {
				if e := isEvaluate(valueOf(in)); e != nil {
					ev = e
				}
			})
		}
		if ev == nil {
			r.Fail("EVAL-S", name+"|feldman", c.Pos(fn.Pos()), "the received sub-share is compared with the sender's committed polynomial", "no Evaluate of the sender's commitment polynomial in StoreMessage: sub-shares are accepted unverified")
			continue
		}
		id := idOfScalarCall(argsOf(ev)[0])
		self := false
		if id != nil {
			for _, l := range paramFieldsUp(id) {
				if strings.HasSuffix(l, "SelfID()") {
					self = true
				}
			}
		}
		r.Check("EVAL-S", name+"|at own identifier", c.Pos(ev.Pos()), self, "the commitment polynomial is evaluated at the receiver's own identifier",
			"the Feldman check evaluates at "+pathOr(id)+" instead of SelfID(): a dealer can hand this party a share of a different point")
		fromOK := containsField(paramFieldsUp(recvOf(ev)), site.polyField)
		r.Check("EVAL-S", name+"|sender's polynomial", c.Pos(ev.Pos()), fromOK, "the polynomial is the one committed by the message's sender ("+site.polyField+")", "the evaluated polynomial is not indexed by msg.From")
		// the result gates acceptance
		gate := false
		for _, g := range liftedGuards(fn, 0) {
			covers := !g.notCovering && (g.inner != nil || guardCoversAccepts(g))
			if covers && dependsOn(g.cond, func(v ssa.Value) bool { return v == ssa.Value(ev) }) {
				gate = true
			}
		}
		r.Check("EVAL-S", name+"|gates acceptance", c.Pos(ev.Pos()), gate, "a mismatch refuses the message on every path", "the comparison with the evaluated commitment does not gate every accepting return")
	}
	// own sub-share kept at own identifier
	for _, site := range []struct{ rel, typ string }{{"protocols/cmp/keygen", "round1"}, {"protocols/frost/keygen", "round2"}} {
		fn := c.LookupMethod(site.rel, site.typ, "Finalize")
		if fn == nil {
			r.Unresolved("EVAL-S", site.rel+"."+site.typ+".Finalize")
			continue
		}
		name := c.FuncName(fn)
		ok := false
		allInstrs(fn, func(in ssa.Instruction) {
			if e := isEvaluate(valueOf(in)); e != nil {
				if id := idOfScalarCall(argsOf(e)[0]); id != nil {
					for _, l := range paramFields(fn, id) {
						if strings.HasSuffix(l, "SelfID()") {
							ok = true
						}
					}
				}
			}
		})
		r.Check("EVAL-S", name+"|own sub-share", c.Pos(fn.Pos()), ok, "the dealer keeps its own sub-share f_i(i), evaluated at SelfID()", "no evaluation of the own polynomial at SelfID(): the own contribution to the own share is missing or taken at another point")
	}

	// TABLE-1
	for _, site := range []struct{ rel, typ, polys string }{
		{"protocols/cmp/keygen", "round4", "recv.VSSPolynomials"},
		{"protocols/frost/keygen", "round3", "recv.Phi"},
	} {
		fn := c.LookupMethod(site.rel, site.typ, "Finalize")
		if fn == nil {
			r.Unresolved("TABLE-1", site.rel+"."+site.typ+".Finalize")
			continue
		}
		name := c.FuncName(fn)
		r.Analysed(name)
		var sum *ssa.Call
		for _, call := range callsNamedR(fn, "Sum") {
			sum = call
		}
		sumOK := false
		if sum != nil {
			// the argument slice is appended to inside a range over the whole table of polynomials
			sumOK = dependsOn(sum.Call.Args[0], func(v ssa.Value) bool {
				if rg, ok := v.(*ssa.Range); ok {
					return containsField(paramFieldsUp(rg.X), site.polys)
				}
				return false
			})
		}
		r.Check("TABLE-1", name+"|sum over all polynomials", c.Pos(fn.Pos()), sumOK, "the public polynomial is polynomial.Sum over every party's commitment ("+site.polys+")", "polynomial.Sum over a full range of "+site.polys+" not found: the table leaves out some dealer's contribution")
		// entries: MapUpdate key k, value depends on Evaluate(k.Scalar) of the sum
		entries, okAll := 0, true
		bad := ""
		allInstrs(fn, func(in ssa.Instruction) {
			mu, ok := in.(*ssa.MapUpdate)
			if !ok {
				return
			}
			var ev *ssa.Call
			dependsOn(mu.Value, func(v ssa.Value) bool {
				if e := isEvaluate(v); e != nil && ev == nil {
					ev = e
				}
				return false
			})
			if ev == nil {
				return
			}
			entries++
			id := idOfScalarCall(argsOf(ev)[0])
			if id != nil {
				id = callerVal(id)
			}
			if id == nil || !(sameObject(id, mu.Key) || path(id) == path(mu.Key)) {
				okAll = false
				bad = fmt.Sprintf("entry %s is evaluated at %s", path(mu.Key), pathOr(id))
			}
			if sum != nil {
				rv := resultThroughHelpers(resolveLoad(callerVal(recvOf(ev))))
				if ex, ok := rv.(*ssa.Extract); !ok || ex.Tuple != ssa.Value(sum) {
					okAll = false
					bad = "the evaluated polynomial is not the sum"
				}
			}
		})
		r.Check("TABLE-1", name+"|entry j = F(j)", c.Pos(fn.Pos()), entries > 0 && okAll, "each table entry is the summed polynomial evaluated at the scalar of the party it is stored under", bad+": parties' tables disagree with the shares their owners hold")
	}
	// TABLE-2: a table that enters the session from the caller (the previous epoch's table handed to a refresh) can hold
	// entries for parties that are not in this session; its per-entry in-place updates walk the table itself so that all
	// entries move to the new sharing together.
	checkWholeTableUpdates(c, r, fns)
	// SECRET-1
	if fn := c.LookupMethod("protocols/cmp/keygen", "round4", "Finalize"); fn != nil {
		ok := false
		allInstrs(fn, func(in ssa.Instruction) {
			st, isSt := in.(*ssa.Store)
			if !isSt {
				return
			}
			if fa, isFA := st.Addr.(*ssa.FieldAddr); isFA && fieldName(fa.X.Type(), fa.Field) == "ECDSA" {
				if n := namedOf(derefType(fa.X.Type())); n != nil && n.Obj().Name() == "Config" {
					d := newDep(fn, st)
					if d.has(st.Val, "recv.ShareReceived") {
						ok = true
					}
				}
			}
		})
		// the accumulation ranges over all parties
		loopAll := false
		for _, call := range callsNamedR(fn, "Add") {
			if blockInLoop(call.Block()) && len(call.Call.Args) == 1 {
				if lk, isLk := resolveLoad(call.Call.Args[0]).(*ssa.Lookup); isLk && containsField(paramFieldsUp(lk.X), "recv.ShareReceived") {
					// the index ranges over PartyIDs() (all parties, self included), not OtherPartyIDs()
					if dependsOn(lk.Index, func(v ssa.Value) bool {
						call, ok := v.(*ssa.Call)
						if !ok {
							return false
						}
						o := calleeObj(call)
						return o != nil && o.Name() == "PartyIDs"
					}) {
						loopAll = true
					}
				}
			}
		}
		r.Check("SECRET-1", c.FuncName(fn)+"|sum of sub-shares", c.Pos(fn.Pos()), ok && loopAll, "the new secret share adds ShareReceived[j] for every j in PartyIDs()", "the config's ECDSA share does not accumulate ShareReceived over all PartyIDs(): the share does not match the table entry")
	} else {
		r.Unresolved("SECRET-1", "protocols/cmp/keygen.(*round4).Finalize")
	}
	if fn := c.LookupMethod("protocols/frost/keygen", "round3", "Finalize"); fn != nil {
		loopAll := false
		for _, call := range callsNamed(fn, "Add") {
			if !blockInLoop(call.Block()) {
				continue
			}
			if containsField(paramFields(fn, recvOf(call)), "recv.privateShare") {
				// argument is the range value over recv.shareFrom
				if dependsOn(call.Call.Args[0], func(v ssa.Value) bool {
					rg, ok := v.(*ssa.Range)
					return ok && containsField(paramFields(fn, rg.X), "recv.shareFrom")
				}) {
					loopAll = true
				}
			}
		}
		r.Check("SECRET-1", c.FuncName(fn)+"|sum of sub-shares", c.Pos(fn.Pos()), loopAll, "privateShare adds every entry of shareFrom", "privateShare does not accumulate all of shareFrom")
	} else {
		r.Unresolved("SECRET-1", "protocols/frost/keygen.(*round3).Finalize")
	}

	// ID-2: the mapping itself converts the whole identifier
	if fn := c.LookupMethod("pkg/party", "ID", "Scalar"); fn != nil {
		name := c.FuncName(fn)
		r.Analysed(name)
		id := ssa.Value(fn.Params[0])
		var sb *ssa.Call
		for _, call := range callsNamed(fn, "SetBytes") {
			sb = call
		}
		whole, why := false, "no SetBytes conversion of the identifier"
		if sb != nil {
			whole, why = true, ""
			arg := argsOf(sb)[0]
			if !dependsOn(arg, func(v ssa.Value) bool { return v == id }) {
				whole, why = false, "the converted bytes do not come from the identifier"
			}
			dependsOn(arg, func(v ssa.Value) bool {
				switch x := v.(type) {
				case *ssa.Slice:
					if x.Low != nil || x.High != nil {
						whole, why = false, "only a sub-slice of the identifier's bytes is converted"
					}
				case *ssa.Phi:
					whole, why = false, "the converted bytes depend on a branch (a length-dependent shortcut)"
				}
				return false
			})
		}
		r.Check("ID-1", name+"|whole identifier", c.Pos(fn.Pos()), whole, "the scalar is the whole identifier's bytes as one integer (reduced by SetNat), so distinct identifiers with distinct residues get distinct points",
			why+": distinct identifiers whose images mod q differ are given the same evaluation point; their shares coincide and subsets containing both cannot reconstruct")
		retOK := false
		for _, ret := range returnsOf(fn) {
			if call, ok := stripConv(ret.Results[0]).(*ssa.Call); ok {
				if o := calleeObj(call); o != nil && o.Name() == "SetNat" && sb != nil && dependsOn(call, func(v ssa.Value) bool { return v == ssa.Value(sb) }) {
					retOK = true
				}
			}
		}
		r.Check("ID-1", name+"|reduced by SetNat", c.Pos(fn.Pos()), retOK, "the result is group.NewScalar().SetNat(that integer): reduction modulo the group order, nothing else", "the returned scalar is not SetNat of the converted identifier")
	} else {
		r.Unresolved("ID-1", "pkg/party.(ID).Scalar")
	}

	// the group key of a stored configuration is interpolated from the table over the same set it sums over
	r.Rule("LAG-1", "Lagrange coefficients are computed over the session's signer set")
	r.Rule("LAG-2", "each Lagrange coefficient multiplies the share of the same party")
	r.Rule("LAG-3", "the session's group key is the sum over the session's parties of the scaled public shares")
	r.Rule("LAG-4", "coefficients computed over a domain are consumed over that whole domain, never over a sub-slice")
	checkLagrange(c, r)
	r.Require("LAG-2", 6)
	r.Require("LAG-4", 6)
	r.Require("DEG-1", 4)
	r.Require("DEG-2", 3)
	r.Require("EVAL-P", 4)
	r.Require("EVAL-S", 8)
	r.Require("TABLE-1", 4)
	r.Require("SECRET-1", 2)
	r.Require("TABLE-2", 1)
	r.Require("ID-1", 8)
}

func valueOf(in ssa.Instruction) ssa.Value {
	v, _ := in.(ssa.Value)
	return v
}

func pathOr(v ssa.Value) string {
	if v == nil {
		return "(not an identifier scalar)"
	}
	return path(v)
}

// dependsOnThresholdParam: a plain int reaching NewPolynomial in a start closure is the threshold iff it is the
// same value stored into round.Info.Threshold in that function (or its enclosing function).
func dependsOnThresholdParam(fn *ssa.Function, v ssa.Value) bool {
	ok := false
	check := func(f *ssa.Function) {
		allInstrs(f, func(in ssa.Instruction) {
			st, isSt := in.(*ssa.Store)
			if !isSt {
				return
			}
			if fa, isFA := st.Addr.(*ssa.FieldAddr); isFA && fieldName(fa.X.Type(), fa.Field) == "Threshold" {
				if path(st.Val) == path(v) {
					ok = true
				}
			}
		})
	}
	check(fn)
	if fn.Parent() != nil {
		check(fn.Parent())
	}
	return ok
}

// rangeKeyOf: v is the key extracted from ranging over a map; returns the ranged map value.
func rangeKeyOf(v ssa.Value) ssa.Value {
	ex, ok := v.(*ssa.Extract)
	if !ok || ex.Index != 1 {
		return nil
	}
	nx, ok := ex.Tuple.(*ssa.Next)
	if !ok {
		return nil
	}
	rg, ok := nx.Iter.(*ssa.Range)
	if !ok {
		return nil
	}
	if _, isMap := rg.X.Type().Underlying().(*types.Map); !isMap {
		return nil
	}
	return rg.X
}

func checkWholeTableUpdates(c *Ctx, r *Run, fns []*ssa.Function) {
	// 1. which map fields of round structs are filled from a caller's map (key set not under the session's control)
	external := map[*types.Var]string{}
	owned := map[*types.Var]string{}
	for _, fn := range fns {
		allInstrs(fn, func(in ssa.Instruction) {
			st, ok := in.(*ssa.Store)
			if !ok {
				return
			}
			fa, ok := st.Addr.(*ssa.FieldAddr)
			if !ok {
				return
			}
			if _, isMap := st.Val.Type().Underlying().(*types.Map); !isMap {
				return
			}
			mk, ok := st.Val.(*ssa.MakeMap)
			if !ok {
				// the caller's map itself is kept in the round (no copy): every write to it changes the caller's object
				if ownedBy := callerMapRoot(st.Val, 0); ownedBy != "" {
					fv := fieldVar(derefType(fa.X.Type()), fa.Field)
					external[fv] = c.FuncName(fn)
					owned[fv] = ownedBy
				}
				return
			}
			for _, ref := range *mk.Referrers() {
				mu, isMU := ref.(*ssa.MapUpdate)
				if !isMU {
					continue
				}
				src := rangeKeyOf(mu.Key)
				if src == nil {
					continue
				}
				root := src
				if u, isU := root.(*ssa.UnOp); isU && u.Op == token.MUL {
					root = u.X
				}
				if _, isFV := root.(*ssa.FreeVar); isFV || isParam(root) {
					external[fieldVar(derefType(fa.X.Type()), fa.Field)] = c.FuncName(fn)
				}
			}
		})
	}
	if len(external) == 0 {
		r.Hold("TABLE-2", "no caller-provided table", "", "no round field is filled from a caller-provided map: nothing to check")
		return
	}
	// 2. read-modify-write loops over those fields
	for _, fn := range fns {
		fn := fn
		nth := 0
		allInstrs(fn, func(in ssa.Instruction) {
			mu, ok := in.(*ssa.MapUpdate)
			if !ok || !blockInLoop(mu.Block()) {
				return
			}
			// the other spelling: the updated table is built as a fresh map from the old one and then assigned to the field
			if mk, isMk := mu.Map.(*ssa.MakeMap); isMk {
				var target *types.Var
				for _, ref := range *mk.Referrers() {
					if st, isSt := ref.(*ssa.Store); isSt && st.Val == ssa.Value(mk) {
						if fa, isFA := st.Addr.(*ssa.FieldAddr); isFA {
							if fv := fieldVar(derefType(fa.X.Type()), fa.Field); fv != nil {
								if _, isExt := external[fv]; isExt {
									target = fv
								}
							}
						}
					}
				}
				if target == nil {
					return
				}
				isOld := func(v ssa.Value) bool {
					ld, ok := v.(*ssa.UnOp)
					if !ok {
						return false
					}
					fa, ok := ld.X.(*ssa.FieldAddr)
					return ok && fieldVar(derefType(fa.X.Type()), fa.Field) == target
				}
				fromOld := dependsOn(mu.Value, func(v ssa.Value) bool {
					if lk, isL := v.(*ssa.Lookup); isL && isOld(lk.X) {
						return true
					}
					if ex, isE := v.(*ssa.Extract); isE && ex.Index == 2 {
						if nx, isN := ex.Tuple.(*ssa.Next); isN {
							if rg, isR := nx.Iter.(*ssa.Range); isR && isOld(rg.X) {
								return true
							}
						}
					}
					return false
				})
				if !fromOld {
					return
				}
				src := rangeKeyOf(mu.Key)
				nth++
				r.Check("TABLE-2", fmt.Sprintf("%s|%s|update #%d walks-the-table", c.FuncName(fn), target.Name(), nth), c.Pos(mu.Pos()), src != nil && isOld(src),
					"the rebuilt "+target.Name()+" has one entry for every entry of the old table",
					"the replacement for "+target.Name()+" is built by ranging over something other than the old table: entries of parties outside this session are dropped or left on the old sharing")
				return
			}
			ld, ok := mu.Map.(*ssa.UnOp)
			if !ok {
				return
			}
			fa, ok := ld.X.(*ssa.FieldAddr)
			if !ok {
				return
			}
			fv := fieldVar(derefType(fa.X.Type()), fa.Field)
			from, isExt := external[fv]
			if !isExt {
				return
			}
			if what, isOwned := owned[fv]; isOwned {
				nth++
				r.Check("TABLE-2", fmt.Sprintf("%s|%s|update #%d writes the caller's table", c.FuncName(fn), fv.Name(), nth), c.Pos(mu.Pos()), false,
					"the round works on its own copy of the caller's table",
					"the round field "+fv.Name()+" is the caller's own map ("+what+", stored without a copy in "+from+"), and this statement writes into it: a refresh that is abandoned or retried has already rewritten the previous configuration's table, so the retry starts from a table that matches nobody's shares")
				return
			}
			// the new value depends on the old entry
			rmw := dependsOn(mu.Value, func(v ssa.Value) bool {
				if lk, isL := v.(*ssa.Lookup); isL && sameErr(lk.X, mu.Map) {
					return true
				}
				if ex, isE := v.(*ssa.Extract); isE && ex.Index == 2 {
					if nx, isN := ex.Tuple.(*ssa.Next); isN {
						if rg, isR := nx.Iter.(*ssa.Range); isR && sameErr(rg.X, mu.Map) {
							return true
						}
					}
				}
				return false
			})
			if !rmw {
				return
			}
			src := rangeKeyOf(mu.Key)
			ok = src != nil && sameErr(src, mu.Map)
			nth++
			what := "a party list"
			if src != nil {
				what = path(src)
			}
			r.Check("TABLE-2", fmt.Sprintf("%s|%s|update #%d walks-the-table", c.FuncName(fn), fv.Name(), nth), c.Pos(mu.Pos()), ok,
				"the in-place update of "+fv.Name()+" (filled from the caller's table in "+from+") ranges over the table itself",
				"the in-place update of "+fv.Name()+" ranges over "+what+" instead of the table: "+fv.Name()+" is filled from the caller's table in "+from+" and can hold entries of parties outside this session, which stay on the old sharing while the others move — the reported table then mixes two sharings and threshold+1 of its entries no longer interpolate to the group key")
		})
	}
}

func isParam(v ssa.Value) bool {
	_, ok := v.(*ssa.Parameter)
	return ok
}

// callerMapRoot: v is (on some path) a map that belongs to the caller: a parameter or a captured variable of map type.
func callerMapRoot(v ssa.Value, d int) string {
	if d > 5 {
		return ""
	}
	v = stripConv(v)
	if _, isMap := v.Type().Underlying().(*types.Map); !isMap {
		return ""
	}
	switch x := v.(type) {
	case *ssa.Parameter:
		return "parameter " + x.Name()
	case *ssa.UnOp:
		if x.Op == token.MUL {
			if fv, ok := x.X.(*ssa.FreeVar); ok {
				return "captured " + fv.Name()
			}
			if a, ok := x.X.(*ssa.Alloc); ok {
				for _, st := range storesTo(a) {
					if s := callerMapRoot(st, d+1); s != "" {
						return s
					}
				}
			}
		}
	case *ssa.Phi:
		for _, e := range x.Edges {
			if s := callerMapRoot(e, d+1); s != "" {
				return s
			}
		}
	}
	return ""
}

func storesTo(a *ssa.Alloc) []ssa.Value {
	var out []ssa.Value
	for _, ref := range *a.Referrers() {
		if st, ok := ref.(*ssa.Store); ok && st.Addr == ssa.Value(a) {
			out = append(out, st.Val)
		}
	}
	return out
}

// checkSiblingStores: SIB-2. The two roles of a two-party round (round2R / round2S of the Doerner key generation) update
// the same-named fields of their state under the same conditions: a share update that one side makes unconditionally
// and the other only outside a refresh leaves the two shares of one key out of step.
func checkSiblingStores(c *Ctx, r *Run, rule, rel, typA, typB, method string) {
	fa, fb := c.LookupMethod(rel, typA, method), c.LookupMethod(rel, typB, method)
	if fa == nil || fb == nil {
		r.Unresolved(rule, rel+"."+typA+"/"+typB+"."+method)
		return
	}
	stores := func(fn *ssa.Function) map[string][]string {
		out := map[string][]string{}
		for _, f := range regionOf(fn) {
			f := f
			allInstrs(f, func(in ssa.Instruction) {
				st, ok := in.(*ssa.Store)
				if !ok {
					return
				}
				fad, ok := st.Addr.(*ssa.FieldAddr)
				if !ok || len(f.Params) == 0 || f.Signature.Recv() == nil {
					return
				}
				// a field of the round's own state (through the embedded earlier rounds)
				ls := paramFields(f, fad)
				if len(ls) != 1 || !strings.HasPrefix(ls[0], "recv.") || strings.ContainsAny(ls[0][5:], ".[(") {
					return
				}
				name := ls[0][5:]
				// the tests that decide between making and skipping the update (an error exit decides nothing: the
				// round fails as a whole)
				var conds []string
				for _, p := range f.Blocks {
					iff, isIf := p.Instrs[len(p.Instrs)-1].(*ssa.If)
					if !isIf || p == st.Block() {
						continue
					}
					if blockRejectsFrom(p, p.Succs[0]) || blockRejectsFrom(p, p.Succs[1]) {
						continue
					}
					r0 := p.Succs[0] == st.Block() || blockReaches(p.Succs[0], st.Block())
					r1 := p.Succs[1] == st.Block() || blockReaches(p.Succs[1], st.Block())
					if r0 != r1 && !blockInLoop(p) {
						conds = append(conds, deciderOf(iff.Cond)+"("+strings.Join(guardFields(f, iff.Cond), ",")+")")
					}
				}
				sort.Strings(conds)
				out[name] = append(out[name], strings.Join(conds, " & "))
			})
		}
		for k := range out {
			sort.Strings(out[k])
		}
		return out
	}
	sa, sb := stores(fa), stores(fb)
	r.Analysed(c.FuncName(fa))
	r.Analysed(c.FuncName(fb))
	var names []string
	for k := range sa {
		if _, both := sb[k]; both {
			names = append(names, k)
		}
	}
	sort.Strings(names)
	for _, k := range names {
		a, b := strings.Join(sa[k], " | "), strings.Join(sb[k], " | ")
		r.Check(rule, rel+"."+typA+"/"+typB+"."+method+"|field "+k, c.Pos(fb.Pos()), a == b,
			"both roles update "+k+" under the same conditions ["+a+"]",
			typA+" updates "+k+" under ["+a+"], "+typB+" under ["+b+"]: in the runs where only one of them makes the update the two parties' shares no longer belong to one key")
	}
	if len(names) == 0 {
		r.Unresolved(rule, "common state fields of "+typA+"/"+typB)
	}
}
