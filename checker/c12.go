package main

import (
	"fmt"
	"go/token"
	"go/types"
	"sort"
	"strings"

	"golang.org/x/tools/go/ssa"
)

func init() {
	register("C12", propMeta{
		Explanation: "Exactness of Paillier/MtA arithmetic on the full domain quantifies over run-time integers and is NOT decided here (no code is run, no solver is used). What is decided are the structural necessary conditions the arithmetic relies on and which mid-range random tests cannot reach: " +
			"OB-T: reject-guard inventory of pkg/paillier, pkg/math/arith and internal/mta (range refusal, ciphertext validation c in [1,N^2) and unit, modulus/prime validation, propagation of Dec's error, interval predicates). " +
			"RANGE-1: the encryption range guard compares |m| with a bound computed from the modulus N itself by one right shift by 1 ((N-1)/2 for odd N), refuses exactly on 'greater' (so both endpoints are accepted), and dominates every use of m. " +
			"SYM-1: the plaintext enters the exponentiation with its sign (ExpI on m, not on |m|) and decryption maps back with SetModSymmetric modulo N. " +
			"CRT-1: both exponentiation routines keep a factorisation-free fallback on the same modulus; on the CRT path a signed exponent is handled by exponentiating |e| and conditionally assigning the inverse taken modulo the full modulus, selected by e.IsNegative(). " +
			"MTA-1: in newMta one sampled value -beta is encrypted under both keys, F under the sender's and D under the receiver's key; D is that encryption homomorphically added to a CLONE of the receiver's ciphertext multiplied by the sender's share; the proofs are given (K, D, F, prover = sender, verifier = receiver, witness y = -beta) and the returned beta is the negation of the very value that was encrypted, taken after the proof was built. " +
			"ALIAS-P: the in-place homomorphic operations (Add, Mul, Randomize) are applied only to fresh ciphertexts (Clone/Enc results), never to a ciphertext owned by a message, a proof statement or round state.",
		Trusted:     append([]string{"tables/round_guards.json (entries of pkg/paillier, pkg/math/arith)", "saferith arithmetic (Cmp result order gt,eq,lt; Rsh; CondAssign; SetModSymmetric)"}, commonTrusted...),
		Assumptions: []string{"saferith and the CRT recombination formula are arithmetically correct; only presence, operands and placement are decided"},
	}, runC12)
}

func isC12Func(name string) bool {
	return strings.HasPrefix(name, "pkg/paillier.") || strings.HasPrefix(name, "pkg/math/arith.") || strings.HasPrefix(name, "internal/mta.")
}

func recvOf(call ssa.CallInstruction) ssa.Value {
	cc := call.Common()
	if cc.IsInvoke() {
		return cc.Value
	}
	if f := cc.StaticCallee(); f != nil && f.Signature.Recv() != nil && len(cc.Args) > 0 {
		return cc.Args[0]
	}
	return nil
}

// argsOf: arguments without the receiver.
func argsOf(call ssa.CallInstruction) []ssa.Value {
	cc := call.Common()
	if cc.IsInvoke() {
		return cc.Args
	}
	if f := cc.StaticCallee(); f != nil && f.Signature.Recv() != nil && len(cc.Args) > 0 {
		return cc.Args[1:]
	}
	return cc.Args
}

func callsNamed(fn *ssa.Function, name string) []*ssa.Call {
	var out []*ssa.Call
	allInstrs(fn, func(in ssa.Instruction) {
		if call, ok := in.(*ssa.Call); ok {
			if o := calleeObj(call); o != nil && o.Name() == name {
				out = append(out, call)
			}
		}
	})
	return out
}

func runC12(c *Ctx, r *Run) {
	r.Rule("OB-T", "guard inventory over pkg/paillier, pkg/math/arith, internal/mta: every recorded reject guard is present, decides on the same data and covers acceptance")
	r.Rule("RANGE-1", "EncWithNonce: bound = N >> 1 from the key's own modulus, refusal exactly on greater, before any use of the plaintext")
	r.Rule("SYM-1", "signed plaintext in, symmetric residue out: ExpI on m; Dec ends in SetModSymmetric(·, N)")
	r.Rule("CRT-1", "Modulus.Exp/ExpI: fallback branch on the same modulus; signed exponent = |e| then conditional inverse selected by IsNegative")
	r.Rule("HOM-1", "Ciphertext.Mul/Add use their operands as given: c^k mod N² with the caller's k, c·c' mod N²")
	r.Rule("CLONE-1", "Clone/Copy methods return deep copies: no mutable reference field is shared with the receiver")
	r.Rule("MTA-1", "newMta / ProveAffG / ProveAffP: keys, clone, operands and the sign of beta have their protocol roles")
	r.Rule("ALIAS-P", "in-place ciphertext operations only on fresh ciphertexts")

	checkGuardInventory(c, r, "OB-T", "round_guards.json", isC12Func)

	// ---- RANGE-1 / SYM-1 (encryption side)
	enc := c.LookupMethod("pkg/paillier", "PublicKey", "EncWithNonce")
	if enc == nil {
		r.Unresolved("RANGE-1", "pkg/paillier.(PublicKey).EncWithNonce")
	} else {
		name := c.FuncName(enc)
		r.Analysed(name)
		var g, outer *guard
		F := enc
		mVal := ssa.Value(enc.Params[1])
		for _, gg := range rejectGuards(enc) {
			if strings.Contains(gg.decider, "Cmp") {
				gg := gg
				g, outer = &gg, &gg
			}
		}
		if g == nil {
			// the range test moved into a predicate of the key (`if !pk.plaintextInRange(m) { reject }`): the
			// comparison is looked for inside it, the plaintext is the parameter bound to m, true must mean "in range"
			for _, G := range rejectGuards(enc) {
				G := G
				call := condCall(G.cond)
				h := localHelperOf(call)
				if h == nil || G.iff == nil || G.passBlk != G.iff.Block().Succs[0] {
					continue
				}
				k := -1
				for i, a := range call.Call.Args {
					if a == ssa.Value(enc.Params[1]) {
						k = i
					}
				}
				if k < 0 || k >= len(h.Params) {
					continue
				}
				for _, gg := range rejectGuards(h) {
					if strings.Contains(gg.decider, "Cmp") {
						gg := gg
						g, outer, F, mVal = &gg, &G, h, h.Params[k]
					}
				}
			}
		}
		enc0 := enc
		enc := F
		_ = enc0
		if g == nil {
			r.Fail("RANGE-1", name+"|guard", c.Pos(enc.Pos()), "a range guard on the plaintext exists", "EncWithNonce has no rejecting comparison of the plaintext: out-of-range plaintexts are encrypted and decrypt to a different value")
		} else {
			cmp := condCall(g.cond)
			// which component of (gt, eq, lt) and against which constant
			comp, cst := -1, int64(-1)
			if bo, ok := g.cond.(*ssa.BinOp); ok {
				if ex, ok := bo.X.(*ssa.Extract); ok {
					comp = ex.Index
				}
				if k, ok := constInt(bo.Y); ok {
					cst = k
				}
				// polarity: the edge taken when cond is true rejects
				rejOnTrue := false
				if g.iff != nil {
					rejOnTrue = g.passBlk == g.iff.Block().Succs[1]
				} else {
					// `return gt != 1` of a predicate whose true means "in range": refused when the condition is false
					rejOnTrue = false
				}
				if bo.Op == token.NEQ {
					rejOnTrue = !rejOnTrue
				}
				ok2 := comp == 0 && cst == 1 && rejOnTrue
				r.Check("RANGE-1", name+"|refuse-iff-greater", c.Pos(g.pos), ok2, "the guard refuses exactly when |m| > bound (first result of Cmp equals 1), so both endpoints ±(N-1)/2 are accepted",
					fmt.Sprintf("the guard tests component %d of Cmp against %d (rejecting edge on true: %v): the endpoints of the range are refused or values beyond them accepted", comp, cst, rejOnTrue))
			}
			if cmp != nil {
				lhs, rhs := recvOf(cmp), argsOf(cmp)
				// |m| on the left
				absOK := false
				if lc, ok := lhs.(*ssa.Call); ok {
					if o := calleeObj(lc); o != nil && o.Name() == "Abs" && recvOf(lc) == mVal {
						absOK = true
					}
				}
				r.Check("RANGE-1", name+"|compares-abs-m", c.Pos(cmp.Pos()), absOK, "the compared value is |m| of the plaintext parameter", "the left operand of the comparison is not m.Abs(): negative plaintexts escape the bound")
				// bound: deps exactly recv.nNat; exactly one Rsh by 1 on it before the comparison
				if len(rhs) == 1 {
					d := newDep(enc, cmp)
					ls := d.labels(rhs[0])
					only := len(ls) > 0
					for _, l := range ls {
						if l != "recv.nNat" && l != "recv.n" && l != "recv" {
							only = false
						}
					}
					r.Check("RANGE-1", name+"|bound-from-N", c.Pos(cmp.Pos()), only, "the bound is computed from the key's modulus N only",
						"the bound depends on "+strings.Join(ls, ", ")+" instead of N alone (e.g. N+1 or N²): the accepted range is not [-(N-1)/2, (N-1)/2]")
					shifts, shiftOK := 0, true
					for _, sh := range callsNamed(enc, "Rsh") {
						if !sameObject(recvOf(sh), rhs[0]) && !sameObject(sh, rhs[0]) {
							continue
						}
						shifts++
						a := argsOf(sh)
						if len(a) < 2 {
							shiftOK = false
							continue
						}
						srcOK := sameObject(a[0], rhs[0]) || sameObject(a[0], recvOf(sh))
						if !srcOK {
							// shifted straight out of the modulus: new(Nat).Rsh(pk.nNat, 1, -1)
							srcOK = true
							sl := newDep(enc, sh).labels(a[0])
							for _, l := range sl {
								if l != "recv.nNat" && l != "recv.n" && l != "recv" {
									srcOK = false
								}
							}
							srcOK = srcOK && len(sl) > 0
						}
						if k, ok := constInt(a[1]); !ok || k != 1 || !srcOK {
							shiftOK = false
						}
						if !instrDominates(sh, cmp) {
							shiftOK = false
						}
					}
					r.Check("RANGE-1", name+"|bound-is-half", c.Pos(cmp.Pos()), shifts == 1 && shiftOK, "the bound is N shifted right by exactly one bit, before the comparison",
						fmt.Sprintf("%d right shifts of the bound found (amount 1 and placed before the comparison: %v): the bound is not floor(N/2)", shifts, shiftOK))
				}
			}
			// dominance over uses of m
			usesOK := true
			for _, nm := range []string{"ExpI", "Exp", "ModMul"} {
				for _, call := range callsNamed(enc0, nm) {
					if outer.passBlk == nil || !(outer.passBlk == call.Block() || outer.passBlk.Dominates(call.Block())) {
						usesOK = false
					}
				}
			}
			r.Check("RANGE-1", name+"|guard-before-use", c.Pos(g.pos), usesOK, "every exponentiation happens after the range guard passed", "an exponentiation is reachable without passing the range guard")
		}
		// SYM-1: ExpI with the signed plaintext
		enc = enc0
		symOK := false
		for _, call := range callsNamed(enc, "ExpI") {
			a := argsOf(call)
			if len(a) == 2 && a[1] == ssa.Value(enc.Params[1]) && containsField(paramFields(enc, a[0]), "recv.nPlusOne") && containsField(paramFields(enc, recvOf(call)), "recv.nSquared") {
				symOK = true
			}
		}
		r.Check("SYM-1", name+"|signed-exponent", c.Pos(enc.Pos()), symOK, "(N+1)^m is computed modulo N² with the signed plaintext m as exponent", "ExpI(N+1, m) modulo N² not found: negative plaintexts are encrypted as their absolute value or under the wrong modulus")
	}
	dec := c.LookupMethod("pkg/paillier", "SecretKey", "Dec")
	if dec == nil {
		r.Unresolved("SYM-1", "pkg/paillier.(*SecretKey).Dec")
	} else {
		name := c.FuncName(dec)
		r.Analysed(name)
		ok := false
		for _, ret := range acceptReturns(dec) {
			// (through a helper of the key that holds the computation: `return sk.decUnit(ct.c), nil`)
			if call, isCall := resultThroughHelpers(ret.Results[0]).(*ssa.Call); isCall {
				if o := calleeObj(call); o != nil && o.Name() == "SetModSymmetric" {
					a := argsOf(call)
					if len(a) == 2 && containsField(paramFieldsUp(a[1]), "recv.n") {
						ok = true
					}
				}
			}
		}
		r.Check("SYM-1", name+"|symmetric-residue", c.Pos(dec.Pos()), ok, "the plaintext is returned as the symmetric residue modulo N", "Dec does not end in SetModSymmetric(·, N): plaintexts above N/2 are not mapped back to negative values")
	}

	// ALIAS-R: callers raise, multiply and reduce the results of Exp/ExpI in place (c.ModMul(c, …), nonce.Exp(…)): what
	// these functions return is a new number on every path, never an operand or a cached field
	r.Rule("ALIAS-R", "Modulus.Exp / ExpI return a fresh number on every path (callers mutate the result in place)")
	{
		pur := newPurity(c)
		for _, mn := range []string{"Exp", "ExpI"} {
			fn := c.LookupMethod("pkg/math/arith", "Modulus", mn)
			if fn == nil {
				r.Unresolved("ALIAS-R", "pkg/math/arith.(*Modulus)."+mn)
				continue
			}
			r.Analysed(c.FuncName(fn))
			bad := ""
			for _, ret := range returnsOf(fn) {
				if len(ret.Results) != 1 {
					continue
				}
				if k, _ := pur.root(fn, ret.Results[0], 0); k != rootLocal {
					bad = c.Pos(ret.Pos()) + " returns " + path(ret.Results[0])
				}
			}
			r.Check("ALIAS-R", c.FuncName(fn)+"|returns-fresh", c.Pos(fn.Pos()), bad == "", "every return yields a number created inside the function",
				"the return at "+bad+", an operand or shared object: callers such as EncWithNonce / DecWithRandomness / pedersen.Commit continue to compute IN PLACE on the result, so they overwrite the caller's value or a cached key field (N+1) and every later operation with that key is wrong")
		}
	}
	r.Require("ALIAS-R", 2)
	checkCapacities(c, r, "CAP-1")
	r.Require("CAP-1", 15)
	// ---- CRT-1
	for _, mn := range []string{"Exp", "ExpI"} {
		fn := c.LookupMethod("pkg/math/arith", "Modulus", mn)
		if fn == nil {
			r.Unresolved("CRT-1", "pkg/math/arith.(*Modulus)."+mn)
			continue
		}
		name := c.FuncName(fn)
		r.Analysed(name)
		// the branch on hasFactorization
		var br *ssa.If
		for _, b := range fn.Blocks {
			if len(b.Instrs) == 0 {
				continue
			}
			if iff, ok := b.Instrs[len(b.Instrs)-1].(*ssa.If); ok {
				if call := condCall(iff.Cond); call != nil {
					if o := calleeObj(call); o != nil && o.Name() == "hasFactorization" {
						br = iff
					}
				}
			}
		}
		if br == nil {
			r.Fail("CRT-1", name+"|branch", c.Pos(fn.Pos()), "the routine branches on hasFactorization", "no branch on hasFactorization: public keys (no factors) would take the CRT path and dereference nil factors, or secret keys lose the fallback")
			continue
		}
		crt, plain := br.Block().Succs[0], br.Block().Succs[1]
		if u, ok := br.Cond.(*ssa.UnOp); ok && u.Op == token.NOT {
			crt, plain = plain, crt
		}
		inRegion := func(b, region *ssa.BasicBlock) bool { return b == region || region.Dominates(b) }
		// fallback: saferith Exp/ExpI with the receiver's Modulus as last argument, result returned
		fb := false
		for _, call := range callsNamed(fn, mn) {
			if !inRegion(call.Block(), plain) {
				continue
			}
			if f := call.Call.StaticCallee(); f != nil && f.Pkg != nil && strings.Contains(f.Pkg.Pkg.Path(), "saferith") {
				a := argsOf(call)
				if len(a) > 0 && isRecvModulus(fn, a[len(a)-1]) {
					fb = true
				}
			}
		}
		r.Check("CRT-1", name+"|fallback", c.Pos(br.Pos()), fb, "without a factorisation the plain saferith routine is used on the receiver's modulus", "the non-CRT branch does not call saferith "+mn+" with n.Modulus")
		if mn == "ExpI" {
			var exp, inv, cond *ssa.Call
			for _, call := range callsNamed(fn, "Exp") {
				if inRegion(call.Block(), crt) {
					exp = call
				}
			}
			for _, call := range callsNamed(fn, "ModInverse") {
				if inRegion(call.Block(), crt) {
					inv = call
				}
			}
			for _, call := range callsNamed(fn, "CondAssign") {
				if inRegion(call.Block(), crt) {
					cond = call
				}
			}
			absOK := false
			if exp != nil {
				a := argsOf(exp)
				if len(a) == 2 {
					if ac, ok := a[1].(*ssa.Call); ok {
						if o := calleeObj(ac); o != nil && o.Name() == "Abs" && recvOf(ac) == ssa.Value(fn.Params[2]) {
							absOK = a[0] == ssa.Value(fn.Params[1]) && recvOf(exp) == ssa.Value(fn.Params[0])
						}
					}
				}
			}
			r.Check("CRT-1", name+"|abs-exponent", c.Pos(fn.Pos()), absOK, "the CRT path raises x to |e| with the same modulus object", "the CRT path does not compute n.Exp(x, e.Abs())")
			invOK := false
			if inv != nil && exp != nil {
				a := argsOf(inv)
				if len(a) == 2 && a[0] == ssa.Value(exp) && isRecvModulus(fn, a[1]) {
					invOK = true
				}
			}
			r.Check("CRT-1", name+"|inverse-mod-n", c.Pos(fn.Pos()), invOK, "the inverse of x^|e| is taken modulo the full modulus", "ModInverse(y, n.Modulus) of the CRT result not found")
			selOK := false
			if cond != nil && inv != nil && exp != nil {
				a := argsOf(cond)
				if len(a) == 2 && recvOf(cond) == ssa.Value(exp) && a[1] == ssa.Value(inv) {
					if sc, ok := a[0].(*ssa.Call); ok {
						if o := calleeObj(sc); o != nil && o.Name() == "IsNegative" && recvOf(sc) == ssa.Value(fn.Params[2]) {
							selOK = true
						}
					}
				}
				// and the assigned value is what is returned
				ret := false
				for _, rr := range returnsOf(fn) {
					if inRegion(rr.Block(), crt) && (rr.Results[0] == ssa.Value(exp) || rr.Results[0] == ssa.Value(cond)) && instrDominates(cond, rr) {
						ret = true
					}
				}
				selOK = selOK && ret
			}
			r.Check("CRT-1", name+"|negative-selects-inverse", c.Pos(fn.Pos()), selOK, "the inverse replaces the result exactly when e.IsNegative(), and that value is returned",
				"CondAssign(e.IsNegative(), inverse) on the CRT result is missing or its result is not what is returned: with a secret key, negative exponents (negative plaintexts, Mul by a negative scalar) give x^|e|")
		} else {
			// Exp: both half exponentiations use the prime moduli, the recombination uses the full modulus
			halves := 0
			for _, call := range callsNamed(fn, "Exp") {
				if !inRegion(call.Block(), crt) {
					continue
				}
				a := argsOf(call)
				if len(a) == 3 {
					f := paramFields(fn, a[2])
					if containsField(f, "recv.p") || containsField(f, "recv.q") {
						halves++
					}
				}
			}
			r.Check("CRT-1", name+"|two-half-exponentiations", c.Pos(fn.Pos()), halves == 2, "the CRT path exponentiates modulo p and modulo q", fmt.Sprintf("%d exponentiations modulo a prime factor found", halves))
		}
	}

	// ---- HOM-1: the homomorphic operations apply their operands as given
	if mul := c.LookupMethod("pkg/paillier", "Ciphertext", "Mul"); mul != nil {
		name := c.FuncName(mul)
		r.Analysed(name)
		ok, why := false, "no ExpI call"
		for _, call := range callsNamed(mul, "ExpI") {
			a := argsOf(call)
			if len(a) != 2 {
				continue
			}
			base := strings.HasSuffix(path(a[0]), ".c") && strings.HasPrefix(path(a[0]), mul.Params[0].Name())
			exp := a[1] == ssa.Value(mul.Params[2])
			mod := strings.HasSuffix(path(recvOf(call)), ".nSquared")
			ok = base && exp && mod
			why = fmt.Sprintf("base is the receiver's value: %v, exponent is the scalar parameter itself: %v (it is %s), modulus N²: %v", base, exp, path(a[1]), mod)
		}
		r.Check("HOM-1", name+"|c^k mod N²", c.Pos(mul.Pos()), ok, "k ⊙ ct is ct.c raised to the scalar k as given (signed, any size), modulo N²",
			why+": the scalar is transformed (truncated, reduced, made absolute) before the exponentiation, so k ⊙ Enc(m) differs from Enc(k·m) for the scalars the transformation changes")
	} else {
		r.Unresolved("HOM-1", "pkg/paillier.(*Ciphertext).Mul")
	}
	if add := c.LookupMethod("pkg/paillier", "Ciphertext", "Add"); add != nil {
		name := c.FuncName(add)
		r.Analysed(name)
		ok := false
		for _, call := range callsNamed(add, "ModMul") {
			a := argsOf(call)
			if len(a) != 3 {
				continue
			}
			p0, p1 := path(a[0]), path(a[1])
			own := add.Params[0].Name() + ".c"
			other := add.Params[2].Name() + ".c"
			if ((p0 == own && p1 == other) || (p0 == other && p1 == own)) && strings.HasSuffix(path(a[2]), ".nSquared.Modulus") && path(recvOf(call)) == own {
				ok = true
			}
		}
		if !ok {
			// the single step lives in a helper of the ciphertext (`ct.mulBy(pk, ct2.c)`): the receiver's value times the
			// helper's factor parameter, which this call binds to the other ciphertext's value
			allInstrs(add, func(in ssa.Instruction) {
				hc, isCall := in.(*ssa.Call)
				if !isCall {
					return
				}
				g := localHelperOf(hc)
				if g == nil || g.Signature.Recv() == nil || len(hc.Call.Args) == 0 || hc.Call.Args[0] != ssa.Value(add.Params[0]) {
					return
				}
				for _, call := range callsNamed(g, "ModMul") {
					a := argsOf(call)
					if len(a) != 3 {
						continue
					}
					own := g.Params[0].Name() + ".c"
					if path(recvOf(call)) != own || !strings.HasSuffix(path(a[2]), ".nSquared.Modulus") {
						continue
					}
					for k := 0; k < 2; k++ {
						if path(a[k]) != own {
							continue
						}
						if prm, isP := a[1-k].(*ssa.Parameter); isP {
							for i, gp := range g.Params {
								if gp == prm && i < len(hc.Call.Args) && path(hc.Call.Args[i]) == add.Params[2].Name()+".c" {
									ok = true
								}
							}
						}
					}
				}
			})
		}
		r.Check("HOM-1", name+"|c·c' mod N²", c.Pos(add.Pos()), ok, "ct ⊕ ct' multiplies the two ciphertext values modulo N² into the receiver", "Add is not ct.c.ModMul(ct.c, ct2.c, N²)")
	} else {
		r.Unresolved("HOM-1", "pkg/paillier.(*Ciphertext).Add")
	}
	r.Require("HOM-1", 2)

	checkClones(c, r, "CLONE-1")
	r.Require("CLONE-1", 2)
	checkMtaRoles(c, r)
	checkCiphertextAlias(c, r)

	r.Require("OB-T", 30)
	r.Require("RANGE-1", 5)
	r.Require("SYM-1", 2)
	r.Require("CRT-1", 6)
	r.Require("MTA-1", 12)
	r.Require("ALIAS-P", 10)
}

// checkMtaRoles: MTA-1.
func checkMtaRoles(c *Ctx, r *Run) {
	fn := c.LookupFunc("internal/mta", "newMta")
	if fn == nil {
		r.Unresolved("MTA-1", "internal/mta.newMta")
		return
	}
	name := c.FuncName(fn)
	r.Analysed(name)
	// parameters: senderSecretShare(0) receiverEncryptedShare(1) sender(2) receiver(3)
	pShare, pK, pSender, pReceiver := ssa.Value(fn.Params[0]), ssa.Value(fn.Params[1]), ssa.Value(fn.Params[2]), ssa.Value(fn.Params[3])
	var sampled *ssa.Call
	for _, call := range callsNamed(fn, "IntervalLPrime") {
		sampled = call
	}
	r.Check("MTA-1", name+"|beta-sampled", c.Pos(fn.Pos()), sampled != nil && len(callsNamed(fn, "IntervalLPrime")) == 1, "-beta is sampled once from the L' interval", "newMta does not sample exactly one mask from sample.IntervalLPrime")
	var encS, encR *ssa.Call
	for _, call := range callsNamed(fn, "Enc") {
		a := argsOf(call)
		if len(a) != 1 || sampled == nil || a[0] != ssa.Value(sampled) {
			continue
		}
		rv := recvOf(call)
		// sender.Enc goes through the embedded *PublicKey of the secret key
		if dependsOn(rv, func(v ssa.Value) bool { return v == pSender }) {
			encS = call
		}
		if dependsOn(rv, func(v ssa.Value) bool { return v == pReceiver }) {
			encR = call
		}
	}
	r.Check("MTA-1", name+"|F-under-sender-key", c.Pos(fn.Pos()), encS != nil, "-beta is encrypted under the sender's own key (F)", "no sender.Enc(-beta): F is not an encryption of the mask under the prover's key")
	r.Check("MTA-1", name+"|D-under-receiver-key", c.Pos(fn.Pos()), encR != nil, "-beta is encrypted under the receiver's key (start of D)", "no receiver.Enc(-beta): D does not contain the mask under the receiver's key")
	// tmp = K.Clone().Mul(receiver, share)
	var mul, add *ssa.Call
	for _, call := range callsNamed(fn, "Mul") {
		if n := namedOf(derefType(recvOf(call).Type())); n != nil && n.Obj().Name() == "Ciphertext" {
			mul = call
		}
	}
	for _, call := range callsNamed(fn, "Add") {
		if n := namedOf(derefType(recvOf(call).Type())); n != nil && n.Obj().Name() == "Ciphertext" {
			add = call
		}
	}
	mulOK := false
	if mul != nil {
		a := argsOf(mul)
		if cl, ok := recvOf(mul).(*ssa.Call); ok {
			if o := calleeObj(cl); o != nil && o.Name() == "Clone" && recvLoadOf(cl) == pK && len(a) == 2 && a[0] == pReceiver && a[1] == pShare {
				mulOK = true
			}
		}
	}
	r.Check("MTA-1", name+"|a-times-K-on-clone", c.Pos(fn.Pos()), mulOK, "a ⊙ K is computed on a clone of the receiver's ciphertext, under the receiver's key, with the sender's share as scalar",
		"K.Clone().Mul(receiver, share) not found: the peer's stored ciphertext is modified in place, or the wrong key/scalar is used")
	addOK := false
	if add != nil && encR != nil && mul != nil {
		a := argsOf(add)
		rv := recvOf(add)
		if ex, ok := rv.(*ssa.Extract); ok && ex.Tuple == ssa.Value(encR) && ex.Index == 0 && len(a) == 2 && a[0] == pReceiver && a[1] == ssa.Value(mul) {
			addOK = true
		}
	}
	r.Check("MTA-1", name+"|D-is-sum", c.Pos(fn.Pos()), addOK, "D = Enc_receiver(-beta) ⊕ (a ⊙ K), added under the receiver's key", "D.Add(receiver, a ⊙ K) on the receiver-key encryption of the mask not found")
	// results: D from encR, F from encS, BetaNeg = sampled
	for _, ret := range returnsOf(fn) {
		if len(ret.Results) != 5 {
			continue
		}
		isExtract := func(v ssa.Value, of *ssa.Call, idx int) bool {
			v = resolveLoad(v)
			ex, ok := v.(*ssa.Extract)
			return ok && of != nil && ex.Tuple == ssa.Value(of) && ex.Index == idx
		}
		ok := isExtract(ret.Results[0], encR, 0) && isExtract(ret.Results[1], encS, 0) && isExtract(ret.Results[2], encR, 1) && isExtract(ret.Results[3], encS, 1) && resolveLoad(ret.Results[4]) == ssa.Value(sampled)
		r.Check("MTA-1", name+"|results", c.Pos(ret.Pos()), ok, "newMta returns (D, F, nonce of D, nonce of F, -beta) in that order", "the returned tuple is not (D, F, S, R, BetaNeg) built from the two encryptions: proofs are generated for mismatched ciphertexts/nonces")
	}

	for _, pn := range []string{"ProveAffG", "ProveAffP"} {
		pf := c.LookupFunc("internal/mta", pn)
		if pf == nil {
			r.Unresolved("MTA-1", "internal/mta."+pn)
			continue
		}
		pname := c.FuncName(pf)
		r.Analysed(pname)
		var mta *ssa.Call
		for _, call := range callsNamed(pf, "newMta") {
			mta = call
		}
		var proof *ssa.Call
		for _, call := range callsNamed(pf, "NewProof") {
			proof = call
		}
		var neg *ssa.Call
		for _, call := range callsNamed(pf, "Neg") {
			neg = call
		}
		if mta == nil || proof == nil || neg == nil {
			r.Fail("MTA-1", pname+"|shape", c.Pos(pf.Pos()), "newMta, NewProof and Neg located", "one of newMta / NewProof / Neg is missing")
			continue
		}
		// argument wiring of newMta: (share, K, sender, receiver) from the like-named parameters
		idx := map[string]int{}
		for i, p := range pf.Params {
			idx[p.Name()] = i
		}
		wired := len(mta.Call.Args) == 4 &&
			mta.Call.Args[0] == ssa.Value(pf.Params[idx["senderSecretShare"]]) &&
			mta.Call.Args[1] == ssa.Value(pf.Params[idx["receiverEncryptedShare"]]) &&
			mta.Call.Args[2] == ssa.Value(pf.Params[idx["sender"]]) &&
			mta.Call.Args[3] == ssa.Value(pf.Params[idx["receiver"]])
		r.Check("MTA-1", pname+"|newMta-arguments", c.Pos(mta.Pos()), wired, "newMta receives (own share, peer's ciphertext, own secret key, peer's public key)", "the arguments of newMta are permuted: the share is multiplied into the wrong ciphertext or encrypted under the wrong key")
		// beta = Neg(1) of result #4, after the proof
		negOK := false
		if ex, ok := resolveLoad(recvOf(neg)).(*ssa.Extract); ok && ex.Tuple == ssa.Value(mta) && ex.Index == 4 {
			a := argsOf(neg)
			if k, isC := constInt(a[0]); isC && k == 1 {
				negOK = true
			}
		}
		r.Check("MTA-1", pname+"|beta-is-negated-mask", c.Pos(neg.Pos()), negOK, "the returned beta is the (unconditional) negation of the encrypted mask", "Beta is not BetaNeg.Neg(1): alpha + beta no longer equals a·b")
		r.Check("MTA-1", pname+"|negation-after-proof", c.Pos(neg.Pos()), instrDominates(proof, neg), "the in-place negation happens after the proof consumed the witness -beta", "BetaNeg is negated in place before NewProof reads it: the proof is made for +beta and fails, or D and the witness disagree")
		// statement fields
		want := map[string]func(v ssa.Value) bool{
			"Kv": func(v ssa.Value) bool { return resolveLoad(v) == ssa.Value(pf.Params[idx["receiverEncryptedShare"]]) },
			"Dv": func(v ssa.Value) bool {
				ex, ok := resolveLoad(v).(*ssa.Extract)
				return ok && ex.Tuple == ssa.Value(mta) && ex.Index == 0
			},
			"Fp": func(v ssa.Value) bool {
				ex, ok := resolveLoad(v).(*ssa.Extract)
				return ok && ex.Tuple == ssa.Value(mta) && ex.Index == 1
			},
			"Verifier": func(v ssa.Value) bool { return resolveLoad(v) == ssa.Value(pf.Params[idx["receiver"]]) },
			"Prover": func(v ssa.Value) bool {
				return dependsOn(v, func(x ssa.Value) bool { return x == ssa.Value(pf.Params[idx["sender"]]) })
			},
			"Y": func(v ssa.Value) bool {
				ex, ok := resolveLoad(v).(*ssa.Extract)
				return ok && ex.Tuple == ssa.Value(mta) && ex.Index == 4
			},
			"S": func(v ssa.Value) bool {
				ex, ok := resolveLoad(v).(*ssa.Extract)
				return ok && ex.Tuple == ssa.Value(mta) && ex.Index == 2
			},
			"R": func(v ssa.Value) bool {
				ex, ok := resolveLoad(v).(*ssa.Extract)
				return ok && ex.Tuple == ssa.Value(mta) && ex.Index == 3
			},
			"X": func(v ssa.Value) bool { return resolveLoad(v) == ssa.Value(pf.Params[idx["senderSecretShare"]]) },
		}
		got := map[string]bool{}
		allInstrs(pf, func(in ssa.Instruction) {
			st, ok := in.(*ssa.Store)
			if !ok {
				return
			}
			fa, ok := st.Addr.(*ssa.FieldAddr)
			if !ok {
				return
			}
			n := namedOf(derefType(fa.X.Type()))
			if n == nil || (n.Obj().Name() != "Public" && n.Obj().Name() != "Private") {
				return
			}
			fname := fieldName(fa.X.Type(), fa.Field)
			if pred, ok := want[fname]; ok {
				got[fname] = pred(st.Val)
			}
		})
		var names []string
		for k := range want {
			names = append(names, k)
		}
		sort.Strings(names)
		for _, k := range names {
			v, seen := got[k]
			r.Check("MTA-1", pname+"|statement."+k, c.Pos(proof.Pos()), seen && v, "proof input "+k+" is wired to its protocol value", "the proof's "+k+" is not the value the protocol prescribes (K, D, F, keys, -beta, nonces): the proof is generated for a different statement than the ciphertexts sent")
		}
	}
}

// recvLoadOf: receiver of the call, through value-receiver spills (Clone has a value receiver: *ct is loaded).
func recvLoadOf(call *ssa.Call) ssa.Value {
	rv := recvOf(call)
	if u, ok := rv.(*ssa.UnOp); ok && u.Op == token.MUL {
		return u.X
	}
	return rv
}

// checkCiphertextAlias: ALIAS-P over the whole module.
func checkCiphertextAlias(c *Ctx, r *Run) {
	ct := c.LookupNamed("pkg/paillier", "Ciphertext")
	if ct == nil {
		r.Unresolved("ALIAS-P", "pkg/paillier.Ciphertext")
		return
	}
	mut := map[string]bool{"Add": true, "Mul": true, "Randomize": true}
	var fresh func(v ssa.Value, d int) bool
	fresh = func(v ssa.Value, d int) bool {
		if d > 10 {
			return false
		}
		v = stripConv(v)
		switch x := v.(type) {
		case *ssa.Alloc:
			return true
		case *ssa.Extract:
			return fresh(x.Tuple, d+1)
		case *ssa.Phi:
			for _, e := range x.Edges {
				if e != ssa.Value(x) && !fresh(e, d+1) {
					return false
				}
			}
			return true
		case *ssa.UnOp:
			if x.Op == token.MUL {
				if defs, fromEntry := reachingStores(x); !fromEntry && len(defs) > 0 {
					for _, st := range defs {
						if !fresh(st.Val, d+1) {
							return false
						}
					}
					return true
				}
			}
		case *ssa.Call:
			o := calleeObj(x)
			if o == nil {
				return false
			}
			switch o.Name() {
			case "Clone", "Enc", "EncWithNonce":
				return true
			case "Add", "Mul":
				if rv := recvOf(x); rv != nil {
					return fresh(rv, d+1)
				}
			}
		}
		return false
	}
	var fns []*ssa.Function
	for _, p := range c.LibPkgs() {
		for _, fn := range funcsOfPkg(c, c.SSA[p.Types]) {
			withAnon(fn, func(f *ssa.Function) { fns = append(fns, f) })
		}
	}
	sort.Slice(fns, func(i, j int) bool { return c.FuncName(fns[i]) < c.FuncName(fns[j]) })
	for _, fn := range fns {
		// the methods themselves mutate their receiver by definition
		if fn.Signature.Recv() != nil && namedOf(derefType(fn.Signature.Recv().Type())) == ct {
			continue
		}
		cnt := map[string]int{}
		allInstrs(fn, func(in ssa.Instruction) {
			call, ok := in.(*ssa.Call)
			if !ok {
				return
			}
			f := call.Call.StaticCallee()
			if f == nil || f.Signature.Recv() == nil || !mut[f.Name()] || namedOf(derefType(f.Signature.Recv().Type())) != ct {
				return
			}
			rv := recvOf(call)
			r.Analysed(c.FuncName(fn))
			lbl := strings.Join(paramFields(fn, rv), "+")
			if fresh(rv, 0) {
				lbl = "fresh"
			}
			cnt[f.Name()+" on "+lbl]++
			key := fmt.Sprintf("%s|%s on %s #%d", c.FuncName(fn), f.Name(), lbl, cnt[f.Name()+" on "+lbl])
			r.Check("ALIAS-P", key, c.Pos(call.Pos()), fresh(rv, 0), "in-place "+f.Name()+" is applied to a ciphertext created in this function (Clone/Enc)",
				fmt.Sprintf("in-place %s on %s, a ciphertext this function does not own (not a Clone/Enc result): the message's, statement's or round's ciphertext is rewritten and every later use (second MtA, proof verification, decryption) sees the modified value", f.Name(), path(rv)))
		})
	}
}

// isRecvModulus: v is the embedded saferith modulus of the receiver (n.Modulus).
func isRecvModulus(fn *ssa.Function, v ssa.Value) bool {
	u, ok := v.(*ssa.UnOp)
	if !ok || u.Op != token.MUL {
		return false
	}
	fa, ok := u.X.(*ssa.FieldAddr)
	if !ok {
		return false
	}
	return fa.X == ssa.Value(fn.Params[0]) && fieldName(fa.X.Type(), fa.Field) == "Modulus"
}

// saferithPure: methods of saferith.Int / Nat that do not write their receiver.
var saferithPure = map[string]bool{
	"Abs": true, "Cmp": true, "CmpMod": true, "Eq": true, "EqZero": true, "IsNegative": true, "IsUnit": true, "TrueLen": true, "AnnouncedLen": true,
	"Bytes": true, "Big": true, "String": true, "Hex": true, "MarshalBinary": true, "FillBytes": true, "Byte": true, "Uint64": true, "Int64": true,
	"Coprime": true, "CheckInRange": true, "Mod": false, "Clone": true, "Nat": true, "BitLen": true, "Modulus": true,
}

// checkBigIntAliasing: ALIAS-N. saferith's API writes into the receiver (z.Add(x, y), x.Neg(1), z.SetInt(x)): the
// receiver must be an object created in the function (new(Int), a local, a sampler / Clone / Dec result), never a value
// that lives in a message, a proof, key material or round state.
func checkBigIntAliasing(c *Ctx, r *Run, rule string, fns []*ssa.Function) {
	var fresh func(v ssa.Value, d int) bool
	fresh = func(v ssa.Value, d int) bool {
		if d > 12 {
			return false
		}
		v = stripConv(v)
		switch x := v.(type) {
		case *ssa.Alloc, *ssa.Const:
			return true
		case *ssa.Phi:
			for _, e := range x.Edges {
				if e != ssa.Value(x) && !fresh(e, d+1) {
					return false
				}
			}
			return true
		case *ssa.Extract:
			if call, ok := x.Tuple.(*ssa.Call); ok {
				return fresh(call, d+1)
			}
		case *ssa.UnOp:
			if x.Op == token.MUL {
				if defs, fromEntry := reachingStores(x); !fromEntry && len(defs) > 0 {
					for _, st := range defs {
						if !fresh(st.Val, d+1) {
							return false
						}
					}
					return true
				}
			}
		case *ssa.Call:
			o := calleeObj(x)
			if o == nil {
				return false
			}
			if o.Pkg() != nil && strings.Contains(o.Pkg().Path(), "saferith") {
				// z.Op(...) returns z
				if rv := recvOf(x); rv != nil {
					if o.Name() == "Abs" || o.Name() == "Nat" || o.Name() == "Big" || o.Name() == "Clone" {
						return true
					}
					return fresh(rv, d+1)
				}
				return true // constructors (ModulusFromNat, ...)
			}
			// module functions returning new numbers: samplers, Dec, Exp, MakeInt, challenge, ...
			if o.Pkg() != nil && strings.HasPrefix(o.Pkg().Path(), modPath) {
				return true
			}
		}
		return false
	}
	for _, fn := range fns {
		fn := fn
		cnt := map[string]int{}
		allInstrs(fn, func(in ssa.Instruction) {
			call, ok := in.(*ssa.Call)
			if !ok {
				return
			}
			f := call.Call.StaticCallee()
			if f == nil || f.Pkg == nil || !strings.Contains(f.Pkg.Pkg.Path(), "saferith") || f.Signature.Recv() == nil {
				return
			}
			if pure, known := saferithPure[f.Name()]; known && pure {
				return
			}
			rn := namedOf(derefType(f.Signature.Recv().Type()))
			if rn == nil || (rn.Obj().Name() != "Int" && rn.Obj().Name() != "Nat") {
				return
			}
			if f.Name() == "Mod" && rn.Obj().Name() == "Int" {
				return // Int.Mod(m) returns a new Nat and leaves the receiver alone
			}
			rv := recvOf(call)
			r.Analysed(c.FuncName(fn))
			isFresh := fresh(rv, 0)
			lbl := "fresh"
			if !isFresh {
				lbl = strings.Join(paramFields(fn, rv), "+")
			}
			cnt[f.Name()+lbl]++
			if isFresh && cnt[f.Name()+lbl] > 1 {
				return // one instance per (method, fresh) and function is enough for the count
			}
			r.Check(rule, fmt.Sprintf("%s|%s on %s #%d", c.FuncName(fn), f.Name(), lbl, cnt[f.Name()+lbl]), c.Pos(call.Pos()), isFresh,
				"the destination of the big-number operation is an object created in this function",
				fmt.Sprintf("%s.%s writes into %s, which this function did not create: the stored value (message, proof, table entry or key material) is changed for every later reader", rn.Obj().Name(), f.Name(), path(rv)))
		})
	}
}

// checkClones: CLONE-1. A Clone/Copy method of a module type returns an object that shares no reference-typed
// field with its receiver (in-place operations on the copy must not reach the original).
func checkClones(c *Ctx, r *Run, rule string) {
	isRef := func(t types.Type) bool {
		switch t.Underlying().(type) {
		case *types.Pointer, *types.Map, *types.Slice:
			return true
		}
		return false
	}
	for _, p := range c.LibPkgs() {
		for _, fn := range funcsOfPkg(c, c.SSA[p.Types]) {
			if fn.Parent() != nil || fn.Signature.Recv() == nil || len(fn.Params) != 1 {
				continue
			}
			switch fn.Name() {
			case "Clone", "Copy", "copy":
			default:
				continue
			}
			T := namedOf(derefType(fn.Signature.Recv().Type()))
			if T == nil {
				continue
			}
			st, isStruct := T.Underlying().(*types.Struct)
			if !isStruct {
				continue
			}
			refs := 0
			for i := 0; i < st.NumFields(); i++ {
				if isRef(st.Field(i).Type()) {
					refs++
				}
			}
			if refs == 0 {
				continue
			}
			name := c.FuncName(fn)
			r.Analysed(name)
			recv := ssa.Value(fn.Params[0])
			shared := ""
			for _, ret := range returnsOf(fn) {
				if len(ret.Results) == 0 {
					continue
				}
				v := stripConv(ret.Results[0])
				a, ok := v.(*ssa.Alloc)
				if !ok {
					continue
				}
				// whole-struct copy of the receiver: `return &ct` / `c := *p; return &c`
				if sv := singleStore(a); sv != nil {
					sv = stripConv(sv)
					if sv == recv {
						shared = "the returned object is the receiver's struct copied as a whole"
					}
					if u, ok := sv.(*ssa.UnOp); ok && u.Op == token.MUL && u.X == recv {
						shared = "the returned object is *receiver copied as a whole"
					}
				}
				for _, ref := range *a.Referrers() {
					fa, ok := ref.(*ssa.FieldAddr)
					if !ok {
						continue
					}
					if !isRef(fa.Type().(*types.Pointer).Elem()) {
						continue
					}
					for _, rr := range *fa.Referrers() {
						stv, ok := rr.(*ssa.Store)
						if !ok || stv.Addr != ssa.Value(fa) {
							continue
						}
						val := stripConv(stv.Val)
						// a direct load of the receiver's same-named field
						if u, ok := val.(*ssa.UnOp); ok && u.Op == token.MUL {
							if f2, ok := u.X.(*ssa.FieldAddr); ok && fieldName(f2.X.Type(), f2.Field) == fieldName(fa.X.Type(), fa.Field) && strings.HasPrefix(path(f2.X), fn.Params[0].Name()) {
								// immutable-by-convention fields (moduli, curves) may be shared
								if n := namedOf(derefType(f2.Type().(*types.Pointer).Elem())); n != nil && (n.Obj().Name() == "Modulus" || n.Obj().Name() == "Curve") {
									continue
								}
								shared = "field " + fieldName(fa.X.Type(), fa.Field) + " of the copy is the receiver's own object"
							}
						}
					}
				}
			}
			r.Check(rule, name+"|deep", c.Pos(fn.Pos()), shared == "", T.Obj().Name()+"."+fn.Name()+" returns an object that shares no mutable reference field with the receiver",
				shared+": operations that update the copy in place (Add, Randomize, Negate, ...) silently change the original too")
		}
	}
}

// checkCapacities: CAP-1. saferith's plain (non-modular) operations take an announced capacity in bits and silently
// truncate the result to it. Every such call passes -1 (exact size) or a capacity computed from the full modulus the
// value lives under — never from one prime factor, which is half as wide.
func checkCapacities(c *Ctx, r *Run, rule string) {
	r.Rule(rule, "announced capacities of plain big-number operations are -1 or derived from the full modulus, never from a prime factor")
	capOps := map[string]bool{"Mul": true, "Add": true, "Sub": true, "Lsh": true, "Rsh": true}
	for _, p := range c.LibPkgs() {
		for _, top := range funcsOfPkg(c, c.SSA[p.Types]) {
			withAnon(top, func(fn *ssa.Function) {
				nth := map[string]int{}
				allInstrs(fn, func(in ssa.Instruction) {
					call, ok := in.(*ssa.Call)
					if !ok {
						return
					}
					f := call.Call.StaticCallee()
					if f == nil || f.Pkg == nil || !strings.HasSuffix(f.Pkg.Pkg.Path(), "cronokirby/saferith") || !capOps[f.Name()] || f.Signature.Recv() == nil {
						return
					}
					ps := f.Signature.Params()
					if ps.Len() == 0 {
						return
					}
					if b, isB := ps.At(ps.Len() - 1).Type().Underlying().(*types.Basic); !isB || b.Kind() != types.Int {
						return
					}
					capV := call.Call.Args[len(call.Call.Args)-1]
					nth[f.Name()]++
					key := fmt.Sprintf("%s|%s #%d|capacity", c.FuncName(fn), f.Name(), nth[f.Name()])
					if k, isC := constInt(capV); isC {
						r.Check(rule, key, c.Pos(call.Pos()), k == -1, "exact-size result (-1)",
							fmt.Sprintf("the result is truncated to a constant %d bits", k))
						return
					}
					// computed capacity: every BitLen it is built from is taken of a full modulus
					bad := ""
					nBL := 0
					dependsOn(capV, func(v ssa.Value) bool {
						bl, isCall := v.(*ssa.Call)
						if !isCall {
							return false
						}
						g := bl.Call.StaticCallee()
						if g == nil || g.Name() != "BitLen" {
							return false
						}
						nBL++
						if len(bl.Call.Args) == 0 {
							return false
						}
						of := path(bl.Call.Args[0])
						last := of
						if i := strings.LastIndexByte(of, '.'); i >= 0 {
							last = of[i+1:]
						}
						switch strings.ToLower(last) {
						case "p", "q", "pnat", "qnat", "psquared", "qsquared", "p2", "q2":
							bad = of
						}
						return false
					})
					ok = bad == "" && nBL > 0
					detail := "the announced capacity " + path(capV) + " is computed from " + bad + ", one prime factor: for factors of unequal width the product/sum needs more bits than that and saferith silently drops the top bits (results modulo N or N² come out wrong for part of the operands)"
					if nBL == 0 {
						detail = "the announced capacity " + path(capV) + " is neither -1 nor computed from the bit length of the modulus: it is not known to hold the result, and saferith truncates silently"
					}
					r.Check(rule, key, c.Pos(call.Pos()), ok, "capacity from the full modulus", detail)
				})
			})
		}
	}
}
