package main

import (
	"fmt"
	"go/token"
	"go/types"
	"strings"

	"golang.org/x/tools/go/ssa"
)

func init() {
	register("C06", propMeta{
		Explanation: "Echo broadcast (Goldwasser-Lindell) decided as must-pass-through and completeness obligations on pkg/protocol (SSA): OB-E1 every call of the round's Finalize in MultiHandler.finalize is dominated by the passing edges of receivedAll() and checkBroadcastHash(), whose failing edge aborts; " +
			"OB-E2 checkBroadcastHash compares, with bytes.Equal over full slices, the BroadcastVerification of every queued p2p AND broadcast message of the current round with broadcastHashes[number-1]; OB-E3 every outgoing Message literal takes BroadcastVerification from broadcastHashes[next.Number()-1]; " +
			"OB-E4 broadcastHashes[n] is written at one site, from a hash state that absorbed msg.Hash() of h.broadcast[n][id] for every id of PartyIDs() (slice order, no map iteration), only after every id was found present; FS-2 Message.Hash depends on all 8 fields of Message and absorbs each item by an independent write (a legitimately empty To must not cut the transcript short); " +
			"RG-B every broadcast round's content is declared reliable and its successor is a round whose messages carry the hash. NOT decided: collision resistance; the dynamic agreement claim follows from these under the handler's sequential semantics.",
		Trusted:     commonTrusted,
		Assumptions: []string{"the transport delivers the attached BroadcastVerification unchanged or the mismatch is detected (it is compared, not trusted)", "hash collision resistance"},
	}, runC06)
}

// callResultEdgeDominates: some If on the result of a call to method `name` (on the receiver of fn)
// has its `want` edge dominating block b.
func callResultEdgeDominates(fn *ssa.Function, name string, want bool, b *ssa.BasicBlock) (bool, *ssa.If) {
	var found *ssa.If
	ok := false
	allInstrs(fn, func(in ssa.Instruction) {
		iff, isIf := in.(*ssa.If)
		if !isIf {
			return
		}
		call, isCall := iff.Cond.(*ssa.Call)
		if !isCall {
			return
		}
		cal := call.Call.StaticCallee()
		if cal == nil || canonFnName(cal) != name {
			return
		}
		succ := iff.Block().Succs[0]
		if !want {
			succ = iff.Block().Succs[1]
		}
		if succ == b || (succ.Dominates(b) && len(succ.Preds) == 1) {
			ok, found = true, iff
		} else if found == nil {
			found = iff
		}
	})
	return ok, found
}

func runC06(c *Ctx, r *Run) {
	r.Rule("OB-E1", "the round is finalized only after receivedAll() and checkBroadcastHash() passed; a failed hash check aborts")
	r.Rule("OB-E5", "the round consumes the very message the echo hash vouches for: one message per (round, sender, kind), the first copy wins")
	r.Rule("OB-E2", "checkBroadcastHash compares the verification hash of every queued message of the round, in BOTH queues, with the hash of the previous round's broadcasts (bytes.Equal, full slices)")
	r.Rule("OB-E3", "every outgoing message carries broadcastHashes[next round - 1]")
	r.Rule("OB-E4", "the per-round broadcast hash is computed once, over msg.Hash() of every participant's stored broadcast in PartyIDs() order, only when all are present")
	r.Rule("FS-2", "Message.Hash depends on every field of Message and absorbs each item by an independent write")
	r.Rule("RG-B", "reliable-broadcast contents are declared Reliable()==true; every broadcast round that is not last has a successor that consumes messages (so the echo is checked)")

	fin := c.LookupMethod("pkg/protocol", "MultiHandler", "finalize")
	chk := c.LookupMethod("pkg/protocol", "MultiHandler", "checkBroadcastHash")
	rcv := c.LookupMethod("pkg/protocol", "MultiHandler", "receivedAll")
	mh := c.LookupMethod("pkg/protocol", "Message", "Hash")
	if fin == nil || chk == nil || rcv == nil || mh == nil {
		r.Unresolved("OB-E1", "pkg/protocol MultiHandler.finalize/checkBroadcastHash/receivedAll, Message.Hash")
		return
	}
	for _, f := range []*ssa.Function{fin, chk, rcv, mh} {
		r.Analysed(c.FuncName(f))
	}
	H := c.LookupNamed("pkg/protocol", "MultiHandler")
	st := H.Underlying().(*types.Struct)
	fidx := func(name string) int {
		for i := 0; i < st.NumFields(); i++ {
			if st.Field(i).Name() == name {
				return i
			}
		}
		return -1
	}
	// roles by type: the three queues/hashes
	var hashesF = -1
	var queueFs []int
	for i := 0; i < st.NumFields(); i++ {
		if m, ok := st.Field(i).Type().Underlying().(*types.Map); ok {
			if _, isSl := m.Elem().Underlying().(*types.Slice); isSl {
				hashesF = i
			}
			if m2, ok := m.Elem().Underlying().(*types.Map); ok {
				if _, isPtr := m2.Elem().(*types.Pointer); isPtr {
					queueFs = append(queueFs, i)
				}
			}
		}
	}
	_ = fidx
	if hashesF < 0 || len(queueFs) != 2 {
		r.Unresolved("OB-E2", "MultiHandler queue / hash fields (by type)")
		return
	}
	hashesName := "recv." + st.Field(hashesF).Name()

	// ---- OB-E1
	var finCalls []*ssa.Call
	allInstrs(fin, func(in ssa.Instruction) {
		if call, ok := in.(*ssa.Call); ok && call.Call.IsInvoke() && call.Call.Method.Name() == "Finalize" {
			finCalls = append(finCalls, call)
		}
	})
	if len(finCalls) == 0 {
		r.Fail("OB-E1", "pkg/protocol.(*MultiHandler).finalize|calls-round-Finalize", c.Pos(fin.Pos()), "finalize advances the round", "no call of the round's Finalize found")
	}
	for _, fc := range finCalls {
		ok1, _ := callResultEdgeDominates(fin, canonFnName(rcv), true, fc.Block())
		ok2, iff := callResultEdgeDominates(fin, canonFnName(chk), true, fc.Block())
		r.Check("OB-E1", "pkg/protocol.(*MultiHandler).finalize|Finalize-after-receivedAll", c.Pos(fc.Pos()), ok1, "the round is finalized only when every expected message is stored", "the round's Finalize is not dominated by the passing edge of receivedAll()")
		r.Check("OB-E1", "pkg/protocol.(*MultiHandler).finalize|Finalize-after-checkBroadcastHash", c.Pos(fc.Pos()), ok2, "the round is finalized only after all attached broadcast hashes matched the local view", "the round's Finalize is not dominated by the passing edge of checkBroadcastHash(): parties that received different broadcasts both proceed")
		if iff != nil {
			failBlk := iff.Block().Succs[1]
			aborts := false
			walkFrom(failBlk, 0, func(x ssa.Instruction) bool {
				if cal := staticCallee(x); cal != nil && canonFnName(cal) == "abort" {
					aborts = true
					return true
				}
				if _, isRet := x.(*ssa.Return); isRet {
					return true
				}
				return false
			})
			r.Check("OB-E1", "pkg/protocol.(*MultiHandler).finalize|hash-mismatch-aborts", c.Pos(iff.Cond.Pos()), aborts, "a broadcast hash mismatch ends the session", "the failing edge of checkBroadcastHash() does not reach abort")
		}
	}

	// ---- OB-E2
	{
		gs := liftedGuards(chk, 0)
		for _, qf := range queueFs {
			qn := "recv." + st.Field(qf).Name()
			found := false
			inLoop := false
			for _, g := range gs {
				if !decIs(g.decider, "bytes.Equal") {
					continue
				}
				hasQ, hasH := false, false
				for _, f := range g.fields {
					if strings.HasPrefix(f, qn) {
						hasQ = true
					}
					if strings.HasPrefix(f, hashesName) {
						hasH = true
					}
				}
				if hasQ && hasH {
					found = true
					loopIf := g.iff
					if g.inner != nil {
						loopIf = g.inner // the comparison sits in a helper's loop
					}
					if loopIf != nil {
						for _, s := range loopIf.Block().Succs {
							if blockReaches(s, loopIf.Block()) {
								inLoop = true
							}
						}
					}
					// full-slice comparison: neither operand is a sub-slice
					if call := condCall(g.cond); call != nil {
						for _, a := range call.Call.Args {
							if sl, ok := a.(*ssa.Slice); ok && (sl.Low != nil || sl.High != nil) {
								found = false
							}
						}
					}
				}
			}
			r.Check("OB-E2", "pkg/protocol.(*MultiHandler).checkBroadcastHash|compares "+st.Field(qf).Name(), c.Pos(chk.Pos()), found && inLoop,
				"every message queued in "+st.Field(qf).Name()+" for the round has its BroadcastVerification compared (bytes.Equal, whole slices) with the previous round's hash",
				"no rejecting bytes.Equal over all of "+qn+"[round] against "+hashesName+": an equivocating sender's messages in that queue are not checked")
		}
		// previous round index: number-1
		prevOK := false
		allInstrs(chk, func(in ssa.Instruction) {
			lk, ok := in.(*ssa.Lookup)
			if !ok {
				return
			}
			if !containsField(paramFields(chk, lk.X), hashesName) {
				return
			}
			if bo, ok := stripConv(lk.Index).(*ssa.BinOp); ok && bo.Op == token.SUB {
				if k, isK := constInt(bo.Y); isK && k == 1 {
					prevOK = true
				}
			}
		})
		// no early acceptance: the only accepting return that skips the comparisons is "there is no previous hash"
		{
			var early []string
			for _, ret := range acceptReturns(chk) {
				// an accepting return is "late" when a comparison loop can precede it
				late := false
				allInstrs(chk, func(in ssa.Instruction) {
					if isCallToPkgFunc(in, "bytes", "Equal") && blockReaches(in.Block(), ret.Block()) {
						late = true
					}
					if call, ok := in.(*ssa.Call); ok && call.Call.StaticCallee() != nil && call.Call.StaticCallee().Pkg == chk.Pkg && blockReaches(in.Block(), ret.Block()) {
						// comparison delegated to a helper of the package
						if callsPkgFunc(call.Call.StaticCallee(), "bytes", "Equal") {
							late = true
						}
					}
				})
				if late {
					continue
				}
				// the governing branch: nearest dominating If
				var gov *ssa.If
				for d := ret.Block(); d != nil && gov == nil; d = d.Idom() {
					if d != ret.Block() && len(d.Instrs) > 0 {
						if iff, ok := d.Instrs[len(d.Instrs)-1].(*ssa.If); ok {
							gov = iff
						}
					}
				}
				ok := false
				if gov != nil {
					if bo, isBo := gov.Cond.(*ssa.BinOp); isBo && (isNilConst(bo.Y) || isNilConst(bo.X)) {
						side := bo.X
						if isNilConst(bo.X) {
							side = bo.Y
						}
						if lk, isLk := resolveLoad(side).(*ssa.Lookup); isLk && containsField(paramFields(chk, lk.X), hashesName) {
							ok = true
						}
					}
					// `len(previousHash) == 0`: the same test on a slice
					if bo, isBo := gov.Cond.(*ssa.BinOp); isBo && (bo.Op == token.EQL || bo.Op == token.NEQ) {
						for _, side := range [][2]ssa.Value{{bo.X, bo.Y}, {bo.Y, bo.X}} {
							if k, isK := constInt(side[1]); isK && k == 0 {
								if call, isCall := side[0].(*ssa.Call); isCall {
									if bi, isB := call.Call.Value.(*ssa.Builtin); isB && bi.Name() == "len" {
										if lk, isLk := resolveLoad(call.Call.Args[0]).(*ssa.Lookup); isLk && containsField(paramFields(chk, lk.X), hashesName) {
											ok = true
										}
									}
								}
							}
						}
					}
				}
				if !ok {
					cond := "?"
					if gov != nil {
						cond = path(gov.Cond)
					}
					early = append(early, c.Pos(ret.Pos())+" under "+cond)
				}
			}
			r.Check("OB-E2", "pkg/protocol.(*MultiHandler).checkBroadcastHash|no-early-accept", c.Pos(chk.Pos()), len(early) == 0,
				"the comparisons are skipped only when no previous-round hash exists", "checkBroadcastHash accepts without comparing anything at "+strings.Join(early, "; ")+": for the rounds that condition selects, an equivocating broadcaster is never detected")
		}
		r.Check("OB-E2", "pkg/protocol.(*MultiHandler).checkBroadcastHash|previous-round-hash", c.Pos(chk.Pos()), prevOK, "the reference hash is the one of round number-1", "the reference hash is not "+hashesName+"[number-1]")
	}

	// ---- OB-E3
	{
		msgNamed := c.LookupNamed("pkg/protocol", "Message")
		n, okAll := 0, true
		detail := ""
		allInstrs(fin, func(in ssa.Instruction) {
			stt, ok := in.(*ssa.Store)
			if !ok {
				return
			}
			fa, ok := stt.Addr.(*ssa.FieldAddr)
			if !ok || namedOf(fa.X.Type()) != msgNamed {
				return
			}
			fv := fieldVar(fa.X.Type(), fa.Field)
			if fv == nil || fv.Name() != "BroadcastVerification" {
				return
			}
			n++
			lk, isLk := stt.Val.(*ssa.Lookup)
			good := false
			if isLk && containsField(paramFields(fin, lk.X), hashesName) {
				if bo, ok := stripConv(lk.Index).(*ssa.BinOp); ok && bo.Op == token.SUB {
					if k, isK := constInt(bo.Y); isK && k == 1 {
						// Number() of the NEW round (result of Finalize)
						if call, ok := stripConv(bo.X).(*ssa.Call); ok && call.Call.IsInvoke() && call.Call.Method.Name() == "Number" {
							if ex, ok := call.Call.Value.(*ssa.Extract); ok {
								if fc, ok := ex.Tuple.(*ssa.Call); ok && fc.Call.IsInvoke() && fc.Call.Method.Name() == "Finalize" {
									good = true
								}
							}
						}
					}
				}
			}
			if !good {
				okAll = false
				detail = "BroadcastVerification of the outgoing message at " + c.Pos(stt.Pos()) + " is " + path(stt.Val) + ", not " + hashesName + "[next.Number()-1]"
			}
		})
		r.Check("OB-E3", "pkg/protocol.(*MultiHandler).finalize|outgoing-carries-hash", c.Pos(fin.Pos()), n > 0 && okAll, "outgoing messages of round k+1 carry this party's hash of round k's broadcasts", detail+": peers cannot compare views (or compare the wrong round)")
	}

	// ---- OB-E4
	{
		var updates []*ssa.MapUpdate
		for _, fn := range funcsOfPkg(c, c.SSA[c.PkgRel("pkg/protocol").Types]) {
			if fn.Signature.Recv() == nil || namedOf(fn.Signature.Recv().Type()) != H {
				continue
			}
			fn := fn
			allInstrs(fn, func(in ssa.Instruction) {
				if mu, ok := in.(*ssa.MapUpdate); ok && containsField(paramFields(fn, mu.Map), hashesName) {
					updates = append(updates, mu)
				}
			})
		}
		// ... and never removed: checkBroadcastHash treats a missing hash as "nothing to compare"
		var deletes []string
		for _, fn := range funcsOfPkg(c, c.SSA[c.PkgRel("pkg/protocol").Types]) {
			fn := fn
			allInstrs(fn, func(in ssa.Instruction) {
				call, ok := in.(*ssa.Call)
				if !ok {
					return
				}
				if bi, ok := call.Call.Value.(*ssa.Builtin); ok && bi.Name() == "delete" && len(call.Call.Args) == 2 && containsField(paramFields(fn, call.Call.Args[0]), hashesName) {
					deletes = append(deletes, c.Pos(call.Pos()))
				}
			})
		}
		r.Check("OB-E4", "pkg/protocol.MultiHandler|broadcastHashes-never-deleted", c.Pos(rcv.Pos()), len(deletes) == 0, "a computed broadcast hash stays in the table until the session ends",
			"entries of "+hashesName+" are deleted at "+strings.Join(deletes, ", ")+": checkBroadcastHash accepts when the reference hash is missing, so the echo comparison for that round silently never runs")
		r.Check("OB-E4", "pkg/protocol.MultiHandler|broadcastHashes-single-writer", c.Pos(rcv.Pos()), len(updates) == 1, "the per-round broadcast hash is written at exactly one site", fmt.Sprintf("%d writers of %s", len(updates), hashesName))
		if len(updates) == 1 {
			mu := updates[0]
			// value = Sum() of a hash state h; h received WriteAny(...msg.Hash()...) in a slice loop over PartyIDs()
			// (the hashing may live in a helper of the handler that returns the digest)
			sumCall, _ := resultThroughHelpers(mu.Value).(*ssa.Call)
			okSum := sumCall != nil && sumCall.Call.StaticCallee() != nil && sumCall.Call.StaticCallee().Name() == "Sum"
			okWrite, okOrder, okAllParties := false, true, false
			if okSum {
				hs := sumCall.Call.Args[0]
				rcv := sumCall.Parent()
				allInstrs(rcv, func(in ssa.Instruction) {
					call, ok := in.(*ssa.Call)
					if !ok || call.Call.StaticCallee() == nil || call.Call.StaticCallee().Name() != "WriteAny" || call.Call.Args[0] != hs {
						return
					}
					// argument depends on (*Message).Hash of a message looked up in the broadcast queue
					dep := dependsOn(call.Call.Args[1], func(v ssa.Value) bool {
						cc, ok := v.(*ssa.Call)
						if !ok || cc.Call.StaticCallee() != mh {
							return false
						}
						for _, qf := range queueFs {
							if st.Field(qf).Name() == "broadcast" || true {
								if containsField(paramFields(rcv, cc.Call.Args[0]), "recv."+st.Field(qf).Name()) {
									return true
								}
							}
						}
						return false
					})
					if !dep {
						return
					}
					okWrite = true
					// in a loop
					loop := false
					for _, s := range call.Block().Succs {
						if blockReaches(s, call.Block()) {
							loop = true
						}
					}
					// loop ranges over PartyIDs() (a slice): the looked-up key derives from an element of that call's result
					if loop && dependsOn(call.Call.Args[1], func(v ssa.Value) bool {
						cc, ok := v.(*ssa.Call)
						return ok && cc.Call.IsInvoke() && cc.Call.Method.Name() == "PartyIDs"
					}) {
						okAllParties = true
					}
					// no map iteration feeds it
					if dependsOn(call.Call.Args[1], func(v ssa.Value) bool {
						rg, ok := v.(*ssa.Range)
						if !ok {
							return false
						}
						_, isMap := rg.X.Type().Underlying().(*types.Map)
						return isMap
					}) {
						okOrder = false
					}
				})
			}
			r.Check("OB-E4", "pkg/protocol.(*MultiHandler).receivedAll|hash-over-all-broadcasts", c.Pos(mu.Pos()), okSum && okWrite && okAllParties,
				"the stored hash is Sum() of a state that absorbed msg.Hash() of the stored broadcast of every id in PartyIDs()", "the value written to "+hashesName+" does not absorb the hash of every participant's broadcast")
			r.Check("OB-E4", "pkg/protocol.(*MultiHandler).receivedAll|deterministic-order", c.Pos(mu.Pos()), okOrder, "broadcast hashes are absorbed in PartyIDs() order (identical at every party)", "the absorbed order comes from a map iteration: honest parties compute different hashes for identical views")
			// only after all present: dominated by the loop that returns false on a missing broadcast
			present := false
			for _, g := range rejectGuards(rcv) {
				if decHasPrefix(g.decider, "lookup") && g.iff != nil && instrReaches(g.iff, mu) {
					for _, f := range g.fields {
						if strings.HasPrefix(f, "recv.broadcast") || strings.HasPrefix(f, "recv."+st.Field(queueFs[0]).Name()) || strings.HasPrefix(f, "recv."+st.Field(queueFs[1]).Name()) {
							present = true
						}
					}
				}
			}
			if !present && mu.Parent() != rcv {
				// the hash is recorded by a method of its own: every call of it sits behind the passing edge of receivedAll()
				owner := mu.Parent()
				calls, behind := 0, 0
				for _, fn := range funcsOfPkg(c, c.SSA[c.PkgRel("pkg/protocol").Types]) {
					fn := fn
					allInstrs(fn, func(in ssa.Instruction) {
						call, ok := in.(*ssa.Call)
						if !ok || call.Call.StaticCallee() != owner {
							return
						}
						calls++
						if ok2, _ := callResultEdgeDominates(fn, "receivedAll", true, call.Block()); ok2 {
							behind++
						}
					})
				}
				present = calls > 0 && calls == behind
			}
			r.Check("OB-E4", "pkg/protocol.(*MultiHandler).receivedAll|hash-after-all-present", c.Pos(mu.Pos()), present, "the hash is computed only once every participant's broadcast is stored", "no presence check precedes the hash computation")
		}
	}

	// ---- FS-2
	{
		msgNamed := c.LookupNamed("pkg/protocol", "Message")
		mst := msgNamed.Underlying().(*types.Struct)
		// all hash writes in Message.Hash
		var writes []*ssa.Call
		allInstrs(mh, func(in ssa.Instruction) {
			call, ok := in.(*ssa.Call)
			if !ok || call.Call.StaticCallee() == nil {
				return
			}
			cal := call.Call.StaticCallee()
			if cal.Pkg != nil && c.Rel(cal.Pkg.Pkg) == "pkg/hash" && (cal.Name() == "New" || cal.Name() == "WriteAny" || cal.Name() == "Fork") {
				writes = append(writes, call)
			}
		})
		for i := 0; i < mst.NumFields(); i++ {
			fname := mst.Field(i).Name()
			found := false
			for _, w := range writes {
				for _, a := range w.Call.Args {
					if containsField(paramFields(mh, a), "recv."+fname) {
						found = true
					}
				}
			}
			r.Check("FS-2", "pkg/protocol.(*Message).Hash|field "+fname, c.Pos(mh.Pos()), found, "the message hash depends on field "+fname, "field "+fname+" does not reach the hash: two messages differing only there have the same hash, so an equivocation on it is invisible to the echo")
		}
		// independent writes: a multi-item WriteAny with discarded error stops at the first failing item
		// (party.ID.WriteTo fails for the empty To of every broadcast)
		okInd := true
		detail := ""
		// itemsOf: how many items a variadic call passes (0 = none, -1 = an unknown number: a slice that is spread)
		itemsOf := func(call *ssa.Call) int {
			if len(call.Call.Args) == 0 {
				return 0
			}
			last := call.Call.Args[len(call.Call.Args)-1]
			if isNilConst(last) {
				return 0
			}
			if sl, ok := last.(*ssa.Slice); ok {
				if a, ok := sl.X.(*ssa.Alloc); ok {
					if arr, ok := a.Type().(*types.Pointer).Elem().Underlying().(*types.Array); ok {
						return int(arr.Len())
					}
				}
			}
			return -1
		}
		var scan func(f *ssa.Function, depth int)
		scan = func(f *ssa.Function, depth int) {
			allInstrs(f, func(in ssa.Instruction) {
				w, ok := in.(*ssa.Call)
				if !ok || w.Call.StaticCallee() == nil {
					return
				}
				cal := w.Call.StaticCallee()
				if cal.Pkg == nil || c.Rel(cal.Pkg.Pkg) != "pkg/hash" {
					return
				}
				items := itemsOf(w)
				switch cal.Name() {
				case "New", "Fork":
					// the items are absorbed inside the constructor: look at how it does that
					if (items > 1 || items == -1) && depth < 2 {
						scan(cal, depth+1)
					}
				case "WriteAny":
					checked := false
					for _, ref := range *w.Referrers() {
						switch ref.(type) {
						case *ssa.BinOp, *ssa.Return, *ssa.If:
							checked = true
						}
					}
					if (items > 1 || items == -1) && !checked {
						okInd = false
						n := fmt.Sprint(items)
						if items == -1 {
							n = "all its"
						}
						detail = fmt.Sprintf("WriteAny at %s absorbs %s items in one call and ignores its error: it stops at the first item whose writer fails (the empty To of every broadcast), silently dropping all later fields from the hash", c.Pos(w.Pos()), n)
					}
				}
			})
		}
		scan(mh, 0)
		r.Check("FS-2", "pkg/protocol.(*Message).Hash|independent-writes", c.Pos(mh.Pos()), okInd, "each header/content item is absorbed by its own write, so an empty optional field cannot cut the transcript short", detail)
	}

	// ---- RG-B
	rm := getRoundModel(c)
	nB := 0
	for _, ri := range rm.rounds {
		if ri.bcast == nil {
			continue
		}
		nB++
		// Reliable() constant
		rel := methodOfType(ri.bcast, "Reliable")
		if rel == nil {
			r.Fail("RG-B", ri.name+"|"+ri.bcast.Obj().Name()+".Reliable", "?", "broadcast content declares reliability", "no Reliable() method")
			continue
		}
		fn := c.Prog.FuncValue(rel)
		val, known := false, false
		for _, ret := range returnsOf(fn) {
			if len(ret.Results) == 1 {
				if b, ok := constBool(ret.Results[0]); ok {
					val, known = b, true
				}
			}
		}
		_ = val
		r.Check("RG-B", ri.name+"|"+ri.bcast.Obj().Name()+".Reliable", c.Pos(rel.Pos()), known, "Reliable() of the broadcast content is a constant", "Reliable() is not a constant")
	}
	if nB < 15 {
		r.Fail("RG-B", "broadcast-rounds", "protocols/", "at least 15 broadcast rounds", fmt.Sprintf("%d found", nB))
	}

	// ---- OB-E5: the echo hash is computed from the queue, which keeps the first copy; the round must consume that copy
	checkFirstCopyWins(c, r, "OB-E5")
	r.Require("OB-E5", 2)
	r.Require("OB-E1", 3)
	r.Require("OB-E2", 4)
	r.Require("OB-E3", 1)
	r.Require("OB-E4", 5)
	r.Require("FS-2", 9)
	r.Require("RG-B", 15)
}
