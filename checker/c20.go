package main

import (
	"fmt"
	"go/token"
	"go/types"
	"sort"
	"strings"

	"golang.org/x/tools/go/ssa"
)

func init() {
	register("C20", propMeta{
		Explanation: "Start-function discipline decided on SSA over every exported function returning protocol.StartFunc (and the closure it returns), round.NewSession and the two handler constructors. " +
			"START-1: a pointer parameter carrying key material (config, presignature) is dereferenced — field access or method call — only where a nil test of that parameter with an error-returning edge dominates. " +
			"START-G: guard inventory — every recorded reject guard of the start closures (nil/completeness of key material, empty message, NewSession error, signer-subset validation via CanSign or the shareholder loop, PreSignature.Validate), of NewSession (sorted/duplicate-free ids, self membership, threshold range) and of the constructors (StartFunc error surfaced) is present and covers every exit that creates a session. " +
			"TN-1: no pointer obtained from a plain map lookup is boxed into an interface without a nil test (a typed nil defeats later `== nil` shareholder checks). NOT decided: that a started session cannot stall its peers for reasons beyond the listed parameter classes.",
		Trusted:     commonTrusted,
		Assumptions: []string{"key material that passes the recorded validators is usable (its arithmetic consistency is C15/C02 territory)"},
	}, runC20)
}

// startFuncs: exported functions of protocols/* (not example) returning protocol.StartFunc, with their closures.
func startFuncs(c *Ctx) []*ssa.Function {
	var out []*ssa.Function
	sf := c.LookupNamed("pkg/protocol", "StartFunc")
	if sf == nil {
		return nil
	}
	for _, p := range c.LibPkgs() {
		if !strings.HasPrefix(c.Rel(p.Types), "protocols/") {
			continue
		}
		for _, fn := range funcsOfPkg(c, c.SSA[p.Types]) {
			if fn.Parent() != nil || fn.Signature.Recv() != nil || fn.Object() == nil || !fn.Object().Exported() {
				continue
			}
			res := fn.Signature.Results()
			if res.Len() != 1 || namedOf(res.At(0).Type()) != sf {
				continue
			}
			withAnon(fn, func(f *ssa.Function) { out = append(out, f) })
		}
	}
	sort.Slice(out, func(i, j int) bool { return c.FuncName(out[i]) < c.FuncName(out[j]) })
	return out
}

func runC20(c *Ctx, r *Run) {
	r.Rule("COVER-1", "per-element validation loops over a slice examine every element (bound = len - largest offset read)")
	r.Rule("START-1", "key material passed by pointer is dereferenced only under a nil test whose failing edge returns an error")
	r.Rule("START-G", "guard inventory of start closures, round.NewSession and the handler constructors: every recorded parameter check is present and covers every session-creating exit")
	r.Rule("TN-1", "no typed-nil boxing: a pointer taken from a plain map lookup is not converted to an interface without a nil test")

	sfs := startFuncs(c)
	if len(sfs) < 30 {
		r.Fail("START-1", "start-functions", "protocols/", "start functions resolved", fmt.Sprintf("only %d start functions/closures found", len(sfs)))
	}
	r.Note("start functions and closures: %d", len(sfs))

	// ---- START-1
	for _, fn := range sfs {
		fn := fn
		r.Analysed(c.FuncName(fn))
		var ptrs []ssa.Value
		for _, p := range fn.Params {
			if isKeyMaterialPtr(c, p.Type()) {
				ptrs = append(ptrs, p)
			}
		}
		for _, fv := range fn.FreeVars {
			if isKeyMaterialPtr(c, fv.Type()) {
				ptrs = append(ptrs, fv)
			}
		}
		// captured by reference: the closure sees *T through loads of a **T free variable
		for _, fv := range fn.FreeVars {
			if pp, ok := fv.Type().(*types.Pointer); ok && isKeyMaterialPtr(c, pp.Elem()) {
				ptrs = append(ptrs, fv)
			}
		}
		for _, P := range ptrs {
			bad := ""
			n := 0
			isP := func(v ssa.Value) bool {
				if v == P {
					return isKeyMaterialPtr(c, P.Type())
				}
				if u, ok := v.(*ssa.UnOp); ok && u.Op == token.MUL {
					if u.X == P {
						return true // load of the captured variable
					}
					// parameter spilled to a heap cell because a closure captures it
					if a, ok := u.X.(*ssa.Alloc); ok {
						if sv := singleStore(a); sv != nil && sv == P {
							return true
						}
					}
				}
				return false
			}
			nonNil := func(b *ssa.BasicBlock) bool {
				for d := b; d != nil; d = d.Idom() {
					if len(d.Preds) != 1 {
						continue
					}
					p := d.Preds[0]
					iff, ok := p.Instrs[len(p.Instrs)-1].(*ssa.If)
					if !ok {
						continue
					}
					bo, ok := iff.Cond.(*ssa.BinOp)
					if !ok || !isNilConst(bo.Y) || !isP(bo.X) {
						continue
					}
					if (bo.Op == token.EQL && p.Succs[1] == d) || (bo.Op == token.NEQ && p.Succs[0] == d) {
						return true
					}
				}
				return false
			}
			allInstrs(fn, func(in ssa.Instruction) {
				deref := false
				switch x := in.(type) {
				case *ssa.FieldAddr:
					deref = isP(x.X)
				case *ssa.UnOp:
					deref = x.Op == token.MUL && isP(x.X) && isKeyMaterialPtr(c, x.X.Type())
				case *ssa.Call:
					if cal := x.Call.StaticCallee(); cal != nil && cal.Signature.Recv() != nil && len(x.Call.Args) > 0 && isP(x.Call.Args[0]) {
						if !nilTolerantMethod(cal) {
							deref = true
						}
					}
				}
				if !deref {
					return
				}
				n++
				if !nonNil(in.Block()) {
					bad = c.Pos(in.Pos())
				}
			})
			if n == 0 {
				continue
			}
			name := P.Name()
			r.Check("START-1", c.FuncName(fn)+"|"+shortType(P.Type())+" "+name, c.Pos(fn.Pos()), bad == "",
				"parameter "+name+" is nil-tested before every dereference",
				fmt.Sprintf("%s is dereferenced at %s without a dominating nil test: a nil %s panics instead of returning an error from handler construction", name, bad, shortType(P.Type())))
		}
	}

	// ---- START-G
	names := map[string]bool{}
	for _, fn := range sfs {
		names[c.FuncName(fn)] = true
	}
	checkGuardInventory(c, r, "START-G", "round_guards.json", func(n string) bool {
		return names[n] || n == "internal/round.NewSession" || n == "pkg/protocol.NewMultiHandler" || n == "pkg/protocol.NewTwoPartyHandler" ||
			n == "pkg/ecdsa.(*PreSignature).Validate" || strings.HasSuffix(n, "config.(*Config).CanSign") || n == "protocols/cmp/config.ValidThreshold"
	})

	// ---- TN-1
	nBox := 0
	for _, p := range c.LibPkgs() {
		if !strings.HasPrefix(c.Rel(p.Types), "protocols/") {
			continue
		}
		for _, fn := range funcsOfPkg(c, c.SSA[p.Types]) {
			fn := fn
			allInstrs(fn, func(in ssa.Instruction) {
				mi, ok := in.(*ssa.MakeInterface)
				if !ok {
					return
				}
				lk, ok := mi.X.(*ssa.Lookup)
				if !ok || lk.CommaOk {
					return
				}
				if _, isPtr := lk.Type().Underlying().(*types.Pointer); !isPtr {
					return
				}
				if _, isMap := lk.X.Type().Underlying().(*types.Map); !isMap {
					return
				}
				// only when the boxed value is kept (stored into a table / field), where it will later be compared with nil
				kept := false
				for _, ref := range *mi.Referrers() {
					switch x := ref.(type) {
					case *ssa.MapUpdate:
						kept = true
					case *ssa.Store:
						if _, isField := x.Addr.(*ssa.FieldAddr); isField {
							kept = true
						}
					}
				}
				if !kept {
					return
				}
				nBox++
				r.Check("TN-1", c.FuncName(fn)+"|box "+path(lk), c.Pos(mi.Pos()), nonNilAt(mi.Block(), lk),
					"map lookup result is nil-tested before it is stored as an interface",
					fmt.Sprintf("%s (a pointer that is nil for a missing key) is converted to %s at %s without a nil test: the interface is non-nil, so later `== nil` checks (shareholder validation) pass and the nil pointer is dereferenced rounds later", path(lk), typeStr(mi.Type()), c.Pos(mi.Pos())))
			})
		}
	}
	r.Hold("TN-1", "protocols|typed-nil-scan", "protocols/", fmt.Sprintf("all MakeInterface instructions of protocols/* scanned (%d lookups boxed)", nBox))

	// COVER-1: the list validators behind every start function walk their whole input
	{
		var all []*ssa.Function
		for _, p := range c.LibPkgs() {
			for _, fn := range funcsOfPkg(c, c.SSA[p.Types]) {
				if fn.Parent() == nil {
					all = append(all, fn)
				}
			}
		}
		sort.Slice(all, func(i, j int) bool { return c.FuncName(all[i]) < c.FuncName(all[j]) })
		checkSliceCoverage(c, r, "COVER-1", all)
	}
	r.Require("COVER-1", 1)
	r.Require("START-1", 10)
	r.Require("START-G", 40)
}

// isKeyMaterialPtr: pointer to a struct of the module that is a result/config type (has a field named like a secret share or public key).
func isKeyMaterialPtr(c *Ctx, t types.Type) bool {
	pt, ok := types.Unalias(t).(*types.Pointer)
	if !ok {
		return false
	}
	n, ok := types.Unalias(pt.Elem()).(*types.Named)
	if !ok || !c.InModule(n.Obj().Pkg()) {
		return false
	}
	if _, isS := n.Underlying().(*types.Struct); !isS {
		return false
	}
	switch n.Obj().Name() {
	case "Config", "TaprootConfig", "ConfigReceiver", "ConfigSender", "PreSignature":
		return true
	}
	return false
}

// nilTolerantMethod: the method starts with a nil test of its receiver.
func nilTolerantMethod(fn *ssa.Function) bool {
	if len(fn.Blocks) == 0 || len(fn.Params) == 0 {
		return false
	}
	b := fn.Blocks[0]
	iff, ok := b.Instrs[len(b.Instrs)-1].(*ssa.If)
	if !ok {
		return false
	}
	bo, ok := iff.Cond.(*ssa.BinOp)
	if !ok || bo.X != ssa.Value(fn.Params[0]) || !isNilConst(bo.Y) {
		return false
	}
	// nothing before it dereferences the receiver
	for _, in := range b.Instrs {
		if fa, ok := in.(*ssa.FieldAddr); ok && fa.X == ssa.Value(fn.Params[0]) {
			return false
		}
	}
	return true
}

// nonNilAt: block b is only reached when v != nil (dominating branch edges).
func nonNilAt(b *ssa.BasicBlock, v ssa.Value) bool {
	for d := b; d != nil; d = d.Idom() {
		if len(d.Preds) != 1 {
			continue
		}
		p := d.Preds[0]
		iff, ok := p.Instrs[len(p.Instrs)-1].(*ssa.If)
		if !ok {
			continue
		}
		bo, ok := iff.Cond.(*ssa.BinOp)
		if !ok || !isNilConst(bo.Y) {
			continue
		}
		if bo.X != v && resolveLoad(bo.X) != v {
			continue
		}
		if (bo.Op == token.EQL && p.Succs[1] == d) || (bo.Op == token.NEQ && p.Succs[0] == d) {
			return true
		}
	}
	return false
}
