package main

import (
	"fmt"
	"os"
	"strings"
)

func init() {
	if os.Getenv("MPS_DBG") == "" {
		return
	}
	register("DBG", propMeta{}, func(c *Ctx, r *Run) {
		for _, spec := range strings.Split(os.Getenv("MPS_DBG"), ",") {
			parts := strings.Split(spec, ":")
			fn := c.LookupMethod(parts[0], parts[1], parts[2])
			if len(parts) == 3 && parts[1] == "" {
				fn = c.LookupFunc(parts[0], parts[2])
			}
			if fn == nil {
				fmt.Println("not found", spec)
				continue
			}
			fmt.Println("==", c.FuncName(fn))
			for _, g := range liftedGuards(fn, 0) {
				fmt.Println("G:", g.key(), "covers:", guardCoversAccepts(g), c.Pos(g.pos))
			}
		}
	})
}

func init() {
	if os.Getenv("MPS_DBG2") == "" {
		return
	}
	register("DBG2", propMeta{}, func(c *Ctx, r *Run) {
		for _, fn := range startFuncs(c) {
			fmt.Println("SF:", c.FuncName(fn), len(fn.Params))
			for _, p := range fn.Params {
				fmt.Println("   param", p.Name(), p.Type(), isKeyMaterialPtr(c, p.Type()))
			}
		}
	})
}
