package main

import (
	"fmt"
	"os"
)

func init() {
	if os.Getenv("MPS_DBG") == "" {
		return
	}
	register("DBG", propMeta{}, func(c *Ctx, r *Run) {
		fn := c.LookupMethod("protocols/cmp/sign", "round3", "VerifyMessage")
		for _, g := range liftedGuards(fn, 0) {
			fmt.Println("G:", g.key(), guardCoversAccepts(g))
		}
		h := c.LookupMethod("protocols/cmp/sign", "round3", "verifyMtA")
		if h != nil {
			for i := range h.Params {
				fmt.Println("param", i, paramLabel(h, i))
			}
			for _, g := range rejectGuards(h) {
				fmt.Println("H:", g.key())
			}
		}
	})
}
