package main

import (
	"fmt"
	"golang.org/x/tools/go/ssa"
	"os"
	"strings"
)

func init() {
	if os.Getenv("MPS_DBG") == "" {
		return
	}
	register("DBG", propMeta{}, func(c *Ctx, r *Run) {
		for _, spec := range strings.Split(os.Getenv("MPS_DBG"), ",") {
			parts := strings.Split(spec, ":")
			name, anon := parts[2], -1
			if i := strings.IndexByte(name, '$'); i > 0 {
				fmt.Sscanf(name[i+1:], "%d", &anon)
				name = name[:i]
			}
			fn := c.LookupMethod(parts[0], parts[1], name)
			if len(parts) == 3 && parts[1] == "" {
				fn = c.LookupFunc(parts[0], name)
			}
			if fn != nil && anon > 0 && anon <= len(fn.AnonFuncs) {
				fn = fn.AnonFuncs[anon-1]
			}
			if fn == nil {
				fmt.Println("not found", spec)
				continue
			}
			fmt.Println("==", c.FuncName(fn))
			for _, g := range liftedGuards(fn, 0) {
				fmt.Println("G:", g.key(), "covers:", guardCoversAccepts(g), c.Pos(g.pos))
			}
		}
	})
}

func init() {
	if os.Getenv("MPS_DBG2") == "" {
		return
	}
	register("DBG2", propMeta{}, func(c *Ctx, r *Run) {
		for _, fn := range startFuncs(c) {
			fmt.Println("SF:", c.FuncName(fn), len(fn.Params))
			for _, p := range fn.Params {
				fmt.Println("   param", p.Name(), p.Type(), isKeyMaterialPtr(c, p.Type()))
			}
		}
	})
}

func init() {
	if os.Getenv("MPS_DBG3") == "" {
		return
	}
	register("DBG3", propMeta{}, func(c *Ctx, r *Run) {
		ds := c.LookupFunc("internal/bip32", "DeriveScalar")
		d := newDep(ds, nil)
		allInstrs(ds, func(in ssa.Instruction) {
			if call, ok := in.(*ssa.Call); ok && call.Call.IsInvoke() {
				fmt.Println("INVOKE", call.Call.Method.Name(), len(call.Call.Args))
				for _, a := range call.Call.Args {
					fmt.Println("    arg", d.labels(a))
				}
			}
		})
	})
}
