package main

import (
	"fmt"
	"go/token"
	"go/types"
	"sort"

	"golang.org/x/tools/go/ssa"
)

// sliceWalk describes an index loop `for i := a; i < B; i++` of a function whose body indexes slice S with i+d.
type sliceWalk struct {
	fn      *ssa.Function
	cond    *ssa.If
	slice   ssa.Value // the indexed slice (parameter / receiver)
	maxOff  int64     // largest constant offset d used in S[i+d]
	boundOK bool      // B == len(S) - maxOff
	bound   string
	guarded bool // a rejecting branch sits inside the loop (it is a per-element check)
}

// sliceWalks finds the index loops of fn over one of its slice-typed parameters.
func sliceWalks(fn *ssa.Function) []sliceWalk {
	var out []sliceWalk
	isParam := func(v ssa.Value) bool {
		for _, p := range fn.Params {
			if v == ssa.Value(p) {
				_, ok := p.Type().Underlying().(*types.Slice)
				return ok
			}
		}
		return false
	}
	for _, b := range fn.Blocks {
		if len(b.Instrs) == 0 || !blockInLoop(b) {
			continue
		}
		iff, ok := b.Instrs[len(b.Instrs)-1].(*ssa.If)
		if !ok {
			continue
		}
		bo, ok := iff.Cond.(*ssa.BinOp)
		if !ok || bo.Op != token.LSS {
			continue
		}
		ph, ok := bo.X.(*ssa.Phi)
		if !ok {
			continue
		}
		// accesses S[ph + d]
		offs := map[ssa.Value][]int64{}
		allInstrs(fn, func(in ssa.Instruction) {
			ia, ok := in.(*ssa.IndexAddr)
			if !ok || !isParam(ia.X) {
				return
			}
			idx := stripConv(ia.Index)
			if idx == ssa.Value(ph) {
				offs[ia.X] = append(offs[ia.X], 0)
				return
			}
			if ib, ok := idx.(*ssa.BinOp); ok && stripConv(ib.X) == ssa.Value(ph) {
				if k, ok := constInt(ib.Y); ok {
					switch ib.Op {
					case token.ADD:
						offs[ia.X] = append(offs[ia.X], k)
					case token.SUB:
						offs[ia.X] = append(offs[ia.X], -k)
					}
				}
			}
		})
		for s, ds := range offs {
			w := sliceWalk{fn: fn, cond: iff, slice: s}
			w.maxOff = ds[0]
			for _, d := range ds {
				if d > w.maxOff {
					w.maxOff = d
				}
			}
			// the bound: len(S) - k
			lenOf := func(v ssa.Value) bool {
				call, ok := stripConv(v).(*ssa.Call)
				if !ok {
					return false
				}
				bi, ok := call.Call.Value.(*ssa.Builtin)
				return ok && bi.Name() == "len" && call.Call.Args[0] == s
			}
			y := stripConv(bo.Y)
			k := int64(-1 << 40)
			if lenOf(y) {
				k = 0
			} else if yb, ok := y.(*ssa.BinOp); ok && yb.Op == token.SUB && lenOf(yb.X) {
				if c, ok := constInt(yb.Y); ok {
					k = c
				}
			}
			w.bound = path(y)
			w.boundOK = k == w.maxOff
			if k == int64(-1<<40) {
				continue // bound is not an expression over len(S): not this rule's business
			}
			// a rejecting branch inside the loop
			for _, g := range rejectGuards(fn) {
				if g.iff != nil && g.iff != iff && blockInLoop(g.iff.Block()) && blockReaches(b, g.iff.Block()) && blockReaches(g.iff.Block(), b) {
					w.guarded = true
				}
			}
			out = append(out, w)
		}
	}
	sort.Slice(out, func(i, j int) bool { return out[i].cond.Pos() < out[j].cond.Pos() })
	return out
}

// checkSliceCoverage: every per-element validation loop over a slice parameter walks the whole slice.
func checkSliceCoverage(c *Ctx, r *Run, rule string, fns []*ssa.Function) {
	for _, fn := range fns {
		for i, w := range sliceWalks(fn) {
			if !w.guarded {
				continue
			}
			r.Analysed(c.FuncName(fn))
			r.Check(rule, fmt.Sprintf("%s|walk #%d over %s", c.FuncName(fn), i, path(w.slice)), c.Pos(w.cond.Cond.Pos()), w.boundOK,
				fmt.Sprintf("the validation loop examines every element (index bound %s, largest offset %d)", w.bound, w.maxOff),
				fmt.Sprintf("the validation loop stops at %s although it reads element i%+d: the last element(s) of the list are never examined, so a defect placed there (e.g. a duplicate of the greatest identifier) is accepted", w.bound, w.maxOff))
		}
	}
}
