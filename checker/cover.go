package main

import (
	"fmt"
	"go/token"
	"go/types"
	"sort"

	"golang.org/x/tools/go/ssa"
)

// sliceWalk describes an index loop `for i := a; i < B; i++` of a function whose body indexes slice S with i+d.
type sliceWalk struct {
	fn      *ssa.Function
	cond    *ssa.If
	slice   ssa.Value // the indexed slice (parameter / receiver)
	maxOff  int64     // largest constant offset d used in S[i+d]
	boundOK bool      // B == len(S) - maxOff
	bound   string
	guarded bool // a rejecting branch sits inside the loop (it is a per-element check)
}

// sliceWalks finds the index loops of fn over one of its slice-typed parameters.
func sliceWalks(fn *ssa.Function) []sliceWalk {
	var out []sliceWalk
	isParam := func(v ssa.Value) bool {
		for _, p := range fn.Params {
			if v == ssa.Value(p) {
				_, ok := p.Type().Underlying().(*types.Slice)
				return ok
			}
		}
		return false
	}
	for _, b := range fn.Blocks {
		if len(b.Instrs) == 0 || !blockInLoop(b) {
			continue
		}
		iff, ok := b.Instrs[len(b.Instrs)-1].(*ssa.If)
		if !ok {
			continue
		}
		bo, ok := iff.Cond.(*ssa.BinOp)
		if !ok || bo.Op != token.LSS {
			continue
		}
		ph, ok := bo.X.(*ssa.Phi)
		if !ok {
			continue
		}
		// accesses S[ph + d]
		offs := map[ssa.Value][]int64{}
		allInstrs(fn, func(in ssa.Instruction) {
			ia, ok := in.(*ssa.IndexAddr)
			if !ok || !isParam(ia.X) {
				return
			}
			idx := stripConv(ia.Index)
			if idx == ssa.Value(ph) {
				offs[ia.X] = append(offs[ia.X], 0)
				return
			}
			if ib, ok := idx.(*ssa.BinOp); ok && stripConv(ib.X) == ssa.Value(ph) {
				if k, ok := constInt(ib.Y); ok {
					switch ib.Op {
					case token.ADD:
						offs[ia.X] = append(offs[ia.X], k)
					case token.SUB:
						offs[ia.X] = append(offs[ia.X], -k)
					}
				}
			}
		})
		for s, ds := range offs {
			w := sliceWalk{fn: fn, cond: iff, slice: s}
			w.maxOff = ds[0]
			for _, d := range ds {
				if d > w.maxOff {
					w.maxOff = d
				}
			}
			// the bound: len(S) - k
			lenOf := func(v ssa.Value) bool {
				call, ok := stripConv(v).(*ssa.Call)
				if !ok {
					return false
				}
				bi, ok := call.Call.Value.(*ssa.Builtin)
				return ok && bi.Name() == "len" && call.Call.Args[0] == s
			}
			y := stripConv(bo.Y)
			k := int64(-1 << 40)
			if lenOf(y) {
				k = 0
			} else if yb, ok := y.(*ssa.BinOp); ok && yb.Op == token.SUB && lenOf(yb.X) {
				if c, ok := constInt(yb.Y); ok {
					k = c
				}
			}
			w.bound = path(y)
			w.boundOK = k == w.maxOff
			if k == int64(-1<<40) {
				continue // bound is not an expression over len(S): not this rule's business
			}
			// a rejecting branch inside the loop
			for _, g := range rejectGuards(fn) {
				if g.iff != nil && g.iff != iff && blockInLoop(g.iff.Block()) && blockReaches(b, g.iff.Block()) && blockReaches(g.iff.Block(), b) {
					w.guarded = true
				}
			}
			out = append(out, w)
		}
	}
	sort.Slice(out, func(i, j int) bool { return out[i].cond.Pos() < out[j].cond.Pos() })
	return out
}

// checkSliceCoverage: every per-element validation loop over a slice parameter walks the whole slice.
func checkSliceCoverage(c *Ctx, r *Run, rule string, fns []*ssa.Function) {
	for _, fn := range fns {
		for i, w := range sliceWalks(fn) {
			if !w.guarded {
				continue
			}
			r.Analysed(c.FuncName(fn))
			r.Check(rule, fmt.Sprintf("%s|walk #%d over %s", c.FuncName(fn), i, path(w.slice)), c.Pos(w.cond.Cond.Pos()), w.boundOK,
				fmt.Sprintf("the validation loop examines every element (index bound %s, largest offset %d)", w.bound, w.maxOff),
				fmt.Sprintf("the validation loop stops at %s although it reads element i%+d: the last element(s) of the list are never examined, so a defect placed there (e.g. a duplicate of the greatest identifier) is accepted", w.bound, w.maxOff))
		}
	}
}

// checkPartyLoops: every loop over a participant list walks the whole list. Instances: index loops whose bound is
// len(X) with X of type party.IDSlice / []party.ID; a violation is X being a sub-slice (x[1:], x[:t+1]) of a list.
func checkPartyLoops(c *Ctx, r *Run, rule string, fns []*ssa.Function) {
	isIDList := func(t types.Type) bool {
		sl, ok := t.Underlying().(*types.Slice)
		if !ok {
			return false
		}
		n := namedOf(sl.Elem())
		return n != nil && n.Obj().Name() == "ID" && n.Obj().Pkg() != nil && n.Obj().Pkg().Name() == "party"
	}
	for _, fn := range fns {
		k := 0
		for _, b := range fn.Blocks {
			if len(b.Instrs) == 0 || !blockInLoop(b) {
				continue
			}
			iff, ok := b.Instrs[len(b.Instrs)-1].(*ssa.If)
			if !ok {
				continue
			}
			bo, ok := iff.Cond.(*ssa.BinOp)
			if !ok || bo.Op != token.LSS {
				continue
			}
			call, ok := stripConv(bo.Y).(*ssa.Call)
			if !ok {
				continue
			}
			bi, ok := call.Call.Value.(*ssa.Builtin)
			if !ok || bi.Name() != "len" || !isIDList(call.Call.Args[0].Type()) {
				continue
			}
			list := resolveLoad(call.Call.Args[0])
			k++
			r.Analysed(c.FuncName(fn))
			sub := ""
			if sl, ok := list.(*ssa.Slice); ok && (sl.Low != nil || sl.High != nil) {
				sub = path(sl)
			}
			r.Check(rule, fmt.Sprintf("%s|party loop #%d", c.FuncName(fn), k), c.Pos(iff.Cond.Pos()), sub == "",
				"the loop walks the whole participant list "+path(list),
				"the loop walks only the sub-slice "+sub+" of a participant list: the per-party work (verification, share, table entry, transcript item) is skipped for the parties cut off")
		}
	}
}

// checkArrayLoops: an index loop `for i := 0; i < K; i++` with constant K whose body indexes a fixed-size array
// [N]T with i walks the whole array (K == N). Covers per-repetition proof responses (zkmod, zkprm), OT columns, field
// elements. Loops with a non-constant bound, downward loops and offset accesses are not this rule's business.
func checkArrayLoops(c *Ctx, r *Run, rule string, fns []*ssa.Function) {
	// pool.Parallelize(K, func(i int) ...) is a loop too: the task indexes arrays with its parameter
	for _, fn := range fns {
		n := 0
		allInstrs(fn, func(in ssa.Instruction) {
			call, ok := in.(*ssa.Call)
			if !ok {
				return
			}
			o := calleeObj(call)
			if o == nil || o.Name() != "Parallelize" || len(call.Call.Args) < 3 {
				return
			}
			bound, isConst := constInt(call.Call.Args[len(call.Call.Args)-2])
			if !isConst {
				return
			}
			mc, ok := call.Call.Args[len(call.Call.Args)-1].(*ssa.MakeClosure)
			if !ok {
				return
			}
			task := mc.Fn.(*ssa.Function)
			if len(task.Params) != 1 {
				return
			}
			lens := map[int64]string{}
			allInstrs(task, func(x ssa.Instruction) {
				var base, index ssa.Value
				switch y := x.(type) {
				case *ssa.IndexAddr:
					base, index = y.X, y.Index
				case *ssa.Index:
					base, index = y.X, y.Index
				default:
					return
				}
				if stripConv(index) != ssa.Value(task.Params[0]) {
					return
				}
				t := base.Type()
				if pt, ok := t.Underlying().(*types.Pointer); ok {
					t = pt.Elem()
				}
				if arr, ok := t.Underlying().(*types.Array); ok {
					lens[arr.Len()] = path(base)
				}
			})
			if len(lens) == 0 {
				return
			}
			n++
			r.Analysed(c.FuncName(fn))
			ok2, detail := true, ""
			for l, what := range lens {
				if l != bound {
					ok2 = false
					detail = fmt.Sprintf("Parallelize runs %d tasks but each task indexes %s, an array of %d elements", bound, what, l)
				}
			}
			r.Check(rule, fmt.Sprintf("%s|parallel loop #%d (count %d)", c.FuncName(fn), n, bound), c.Pos(call.Pos()), ok2,
				fmt.Sprintf("the %d parallel tasks cover all elements of the arrays they index", bound),
				detail+": the remaining elements are never examined/produced (e.g. proof repetitions that are not verified)")
		})
	}
	for _, fn := range fns {
		k := 0
		for _, b := range fn.Blocks {
			if len(b.Instrs) == 0 || !blockInLoop(b) {
				continue
			}
			iff, ok := b.Instrs[len(b.Instrs)-1].(*ssa.If)
			if !ok {
				continue
			}
			bo, ok := iff.Cond.(*ssa.BinOp)
			if !ok || bo.Op != token.LSS {
				continue
			}
			bound, ok := constInt(bo.Y)
			if !ok {
				continue
			}
			idx := bo.X
			// arrays indexed with idx
			lens := map[int64][]string{}
			allInstrs(fn, func(in ssa.Instruction) {
				var base ssa.Value
				var index ssa.Value
				switch x := in.(type) {
				case *ssa.IndexAddr:
					base, index = x.X, x.Index
				case *ssa.Index:
					base, index = x.X, x.Index
				default:
					return
				}
				if stripConv(index) != idx {
					return
				}
				t := base.Type()
				if pt, ok := t.Underlying().(*types.Pointer); ok {
					t = pt.Elem()
				}
				if arr, ok := t.Underlying().(*types.Array); ok {
					lens[arr.Len()] = append(lens[arr.Len()], path(base))
				}
			})
			if len(lens) == 0 {
				continue
			}
			k++
			r.Analysed(c.FuncName(fn))
			var ns []int64
			for n := range lens {
				ns = append(ns, n)
			}
			sort.Slice(ns, func(i, j int) bool { return ns[i] < ns[j] })
			ok2 := true
			detail := ""
			for _, n := range ns {
				if n != bound {
					ok2 = false
					detail = fmt.Sprintf("the loop runs i < %d but indexes %s, an array of %d elements", bound, lens[n][0], n)
				}
			}
			r.Check(rule, fmt.Sprintf("%s|array loop #%d (bound %d)", c.FuncName(fn), k, bound), c.Pos(iff.Cond.Pos()), ok2,
				fmt.Sprintf("the loop walks all %d elements of the arrays it indexes", bound),
				detail+": the remaining elements are never examined/produced (e.g. proof repetitions that are not verified, columns that are not checked)")
		}
	}
}
