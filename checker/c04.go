package main

import (
	"encoding/json"
	"fmt"
	"go/token"
	"go/types"
	"os"
	"path/filepath"
	"sort"
	"strings"

	"golang.org/x/tools/go/ssa"
)

func init() {
	register("C04", propMeta{
		Explanation: "Blame attribution decided on SSA. OB-B1: in MultiHandler every abort(err, culprits...) names exactly the sender of the message whose processing produced err (value identity between the *Message handed to verify*/the notice and the From field used), nobody for a broadcast-hash mismatch or a recovered panic, the culprits of the round.Abort for protocol-computed blame. " +
			"OB-B2: blame-guard inventory — every branch that appends to a culprit list in protocol code (presign3, abort1, abort2, VerifySignatureShares) is recorded with its deciding check, the data feeding it and the culprit expression; the culprit is the loop's own party variable and never SelfID(). " +
			"PP-1: a per-party table entry written inside a loop over parties does not depend on a loop-carried accumulator (entry j must be a function of party j's data only). RG-1/RG-2: every content type's RoundNumber() equals the Number() of the round that consumes it, and every start function's FinalRoundNumber admits every round reachable from its first round, abort rounds included. " +
			"OB-B3: prover and verifier of the identifiable-abort decryption proofs index the ciphertext tables consistently. NOT decided: arithmetic correctness of the blame recomputation.",
		Trusted:     append([]string{"tables/blame_guards.json: reference inventory of blame sites"}, commonTrusted...),
		Assumptions: []string{"TwoPartyHandler has a single peer and carries no culprit list (attribution rules are scoped to MultiHandler)"},
	}, runC04)
}

type blameSite struct {
	fn      *ssa.Function
	guard   string // decider(fields) of the controlling branch ("" if unconditional)
	culprit string
	pos     token.Pos
}

// blameSites: appends of a party.ID to a []party.ID that is later returned / passed to AbortRound.
func blameSites(c *Ctx, fn *ssa.Function) []blameSite {
	var out []blameSite
	idT := c.LookupNamed("pkg/party", "ID")
	if idT == nil {
		return nil
	}
	allInstrs(fn, func(in ssa.Instruction) {
		call, ok := in.(*ssa.Call)
		if !ok {
			return
		}
		b, ok := call.Call.Value.(*ssa.Builtin)
		if !ok || b.Name() != "append" || len(call.Call.Args) != 2 {
			return
		}
		sl, ok := call.Type().Underlying().(*types.Slice)
		if !ok || namedOf(sl.Elem()) != idT {
			return
		}
		// destination named culprit-ish: flows to AbortRound or is a result named culprits
		isBlame := false
		seen := map[ssa.Value]bool{}
		var flows func(v ssa.Value, d int)
		flows = func(v ssa.Value, d int) {
			if seen[v] || d > 8 {
				return
			}
			seen[v] = true
			refs := v.Referrers()
			if refs == nil {
				return
			}
			for _, ref := range *refs {
				switch x := ref.(type) {
				case *ssa.Call:
					if o := calleeObj(x); o != nil && o.Name() == "AbortRound" {
						isBlame = true
					}
					if bb, ok := x.Call.Value.(*ssa.Builtin); ok && bb.Name() == "append" {
						flows(x, d+1)
					}
				case *ssa.Phi:
					flows(x, d+1)
				case *ssa.Return:
					if fn.Signature.Results().Len() == 1 {
						if s2, ok := fn.Signature.Results().At(0).Type().Underlying().(*types.Slice); ok && namedOf(s2.Elem()) == idT {
							isBlame = true
						}
					}
				case *ssa.Store:
					// named result spilled
					if a, ok := x.Addr.(*ssa.Alloc); ok {
						for _, r2 := range *a.Referrers() {
							if u, ok := r2.(*ssa.UnOp); ok {
								flows(u, d+1)
							}
						}
					}
				}
			}
		}
		flows(call, 0)
		if !isBlame {
			return
		}
		// appended element(s)
		var elems []string
		if s, ok := call.Call.Args[1].(*ssa.Slice); ok {
			if a, ok := s.X.(*ssa.Alloc); ok {
				for _, ref := range *a.Referrers() {
					if ia, ok := ref.(*ssa.IndexAddr); ok {
						for _, rr := range *ia.Referrers() {
							if st, ok := rr.(*ssa.Store); ok {
								elems = append(elems, paramFields(fn, st.Val)...)
							}
						}
					}
				}
			}
		} else {
			elems = append(elems, paramFields(fn, call.Call.Args[1])...)
		}
		sort.Strings(elems)
		// controlling branches: every test (inside the same loop iteration) one of whose edges leads to this append while
		// the other can bypass it. The set does not depend on whether the culprit is appended at one place behind several
		// tests or once behind each test.
		for _, g := range controllingConds(fn, call.Block()) {
			out = append(out, blameSite{fn, g, strings.Join(elems, "+"), call.Pos()})
		}
	})
	// one entry per (culprit, condition): the union over all append sites of that culprit
	seenKey := map[string]bool{}
	var uniq []blameSite
	for _, b := range out {
		k := b.guard + " => " + b.culprit
		if !seenKey[k] {
			seenKey[k] = true
			uniq = append(uniq, b)
		}
	}
	return uniq
}

// controllingConds: keys of the branch conditions that control block a (see blameSites).
func controllingConds(fn *ssa.Function, a *ssa.BasicBlock) []string {
	// header of the innermost loop around a: the nearest dominator that a reaches again
	var hdr *ssa.BasicBlock
	for d := a.Idom(); d != nil; d = d.Idom() {
		if blockReaches(a, d) {
			hdr = d // keep climbing: every block of a loop reaches every other one, the header is the topmost of them
		}
	}
	reach := func(from *ssa.BasicBlock, p *ssa.BasicBlock) bool {
		seen := map[*ssa.BasicBlock]bool{p: true}
		if hdr != nil {
			seen[hdr] = true
		}
		var walk func(b *ssa.BasicBlock) bool
		walk = func(b *ssa.BasicBlock) bool {
			if b == a {
				return true
			}
			if seen[b] {
				return false
			}
			seen[b] = true
			for _, s := range b.Succs {
				if walk(s) {
					return true
				}
			}
			return false
		}
		return walk(from)
	}
	var out []string
	for _, p := range fn.Blocks {
		if p == hdr || len(p.Instrs) == 0 {
			continue
		}
		iff, ok := p.Instrs[len(p.Instrs)-1].(*ssa.If)
		if !ok {
			continue
		}
		// only tests of the same iteration: p lies between the loop header and a
		if hdr != nil && !(hdr.Dominates(p) && blockReaches(p, a)) {
			continue
		}
		if hdr == nil && !blockReaches(p, a) {
			continue
		}
		// control dependence: along one edge the append is unavoidable, along the other it can be bypassed
		avoid := func(from *ssa.BasicBlock) bool {
			seen := map[*ssa.BasicBlock]bool{a: true}
			var walk func(b *ssa.BasicBlock) bool
			walk = func(b *ssa.BasicBlock) bool {
				if seen[b] {
					return false
				}
				if b == hdr || len(b.Succs) == 0 {
					return true // next iteration / function exit reached without passing the append
				}
				seen[b] = true
				for _, s := range b.Succs {
					if walk(s) {
						return true
					}
				}
				return false
			}
			return walk(from)
		}
		must0 := reach(p.Succs[0], p) && !avoid(p.Succs[0])
		must1 := reach(p.Succs[1], p) && !avoid(p.Succs[1])
		if !((must0 && avoid(p.Succs[1])) || (must1 && avoid(p.Succs[0]))) {
			continue
		}
		kind, atoms := flattenBool(iff.Cond, 0)
		if kind == "" || len(atoms) < 2 {
			atoms = []ssa.Value{iff.Cond}
		}
		// a test of a helper's verdict (`if err := decryptBoth(...); err != nil`) stands for the checks the helper makes
		if len(atoms) == 1 {
			var ls []string
			if hc := condCall(iff.Cond); hc != nil {
				if g := localHelperOf(hc); g != nil && (g.Signature.Recv() == nil || (fn.Signature.Recv() != nil && len(hc.Call.Args) > 0 && hc.Call.Args[0] == ssa.Value(fn.Params[0]))) {
					for _, lg := range liftFrom(fn, hc, g, false, true, iff, nil, nil, 0) {
						ls = append(ls, lg.key())
					}
				}
			}
			if len(ls) > 0 {
				out = append(out, ls...)
				continue
			}
		}
		for _, at := range atoms {
			d := deciderOf(at)
			if strings.HasPrefix(d, "phi") || d == "value" {
				continue // loop conditions (a counter against a bound, the ok flag of a range): not checks on anybody's data
			}
			out = append(out, d+"("+strings.Join(guardFields(fn, at), ",")+")")
		}
	}
	if len(out) == 0 {
		out = []string{""}
	}
	sort.Strings(out)
	return out
}

func blameFuncs(c *Ctx) []*ssa.Function {
	var out []*ssa.Function
	for _, fn := range inventoryFuncs(c) {
		n := c.FuncName(fn)
		if strings.HasPrefix(n, "protocols/") || strings.HasPrefix(n, "pkg/ecdsa") {
			out = append(out, fn)
		}
	}
	return out
}

func genBlameTable(c *Ctx, verifDir string) error {
	tab := map[string][]string{}
	for _, fn := range blameFuncs(c) {
		for _, b := range blameSites(c, fn) {
			tab[c.FuncName(fn)] = append(tab[c.FuncName(fn)], b.guard+" => "+b.culprit)
		}
		sort.Strings(tab[c.FuncName(fn)])
	}
	b, _ := json.MarshalIndent(tab, "", " ")
	return os.WriteFile(filepath.Join(verifDir, "tables", "blame_guards.json"), append(b, '\n'), 0o644)
}

func runC04(c *Ctx, r *Run) {
	r.Rule("OB-B5", "the proofs the abort rounds rest their blame on (Nth-root openings, discrete-log proofs) keep every recorded reject guard: an opening that can be forged moves the blame to an honest party")
	checkZKInventory(c, r, "OB-B5", zkPackages(c), func(rel string) bool { return strings.HasSuffix(rel, "/nth") || strings.HasSuffix(rel, "/log") })
	r.Rule("OB-B1", "sender attribution in MultiHandler: abort names exactly the sender of the message whose processing failed; nobody for hash mismatch / recovered panic; the Abort round's culprits for protocol blame")
	r.Rule("OB-B2", "blame-guard inventory: every culprit append is still controlled by its recorded check on the recorded data and names the loop's own party; SelfID() never flows into a culprit list")
	r.Rule("PP-1", "per-party table entries written in a loop over parties do not depend on loop-carried accumulators")
	r.Rule("ALIAS-N", "big-number operations in the protocols write only into objects created in the same function (revealed values, tables and key material are never rewritten)")
	r.Rule("RG-1", "content RoundNumber() equals the consuming round's Number()")
	r.Rule("RG-2", "every start function's FinalRoundNumber admits every round reachable from its first round (abort rounds included)")
	r.Rule("OB-B3", "identifiable-abort decryption proofs: prover and verifier index the ciphertext table consistently (proof keyed j by prover i is about D[j][i])")

	checkAbortAttribution(c, r)

	// ---- OB-B2
	b, err := os.ReadFile(filepath.Join(verifDirGlobal, "tables", "blame_guards.json"))
	var tab map[string][]string
	if err != nil || json.Unmarshal(b, &tab) != nil {
		r.Unresolved("OB-B2", "tables/blame_guards.json")
	} else {
		cur := map[string]map[string]token.Pos{}
		for _, fn := range blameFuncs(c) {
			m := map[string]token.Pos{}
			for _, bs := range blameSites(c, fn) {
				m[bs.guard+" => "+bs.culprit] = bs.pos
				r.Analysed(c.FuncName(fn))
				selfBlame := strings.Contains(bs.culprit, "SelfID()")
				r.Check("OB-B2", c.FuncName(fn)+"|never-self|"+bs.guard, c.Pos(bs.pos), !selfBlame, "the blamed party is never this party itself", "SelfID() flows into the culprit list at "+c.Pos(bs.pos)+": an honest party names itself / the wrong party")
			}
			cur[c.FuncName(fn)] = m
		}
		names := make([]string, 0, len(tab))
		for k := range tab {
			names = append(names, k)
		}
		sort.Strings(names)
		for _, fname := range names {
			for _, k := range tab[fname] {
				pos, ok := cur[fname][k]
				p := "?"
				if ok {
					p = c.Pos(pos)
				}
				near := ""
				if !ok {
					for k2 := range cur[fname] {
						near += " [now: " + k2 + "]"
					}
				}
				r.Check("OB-B2", fname+"|"+k, p, ok, "blame site is controlled by the recorded check and names the recorded party", "blame site `"+k+"` of "+fname+" is gone or changed"+near+": the party singled out is no longer decided by that check on that party's data")
			}
		}
	}

	// ---- PP-1
	checkPerPartyTables(c, r)

	// ---- RG-1 / RG-2
	checkRoundWindow(c, r)

	// ---- OB-B3
	checkAbortProofIndices(c, r)

	// ---- OB-B4: a round that can divert into an abort round (to identify the cheater) does so before it can hand out a
	// result or move on: the check that selects the abort round dominates every other accepting exit of Finalize
	r.Rule("OB-B4", "the consistency check that diverts into the blame round is passed before any result or next round is returned")
	if p := c.PkgRel("protocols/cmp/presign"); p != nil {
		for _, fn := range funcsOfPkg(c, c.SSA[p.Types]) {
			if fn.Name() != "Finalize" || fn.Signature.Recv() == nil {
				continue
			}
			// blocks that build an abort round
			var abortBlk *ssa.BasicBlock
			allInstrs(fn, func(in ssa.Instruction) {
				if a, ok := in.(*ssa.Alloc); ok {
					if n := namedOf(derefType(a.Type())); n != nil && strings.HasPrefix(n.Obj().Name(), "abort") && n.Obj().Pkg() == p.Types {
						abortBlk = a.Block()
					}
				}
			})
			if abortBlk == nil {
				continue
			}
			r.Analysed(c.FuncName(fn))
			// the deciding branch: the nearest dominator of the abort block whose other edge does not lead into it
			var decide *ssa.BasicBlock
			var pass *ssa.BasicBlock
			for d := abortBlk; d != nil && decide == nil; d = d.Idom() {
				id := d.Idom()
				if id == nil {
					break
				}
				if _, isIf := id.Instrs[len(id.Instrs)-1].(*ssa.If); !isIf {
					continue
				}
				for _, s := range id.Succs {
					if s == d || s.Dominates(abortBlk) || blockReaches(s, abortBlk) {
						continue
					}
					// the other side must be the normal continuation: it reaches an accepting (non-error) return
					cont := false
					for _, ret := range returnsOf(fn) {
						if (ret.Block() == s || blockReaches(s, ret.Block())) && (!returnRejects(ret, ret.Block()) || isTailCallReturn(ret)) {
							cont = true
						}
					}
					if cont {
						decide, pass = id, s
					}
				}
			}
			if decide == nil {
				r.Fail("OB-B4", c.FuncName(fn)+"|divert-before-result", c.Pos(fn.Pos()), "the branch selecting the abort round is found", "UNDECIDED: no branch selects the abort round")
				continue
			}
			bad := ""
			if os.Getenv("MPS_B4") != "" {
				fmt.Fprintln(os.Stderr, "B4", c.FuncName(fn), "abort", abortBlk.Index, "decide", decide.Index, "pass", pass.Index)
			}
			for _, ret := range returnsOf(fn) {
				b := ret.Block()
				if os.Getenv("MPS_B4") != "" {
					fmt.Fprintln(os.Stderr, "   ret", b.Index, c.Pos(ret.Pos()), returnRejects(ret, b), pass.Dominates(b), blockReaches(abortBlk, b))
				}
				if b == abortBlk || abortBlk.Dominates(b) || blockReaches(abortBlk, b) {
					continue
				}
				if returnRejects(ret, b) && !isTailCallReturn(ret) {
					continue
				}
				if !(b == pass || pass.Dominates(b)) {
					bad = c.Pos(ret.Pos())
				}
			}
			r.Check("OB-B4", c.FuncName(fn)+"|divert-before-result", c.Pos(decide.Instrs[len(decide.Instrs)-1].Pos()), bad == "",
				"every result / next round is returned only after the check that diverts into the blame round has passed",
				"the accepting return at "+bad+" is reachable without passing the consistency check that diverts into the abort round: with an inconsistent share the round hands out its result and the cheater is never identified")
		}
	}
	r.Require("OB-B4", 2)
	r.Require("OB-B1", 8)
	r.Require("OB-B2", 8)
	r.Require("PP-1", 10)
	// ---- ALIAS-N: the blame recomputation reads the revealed values; it must not rewrite them
	{
		var fns []*ssa.Function
		for _, p := range c.LibPkgs() {
			rel := c.Rel(p.Types)
			if !(strings.HasPrefix(rel, "protocols/") || rel == "internal/mta" || rel == "pkg/ecdsa") {
				continue
			}
			for _, fn := range funcsOfPkg(c, c.SSA[p.Types]) {
				withAnon(fn, func(f *ssa.Function) { fns = append(fns, f) })
			}
		}
		sort.Slice(fns, func(i, j int) bool { return c.FuncName(fns[i]) < c.FuncName(fns[j]) })
		checkBigIntAliasing(c, r, "ALIAS-N", fns)
	}
	r.Require("ALIAS-N", 10)
	// blame is computed from the stored per-party tables (R̄ⱼ, Sⱼ, …): two tables that are one object make every check fail for everyone
	r.Rule("ALIAS-E", "struct literals never place one reference object into two different fields")
	checkLiteralAliasing(c, r, "ALIAS-E")
	r.Require("ALIAS-E", 30)
	r.Require("RG-1", 30)
	r.Require("RG-2", 9)
	r.Require("OB-B3", 2)
}

func checkAbortAttribution(c *Ctx, r *Run) {
	H := c.LookupNamed("pkg/protocol", "MultiHandler")
	ab := c.LookupMethod("pkg/protocol", "MultiHandler", "abort")
	if H == nil || ab == nil {
		r.Unresolved("OB-B1", "pkg/protocol.MultiHandler.abort")
		return
	}
	n := 0
	for _, fn := range funcsOfPkg(c, c.SSA[c.PkgRel("pkg/protocol").Types]) {
		if fn.Signature.Recv() == nil || namedOf(fn.Signature.Recv().Type()) != H {
			continue
		}
		fn := fn
		allInstrs(fn, func(in ssa.Instruction) {
			call, ok := in.(*ssa.Call)
			if !ok || call.Call.StaticCallee() != ab {
				return
			}
			n++
			r.Analysed(c.FuncName(fn))
			errArg := call.Call.Args[1]
			// culprit values
			var culprits []ssa.Value
			spread := false
			switch x := call.Call.Args[2].(type) {
			case *ssa.Slice:
				if a, ok := x.X.(*ssa.Alloc); ok {
					for _, ref := range *a.Referrers() {
						if ia, ok := ref.(*ssa.IndexAddr); ok {
							for _, rr := range *ia.Referrers() {
								if st, ok := rr.(*ssa.Store); ok {
									culprits = append(culprits, st.Val)
								}
							}
						}
					}
				} else {
					spread = true
				}
			case *ssa.Const:
			default:
				spread = true
			}
			// classification of one (error, culprits) pair; `at` is where it is handed to abort - or, when both come out of
			// a helper of the handler as a pair (`culprit, err := h.verifyQueued(r)`), where the helper returns them
			var classify func(fn *ssa.Function, at ssa.Instruction, errArg ssa.Value, culprits []ssa.Value, spread bool, culpritArg ssa.Value, depth int)
			classify = func(fn *ssa.Function, at ssa.Instruction, errArg ssa.Value, culprits []ssa.Value, spread bool, culpritArg ssa.Value, depth int) {
				if ex, isEx := resolveLoad(errArg).(*ssa.Extract); isEx && len(culprits) == 1 && !spread && depth < 2 {
					if cx, isCx := resolveLoad(culprits[0]).(*ssa.Extract); isCx && cx.Tuple == ex.Tuple {
						if hc, isCall := ex.Tuple.(*ssa.Call); isCall {
							if h := localHelperOf(hc); h != nil {
								n := 0
								for _, ret := range returnsOf(h) {
									if len(ret.Results) <= ex.Index || len(ret.Results) <= cx.Index || isNilConst(ret.Results[ex.Index]) {
										continue
									}
									n++
									classify(h, ret, ret.Results[ex.Index], []ssa.Value{ret.Results[cx.Index]}, false, ret.Results[cx.Index], depth+1)
								}
								if n > 0 {
									return
								}
							}
						}
					}
				}
				key := c.FuncName(fn) + "|abort"
				// classify the error source
				src := resolveLoad(errArg)
				if cc := sentinelInit(src); cc != nil {
					src = cc // a package-level error variable: classified by the text it is initialised with
				}
				var verifyCall *ssa.Call
				verifyName := ""
				if dependsOn(src, func(v ssa.Value) bool {
					cc, ok := v.(*ssa.Call)
					if !ok {
						return false
					}
					// statically, or through a local function value that is one of the two verifiers on every path
					cands := calleeCandidates(cc)
					var names []string
					for _, f := range cands {
						if n := canonFnName(f); n == "verifyMessage" || n == "verifyBroadcastMessage" {
							names = append(names, f.Name())
						} else {
							return false
						}
					}
					if len(names) == 0 {
						return false
					}
					sort.Strings(names)
					verifyCall, verifyName = cc, strings.Join(names, "/")
					return true
				}) && verifyCall != nil {
					m := normArgs(verifyCall)[1]
					ok := len(culprits) == 1 && !spread
					if ok {
						ok = false
						// culprit is <m>.From
						cv := culprits[0]
						if u, isU := cv.(*ssa.UnOp); isU {
							if fa, isFA := u.X.(*ssa.FieldAddr); isFA && fa.X == m {
								if fv := fieldVar(fa.X.Type(), fa.Field); fv != nil && fv.Name() == "From" {
									ok = true
								}
							}
						}
						// the key under which the queued message was stored (store() files every message under its From)
						if ek, isE := cv.(*ssa.Extract); isE && ek.Index == 1 {
							if em, isM := m.(*ssa.Extract); isM && em.Index == 2 && em.Tuple == ek.Tuple {
								if _, isNext := ek.Tuple.(*ssa.Next); isNext {
									ok = true
								}
							}
						}
					}
					r.Check("OB-B1", key+"|"+verifyName+"-error@"+fn.Name()+siteIdx(at), c.Pos(at.Pos()), ok,
						"a message that fails decoding/verification is attributed to its own sender (the From of the very message handed to "+verifyName+")",
						"the culprit of a failed "+verifyName+" is "+culpritDesc(fn, culprits)+", not the From field of the message that was being processed: an honest party can be blamed")
					return
				}
				if cc, ok := src.(*ssa.Call); ok && isCallToPkgFunc(cc, "fmt", "Errorf") {
					if s, _ := constString(cc.Call.Args[0]); strings.Contains(s, "aborted by other party") {
						ok := len(culprits) == 1 && strings.Join(paramFields(fn, culprits[0]), "+") == "Message.From"
						r.Check("OB-B1", key+"|abort-notice", c.Pos(at.Pos()), ok, "a relayed abort notice is attributed to the peer it came from, nothing more", "abort notice names "+culpritDesc(fn, culprits))
						return
					}
					if s, _ := constString(cc.Call.Args[0]); strings.Contains(s, "panic") {
						r.Check("OB-B1", key+"|recovered-panic", c.Pos(at.Pos()), len(culprits) == 0 && !spread, "a recovered panic names nobody (it may stem from a queued message of another party)", "recovered panic names "+culpritDesc(fn, culprits))
						return
					}
				}
				if cc, ok := src.(*ssa.Call); ok && isCallToPkgFunc(cc, "errors", "New") {
					s, _ := constString(cc.Call.Args[0])
					if strings.Contains(s, "broadcast verification") {
						r.Check("OB-B1", key+"|hash-mismatch", c.Pos(at.Pos()), len(culprits) == 0 && !spread, "a broadcast-hash mismatch names nobody (the equivocator cannot be identified locally)", "hash mismatch names "+culpritDesc(fn, culprits))
						return
					}
					if strings.Contains(s, "aborted by user") {
						r.Hold("OB-B1", key+"|user-stop", c.Pos(at.Pos()), "Stop() reports this party as the origin")
						return
					}
				}
				if isNilConst(errArg) {
					r.Check("OB-B1", key+"|success", c.Pos(at.Pos()), len(culprits) == 0 && !spread, "the error-free transition names nobody", "abort(nil) with culprits")
					return
				}
				// R.Err / R.Culprits of a round.Abort
				if strings.Contains(path(errArg), ".Err") {
					okc := spread && strings.Contains(path(culpritArg), ".Culprits")
					r.Check("OB-B1", key+"|protocol-abort", c.Pos(at.Pos()), okc, "protocol-computed blame is passed on unchanged (Abort.Culprits)", "culprits of the Abort round are replaced by "+path(culpritArg))
					return
				}
				// Finalize error
				if ex, ok := src.(*ssa.Extract); ok {
					if fc, ok := ex.Tuple.(*ssa.Call); ok && fc.Call.IsInvoke() && fc.Call.Method.Name() == "Finalize" {
						okc := false
						if len(culprits) == 1 {
							if sc, ok := culprits[0].(*ssa.Call); ok && sc.Call.IsInvoke() && sc.Call.Method.Name() == "SelfID" {
								okc = true
							}
						}
						r.Check("OB-B1", key+"|own-finalize-error", c.Pos(at.Pos()), okc, "a local failure (own Finalize error) is reported as this party's own, never a peer's", "own Finalize error names "+culpritDesc(fn, culprits))
						return
					}
				}
				// an error value built from the received message itself by a helper of the package (a typed "peer aborted"
				// error): the abort notice of a peer, attributed to that peer
				if cc, ok := src.(*ssa.Call); ok && localHelperOf(cc) != nil && len(culprits) == 1 && !spread {
					fromMsg := false
					for _, a := range cc.Call.Args {
						if ls := paramFields(fn, a); len(ls) > 0 && strings.HasPrefix(ls[0], "Message") {
							fromMsg = true
						}
					}
					if fromMsg {
						ok := strings.Join(paramFields(fn, culprits[0]), "+") == "Message.From"
						r.Check("OB-B1", key+"|abort-notice", c.Pos(at.Pos()), ok, "a relayed abort notice is attributed to the peer it came from, nothing more", "abort notice names "+culpritDesc(fn, culprits))
						return
					}
				}
				r.Fail("OB-B1", key+"|unclassified@"+fn.Name()+siteIdx(at), c.Pos(at.Pos()), "every abort site has a known attribution rule", "UNDECIDED: abort with error "+path(errArg)+" and culprits "+culpritDesc(fn, culprits))
			}
			classify(fn, call, errArg, culprits, spread, call.Call.Args[2], 0)
		})
	}
}

func siteIdx(in ssa.Instruction) string {
	return fmt.Sprintf("#b%d", in.Block().Index)
}

func culpritDesc(fn *ssa.Function, cs []ssa.Value) string {
	var s []string
	for _, v := range cs {
		s = append(s, strings.Join(paramFields(fn, v), "+"))
	}
	if len(s) == 0 {
		return "<nobody>"
	}
	return strings.Join(s, ",")
}

// checkPerPartyTables: PP-1.
func checkPerPartyTables(c *Ctx, r *Run) {
	rm := getRoundModel(c)
	var fns []*ssa.Function
	for _, ri := range rm.rounds {
		for _, mn := range []string{"Finalize", "StoreMessage", "StoreBroadcastMessage"} {
			if f := ri.methods[mn]; f != nil {
				fns = append(fns, f)
			}
		}
	}
	for _, p := range []string{"protocols/cmp/sign", "protocols/cmp/presign", "protocols/frost/sign", "protocols/cmp/config", "protocols/frost/keygen", "pkg/ecdsa"} {
		if pk := c.PkgRel(p); pk != nil {
			for _, f := range funcsOfPkg(c, c.SSA[pk.Types]) {
				fns = append(fns, f)
			}
		}
	}
	seen := map[*ssa.Function]bool{}
	for _, fn := range fns {
		if seen[fn] {
			continue
		}
		seen[fn] = true
		fn := fn
		allInstrs(fn, func(in ssa.Instruction) {
			mu, ok := in.(*ssa.MapUpdate)
			if !ok {
				return
			}
			// inside a loop
			inLoop := false
			for _, s := range mu.Block().Succs {
				if blockReaches(s, mu.Block()) {
					inLoop = true
				}
			}
			if !inLoop {
				return
			}
			r.Analysed(c.FuncName(fn))
			// accumulators: phis (anywhere in the loop) with a back edge that depends on the phi itself through an operation
			bad := ""
			dependsOn(mu.Value, func(v ssa.Value) bool {
				ph, ok := v.(*ssa.Phi)
				if !ok {
					return false
				}
				if !blockReaches(mu.Block(), ph.Block()) || !blockReaches(ph.Block(), mu.Block()) {
					return false // not in this loop
				}
				for _, e := range ph.Edges {
					if e == ssa.Value(ph) {
						continue
					}
					if _, isC := e.(*ssa.Const); isC {
						continue
					}
					selfDep := dependsOn(e, func(x ssa.Value) bool { return x == ssa.Value(ph) })
					if selfDep && !isIndexPhi(ph) {
						bad = "accumulator " + ph.Comment
						return true
					}
				}
				return false
			})
			key := c.FuncName(fn) + "|" + strings.Join(paramFields(fn, mu.Map), "+") + "[...]"
			r.Check("PP-1", key, c.Pos(mu.Pos()), bad == "", "the entry written for one party does not depend on values accumulated over the other parties of the loop",
				fmt.Sprintf("the value stored into %s inside the loop depends on the loop-carried %s: entry j mixes in the data of the parties visited before j (order-dependent, wrong for all but one)", strings.Join(paramFields(fn, mu.Map), "+"), bad))
		})
	}
}

func isIndexPhi(ph *ssa.Phi) bool {
	// loop counters: phi + const
	for _, e := range ph.Edges {
		if bo, ok := e.(*ssa.BinOp); ok && bo.Op == token.ADD {
			if _, isC := bo.Y.(*ssa.Const); isC && bo.X == ssa.Value(ph) {
				return true
			}
		}
	}
	if b, ok := ph.Type().Underlying().(*types.Basic); ok && b.Info()&types.IsInteger != 0 {
		return true
	}
	return false
}

// successors of a round type: round types whose values its Finalize may return.
func roundSuccessors(c *Ctx, rm *roundModel, ri *roundInfo) []*roundInfo {
	var out []*roundInfo
	fn := ri.methods["Finalize"]
	if fn == nil {
		return nil
	}
	seenT := map[*roundInfo]bool{}
	var addFromValue func(v ssa.Value, d int)
	addFromValue = func(v ssa.Value, d int) {
		if d > 6 {
			return
		}
		v = stripConv(v)
		switch x := v.(type) {
		case *ssa.Phi:
			for _, e := range x.Edges {
				addFromValue(e, d+1)
			}
		case *ssa.Extract:
			addFromValue(x.Tuple, d+1)
		case *ssa.Call:
			// another round's Finalize called directly (sign1.Finalize from presign7)
			if cal := x.Call.StaticCallee(); cal != nil && cal.Name() == "Finalize" && cal.Signature.Recv() != nil {
				if n := namedOf(cal.Signature.Recv().Type()); n != nil {
					if r2 := rm.byType[n]; r2 != nil {
						if !seenT[r2] {
							seenT[r2] = true
							out = append(out, r2)
						}
					}
				}
			}
		default:
			if n := namedOf(v.Type()); n != nil {
				if r2 := rm.byType[n]; r2 != nil && r2 != ri && !seenT[r2] {
					seenT[r2] = true
					out = append(out, r2)
				}
			}
		}
	}
	for _, ret := range returnsOf(fn) {
		if len(ret.Results) >= 1 {
			addFromValue(ret.Results[0], 0)
		}
	}
	return out
}

func checkRoundWindow(c *Ctx, r *Run) {
	rm := getRoundModel(c)
	// RG-1
	for _, ri := range rm.rounds {
		for _, T := range []*types.Named{ri.p2p, ri.bcast} {
			if T == nil {
				continue
			}
			rn := methodOfType(T, "RoundNumber")
			if rn == nil {
				r.Unresolved("RG-1", ri.name+"|"+T.Obj().Name()+".RoundNumber")
				continue
			}
			fn := c.Prog.FuncValue(rn)
			val := int64(-1)
			for _, ret := range returnsOf(fn) {
				if len(ret.Results) == 1 {
					if k, ok := constInt(ret.Results[0]); ok {
						val = k
					}
				}
			}
			r.Check("RG-1", ri.name+"|"+T.Obj().Name(), c.Pos(rn.Pos()), val == ri.number && val >= 0,
				fmt.Sprintf("content %s carries round number %d = Number() of %s", T.Obj().Name(), val, ri.name),
				fmt.Sprintf("content %s announces round %d but is consumed by %s whose Number() is %d: the handler queues it for a round that never reads it", T.Obj().Name(), val, ri.name, ri.number))
		}
	}
	// RG-2
	infoN := c.LookupNamed("internal/round", "Info")
	for _, fn := range startFuncs(c) {
		// constants assigned to FinalRoundNumber
		var finals []int64
		var firsts []*roundInfo
		// (the session description may be built by a helper of the package: signInfo(...))
		for _, g := range regionOf(fn) {
			if g == fn {
				continue
			}
			allInstrs(g, func(in ssa.Instruction) {
				if st, ok := in.(*ssa.Store); ok {
					if fa, ok := st.Addr.(*ssa.FieldAddr); ok && namedOf(derefType(fa.X.Type())) == infoN {
						if fv := fieldVar(derefType(fa.X.Type()), fa.Field); fv != nil && fv.Name() == "FinalRoundNumber" {
							if k, ok := constInt(callerVal(st.Val)); ok {
								finals = append(finals, k)
							}
						}
					}
				}
			})
		}
		allInstrs(fn, func(in ssa.Instruction) {
			if st, ok := in.(*ssa.Store); ok {
				if fa, ok := st.Addr.(*ssa.FieldAddr); ok && namedOf(fa.X.Type()) == infoN {
					if fv := fieldVar(fa.X.Type(), fa.Field); fv != nil && fv.Name() == "FinalRoundNumber" {
						if k, ok := constInt(st.Val); ok {
							finals = append(finals, k)
						}
					}
				}
			}
			if ret, ok := in.(*ssa.Return); ok && len(ret.Results) == 2 {
				v := stripConv(ret.Results[0])
				var walk func(v ssa.Value, d int)
				walk = func(v ssa.Value, d int) {
					if d > 4 {
						return
					}
					if ph, ok := v.(*ssa.Phi); ok {
						for _, e := range ph.Edges {
							walk(stripConv(e), d+1)
						}
						return
					}
					if n := namedOf(v.Type()); n != nil {
						if ri := rm.byType[n]; ri != nil {
							firsts = append(firsts, ri)
						}
					}
				}
				walk(v, 0)
			}
		})
		if len(finals) > 0 && len(firsts) == 0 {
			// the Info literal is built here and handed to another start function (cmp.Keygen -> keygen.Start)
			allInstrs(fn, func(in ssa.Instruction) {
				cal := staticCallee(in)
				if cal == nil || cal.Pkg == nil || !c.InModule(cal.Pkg.Pkg) {
					return
				}
				withAnon(cal, func(g *ssa.Function) {
					for _, ret := range returnsOf(g) {
						if len(ret.Results) != 2 {
							continue
						}
						if n := namedOf(stripConv(ret.Results[0]).Type()); n != nil {
							if ri := rm.byType[n]; ri != nil {
								firsts = append(firsts, ri)
							}
						}
					}
				})
			})
		}
		if len(finals) == 0 || len(firsts) == 0 {
			continue
		}
		// reachable rounds
		reach := map[*roundInfo]bool{}
		var st []*roundInfo
		for _, f := range firsts {
			if !reach[f] {
				reach[f] = true
				st = append(st, f)
			}
		}
		for len(st) > 0 {
			x := st[len(st)-1]
			st = st[:len(st)-1]
			for _, s := range roundSuccessors(c, rm, x) {
				if !reach[s] {
					reach[s] = true
					st = append(st, s)
				}
			}
		}
		maxN := int64(0)
		maxName := ""
		var names []string
		for ri := range reach {
			names = append(names, fmt.Sprintf("%s=%d", ri.named.Obj().Name(), ri.number))
			if ri.number > maxN {
				maxN, maxName = ri.number, ri.name
			}
		}
		sort.Strings(names)
		minF := finals[0]
		for _, f := range finals {
			if f < minF {
				minF = f
			}
		}
		r.Analysed(c.FuncName(fn))
		r.Check("RG-2", c.FuncName(fn)+"|window", c.Pos(fn.Pos()), minF >= maxN,
			fmt.Sprintf("FinalRoundNumber %v admits every reachable round (%s)", finals, strings.Join(names, " ")),
			fmt.Sprintf("FinalRoundNumber %d is below Number()=%d of reachable round %s: its messages are rejected by CanAccept and never queued, so the round runs without them (blame/result computed from missing data)", minF, maxN, maxName))
	}
}

// checkAbortProofIndices: OB-B3.
func checkAbortProofIndices(c *Ctx, r *Run) {
	rm := getRoundModel(c)
	// verifier side: in StoreBroadcastMessage of abort rounds: range over body.<Proofs> (map of abortNth), Verify(..., recv.X[a][b])
	for _, ri := range rm.rounds {
		if !strings.HasPrefix(ri.named.Obj().Name(), "abort") {
			continue
		}
		fn := ri.methods["StoreBroadcastMessage"]
		if fn == nil {
			continue
		}
		for _, g := range liftedGuards(fn, 0) {
			if !decHasSuffix(g.decider, "abortNth.Verify") {
				continue
			}
			// find the two-level lookup label
			for _, f := range g.fields {
				if strings.Count(f, "[") != 2 {
					continue
				}
				// f = recv.T[a][b]
				i := strings.IndexByte(f, '[')
				tbl := f[:i]
				idx := f[i:]
				a := idx[1:strings.Index(idx, "]")]
				b := idx[strings.Index(idx, "][")+2 : len(idx)-1]
				// verifier: proofs map keyed by id (label body.<Proofs>) from sender Message.From
				verifierOK := strings.HasPrefix(a, "body.") && b == "Message.From"
				key := ri.name + "|" + tbl + "-proof-index"
				r.Analysed(c.FuncName(fn))
				r.Check("OB-B3", key, c.Pos(g.pos), verifierOK,
					"the decryption proof keyed j sent by prover i is verified against "+tbl+"[j][i], the ciphertext j sent to i (what the prover decrypted: its Finalize proves "+tbl+"[j][SelfID()])",
					fmt.Sprintf("the proof keyed j from sender i is verified against %s[%s][%s], i.e. the ciphertext the PROVER sent to j, while the prover (presign6/presign7 Finalize) decrypts %s[j][SelfID()]: honest proofs never verify and the sender of the abort broadcast is blamed", tbl, a, b, tbl))
			}
		}
	}
}

// sentinelInit: v loads a package-level error variable that is assigned exactly once, in the package initialiser, from
// errors.New / fmt.Errorf: returns that call.
func sentinelInit(v ssa.Value) *ssa.Call {
	u, ok := v.(*ssa.UnOp)
	if !ok || u.Op != token.MUL {
		return nil
	}
	g, ok := u.X.(*ssa.Global)
	if !ok || g.Pkg == nil {
		return nil
	}
	init := g.Pkg.Func("init")
	if init == nil {
		return nil
	}
	var found *ssa.Call
	n := 0
	allInstrs(init, func(in ssa.Instruction) {
		st, ok := in.(*ssa.Store)
		if !ok || st.Addr != ssa.Value(g) {
			return
		}
		n++
		if cc, ok := st.Val.(*ssa.Call); ok && (isCallToPkgFunc(cc, "errors", "New") || isCallToPkgFunc(cc, "fmt", "Errorf")) {
			found = cc
		}
	})
	if n != 1 {
		return nil
	}
	return found
}

// isTailCallReturn: `return f(...)` - the results are exactly the results of one call (the next round's Finalize).
func isTailCallReturn(ret *ssa.Return) bool {
	var call ssa.Value
	for i, res := range ret.Results {
		switch x := res.(type) {
		case *ssa.Extract:
			if x.Index != i || (call != nil && call != x.Tuple) {
				return false
			}
			call = x.Tuple
		case *ssa.Call:
			if len(ret.Results) != 1 {
				return false
			}
			call = x
		default:
			return false
		}
	}
	_, ok := call.(*ssa.Call)
	return ok
}
