package main

import (
	"bufio"
	"encoding/json"
	"fmt"
	"os"
	"path/filepath"
	"sort"
	"strings"
	"time"
)

// Ob is one rule instance (obligation) evaluated on the current tree.
type Ob struct {
	Rule    string `json:"rule"`
	Key     string `json:"key"` // rule|object|construct — never a line number
	Pos     string `json:"pos"`
	Desc    string `json:"desc"`
	Held    bool   `json:"held"`
	Detail  string `json:"detail,omitempty"`
	Trivial bool   `json:"-"`
}

// Run collects what one property check evaluated.
type Run struct {
	Prop    string
	Tier    string
	Obs     []Ob
	Notes   []string
	Rules   map[string]string // rule id -> what it decides
	ruleOrd []string
	Funcs   map[string]bool // functions analysed
	minReq  map[string]int
	seen    map[string]bool
}

func NewRun(prop, tier string) *Run {
	return &Run{Prop: prop, Tier: tier, Rules: map[string]string{}, Funcs: map[string]bool{}, minReq: map[string]int{}, seen: map[string]bool{}}
}

// Rule registers a rule with a description of what it decides.
func (r *Run) Rule(id, decides string) {
	if _, ok := r.Rules[id]; !ok {
		r.ruleOrd = append(r.ruleOrd, id)
	}
	r.Rules[id] = decides
}

// Check records an obligation. key must identify the construct (not the line).
func (r *Run) Check(rule, key, pos string, held bool, desc, detail string) {
	full := rule + "|" + key
	if r.seen[full] {
		// merge duplicates: keep failing verdict
		for i := range r.Obs {
			if r.Obs[i].Rule+"|"+r.Obs[i].Key == full {
				if !held && r.Obs[i].Held {
					r.Obs[i].Held = false
					r.Obs[i].Detail = detail
					r.Obs[i].Pos = pos
				}
				return
			}
		}
	}
	r.seen[full] = true
	r.Obs = append(r.Obs, Ob{Rule: rule, Key: key, Pos: pos, Desc: desc, Held: held, Detail: detail})
}

func (r *Run) Hold(rule, key, pos, desc string) { r.Check(rule, key, pos, true, desc, "") }
func (r *Run) Fail(rule, key, pos, desc, detail string) {
	r.Check(rule, key, pos, false, desc, detail)
}

// Unresolved records an anchor that could not be found in the program: never "held".
func (r *Run) Unresolved(rule, what string) {
	r.Check(rule, "UNRESOLVED-ANCHOR|"+what, "?", false, "anchor must resolve in the current tree", "anchor "+what+" not found (renamed or deleted); the rule cannot be evaluated")
}

// Require asserts the minimum number of instances a rule must have matched.
func (r *Run) Require(rule string, n int) { r.minReq[rule] = n }

func (r *Run) Note(format string, a ...interface{}) {
	r.Notes = append(r.Notes, fmt.Sprintf(format, a...))
}

func (r *Run) Analysed(fn string) { r.Funcs[fn] = true }

func (r *Run) count(rule string) int {
	n := 0
	for _, o := range r.Obs {
		if o.Rule == rule && !strings.HasPrefix(o.Key, "UNRESOLVED-ANCHOR|") && !strings.HasPrefix(o.Key, "MIN-INSTANCES") {
			n++
		}
	}
	return n
}

func (r *Run) finishCounts() {
	rules := make([]string, 0, len(r.minReq))
	for k := range r.minReq {
		rules = append(rules, k)
	}
	sort.Strings(rules)
	for _, rule := range rules {
		n := r.count(rule)
		want := r.minReq[rule]
		r.Check(rule, "MIN-INSTANCES", "-", n >= want,
			fmt.Sprintf("rule %s must match at least %d instances (confirmed by reading); matched %d", rule, want, n),
			fmt.Sprintf("rule %s matched %d instances, fewer than the %d confirmed by hand: the rule would pass vacuously", rule, n, want))
	}
}

// ---- known findings ----

type knownEntry struct {
	Property string `json:"property"`
	Key      string `json:"key"`
	What     string `json:"what"`
	Demo     string `json:"demo,omitempty"`
	Fixed    string `json:"fixed,omitempty"` // commit; a fixed entry suppresses nothing
}

func loadKnown(path string) ([]knownEntry, error) {
	f, err := os.Open(path)
	if err != nil {
		if os.IsNotExist(err) {
			return nil, nil
		}
		return nil, err
	}
	defer f.Close()
	var out []knownEntry
	sc := bufio.NewScanner(f)
	sc.Buffer(make([]byte, 1<<20), 1<<20)
	for sc.Scan() {
		line := strings.TrimSpace(sc.Text())
		if line == "" || strings.HasPrefix(line, "#") {
			continue
		}
		var e knownEntry
		if err := json.Unmarshal([]byte(line), &e); err != nil {
			return nil, fmt.Errorf("known_findings: %w", err)
		}
		out = append(out, e)
	}
	return out, sc.Err()
}

// ---- evidence ----

type evidence struct {
	PropertyID  string                 `json:"property_id"`
	Tier        string                 `json:"tier"`
	Seed        int                    `json:"seed"`
	Level       string                 `json:"level"`
	Coverage    map[string]interface{} `json:"coverage"`
	Assumptions []string               `json:"assumptions"`
	WallS       float64                `json:"wall_s"`
	Violations  int                    `json:"violations"`
}

type propMeta struct {
	Explanation string
	Trusted     []string
	Assumptions []string
}

// Finish prints the verdict, writes evidence and the replay file, returns exit code.
func (r *Run) Finish(c *Ctx, verifDir string, meta propMeta, start time.Time, seed int, variantsRun, variantsCaught int, variantSamples []interface{}) int {
	r.finishCounts()
	known, err := loadKnown(filepath.Join(verifDir, "known_findings.jsonl"))
	if err != nil {
		fmt.Fprintln(os.Stderr, "cannot read known findings:", err)
		return 2
	}
	knownByKey := map[string]knownEntry{}
	for _, k := range known {
		if k.Fixed == "" && k.Property == r.Prop {
			knownByKey[k.Key] = k
		}
	}
	sort.SliceStable(r.Obs, func(i, j int) bool {
		if r.Obs[i].Rule != r.Obs[j].Rule {
			return r.Obs[i].Rule < r.Obs[j].Rule
		}
		return r.Obs[i].Key < r.Obs[j].Key
	})
	var viol, knownHit []Ob
	held := 0
	nontrivial := map[string]bool{}
	for _, o := range r.Obs {
		if !o.Trivial && o.Key != "MIN-INSTANCES" {
			nontrivial[o.Rule+"|"+o.Key] = true
		}
		if o.Held {
			held++
			continue
		}
		if _, ok := knownByKey[o.Rule+"|"+o.Key]; ok {
			knownHit = append(knownHit, o)
			continue
		}
		viol = append(viol, o)
	}
	// print summary
	fmt.Printf("== %s tier=%s: %d packages, %d functions analysed, %d rule instances over %d rules\n",
		r.Prop, r.Tier, len(c.Mod), len(r.Funcs), len(r.Obs), len(r.Rules))
	for _, id := range r.ruleOrd {
		fmt.Printf("   rule %-10s instances=%-4d %s\n", id, r.count(id), r.Rules[id])
	}
	for _, n := range r.Notes {
		fmt.Printf("   note: %s\n", n)
	}
	for _, o := range knownHit {
		k := knownByKey[o.Rule+"|"+o.Key]
		fmt.Printf("KNOWN-FINDING: property=%s %s [%s @ %s] %s\n", r.Prop, k.What, o.Rule+"|"+o.Key, o.Pos, o.Detail)
	}
	replay := ""
	if len(viol) > 0 {
		dir := filepath.Join(verifDir, "out", "replay")
		os.MkdirAll(dir, 0o755)
		replay = filepath.Join(dir, r.Prop+".json")
		b, _ := json.MarshalIndent(map[string]interface{}{"property": r.Prop, "tier": r.Tier, "violations": viol,
			"how_to_replay": "bin/mpscheck -p " + r.Prop + " -tier " + r.Tier + "  (re-evaluates every rule on /repo's current tree; each entry names rule|object|construct and file:line)"}, "", " ")
		os.WriteFile(replay, b, 0o644)
		for _, o := range viol {
			fmt.Printf("FAIL %s %s @ %s: %s\n", o.Rule, o.Key, o.Pos, o.Detail)
		}
	}
	// evidence
	samples := []interface{}{}
	perRule := map[string]int{}
	for _, o := range r.Obs {
		if perRule[o.Rule] < 4 {
			perRule[o.Rule]++
			v := "held"
			if !o.Held {
				v = "VIOLATED"
				if _, ok := knownByKey[o.Rule+"|"+o.Key]; ok {
					v = "known-finding"
				}
			}
			samples = append(samples, map[string]string{"rule": o.Rule, "instance": o.Key, "at": o.Pos, "obligation": o.Desc, "verdict": v})
		}
	}
	for _, v := range variantSamples {
		samples = append(samples, v)
	}
	var expl strings.Builder
	expl.WriteString(meta.Explanation)
	expl.WriteString(" Rules evaluated on this run: ")
	for i, id := range r.ruleOrd {
		if i > 0 {
			expl.WriteString("; ")
		}
		fmt.Fprintf(&expl, "%s (%d instances): %s", id, r.count(id), r.Rules[id])
	}
	fnList := make([]string, 0, len(r.Funcs))
	for f := range r.Funcs {
		fnList = append(fnList, f)
	}
	sort.Strings(fnList)
	if len(fnList) > 60 {
		fnList = fnList[:60]
	}
	cov := map[string]interface{}{
		"explanation":         expl.String(),
		"obligations":         len(r.Obs),
		"discharged":          held,
		"known_findings_hit":  len(knownHit),
		"evaluations":         len(r.Obs) + variantsRun,
		"distinct_nontrivial": len(nontrivial),
		"rule":                "one evaluation per rule instance (rule × resolved construct of /repo's current source), plus one per broken variant re-analysed in the thorough tier; an instance is non-trivial when it is a real construct of the tree (not an instance-count assertion); distinct by rule|object|construct key",
		"samples":             samples,
		"checker_cmd":         "bin/mpscheck -p " + r.Prop + " -tier " + r.Tier,
		"trusted_base":        meta.Trusted,
		"programs":            len(c.Mod),
		"functions_analysed":  len(r.Funcs),
		"functions_sample":    fnList,
		"rules":               r.Rules,
		"variants_run":        variantsRun,
		"variants_caught":     variantsCaught,
		"exhaustive":          false,
	}
	ev := evidence{PropertyID: r.Prop, Tier: r.Tier, Seed: seed, Level: "other", Coverage: cov,
		Assumptions: meta.Assumptions, WallS: time.Since(start).Seconds(), Violations: len(viol)}
	os.MkdirAll(filepath.Join(verifDir, "evidence"), 0o755)
	b, _ := json.MarshalIndent(ev, "", " ")
	if err := os.WriteFile(filepath.Join(verifDir, "evidence", r.Prop+".json"), append(b, '\n'), 0o644); err != nil {
		fmt.Fprintln(os.Stderr, "cannot write evidence:", err)
		return 2
	}
	if len(viol) > 0 {
		fmt.Printf("VIOLATION property=%s replay=%s\n", r.Prop, replay)
		return 1
	}
	fmt.Printf("OK %s: %d/%d obligations held (%d known findings)\n", r.Prop, held, len(r.Obs), len(knownHit))
	return 0
}
