package main

import (
	"fmt"
	"go/constant"
	"go/token"
	"go/types"
	"sort"
	"strings"

	"golang.org/x/tools/go/ssa"
)

// A guard is a branch of fn one of whose edges rejects (return false / return non-nil error /
// abort round / panic), canonicalised by deciding callee and by the fields of the
// function's parameters that feed the condition.
type guard struct {
	fn      *ssa.Function
	iff     *ssa.If // nil for a final `return <cond>`
	ret     *ssa.Return
	decider string   // e.g. "pedersen.Parameters.Verify", "arith.IsInIntervalLEps", "!= nil"
	fields  []string // e.g. "p.Z1", "public.Aux"
	cond    ssa.Value
	pos     token.Pos
	passBlk *ssa.BasicBlock // successor taken when the check passes
	// notCovering: lifted from a helper and known not to gate every accepting exit
	notCovering bool
	// inner: for a guard lifted from a helper, the helper's own branch (loop context of the check)
	inner *ssa.If
	// lifted: translated from a helper called at iff/ret
	lifted bool
}

func (g guard) key() string { return g.decider + "(" + strings.Join(g.fields, ",") + ")" }

// blockRejects: following unconditional jumps, the block returns false / a non-nil error, or panics.
func blockRejects(b *ssa.BasicBlock) bool { return blockRejectsFrom(nil, b) }

// blockRejectsFrom: as blockRejects, for the edge pred->b (resolves phis of the return value).
func blockRejectsFrom(pred, b *ssa.BasicBlock) bool {
	from := pred
	for i := 0; i < 4 && b != nil; i++ {
		if len(b.Instrs) == 0 {
			return false
		}
		last := b.Instrs[len(b.Instrs)-1]
		switch x := last.(type) {
		case *ssa.Panic:
			return true
		case *ssa.Return:
			if from == nil {
				from = b
			}
			return returnRejects(x, from)
		case *ssa.Jump:
			// only follow if this block does nothing but prepare the return
			from = b
			b = b.Succs[0]
			continue
		default:
			return false
		}
	}
	return false
}

func returnRejects(x *ssa.Return, from *ssa.BasicBlock) bool {
	if len(x.Results) == 0 {
		return false
	}
	// `return r.AbortRound(err, culprits...), nil`: a protocol-level rejection
	if len(x.Results) == 2 {
		first := x.Results[0]
		if ph, ok := first.(*ssa.Phi); ok && ph.Block() == x.Block() {
			for i, p := range x.Block().Preds {
				if p == from {
					first = ph.Edges[i]
				}
			}
		}
		if call, ok := stripConv(first).(*ssa.Call); ok {
			if o := calleeObj(call); o != nil && o.Name() == "AbortRound" {
				return true
			}
		}
		// diversion into an identifiable-abort round (`return &abort1{...}, nil`)
		if n := namedOf(stripConv(first).Type()); n != nil && strings.HasPrefix(n.Obj().Name(), "abort") {
			return true
		}
	}
	last := x.Results[len(x.Results)-1]
	// through a phi: pick the edge coming from `from` if determinable
	if ph, ok := last.(*ssa.Phi); ok && ph.Block() == x.Block() {
		for i, p := range x.Block().Preds {
			if p == from {
				last = ph.Edges[i]
			}
		}
	}
	if mi, ok := last.(*ssa.MakeInterface); ok {
		// closures handed to the pool return their verdict boxed in an interface{}
		if b, isB := constBool(mi.X); isB {
			return !b
		}
	}
	switch t := last.Type().Underlying().(type) {
	case *types.Basic:
		if t.Kind() == types.Bool {
			b, ok := constBool(last)
			return ok && !b
		}
	case *types.Interface:
		if isErrorType(last.Type()) {
			return !isNilConst(last)
		}
	}
	if isErrorType(last.Type()) {
		return !isNilConst(last)
	}
	return false
}

func isErrorType(t types.Type) bool {
	n, ok := t.(*types.Named)
	return ok && n.Obj().Pkg() == nil && n.Obj().Name() == "error"
}

func shortFuncName(o *types.Func) string {
	if o == nil {
		return "?"
	}
	sig, _ := o.Type().(*types.Signature)
	if sig != nil && sig.Recv() != nil {
		t := sig.Recv().Type()
		if p, ok := t.(*types.Pointer); ok {
			t = p.Elem()
		}
		if n, ok := t.(*types.Named); ok {
			pk := ""
			if n.Obj().Pkg() != nil {
				pk = n.Obj().Pkg().Name() + "."
			}
			return pk + n.Obj().Name() + "." + canonName(o)
		}
		return canonName(o)
	}
	if o.Pkg() != nil {
		return o.Pkg().Name() + "." + o.Name()
	}
	return o.Name()
}

// decider names what decides a condition.
// deciderBind: while the guards of a helper are translated to a call site, the helper's parameters stand for the
// arguments of that call (a bool computed by the caller, a constant bound, ...).
var deciderBind map[*ssa.Parameter]ssa.Value

func deciderOf(v ssa.Value) string {
	if p, ok := v.(*ssa.Parameter); ok && deciderBind != nil {
		if a, bound := deciderBind[p]; bound {
			if _, again := a.(*ssa.Parameter); !again {
				return deciderOf(a)
			}
		}
	}
	switch x := v.(type) {
	case *ssa.UnOp:
		if x.Op == token.NOT {
			return deciderOf(x.X)
		}
		if x.Op == token.MUL {
			return "load"
		}
	case *ssa.Call:
		if b, ok := x.Call.Value.(*ssa.Builtin); ok {
			return b.Name()
		}
		if k := forwardedCall(x, 0); k != nil {
			return deciderOf(k)
		}
		if o := calleeObj(x); o != nil {
			return shortFuncName(o)
		}
		return "dynamic-call"
	case *ssa.Extract:
		if call, ok := x.Tuple.(*ssa.Call); ok {
			if k := forwardedCall(call, x.Index); k != nil {
				return deciderOf(k)
			}
		}
		return deciderOf(x.Tuple)
	case *ssa.BinOp:
		// subtle.ConstantTimeCompare(a, b) == 1 is the constant-time spelling of bytes.Equal(a, b)
		if call, ok := x.X.(*ssa.Call); ok && isCallToPkgFunc(call, "crypto/subtle", "ConstantTimeCompare") {
			if _, isC := x.Y.(*ssa.Const); isC && (x.Op == token.EQL || x.Op == token.NEQ) {
				return "bytes.Equal"
			}
		}
		l, rr := deciderOf(x.X), deciderOf(x.Y)
		// an integer compared with a constant: named by the boundary it draws (between lo and lo+1), so that t < 0,
		// 0 <= t, t >= 0, t <= -1 - one test, spelled four ways - share a key, and a moved bound does not
		if cmp, side, ok := intBoundary(x); ok {
			d := deciderOf(side)
			if d != "" && d != "load" && d != "value" {
				return d + " " + cmp + " const"
			}
			return cmp + " const"
		}
		op := x.Op.String()
		switch x.Op {
		case token.EQL:
			// == and != carry the same information once the rejecting edge is known: one spelling
			op = "!="
		case token.GEQ:
			// likewise a test and its negation (`t < 0` rejects / `t >= 0` accepts)
			op = "<"
		case token.LEQ:
			op = ">"
		}
		yv := x.Y
		if p, ok := stripConv(yv).(*ssa.Parameter); ok && deciderBind != nil {
			if a, bound := deciderBind[p]; bound {
				yv = stripConv(a)
			}
		}
		if _, isC := yv.(*ssa.Const); isC && !isNilConst(yv) {
			if _, already := x.Y.(*ssa.Const); !already {
				if l != "" && l != "load" && l != "value" {
					return l + " " + op + " const"
				}
				return op + " const"
			}
		}
		if isNilConst(x.Y) || isNilConst(x.X) {
			if l != "" && l != "load" && l != "value" {
				return l + " " + op + " nil"
			}
			return op + " nil"
		}
		if _, isC := x.Y.(*ssa.Const); isC {
			if l != "" && l != "load" && l != "value" {
				return l + " " + op + " const"
			}
			return op + " const"
		}
		if l != "" && l != "load" && l != "value" {
			return l + " " + op
		}
		if rr != "" && rr != "load" && rr != "value" {
			return rr + " " + op
		}
		return op
	case *ssa.Phi:
		// one variable assigned from calls to the same function on different paths (err from NewSession(a) / NewSession(b)):
		// named by that function, as the single call it can be merged into would be
		same := ""
		for _, e := range x.Edges {
			if e == ssa.Value(x) || isNilConst(e) {
				continue
			}
			if _, isPhi := e.(*ssa.Phi); isPhi {
				return "phi"
			}
			d := deciderOf(e)
			if d == "value" || d == "load" || (same != "" && d != same) {
				return "phi"
			}
			same = d
		}
		if same != "" {
			return same
		}
		return "phi"
	case *ssa.TypeAssert:
		return "typeassert"
	case *ssa.Lookup:
		return "lookup"
	}
	return "value"
}

// paramFields collects "param.field" names the value depends on (through calls, loads, phis).
var pfNest int

func paramFields(fn *ssa.Function, v ssa.Value) []string {
	pfNest++
	defer func() { pfNest-- }()
	if pfNest > 6 {
		return nil // nested label computations (table[key] pairings inside container contents): cut the recursion
	}
	set := map[string]bool{}
	seen := map[ssa.Value]bool{}
	isParam := func(x ssa.Value) (string, bool) {
		for i, p := range fn.Params {
			if x == ssa.Value(p) {
				return paramLabel(fn, i), true
			}
		}
		for i, p := range fn.FreeVars {
			if x == ssa.Value(p) {
				if freeVarIsConstant(fn, i) {
					return "", true // a captured constant (one := big.NewInt(1)): not data
				}
				return "free:" + shortType(p.Type()), true
			}
		}
		return "", false
	}
	var rootParam func(x ssa.Value, d int) (string, bool)
	rootParam = func(x ssa.Value, d int) (string, bool) {
		if d > 40 {
			return "", false
		}
		if n, ok := isParam(x); ok {
			return n, true
		}
		switch y := x.(type) {
		case *ssa.UnOp:
			if y.Op == token.MUL {
				return rootParam(y.X, d+1)
			}
		case *ssa.Alloc:
			if sv := singleStore(y); sv != nil {
				return rootParam(sv, d+1)
			}
			// a local wire/aggregate struct (decoded into, or built field by field): a root of its own
			if pt, ok := y.Type().(*types.Pointer); ok {
				if n := namedOf(pt.Elem()); n != nil {
					if _, isS := n.Underlying().(*types.Struct); isS && n.Obj().Pkg() != nil && strings.HasPrefix(n.Obj().Pkg().Path(), modPath) {
						if _, isPtrElem := pt.Elem().(*types.Pointer); !isPtrElem && decodedInto(y) {
							return "local:" + n.Obj().Name(), true
						}
					}
				}
			}
		case *ssa.TypeAssert:
			// msg.Content.(*T): the decoded message body
			if isMessageContent(y.X) {
				return "body", true
			}
		case *ssa.Extract:
			if ta, ok := y.Tuple.(*ssa.TypeAssert); ok && y.Index == 0 && isMessageContent(ta.X) {
				return "body", true
			}
		case *ssa.Phi:
			// the same root on every edge (e.g. body from both arms of a comma-ok assertion)
			lbl := ""
			for _, e := range y.Edges {
				n, ok := rootParam(e, d+1)
				if !ok || (lbl != "" && n != lbl) {
					return "", false
				}
				lbl = n
			}
			if lbl != "" {
				return lbl, true
			}
		case *ssa.FieldAddr:
			// embedded struct pointer: p.Commitment.S -> treat as p.S
			if n, ok := rootParam(y.X, d+1); ok {
				fv := fieldVar(y.X.Type(), y.Field)
				if fv != nil && fv.Embedded() {
					return n, true
				}
			}
		case *ssa.Field:
			if n, ok := rootParam(y.X, d+1); ok {
				fv := fieldVar(y.X.Type(), y.Field)
				if fv != nil && fv.Embedded() {
					return n, true
				}
			}
		}
		return "", false
	}
	var rec func(x ssa.Value, d int)
	rec = func(x ssa.Value, d int) {
		if x == nil || seen[x] || d > 60 {
			return
		}
		seen[x] = true
		if _, isP := x.(*ssa.Parameter); !isP {
			if _, isF := x.(*ssa.FreeVar); !isF {
				if n, ok := rootParam(x, 0); ok && n != "" {
					set[n] = true
					return
				}
			}
		}
		switch y := x.(type) {
		case *ssa.FieldAddr:
			if n, ok := rootParam(y.X, 0); ok {
				fv := fieldVar(y.X.Type(), y.Field)
				if fv != nil && !fv.Embedded() {
					set[n+"."+fv.Name()] = true
					return
				}
			}
		case *ssa.Field:
			if n, ok := rootParam(y.X, 0); ok {
				fv := fieldVar(y.X.Type(), y.Field)
				if fv != nil && !fv.Embedded() {
					set[n+"."+fv.Name()] = true
					return
				}
			}
		case *ssa.Lookup:
			// table[key] with both sides simple: keep the pairing ("recv.K[Message.To]")
			if b, i := paramFields(fn, y.X), paramFields(fn, y.Index); len(b) == 1 && len(i) == 1 && !strings.HasSuffix(b[0], "()") && d < 50 {
				if b[0] == i[0] {
					// a table indexed by a key taken from ranging over that same table: an element of it, as the value
					// variable of that range is (`for k := range t { t[k] }` / `for _, v := range t { v }`)
					set[b[0]] = true
					return
				}
				set[b[0]+"["+i[0]+"]"] = true
				return
			}
		case *ssa.Parameter, *ssa.FreeVar:
			if n, ok := isParam(x); ok && n != "" {
				set[n] = true
			}
			return
		case *ssa.Extract:
			if call, isCall := y.Tuple.(*ssa.Call); isCall {
				if ls, ok := expandHelperCall(fn, call, y.Index); ok {
					for _, l := range ls {
						set[l] = true
					}
					return
				}
			}
		case *ssa.Call:
			if ls, ok := expandHelperCall(fn, y, 0); ok {
				for _, l := range ls {
					set[l] = true
				}
				return
			}
			// WHICH modulus of a key enters a computation (N, N², the prime factors) is data in its own right: a niladic
			// accessor returning a modulus is labelled by its name on whatever object it is called
			if cal := y.Call.StaticCallee(); cal != nil && cal.Signature.Recv() != nil && len(y.Call.Args) == 1 && cal.Pkg != nil && strings.HasPrefix(cal.Pkg.Pkg.Path(), modPath) && cal.Signature.Results().Len() == 1 {
				if rn := namedOf(cal.Signature.Results().At(0).Type()); rn != nil && rn.Obj().Name() == "Modulus" {
					if bs := paramFields(fn, y.Call.Args[0]); len(bs) == 1 && !strings.HasSuffix(bs[0], "()") {
						set[bs[0]+"."+cal.Name()+"()"] = true
						return
					}
				}
			}
			if cal := y.Call.StaticCallee(); cal != nil && cal.Signature.Recv() != nil && len(y.Call.Args) > 0 && cal.Pkg != nil && strings.HasPrefix(cal.Pkg.Pkg.Path(), modPath) {
				// accessor-style labels (recv.SelfID(), recv.Hash(), free:Helper.PartyIDs()) only for the object the
				// function belongs to; a method called on another parameter is labelled by that parameter
				if n, ok := rootParam(y.Call.Args[0], 0); ok && n != "" && (n == "recv" || strings.HasPrefix(n, "free:")) {
					set[n+"."+cal.Name()+"()"] = true
					for _, a := range y.Call.Args[1:] {
						rec(a, d+1)
					}
					return
				}
			}
		}
		if ph, ok := x.(*ssa.Phi); ok {
			allConst := true
			for _, e := range ph.Edges {
				if _, isC := e.(*ssa.Const); !isC {
					allConst = false
				}
			}
			if allConst {
				// a flag chosen by a branch (`if m.Broadcast { b = 1 }`): control dependence on the condition
				for _, pb := range ph.Block().Preds {
					for d := pb; d != nil; d = d.Idom() {
						if len(d.Instrs) > 0 {
							if iff, isIf := d.Instrs[len(d.Instrs)-1].(*ssa.If); isIf {
								rec(iff.Cond, d0(d))
								break
							}
						}
					}
				}
			}
		}
		if a, ok := x.(*ssa.Alloc); ok {
			// local aggregate (e.g. the backing array of variadic arguments): what was stored into it
			for _, r := range *a.Referrers() {
				switch y := r.(type) {
				case *ssa.Store:
					if y.Addr == ssa.Value(a) {
						rec(y.Val, d+1)
					}
				case *ssa.IndexAddr:
					for _, rr := range *y.Referrers() {
						if st, ok := rr.(*ssa.Store); ok && st.Addr == ssa.Value(y) {
							rec(st.Val, d+1)
						}
					}
				case *ssa.FieldAddr:
					for _, rr := range *y.Referrers() {
						if st, ok := rr.(*ssa.Store); ok && st.Addr == ssa.Value(y) {
							rec(st.Val, d+1)
						}
					}
				case ssa.CallInstruction:
					// the local is updated in place by a method of its own type (`var q T; q.accumulate(a, b)`): it then
					// depends on what was accumulated, as the value-returning spelling `q = q.plus(a, b)` does
					cc := y.Common()
					if cal := cc.StaticCallee(); cal != nil && cal.Signature.Recv() != nil && len(cc.Args) > 1 && cc.Args[0] == ssa.Value(a) {
						if _, isPtr := cal.Signature.Recv().Type().(*types.Pointer); isPtr {
							for _, arg := range cc.Args[1:] {
								rec(arg, d+1)
							}
						}
					}
				}
			}
			return
		}
		switch mk := x.(type) {
		case *ssa.MakeSlice:
			// the capacity hint of a fresh slice is not content (its length is: a buffer of n zero bytes depends on n)
			rec(mk.Len, d+1)
		default:
			if in, ok := x.(ssa.Instruction); ok {
				for _, op := range in.Operands(nil) {
					if *op != nil {
						rec(*op, d+1)
					}
				}
			}
		}
		if u, ok := x.(*ssa.UnOp); ok && u.Op == token.MUL {
			if a, ok := u.X.(*ssa.Alloc); ok {
				for _, r := range *a.Referrers() {
					if st, ok := r.(*ssa.Store); ok && st.Addr == ssa.Value(a) {
						rec(st.Val, d+1)
					}
					// in-place mutation through method calls on the local: x.Add(y)
					if call, ok := r.(ssa.CallInstruction); ok {
						for _, arg := range call.Common().Args {
							rec(arg, d+1)
						}
					}
				}
			}
		}
		// objects mutated in place through their methods (acc.Add(y), rid.XOR(z)): a fresh object
		// depends on the arguments of the calls it is the receiver of
		if call, ok := x.(*ssa.Call); ok {
			if refs := call.Referrers(); refs != nil {
				for _, ref := range *refs {
					ci, isCall := ref.(ssa.CallInstruction)
					if !isCall {
						continue
					}
					cc := ci.Common()
					if cc.IsInvoke() && cc.Value == ssa.Value(call) {
						for _, a := range cc.Args {
							rec(a, d+1)
						}
					} else if !cc.IsInvoke() && len(cc.Args) > 1 && cc.Args[0] == ssa.Value(call) && cc.StaticCallee() != nil && cc.StaticCallee().Signature.Recv() != nil {
						for _, a := range cc.Args[1:] {
							rec(a, d+1)
						}
					}
				}
			}
		}
	}
	rec(v, 0)
	out := make([]string, 0, len(set))
	for k := range set {
		out = append(out, k)
	}
	sort.Strings(out)
	// drop bare params when a field of the same param is present
	var res []string
	for _, k := range out {

		if !strings.Contains(k, ".") {
			has := false
			for _, k2 := range out {
				if strings.HasPrefix(k2, k+".") {
					has = true
				}
			}
			if has {
				continue
			}
		}
		res = append(res, k)
	}
	return res
}

// rejectGuards lists the reject guards of fn (including a final `return <bool expr>`).
func rejectGuards(fn *ssa.Function) []guard {
	var out []guard
	acc := acceptReturns(fn)
	// noAccept: no accepting return is reachable from b (every continuation rejects)
	noAccept := func(b *ssa.BasicBlock) bool {
		if len(acc) == 0 {
			return false
		}
		for _, a := range acc {
			if blockReaches(b, a.Block()) {
				return false
			}
		}
		return true
	}
	for _, b := range fn.Blocks {
		if len(b.Instrs) == 0 {
			continue
		}
		switch x := b.Instrs[len(b.Instrs)-1].(type) {
		case *ssa.If:
			r0, r1 := blockRejectsFrom(b, b.Succs[0]) || noAccept(b.Succs[0]), blockRejectsFrom(b, b.Succs[1]) || noAccept(b.Succs[1])
			if r0 && r1 {
				// `if err != nil { return err }` directly followed by `return n, err2` with err2 the untested error of a last
				// call: the continuation hands on whatever that call answered, it does not refuse by itself
				if _, idx, isErrTest := errTest(x); isErrTest && passesOnCallError(b, b.Succs[1-idx]) {
					if idx == 0 {
						r1 = false
					} else {
						r0 = false
					}
				}
			}
			if r0 == r1 {
				continue
			}
			pass := b.Succs[0]
			if r0 {
				pass = b.Succs[1]
			}
			pos := x.Cond.Pos()
			if !pos.IsValid() {
				for i := len(b.Instrs) - 1; i >= 0 && !pos.IsValid(); i-- {
					pos = b.Instrs[i].Pos()
				}
			}
			dec, fields := deciderOf(x.Cond), guardFields(fn, x.Cond)
			if kind, atoms := flattenBool(x.Cond, 0); kind != "" && len(atoms) > 1 {
				// a condition materialised as a boolean value (`case a && b:`, `ok := a && b; if !ok`): rejecting when
				// the conjunction holds is ONE decision over all atoms; rejecting when it fails is one decision PER atom
				// (each of them alone refuses) - the same keys as the equivalent chain of ifs
				rejOnTrue := r0
				if (kind == "&") == rejOnTrue {
					if kind == "&" {
						// (mode flags of the object select when the check applies: not part of the key, see below)
						var data []ssa.Value
						for _, a := range atoms {
							if pd, pf := deciderOf(a), guardFields(fn, a); pd == "load" && len(pf) > 0 && allHavePrefix(pf, "recv.") {
								continue
							}
							data = append(data, a)
						}
						if len(data) > 0 && len(data) < len(atoms) {
							atoms = data
						}
					}
					if len(atoms) == 1 {
						dec, fields = deciderOf(atoms[0]), guardFields(fn, atoms[0])
					} else {
						dec, fields = combinedKey(fn, kind, atoms)
					}
				} else {
					for _, a := range atoms {
						out = append(out, guard{fn: fn, iff: x, decider: deciderOf(a), fields: guardFields(fn, a), cond: a, pos: pos, passBlk: pass})
					}
					continue
				}
			}
			// a rejection decided by a conjunction `a && b`: one guard whose key names all conjuncts (in canonical order),
			// so that the order in which they are written does not matter
			decs := []string{dec}
			for cb := b; len(cb.Preds) == 1; {
				p := cb.Preds[0]
				pif, ok := p.Instrs[len(p.Instrs)-1].(*ssa.If)
				if !ok {
					break
				}
				cbIf, _ := cb.Instrs[len(cb.Instrs)-1].(*ssa.If)
				if cb.Comment == "cond.true" && p.Succs[0] == cb {
					// a && b
				} else if cbIf != nil && sameValueVsConst(pif.Cond, cbIf.Cond) && !(blockRejectsFrom(p, p.Succs[0]) || blockRejectsFrom(p, p.Succs[1])) {
					// the next case of a switch over one value (`case 2: … case 3: … default: reject`): the same
					// conjunction as `v != 2 && v != 3`
				} else {
					break
				}
				// a conjunct that is a mode flag of the object itself (`r.refresh && !constant.IsIdentity()`) selects WHEN
				// the check applies, as the enclosing `if r.refresh { ... }` of the nested spelling does: not part of the key
				if pd, pf := deciderOf(pif.Cond), guardFields(fn, pif.Cond); pd == "load" && len(pf) > 0 && allHavePrefix(pf, "recv.") {
					cb = p
					continue
				}
				decs = append(decs, deciderOf(pif.Cond))
				fields = append(fields, guardFields(fn, pif.Cond)...)
				cb = p
			}
			if len(decs) > 1 {
				sort.Strings(decs)
				dec = strings.Join(decs, " & ")
				sort.Strings(fields)
				uniq := fields[:0]
				for i, f := range fields {
					if i == 0 || f != fields[i-1] {
						uniq = append(uniq, f)
					}
				}
				fields = uniq
			}
			if len(fields) == 0 && strings.HasPrefix(dec, "phi ") {
				continue // a loop counter compared with a constant bound: not a decision about any input
			}
			if strings.HasPrefix(dec, "round.Helper.BroadcastMessage") || strings.HasPrefix(dec, "round.Helper.SendMessage") {
				continue // the error of handing a message to the output channel: propagated, not a decision about an input
			}
			out = append(out, guard{fn: fn, iff: x, decider: dec, fields: fields, cond: x.Cond, pos: pos, passBlk: pass})
		case *ssa.Return:
			if len(x.Results) == 0 {
				continue
			}
			last := x.Results[len(x.Results)-1]
			if _, isConst := last.(*ssa.Const); isConst {
				continue
			}
			if mi, isMI := last.(*ssa.MakeInterface); isMI {
				if bt, ok := mi.X.Type().Underlying().(*types.Basic); ok && bt.Kind() == types.Bool {
					if _, isC := mi.X.(*ssa.Const); !isC {
						last = mi.X
					}
				}
			}
			if isErrorType(last.Type()) {
				// `return n, err` with err the untested error of a call made in this block: the same decision as
				// `if err != nil { return n, err }; return n, nil`
				if call := untestedCallError(last); call != nil && !isLocalHelper(fn, call.Call.StaticCallee()) {
					ev := stripIface(lastStoreInBlock(last))
					if _, isPhi := ev.(*ssa.Phi); isPhi {
						ev = call // (wrapped on the failing edge: named by the call whose error it is)
					}
					dec := deciderOf(ev) + " != nil"
					if !strings.HasPrefix(dec, "round.Helper.BroadcastMessage") && !strings.HasPrefix(dec, "round.Helper.SendMessage") {
						out = append(out, guard{fn: fn, ret: x, decider: dec, fields: guardFields(fn, ev), cond: ev, pos: call.Pos()})
					}
				}
				continue
			}
			if b, ok := last.Type().Underlying().(*types.Basic); ok && b.Kind() == types.Bool {
				if _, isPhi := last.(*ssa.Phi); isPhi {
					// `return a && b && c`: acceptance needs every atom, so each atom is a guard of its own;
					// `return a || b`: one decision over both
					kind, atoms := flattenBool(last, 0)
					switch {
					case kind == "&":
						for _, e := range atoms {
							p := e.Pos()
							if !p.IsValid() {
								p = x.Pos()
							}
							out = append(out, guard{fn: fn, ret: x, decider: deciderOf(e), fields: guardFields(fn, e), cond: e, pos: p})
						}
					case kind == "|" && len(atoms) > 1:
						d2, f2 := combinedKey(fn, kind, atoms)
						out = append(out, guard{fn: fn, ret: x, decider: d2, fields: f2, cond: last, pos: x.Pos()})
					default:
						out = append(out, guard{fn: fn, ret: x, decider: deciderOf(last), fields: guardFields(fn, last), cond: last, pos: x.Pos()})
					}
					continue
				}
				out = append(out, guard{fn: fn, ret: x, decider: deciderOf(last), fields: guardFields(fn, last), cond: last, pos: x.Pos()})
			}
		}
	}
	sort.SliceStable(out, func(i, j int) bool { return out[i].pos < out[j].pos })
	return out
}

// acceptReturns: returns that accept (true / nil error / a next round).
func acceptReturns(fn *ssa.Function) []*ssa.Return {
	var out []*ssa.Return
	for _, r := range returnsOf(fn) {
		if len(r.Results) == 0 {
			out = append(out, r)
			continue
		}
		if returnRejects(r, r.Block()) {
			continue
		}
		last := r.Results[len(r.Results)-1]
		if mi, ok := last.(*ssa.MakeInterface); ok {
			if cb, isC := constBool(mi.X); isC && !cb {
				continue
			}
		}
		if b, ok := last.Type().Underlying().(*types.Basic); ok && b.Kind() == types.Bool {
			if cb, isC := constBool(last); isC && !cb {
				continue
			}
			out = append(out, r)
			continue
		}
		if isErrorType(last.Type()) {
			if isNilConst(last) {
				out = append(out, r)
			} else if _, isPhi := last.(*ssa.Phi); isPhi {
				out = append(out, r)
			}
			continue
		}
		out = append(out, r)
	}
	return out
}

// guardCoversAccepts: the guard's branch dominates every accepting return, or sits in a loop
// whose header dominates them (per-element checks).
func guardCoversAccepts(g guard) bool {
	if g.notCovering {
		return false
	}
	if g.iff == nil {
		return true
	}
	for _, r := range acceptReturns(g.fn) {
		if !guardCoversReturn(g, r) {
			return false
		}
	}
	return true
}

// guardsJointlyCover: every accepting return is covered by one of the guards (the same check made on each of two
// branches that each end in their own accepting return).
func guardsJointlyCover(gs []guard) bool {
	if len(gs) == 0 {
		return false
	}
	for _, r := range acceptReturns(gs[0].fn) {
		ok := false
		for _, g := range gs {
			if !g.notCovering && (g.iff == nil || guardCoversReturn(g, r)) {
				ok = true
			}
		}
		if !ok {
			return false
		}
	}
	return true
}

// guardCoversReturn: the guard's branch dominates the accepting return r (through its passing edge), or sits in a loop
// whose header dominates it (per-element checks).
func guardCoversReturn(g guard, r *ssa.Return) bool {
	b := g.iff.Block()
	// a per-element check inside a loop: an accepting return inside that loop (reachable without going back through
	// the loop header) stops the walk early and leaves the remaining elements unchecked
	var header *ssa.BasicBlock
	if blockInLoop(b) {
		for d := b; d != nil && header == nil; d = d.Idom() {
			if d != b && blockReaches(b, d) && blockReaches(d, b) {
				header = d
			}
		}
	}
	if header != nil && header.Dominates(r.Block()) && reachesAvoiding(b, r.Block(), header) {
		return false
	}
	if r.Block() == b {
		return true
	}
	if b.Dominates(r.Block()) {
		// the accepting return must be reached through the passing edge
		if g.passBlk != nil && !blockReaches(g.passBlk, r.Block()) {
			return false
		}
		return true
	}
	// loop case
	inLoop := false
	for _, s := range b.Succs {
		if blockReaches(s, b) {
			inLoop = true
		}
	}
	if !inLoop {
		return false
	}
	// find a dominator of b that is a loop header dominating r
	for d := b.Idom(); d != nil; d = d.Idom() {
		if d.Dominates(r.Block()) && blockReaches(b, d) {
			// the accepting return must lie after the loop: an accept reachable from inside the body without
			// going back through the header ends the walk early and leaves the remaining elements unchecked
			if reachesAvoiding(b, r.Block(), d) {
				return false
			}
			return true
		}
	}
	return false
}

// paramLabel names a parameter independently of its source name: "recv" for the receiver, the
// short type name otherwise (with an index when several parameters share the type). Context
// parameters (hash state, curve, pool) are not data and get the empty label.
func paramLabel(fn *ssa.Function, i int) string {
	p := fn.Params[i]
	if fn.Signature.Recv() != nil && i == 0 {
		return "recv"
	}
	st := shortType(p.Type())
	switch st {
	case "Hash", "Curve", "Pool":
		return ""
	}
	n, idx := 0, 0
	for j, q := range fn.Params {
		if fn.Signature.Recv() != nil && j == 0 {
			continue
		}
		if shortType(q.Type()) == st {
			if j == i {
				idx = n
			}
			n++
		}
	}
	if n > 1 {
		return st + "#" + string(rune('0'+idx))
	}
	return st
}

func shortType(t types.Type) string {
	for {
		t = types.Unalias(t)
		switch x := t.(type) {
		case *types.Pointer:
			t = x.Elem()
			continue
		case *types.Named:
			return x.Obj().Name()
		case *types.Slice:
			return "[]" + shortType(x.Elem())
		case *types.Map:
			return "map"
		case *types.Chan:
			return "chan"
		case *types.Signature:
			return "func"
		}
		return t.String()
	}
}

// isMessageContent: v is the Content field of a round.Message parameter/value.
func isMessageContent(v ssa.Value) bool {
	var t types.Type
	var fld int
	switch x := v.(type) {
	case *ssa.Field:
		t, fld = x.X.Type(), x.Field
	case *ssa.UnOp:
		fa, ok := x.X.(*ssa.FieldAddr)
		if !ok {
			return false
		}
		t, fld = fa.X.Type(), fa.Field
	default:
		return false
	}
	fv := fieldVar(t, fld)
	return fv != nil && fv.Name() == "Content" && shortType(t) == "Message"
}

// liftedGuards: the reject guards of fn plus, for every guard of fn that is decided by a call to a
// helper of the same package (error/bool result), the helper's own reject guards translated to
// fn's vocabulary (one level of inlining, depth <= 2). Extracting checks into a helper therefore
// does not change the inventory.
func liftedGuards(fn *ssa.Function, depth int) []guard {
	base := rejectGuards(fn)
	if depth >= 3 {
		return base
	}
	out := append([]guard(nil), base...)
	for _, G := range base {
		call := condCall(G.cond)
		if call == nil {
			continue
		}
		g := call.Call.StaticCallee()
		if g == nil || g == fn || g.Pkg == nil || fn.Pkg == nil || g.Pkg != fn.Pkg || len(g.Blocks) == 0 {
			continue
		}
		// only helpers of the protocol itself (not methods of other data types such as proofs)
		// ... except a validation method of one of fn's own input parameters (msg.validate(n))
		onParam := false
		if g.Signature.Recv() != nil && len(call.Call.Args) > 0 {
			if prm, ok := call.Call.Args[0].(*ssa.Parameter); ok && (fn.Signature.Recv() == nil || prm != fn.Params[0]) {
				onParam = true
			}
			// ... or of a wire struct the function decoded into (pm.toPublic(), m.validate()), or of the message content
			// it was handed (body.validate() with body := msg.Content.(*broadcast7))
			if ls := paramFields(fn, call.Call.Args[0]); len(ls) == 1 && (strings.HasPrefix(ls[0], "local:") || ls[0] == "body") {
				onParam = true
			}
			// ... or, inside a closure, of an object the closure captured (p.verifyRound(i) in Verify's worker closure)
			if ls := paramFields(fn, call.Call.Args[0]); fn.Parent() != nil && len(ls) == 1 && strings.HasPrefix(ls[0], "free:") {
				onParam = true
			}
		}
		if onParam {
			// lifted below with the receiver translated into the caller's label of that parameter
		} else if g.Signature.Recv() != nil && fn.Signature.Recv() != nil && namedOf(g.Signature.Recv().Type()) != namedOf(fn.Signature.Recv().Type()) {
			if !embeds(namedOf(fn.Signature.Recv().Type()), namedOf(g.Signature.Recv().Type())) {
				continue
			}
		} else if g.Signature.Recv() != nil && fn.Signature.Recv() == nil {
			continue
		}
		out = append(out, liftFrom(fn, call, g, onParam, guardCoversAccepts(G), G.iff, G.ret, G.passBlk, depth)...)
	}
	// tail calls: `return r.helper(x)` hands the helper's verdict to the caller unchanged, so the helper's guards are
	// the caller's guards (a branch of a long method moved into a method of its own)
	decided := map[*ssa.Call]bool{}
	for _, G := range base {
		if call := condCall(G.cond); call != nil {
			decided[call] = true
		}
	}
	allInstrs(fn, func(in ssa.Instruction) {
		call, ok := in.(*ssa.Call)
		if !ok || decided[call] || call.Call.IsInvoke() {
			return
		}
		g := call.Call.StaticCallee()
		if !isLocalHelper(fn, g) || g == fn {
			return
		}
		onParam := false
		if g.Signature.Recv() != nil {
			switch {
			case len(call.Call.Args) == 0:
				return
			case fn.Signature.Recv() != nil && call.Call.Args[0] == ssa.Value(fn.Params[0]):
				// a method of the same object
			case fn.Parent() != nil:
				// a closure calling a method of a captured object (the worker closure of Verify calling p.verifyRound):
				// the helper's receiver is translated into the closure's label for that object
				if ls := paramFields(fn, call.Call.Args[0]); len(ls) == 1 && strings.HasPrefix(ls[0], "free:") {
					onParam = true
				} else {
					return
				}
			default:
				return
			}
		}
		var ret *ssa.Return
		tail := len(*call.Referrers()) > 0
		for _, ref := range *call.Referrers() {
			switch x := ref.(type) {
			case *ssa.Return:
				ret = x
			case *ssa.Extract:
				for _, r2 := range *x.Referrers() {
					if rr, isRet := r2.(*ssa.Return); isRet {
						ret = rr
					} else {
						tail = false
					}
				}
			case *ssa.MakeInterface:
				// a worker closure returning interface{}: `return check(x)` boxes the verdict
				for _, r2 := range *x.Referrers() {
					if rr, isRet := r2.(*ssa.Return); isRet {
						ret = rr
					} else {
						tail = false
					}
				}
			default:
				tail = false
			}
		}
		if !tail || ret == nil {
			// a helper that refuses by PANIC (`hasher := newNonceHasher(nonce)` with `if err != nil { panic(err) }` inside)
			// refuses for its caller too, however the result is used: its panicking guards are the caller's
			if fn.Parent() == nil && g.Signature.Recv() == nil {
				for _, lg := range liftFrom(fn, call, g, false, true, nil, nil, nil, depth) {
					if lg.inner != nil && ifPanics(lg.inner) {
						lg.ret = nil
						out = append(out, lg)
					}
				}
			}
			return
		}
		out = append(out, liftFrom(fn, call, g, onParam, true, nil, ret, nil, depth)...)
	})
	return out
}

// ifPanics: one edge of the branch runs (through unconditional jumps) into a panic.
func ifPanics(iff *ssa.If) bool {
	for _, s := range iff.Block().Succs {
		b := s
		for i := 0; i < 4 && b != nil && len(b.Instrs) > 0; i++ {
			switch b.Instrs[len(b.Instrs)-1].(type) {
			case *ssa.Panic:
				return true
			case *ssa.Jump:
				b = b.Succs[0]
				continue
			}
			break
		}
	}
	return false
}

// liftFrom translates the guards of helper g, called at `call` inside fn, into fn's vocabulary.
func liftFrom(fn *ssa.Function, call *ssa.Call, g *ssa.Function, onParam bool, coverG bool, Giff *ssa.If, Gret *ssa.Return, GpassBlk *ssa.BasicBlock, depth int) []guard {
	var out []guard
	{
		for _, S := range liftedGuards(g, depth+1) {
			var fields []string
			set := map[string]bool{}
			// translation of the helper's parameter labels into the caller's vocabulary
			trans := map[string][]string{}
			for i := range g.Params {
				L := paramLabel(g, i)
				if L == "" || (L == "recv" && !onParam) || i >= len(call.Call.Args) {
					continue
				}
				trans[L] = paramFields(fn, call.Call.Args[i])
			}
			var translate func(fl string) []string
			translate = func(fl string) []string {
				// composite "base[idx]..." : translate the pieces
				if i := strings.IndexByte(fl, '['); i > 0 && strings.HasSuffix(fl, "]") {
					depth, j := 0, -1
					for k := i; k < len(fl); k++ {
						if fl[k] == '[' {
							depth++
						} else if fl[k] == ']' {
							depth--
							if depth == 0 {
								j = k
								break
							}
						}
					}
					if j > 0 {
						bs, is := translate(fl[:i]), translate(fl[i+1:j])
						rest := fl[j+1:]
						if len(bs) == 1 && len(is) == 1 {
							if bs[0] == is[0] {
								return []string{bs[0] + rest} // (an element of the table the key was ranged from)
							}
							return []string{bs[0] + "[" + is[0] + "]" + rest}
						}
						return append(bs, is...)
					}
				}
				for L, cf := range trans {
					if fl == L || strings.HasPrefix(fl, L+".") {
						suffix := fl[len(L):]
						if len(cf) == 1 && !strings.HasSuffix(cf[0], "()") {
							return []string{cf[0] + suffix}
						}
						return cf
					}
				}
				return []string{fl}
			}
			for _, fl := range S.fields {
				for _, x := range translate(fl) {
					set[x] = true
				}
			}
			for k := range set {
				if contextLabel(k) {
					continue
				}
				// a bare parameter next to one of its fields adds nothing (same convention as paramFields)
				if !strings.ContainsAny(k, ".[") {
					covered := false
					for k2 := range set {
						if strings.HasPrefix(k2, k+".") || strings.HasPrefix(k2, k+"[") {
							covered = true
						}
					}
					if covered {
						continue
					}
				}
				fields = append(fields, k)
			}
			sort.Strings(fields)
			dec := S.decider
			// the helper's parameters stand for this call's arguments: a comparison with a parameter bound to a constant
			// is the comparison with that constant, a bool parameter computed by the caller is named by that computation
			if !strings.Contains(dec, " & ") && !strings.Contains(dec, " | ") && S.inner == nil {
				prev := deciderBind
				deciderBind = map[*ssa.Parameter]ssa.Value{}
				for i, gp := range g.Params {
					if i < len(call.Call.Args) {
						deciderBind[gp] = call.Call.Args[i]
					}
				}
				dec = deciderOf(S.cond)
				if isErrorType(S.cond.Type()) {
					dec += " != nil" // the handed-on error of a last call
				}
				deciderBind = prev
			}
			lg := guard{fn: fn, iff: Giff, ret: Gret, decider: dec, fields: fields, cond: S.cond, pos: S.pos, passBlk: GpassBlk, inner: S.iff, lifted: true}
			if S.inner != nil {
				lg.inner = S.inner
			}
			if !(coverG && guardCoversAccepts(S)) {
				lg.notCovering = true
			}
			out = append(out, lg)
		}
	}
	return out
}

func embeds(outer, inner *types.Named) bool {
	if outer == nil || inner == nil {
		return false
	}
	seen := map[*types.Named]bool{}
	var rec func(n *types.Named) bool
	rec = func(n *types.Named) bool {
		if n == inner {
			return true
		}
		if seen[n] {
			return false
		}
		seen[n] = true
		st, ok := n.Underlying().(*types.Struct)
		if !ok {
			return false
		}
		for i := 0; i < st.NumFields(); i++ {
			if st.Field(i).Embedded() {
				if m := namedOf(st.Field(i).Type()); m != nil && rec(m) {
					return true
				}
			}
		}
		return false
	}
	return rec(outer)
}

func d0(_ *ssa.BasicBlock) int { return 1 }

// decodedInto: the local struct is filled by a decoder (its address is handed to an Unmarshal* function),
// so its fields are inputs rather than values computed here.
func decodedInto(a *ssa.Alloc) bool {
	var check func(v ssa.Value, d int) bool
	check = func(v ssa.Value, d int) bool {
		if d > 3 || v.Referrers() == nil {
			return false
		}
		for _, ref := range *v.Referrers() {
			switch x := ref.(type) {
			case *ssa.MakeInterface:
				if check(x, d+1) {
					return true
				}
			case *ssa.Store:
				// stored into a pointer variable whose address is handed on (cm := &T{}; Unmarshal(data, &cm))
				if x.Val == v {
					if pa, ok := x.Addr.(*ssa.Alloc); ok && check(pa, d+1) {
						return true
					}
				}
			case ssa.CallInstruction:
				if o := calleeObj(x); o != nil && strings.HasPrefix(o.Name(), "Unmarshal") {
					return true
				}
			}
		}
		return false
	}
	return check(a, 0)
}

// reachesAvoiding: some path from a successor of `from` reaches `to` without passing through `avoid`.
func reachesAvoiding(from, to, avoid *ssa.BasicBlock) bool {
	seen := map[*ssa.BasicBlock]bool{avoid: true}
	var walk func(b *ssa.BasicBlock) bool
	walk = func(b *ssa.BasicBlock) bool {
		if b == to {
			return true
		}
		if seen[b] {
			return false
		}
		seen[b] = true
		for _, s := range b.Succs {
			if walk(s) {
				return true
			}
		}
		return false
	}
	for _, s := range from.Succs {
		if walk(s) {
			return true
		}
	}
	return false
}

// ---- helper expansion: the labels of a value returned by an unexported helper of the same package are the labels of
// what the helper returns, with the helper's parameters replaced by the caller's arguments. Extracting a block into a
// helper (or inlining one) therefore does not change the labels the rules and the frozen inventories are keyed on.

var helperDepth int

func isLocalHelper(fn, cal *ssa.Function) bool {
	if cal == nil || cal.Pkg == nil || fn.Pkg == nil || len(cal.Blocks) == 0 || cal.Synthetic != "" {
		return false
	}
	root := fn
	for root.Parent() != nil {
		root = root.Parent()
	}
	if cal.Pkg != root.Pkg || cal == root {
		return false
	}
	n := cal.Name()
	return n != "" && !token.IsExported(n)
}

func expandHelperCall(fn *ssa.Function, call *ssa.Call, idx int) ([]string, bool) {
	cal := call.Call.StaticCallee()
	if call.Call.IsInvoke() || !isLocalHelper(fn, cal) || helperDepth >= 2 || call == noExpandCall {
		return nil, false
	}
	// a helper that is handed the transcript hash: what it returns flows through the hash state (written with some of its
	// arguments, read back as a digest), which labels do not follow - it stays opaque and is labelled by all its arguments
	for _, p := range cal.Params {
		if isTranscriptHash(p.Type()) {
			return nil, false
		}
	}
	helperDepth++
	defer func() { helperDepth-- }()
	// labels of the returned value inside the helper
	inner := map[string]bool{}
	nret := 0
	for _, ret := range returnsOf(cal) {
		if idx >= len(ret.Results) {
			return nil, false
		}
		nret++
		for _, l := range paramFields(cal, ret.Results[idx]) {
			inner[l] = true
		}
	}
	if nret == 0 {
		return nil, false
	}
	// the helper's parameter labels and what the caller passes for them
	type sub struct {
		from string
		to   []string
	}
	var subs []sub
	for i := range cal.Params {
		pl := paramLabel(cal, i)
		if pl == "" || i >= len(call.Call.Args) {
			continue
		}
		subs = append(subs, sub{pl, paramFields(fn, call.Call.Args[i])})
	}
	out := map[string]bool{}
	for l := range inner {
		cur := []string{l}
		for _, sb := range subs {
			var next []string
			for _, c := range cur {
				if !mentionsToken(c, sb.from) {
					next = append(next, c)
					continue
				}
				switch len(sb.to) {
				case 0:
					// a constant argument: the label loses that root
					if c == sb.from {
						continue
					}
					next = append(next, c)
				case 1:
					next = append(next, replaceToken(c, sb.from, sb.to[0]))
				default:
					for _, t := range sb.to {
						if c == sb.from {
							next = append(next, t)
						} else {
							next = append(next, replaceToken(c, sb.from, t))
						}
					}
				}
			}
			cur = next
		}
		for _, c := range cur {
			out[c] = true
		}
	}
	if len(out) == 0 {
		return nil, false // a helper returning constants chosen by its control flow: keep the call itself as the label
	}
	res := make([]string, 0, len(out))
	for l := range out {
		res = append(res, l)
	}
	sort.Strings(res)
	return res, true
}

func isLabelBoundary(b byte) bool {
	switch b {
	case '.', '[', ']', ',', '(', ')', '+', ' ':
		return true
	}
	return false
}

func mentionsToken(s, tok string) bool {
	for i := 0; i+len(tok) <= len(s); i++ {
		if s[i:i+len(tok)] == tok && (i == 0 || isLabelBoundary(s[i-1])) && (i+len(tok) == len(s) || isLabelBoundary(s[i+len(tok)])) {
			return true
		}
	}
	return false
}

func replaceToken(s, tok, with string) string {
	var b strings.Builder
	for i := 0; i < len(s); {
		if i+len(tok) <= len(s) && s[i:i+len(tok)] == tok && (i == 0 || isLabelBoundary(s[i-1])) && (i+len(tok) == len(s) || isLabelBoundary(s[i+len(tok)])) {
			b.WriteString(with)
			i += len(tok)
			continue
		}
		b.WriteByte(s[i])
		i++
	}
	return b.String()
}

// noExpandCall: the call that *decides* the guard being labelled. A decider is named by its callee and fed by its
// arguments (stable under changes inside the helper); only data that merely flows through a helper is expanded.
var noExpandCall *ssa.Call

func guardFieldsRaw(fn *ssa.Function, cond ssa.Value) []string {
	prev := noExpandCall
	noExpandCall = condCall(cond)
	if noExpandCall != nil {
		// a helper that only forwards the verdict of one inner call: that call is the decider
		idx := 0
		if ex := condExtract(cond); ex != nil {
			idx = ex.Index
		}
		if k := forwardedCall(noExpandCall, idx); k != nil {
			if kc := condCall(k); kc != nil {
				noExpandCall = kc
			}
		}
	}
	defer func() { noExpandCall = prev }()
	// a decoder's verdict depends on the bytes it is given; the value it fills (a pre-shaped struct, a copy of the
	// receiver, ...) is its output, not a datum the decision is made on
	if dc := noExpandCall; dc != nil && !dc.Call.IsInvoke() {
		if f := dc.Call.StaticCallee(); f != nil && f.Pkg != nil && strings.HasSuffix(f.Pkg.Pkg.Path(), "fxamacker/cbor/v2") && f.Name() == "Unmarshal" && len(dc.Call.Args) == 2 {
			return paramFields(fn, dc.Call.Args[0])
		}
	}
	return paramFields(fn, cond)
}

// condExtract: the Extract (if any) between a guard condition and its deciding call.
func condExtract(v ssa.Value) *ssa.Extract {
	for i := 0; i < 6; i++ {
		switch x := v.(type) {
		case *ssa.Extract:
			return x
		case *ssa.UnOp:
			v = x.X
		case *ssa.BinOp:
			if _, isC := x.Y.(*ssa.Const); isC {
				v = x.X
			} else {
				v = x.Y
			}
		default:
			return nil
		}
	}
	return nil
}

// forwardedCall: call targets an unexported same-package helper all of whose returns hand back, at result position idx,
// the result of one and the same inner call (`return polynomial.Sum(ps)`, `x, err := f(); return x, err`): returns
// that inner call (as value: the Extract or the call).
func forwardedCall(call *ssa.Call, idx int) ssa.Value {
	g := localHelperOf(call)
	if g == nil {
		return nil
	}
	// a pure wrapper: every return is `return K(...)` for one and the same inner call K (all results, in order)
	var inner *ssa.Call
	var val ssa.Value
	for _, ret := range returnsOf(g) {
		if idx >= len(ret.Results) {
			return nil
		}
		for i, res := range ret.Results {
			var k *ssa.Call
			switch x := res.(type) {
			case *ssa.Extract:
				if x.Index == i {
					k, _ = x.Tuple.(*ssa.Call)
				}
			case *ssa.Call:
				if len(ret.Results) == 1 {
					k = x
				}
			}
			if k == nil || (inner != nil && inner != k) {
				return nil
			}
			inner = k
			if i == idx {
				val = res
			}
		}
	}
	if inner == nil || len(returnsOf(g)) != 1 {
		return nil
	}
	return val
}

// a decider naming a conjunction ("a & b") is matched conjunct by conjunct
func decParts(d string) []string { return strings.Split(d, " & ") }
func decIs(d, s string) bool {
	for _, p := range decParts(d) {
		if p == s {
			return true
		}
	}
	return false
}
func decHasSuffix(d, s string) bool {
	for _, p := range decParts(d) {
		if strings.HasSuffix(p, s) {
			return true
		}
	}
	return false
}
func decHasPrefix(d, s string) bool {
	for _, p := range decParts(d) {
		if strings.HasPrefix(p, s) {
			return true
		}
	}
	return false
}

// flattenBool: a boolean value built by short-circuit evaluation (a tree of phis with constant edges) is flattened
// into its atoms. kind is "&" (all atoms must hold for true), "|" (any atom suffices) or "" (a single atom).
func flattenBool(v ssa.Value, depth int) (string, []ssa.Value) {
	phi, ok := v.(*ssa.Phi)
	if !ok || depth > 4 {
		return "", []ssa.Value{v}
	}
	if b, isB := phi.Type().Underlying().(*types.Basic); !isB || b.Kind() != types.Bool {
		return "", []ssa.Value{v}
	}
	nFalse, nTrue := 0, 0
	for _, e := range phi.Edges {
		if k, isC := constBool(e); isC {
			if k {
				nTrue++
			} else {
				nFalse++
			}
		}
	}
	if (nFalse == 0 && nTrue == 0) || (nFalse > 0 && nTrue > 0) {
		return "", []ssa.Value{v}
	}
	kind := "&"
	if nTrue > 0 {
		kind = "|"
	}
	var atoms []ssa.Value
	for i, e := range phi.Edges {
		if _, isC := constBool(e); isC {
			pb := phi.Block().Preds[i]
			iff, isIf := pb.Instrs[len(pb.Instrs)-1].(*ssa.If)
			if !isIf {
				return "", []ssa.Value{v}
			}
			// polarity: `a && b` leaves through the false edge of a, `a || b` through the true edge of a
			positive := (kind == "&" && pb.Succs[1] == phi.Block()) || (kind == "|" && pb.Succs[0] == phi.Block())
			if k2, sub := flattenBool(iff.Cond, depth+1); positive && k2 == kind {
				atoms = append(atoms, sub...)
			} else {
				atoms = append(atoms, iff.Cond)
			}
			continue
		}
		if k2, sub := flattenBool(e, depth+1); k2 == kind {
			atoms = append(atoms, sub...)
		} else {
			atoms = append(atoms, e)
		}
	}
	return kind, atoms
}

// combinedKey: one decider naming all atoms (canonical order) and the union of their fields.
func combinedKey(fn *ssa.Function, kind string, atoms []ssa.Value) (string, []string) {
	var decs, fields []string
	for _, a := range atoms {
		decs = append(decs, deciderOf(a))
		fields = append(fields, guardFields(fn, a)...)
	}
	sort.Strings(decs)
	sort.Strings(fields)
	uniq := fields[:0]
	for i, f := range fields {
		if i == 0 || f != fields[i-1] {
			uniq = append(uniq, f)
		}
	}
	return strings.Join(decs, " "+kind+" "), uniq
}

// freeVarIsConstant: the i-th captured variable of closure fn is, at every creation of the closure, a local of the
// parent that holds a constant object (big.NewInt(k)) and is assigned once.
func freeVarIsConstant(fn *ssa.Function, i int) bool {
	parent := fn.Parent()
	if parent == nil {
		return false
	}
	found, all := false, true
	allInstrs(parent, func(in ssa.Instruction) {
		mc, ok := in.(*ssa.MakeClosure)
		if !ok || mc.Fn != ssa.Value(fn) || i >= len(mc.Bindings) {
			return
		}
		found = true
		b := mc.Bindings[i]
		var v ssa.Value = b
		if a, isA := b.(*ssa.Alloc); isA {
			v = singleStore(a)
		}
		call, isCall := v.(*ssa.Call)
		if !isCall || !isCallToPkgFunc(call, "math/big", "NewInt") {
			all = false
			return
		}
		if _, isC := call.Call.Args[0].(*ssa.Const); !isC {
			all = false
		}
	})
	return found && all
}

// sameValueVsConst: both conditions compare one and the same value (structurally) with constants by == / !=.
func sameValueVsConst(a, b ssa.Value) bool {
	x, ok1 := a.(*ssa.BinOp)
	y, ok2 := b.(*ssa.BinOp)
	if !ok1 || !ok2 {
		return false
	}
	for _, bo := range []*ssa.BinOp{x, y} {
		if bo.Op != token.EQL && bo.Op != token.NEQ {
			return false
		}
		if _, isC := bo.Y.(*ssa.Const); !isC {
			return false
		}
	}
	return sameErr(x.X, y.X) || (path(x.X) == path(y.X) && !strings.Contains(path(x.X), "local:"))
}

// contextLabel: labels that name the curve group of an object or of the session (recv.group, recv.Group(),
// free:ConfigSender.Group(), body.Group ...). The group is fixed per session and handed around in many ways (field,
// accessor, parameter); it never distinguishes two inputs.
func contextLabel(l string) bool {
	last := l
	if i := strings.LastIndexByte(l, '.'); i >= 0 {
		last = l[i+1:]
	}
	switch last {
	case "group", "Group()", "Group", "Curve()", "curve":
		return true
	}
	return false
}

// guardFields: the labels a guard is keyed on: what its condition depends on, minus session context (the curve group).
func guardFields(fn *ssa.Function, cond ssa.Value) []string {
	var out []string
	for _, l := range guardFieldsRaw(fn, cond) {
		if !contextLabel(l) {
			out = append(out, l)
		}
	}
	return out
}

// untestedCallError: v (the error a return hands back) is the error result of a call whose only use as a value is that
// return (never compared with nil).
func untestedCallError(v ssa.Value) *ssa.Call { return untestedCallErrorBut(v, nil) }

func untestedCallErrorBut(v ssa.Value, allowed ssa.Value) *ssa.Call {
	v = stripIface(lastStoreInBlock(v))
	// `err = f(); if err != nil { err = fmt.Errorf("...: %w", err) }; ...; return x, err`: still f's error handed on (wrapped
	// on the failing edge only)
	if ph, isPhi := v.(*ssa.Phi); isPhi && len(ph.Edges) == 2 {
		for i := 0; i < 2; i++ {
			base, other := ph.Edges[i], ph.Edges[1-i]
			var call *ssa.Call
			switch x := stripIface(base).(type) {
			case *ssa.Call:
				call = x
			case *ssa.Extract:
				call, _ = x.Tuple.(*ssa.Call)
			}
			if call != nil && !freshError(stripIface(base)) && wrapsValue(other, base) {
				return call
			}
		}
	}
	var call *ssa.Call
	switch x := v.(type) {
	case *ssa.Call:
		call = x
	case *ssa.Extract:
		call, _ = x.Tuple.(*ssa.Call)
	}
	if call == nil || v.Referrers() == nil || freshError(v) {
		return nil // (an error constructor is a fresh error, not the verdict of a check)
	}
	for _, ref := range *v.Referrers() {
		switch ref.(type) {
		case *ssa.Return, *ssa.Store, *ssa.DebugRef:
		default:
			if rv, isV := ref.(ssa.Value); isV && allowed != nil && rv == allowed {
				continue
			}
			return nil
		}
	}
	return call
}

// passesOnCallError: following unconditional jumps from pred->b, the block returns the untested error of a call.
func passesOnCallError(pred, b *ssa.BasicBlock) bool {
	var cond ssa.Value
	if iff, ok := pred.Instrs[len(pred.Instrs)-1].(*ssa.If); ok {
		cond = iff.Cond
	}
	for i := 0; i < 4 && b != nil && len(b.Instrs) > 0; i++ {
		switch x := b.Instrs[len(b.Instrs)-1].(type) {
		case *ssa.Return:
			if len(x.Results) == 0 {
				return false
			}
			last := x.Results[len(x.Results)-1]
			if ph, ok := last.(*ssa.Phi); ok && ph.Block() == b {
				for k, p := range b.Preds {
					if p == pred {
						last = ph.Edges[k]
					}
				}
			}
			return isErrorType(last.Type()) && untestedCallErrorBut(last, cond) != nil
		case *ssa.Jump:
			pred, b = b, b.Succs[0]
		default:
			return false
		}
	}
	return false
}

// intBoundary: x compares an integer value with an integer constant by <, <=, >, >=; returns "cmp lo|lo+1" where the
// comparison separates the values <= lo from those >= lo+1, and the non-constant side.
func intBoundary(x *ssa.BinOp) (string, ssa.Value, bool) {
	op := x.Op
	side, kv := x.X, x.Y
	if _, isC := x.X.(*ssa.Const); isC {
		side, kv = x.Y, x.X
		switch op {
		case token.LSS:
			op = token.GTR
		case token.GTR:
			op = token.LSS
		case token.LEQ:
			op = token.GEQ
		case token.GEQ:
			op = token.LEQ
		}
	}
	if p, isP := stripConv(kv).(*ssa.Parameter); isP && deciderBind != nil {
		if a, bound := deciderBind[p]; bound {
			kv = stripConv(a)
		}
	}
	k, isC := kv.(*ssa.Const)
	if !isC || k.Value == nil || k.Value.Kind() != constant.Int {
		return "", nil, false
	}
	if _, sideConst := side.(*ssa.Const); sideConst {
		return "", nil, false
	}
	if bt, isB := side.Type().Underlying().(*types.Basic); !isB || bt.Info()&types.IsInteger == 0 {
		return "", nil, false
	}
	v, exact := constant.Int64Val(k.Value)
	if !exact || v < -(1<<62) || v > 1<<62 {
		return "", nil, false
	}
	switch op {
	case token.LSS, token.GEQ:
		return fmt.Sprintf("cmp %d|%d", v-1, v), side, true
	case token.LEQ, token.GTR:
		return fmt.Sprintf("cmp %d|%d", v, v+1), side, true
	}
	return "", nil, false
}

// isTranscriptHash: *hash.Hash of the module.
func isTranscriptHash(t types.Type) bool {
	n := namedOf(t)
	return n != nil && n.Obj().Name() == "Hash" && n.Obj().Pkg() != nil && strings.HasSuffix(n.Obj().Pkg().Path(), "/pkg/hash")
}

func allHavePrefix(xs []string, pre string) bool {
	for _, x := range xs {
		if !strings.HasPrefix(x, pre) {
			return false
		}
	}
	return true
}
