package main

import (
	"go/token"
	"go/types"
	"sort"
	"strings"

	"golang.org/x/tools/go/ssa"
)

// A guard is a branch of fn one of whose edges rejects (return false / return non-nil error /
// abort round / panic), canonicalised by deciding callee and by the fields of the
// function's parameters that feed the condition.
type guard struct {
	fn      *ssa.Function
	iff     *ssa.If // nil for a final `return <cond>`
	ret     *ssa.Return
	decider string   // e.g. "pedersen.Parameters.Verify", "arith.IsInIntervalLEps", "!= nil"
	fields  []string // e.g. "p.Z1", "public.Aux"
	cond    ssa.Value
	pos     token.Pos
	passBlk *ssa.BasicBlock // successor taken when the check passes
	// notCovering: lifted from a helper and known not to gate every accepting exit
	notCovering bool
	// inner: for a guard lifted from a helper, the helper's own branch (loop context of the check)
	inner *ssa.If
}

func (g guard) key() string { return g.decider + "(" + strings.Join(g.fields, ",") + ")" }

// blockRejects: following unconditional jumps, the block returns false / a non-nil error, or panics.
func blockRejects(b *ssa.BasicBlock) bool { return blockRejectsFrom(nil, b) }

// blockRejectsFrom: as blockRejects, for the edge pred->b (resolves phis of the return value).
func blockRejectsFrom(pred, b *ssa.BasicBlock) bool {
	from := pred
	for i := 0; i < 4 && b != nil; i++ {
		if len(b.Instrs) == 0 {
			return false
		}
		last := b.Instrs[len(b.Instrs)-1]
		switch x := last.(type) {
		case *ssa.Panic:
			return true
		case *ssa.Return:
			if from == nil {
				from = b
			}
			return returnRejects(x, from)
		case *ssa.Jump:
			// only follow if this block does nothing but prepare the return
			from = b
			b = b.Succs[0]
			continue
		default:
			return false
		}
	}
	return false
}

func returnRejects(x *ssa.Return, from *ssa.BasicBlock) bool {
	if len(x.Results) == 0 {
		return false
	}
	// `return r.AbortRound(err, culprits...), nil`: a protocol-level rejection
	if len(x.Results) == 2 {
		first := x.Results[0]
		if ph, ok := first.(*ssa.Phi); ok && ph.Block() == x.Block() {
			for i, p := range x.Block().Preds {
				if p == from {
					first = ph.Edges[i]
				}
			}
		}
		if call, ok := stripConv(first).(*ssa.Call); ok {
			if o := calleeObj(call); o != nil && o.Name() == "AbortRound" {
				return true
			}
		}
		// diversion into an identifiable-abort round (`return &abort1{...}, nil`)
		if n := namedOf(stripConv(first).Type()); n != nil && strings.HasPrefix(n.Obj().Name(), "abort") {
			return true
		}
	}
	last := x.Results[len(x.Results)-1]
	// through a phi: pick the edge coming from `from` if determinable
	if ph, ok := last.(*ssa.Phi); ok && ph.Block() == x.Block() {
		for i, p := range x.Block().Preds {
			if p == from {
				last = ph.Edges[i]
			}
		}
	}
	if mi, ok := last.(*ssa.MakeInterface); ok {
		// closures handed to the pool return their verdict boxed in an interface{}
		if b, isB := constBool(mi.X); isB {
			return !b
		}
	}
	switch t := last.Type().Underlying().(type) {
	case *types.Basic:
		if t.Kind() == types.Bool {
			b, ok := constBool(last)
			return ok && !b
		}
	case *types.Interface:
		if isErrorType(last.Type()) {
			return !isNilConst(last)
		}
	}
	if isErrorType(last.Type()) {
		return !isNilConst(last)
	}
	return false
}

func isErrorType(t types.Type) bool {
	n, ok := t.(*types.Named)
	return ok && n.Obj().Pkg() == nil && n.Obj().Name() == "error"
}

func shortFuncName(o *types.Func) string {
	if o == nil {
		return "?"
	}
	sig, _ := o.Type().(*types.Signature)
	if sig != nil && sig.Recv() != nil {
		t := sig.Recv().Type()
		if p, ok := t.(*types.Pointer); ok {
			t = p.Elem()
		}
		if n, ok := t.(*types.Named); ok {
			pk := ""
			if n.Obj().Pkg() != nil {
				pk = n.Obj().Pkg().Name() + "."
			}
			return pk + n.Obj().Name() + "." + canonName(o)
		}
		return canonName(o)
	}
	if o.Pkg() != nil {
		return o.Pkg().Name() + "." + o.Name()
	}
	return o.Name()
}

// decider names what decides a condition.
func deciderOf(v ssa.Value) string {
	switch x := v.(type) {
	case *ssa.UnOp:
		if x.Op == token.NOT {
			return deciderOf(x.X)
		}
		if x.Op == token.MUL {
			return "load"
		}
	case *ssa.Call:
		if b, ok := x.Call.Value.(*ssa.Builtin); ok {
			return b.Name()
		}
		if o := calleeObj(x); o != nil {
			return shortFuncName(o)
		}
		return "dynamic-call"
	case *ssa.Extract:
		return deciderOf(x.Tuple)
	case *ssa.BinOp:
		l, rr := deciderOf(x.X), deciderOf(x.Y)
		op := x.Op.String()
		if x.Op == token.EQL {
			// == and != carry the same information once the rejecting edge is known: one spelling
			op = "!="
		}
		if isNilConst(x.Y) || isNilConst(x.X) {
			if l != "" && l != "load" && l != "value" {
				return l + " " + op + " nil"
			}
			return op + " nil"
		}
		if _, isC := x.Y.(*ssa.Const); isC {
			if l != "" && l != "load" && l != "value" {
				return l + " " + op + " const"
			}
			return op + " const"
		}
		if l != "" && l != "load" && l != "value" {
			return l + " " + op
		}
		if rr != "" && rr != "load" && rr != "value" {
			return rr + " " + op
		}
		return op
	case *ssa.Phi:
		return "phi"
	case *ssa.TypeAssert:
		return "typeassert"
	case *ssa.Lookup:
		return "lookup"
	}
	return "value"
}

// paramFields collects "param.field" names the value depends on (through calls, loads, phis).
func paramFields(fn *ssa.Function, v ssa.Value) []string {
	set := map[string]bool{}
	seen := map[ssa.Value]bool{}
	isParam := func(x ssa.Value) (string, bool) {
		for i, p := range fn.Params {
			if x == ssa.Value(p) {
				return paramLabel(fn, i), true
			}
		}
		for _, p := range fn.FreeVars {
			if x == ssa.Value(p) {
				return "free:" + shortType(p.Type()), true
			}
		}
		return "", false
	}
	var rootParam func(x ssa.Value, d int) (string, bool)
	rootParam = func(x ssa.Value, d int) (string, bool) {
		if d > 40 {
			return "", false
		}
		if n, ok := isParam(x); ok {
			return n, true
		}
		switch y := x.(type) {
		case *ssa.UnOp:
			if y.Op == token.MUL {
				return rootParam(y.X, d+1)
			}
		case *ssa.Alloc:
			if sv := singleStore(y); sv != nil {
				return rootParam(sv, d+1)
			}
			// a local wire/aggregate struct (decoded into, or built field by field): a root of its own
			if pt, ok := y.Type().(*types.Pointer); ok {
				if n := namedOf(pt.Elem()); n != nil {
					if _, isS := n.Underlying().(*types.Struct); isS && n.Obj().Pkg() != nil && strings.HasPrefix(n.Obj().Pkg().Path(), modPath) {
						if _, isPtrElem := pt.Elem().(*types.Pointer); !isPtrElem && decodedInto(y) {
							return "local:" + n.Obj().Name(), true
						}
					}
				}
			}
		case *ssa.TypeAssert:
			// msg.Content.(*T): the decoded message body
			if isMessageContent(y.X) {
				return "body", true
			}
		case *ssa.Extract:
			if ta, ok := y.Tuple.(*ssa.TypeAssert); ok && y.Index == 0 && isMessageContent(ta.X) {
				return "body", true
			}
		case *ssa.Phi:
			// the same root on every edge (e.g. body from both arms of a comma-ok assertion)
			lbl := ""
			for _, e := range y.Edges {
				n, ok := rootParam(e, d+1)
				if !ok || (lbl != "" && n != lbl) {
					return "", false
				}
				lbl = n
			}
			if lbl != "" {
				return lbl, true
			}
		case *ssa.FieldAddr:
			// embedded struct pointer: p.Commitment.S -> treat as p.S
			if n, ok := rootParam(y.X, d+1); ok {
				fv := fieldVar(y.X.Type(), y.Field)
				if fv != nil && fv.Embedded() {
					return n, true
				}
			}
		case *ssa.Field:
			if n, ok := rootParam(y.X, d+1); ok {
				fv := fieldVar(y.X.Type(), y.Field)
				if fv != nil && fv.Embedded() {
					return n, true
				}
			}
		}
		return "", false
	}
	var rec func(x ssa.Value, d int)
	rec = func(x ssa.Value, d int) {
		if x == nil || seen[x] || d > 60 {
			return
		}
		seen[x] = true
		if _, isP := x.(*ssa.Parameter); !isP {
			if _, isF := x.(*ssa.FreeVar); !isF {
				if n, ok := rootParam(x, 0); ok && n != "" {
					set[n] = true
					return
				}
			}
		}
		switch y := x.(type) {
		case *ssa.FieldAddr:
			if n, ok := rootParam(y.X, 0); ok {
				fv := fieldVar(y.X.Type(), y.Field)
				if fv != nil && !fv.Embedded() {
					set[n+"."+fv.Name()] = true
					return
				}
			}
		case *ssa.Field:
			if n, ok := rootParam(y.X, 0); ok {
				fv := fieldVar(y.X.Type(), y.Field)
				if fv != nil && !fv.Embedded() {
					set[n+"."+fv.Name()] = true
					return
				}
			}
		case *ssa.Lookup:
			// table[key] with both sides simple: keep the pairing ("recv.K[Message.To]")
			if b, i := paramFields(fn, y.X), paramFields(fn, y.Index); len(b) == 1 && len(i) == 1 && !strings.HasSuffix(b[0], "()") && d < 50 {
				set[b[0]+"["+i[0]+"]"] = true
				return
			}
		case *ssa.Parameter, *ssa.FreeVar:
			if n, ok := isParam(x); ok && n != "" {
				set[n] = true
			}
			return
		case *ssa.Call:
			if cal := y.Call.StaticCallee(); cal != nil && cal.Signature.Recv() != nil && len(y.Call.Args) > 0 && cal.Pkg != nil && strings.HasPrefix(cal.Pkg.Pkg.Path(), modPath) {
				if n, ok := rootParam(y.Call.Args[0], 0); ok && n != "" {
					set[n+"."+cal.Name()+"()"] = true
					for _, a := range y.Call.Args[1:] {
						rec(a, d+1)
					}
					return
				}
			}
		}
		if ph, ok := x.(*ssa.Phi); ok {
			allConst := true
			for _, e := range ph.Edges {
				if _, isC := e.(*ssa.Const); !isC {
					allConst = false
				}
			}
			if allConst {
				// a flag chosen by a branch (`if m.Broadcast { b = 1 }`): control dependence on the condition
				for _, pb := range ph.Block().Preds {
					for d := pb; d != nil; d = d.Idom() {
						if len(d.Instrs) > 0 {
							if iff, isIf := d.Instrs[len(d.Instrs)-1].(*ssa.If); isIf {
								rec(iff.Cond, d0(d))
								break
							}
						}
					}
				}
			}
		}
		if a, ok := x.(*ssa.Alloc); ok {
			// local aggregate (e.g. the backing array of variadic arguments): what was stored into it
			for _, r := range *a.Referrers() {
				switch y := r.(type) {
				case *ssa.Store:
					if y.Addr == ssa.Value(a) {
						rec(y.Val, d+1)
					}
				case *ssa.IndexAddr:
					for _, rr := range *y.Referrers() {
						if st, ok := rr.(*ssa.Store); ok && st.Addr == ssa.Value(y) {
							rec(st.Val, d+1)
						}
					}
				case *ssa.FieldAddr:
					for _, rr := range *y.Referrers() {
						if st, ok := rr.(*ssa.Store); ok && st.Addr == ssa.Value(y) {
							rec(st.Val, d+1)
						}
					}
				}
			}
			return
		}
		if in, ok := x.(ssa.Instruction); ok {
			for _, op := range in.Operands(nil) {
				if *op != nil {
					rec(*op, d+1)
				}
			}
		}
		if u, ok := x.(*ssa.UnOp); ok && u.Op == token.MUL {
			if a, ok := u.X.(*ssa.Alloc); ok {
				for _, r := range *a.Referrers() {
					if st, ok := r.(*ssa.Store); ok && st.Addr == ssa.Value(a) {
						rec(st.Val, d+1)
					}
					// in-place mutation through method calls on the local: x.Add(y)
					if call, ok := r.(ssa.CallInstruction); ok {
						for _, arg := range call.Common().Args {
							rec(arg, d+1)
						}
					}
				}
			}
		}
		// objects mutated in place through their methods (acc.Add(y), rid.XOR(z)): a fresh object
		// depends on the arguments of the calls it is the receiver of
		if call, ok := x.(*ssa.Call); ok {
			if refs := call.Referrers(); refs != nil {
				for _, ref := range *refs {
					ci, isCall := ref.(ssa.CallInstruction)
					if !isCall {
						continue
					}
					cc := ci.Common()
					if cc.IsInvoke() && cc.Value == ssa.Value(call) {
						for _, a := range cc.Args {
							rec(a, d+1)
						}
					} else if !cc.IsInvoke() && len(cc.Args) > 1 && cc.Args[0] == ssa.Value(call) && cc.StaticCallee() != nil && cc.StaticCallee().Signature.Recv() != nil {
						for _, a := range cc.Args[1:] {
							rec(a, d+1)
						}
					}
				}
			}
		}
	}
	rec(v, 0)
	out := make([]string, 0, len(set))
	for k := range set {
		out = append(out, k)
	}
	sort.Strings(out)
	// drop bare params when a field of the same param is present
	var res []string
	for _, k := range out {
		if !strings.Contains(k, ".") {
			has := false
			for _, k2 := range out {
				if strings.HasPrefix(k2, k+".") {
					has = true
				}
			}
			if has {
				continue
			}
		}
		res = append(res, k)
	}
	return res
}

// rejectGuards lists the reject guards of fn (including a final `return <bool expr>`).
func rejectGuards(fn *ssa.Function) []guard {
	var out []guard
	acc := acceptReturns(fn)
	// noAccept: no accepting return is reachable from b (every continuation rejects)
	noAccept := func(b *ssa.BasicBlock) bool {
		if len(acc) == 0 {
			return false
		}
		for _, a := range acc {
			if blockReaches(b, a.Block()) {
				return false
			}
		}
		return true
	}
	for _, b := range fn.Blocks {
		if len(b.Instrs) == 0 {
			continue
		}
		switch x := b.Instrs[len(b.Instrs)-1].(type) {
		case *ssa.If:
			r0, r1 := blockRejectsFrom(b, b.Succs[0]) || noAccept(b.Succs[0]), blockRejectsFrom(b, b.Succs[1]) || noAccept(b.Succs[1])
			if r0 == r1 {
				continue
			}
			pass := b.Succs[0]
			if r0 {
				pass = b.Succs[1]
			}
			pos := x.Cond.Pos()
			if !pos.IsValid() {
				for i := len(b.Instrs) - 1; i >= 0 && !pos.IsValid(); i-- {
					pos = b.Instrs[i].Pos()
				}
			}
			out = append(out, guard{fn: fn, iff: x, decider: deciderOf(x.Cond), fields: paramFields(fn, x.Cond), cond: x.Cond, pos: pos, passBlk: pass})
		case *ssa.Return:
			if len(x.Results) == 0 {
				continue
			}
			last := x.Results[len(x.Results)-1]
			if _, isConst := last.(*ssa.Const); isConst {
				continue
			}
			if mi, isMI := last.(*ssa.MakeInterface); isMI {
				if bt, ok := mi.X.Type().Underlying().(*types.Basic); ok && bt.Kind() == types.Bool {
					if _, isC := mi.X.(*ssa.Const); !isC {
						last = mi.X
					}
				}
			}
			if b, ok := last.Type().Underlying().(*types.Basic); ok && b.Kind() == types.Bool {
				if ph, isPhi := last.(*ssa.Phi); isPhi {
					// short-circuit &&: each non-constant edge is a guard
					for _, e := range ph.Edges {
						if _, isC := e.(*ssa.Const); isC {
							continue
						}
						out = append(out, guard{fn: fn, ret: x, decider: deciderOf(e), fields: paramFields(fn, e), cond: e, pos: e.Pos()})
					}
					continue
				}
				out = append(out, guard{fn: fn, ret: x, decider: deciderOf(last), fields: paramFields(fn, last), cond: last, pos: x.Pos()})
			}
		}
	}
	sort.SliceStable(out, func(i, j int) bool { return out[i].pos < out[j].pos })
	return out
}

// acceptReturns: returns that accept (true / nil error / a next round).
func acceptReturns(fn *ssa.Function) []*ssa.Return {
	var out []*ssa.Return
	for _, r := range returnsOf(fn) {
		if len(r.Results) == 0 {
			out = append(out, r)
			continue
		}
		if returnRejects(r, r.Block()) {
			continue
		}
		last := r.Results[len(r.Results)-1]
		if mi, ok := last.(*ssa.MakeInterface); ok {
			if cb, isC := constBool(mi.X); isC && !cb {
				continue
			}
		}
		if b, ok := last.Type().Underlying().(*types.Basic); ok && b.Kind() == types.Bool {
			if cb, isC := constBool(last); isC && !cb {
				continue
			}
			out = append(out, r)
			continue
		}
		if isErrorType(last.Type()) {
			if isNilConst(last) {
				out = append(out, r)
			} else if _, isPhi := last.(*ssa.Phi); isPhi {
				out = append(out, r)
			}
			continue
		}
		out = append(out, r)
	}
	return out
}

// guardCoversAccepts: the guard's branch dominates every accepting return, or sits in a loop
// whose header dominates them (per-element checks).
func guardCoversAccepts(g guard) bool {
	if g.notCovering {
		return false
	}
	if g.iff == nil {
		return true
	}
	b := g.iff.Block()
	// a per-element check inside a loop: an accepting return inside that loop (reachable without going back through
	// the loop header) stops the walk early and leaves the remaining elements unchecked
	var header *ssa.BasicBlock
	if blockInLoop(b) {
		for d := b; d != nil && header == nil; d = d.Idom() {
			if d != b && blockReaches(b, d) && blockReaches(d, b) {
				header = d
			}
		}
	}
	for _, r := range acceptReturns(g.fn) {
		if header != nil && header.Dominates(r.Block()) && reachesAvoiding(b, r.Block(), header) {
			return false
		}
		if r.Block() == b {
			continue
		}
		if b.Dominates(r.Block()) {
			// the accepting return must be reached through the passing edge
			if g.passBlk != nil && !blockReaches(g.passBlk, r.Block()) {
				return false
			}
			continue
		}
		// loop case
		inLoop := false
		for _, s := range b.Succs {
			if blockReaches(s, b) {
				inLoop = true
			}
		}
		if !inLoop {
			return false
		}
		// find a dominator of b that is a loop header dominating r
		ok := false
		for d := b.Idom(); d != nil; d = d.Idom() {
			if d.Dominates(r.Block()) && blockReaches(b, d) {
				// the accepting return must lie after the loop: an accept reachable from inside the body without
				// going back through the header ends the walk early and leaves the remaining elements unchecked
				if reachesAvoiding(b, r.Block(), d) {
					return false
				}
				ok = true
				break
			}
		}
		if !ok {
			return false
		}
	}
	return true
}

// paramLabel names a parameter independently of its source name: "recv" for the receiver, the
// short type name otherwise (with an index when several parameters share the type). Context
// parameters (hash state, curve, pool) are not data and get the empty label.
func paramLabel(fn *ssa.Function, i int) string {
	p := fn.Params[i]
	if fn.Signature.Recv() != nil && i == 0 {
		return "recv"
	}
	st := shortType(p.Type())
	switch st {
	case "Hash", "Curve", "Pool":
		return ""
	}
	n, idx := 0, 0
	for j, q := range fn.Params {
		if fn.Signature.Recv() != nil && j == 0 {
			continue
		}
		if shortType(q.Type()) == st {
			if j == i {
				idx = n
			}
			n++
		}
	}
	if n > 1 {
		return st + "#" + string(rune('0'+idx))
	}
	return st
}

func shortType(t types.Type) string {
	for {
		t = types.Unalias(t)
		switch x := t.(type) {
		case *types.Pointer:
			t = x.Elem()
			continue
		case *types.Named:
			return x.Obj().Name()
		case *types.Slice:
			return "[]" + shortType(x.Elem())
		case *types.Map:
			return "map"
		case *types.Chan:
			return "chan"
		case *types.Signature:
			return "func"
		}
		return t.String()
	}
}

// isMessageContent: v is the Content field of a round.Message parameter/value.
func isMessageContent(v ssa.Value) bool {
	var t types.Type
	var fld int
	switch x := v.(type) {
	case *ssa.Field:
		t, fld = x.X.Type(), x.Field
	case *ssa.UnOp:
		fa, ok := x.X.(*ssa.FieldAddr)
		if !ok {
			return false
		}
		t, fld = fa.X.Type(), fa.Field
	default:
		return false
	}
	fv := fieldVar(t, fld)
	return fv != nil && fv.Name() == "Content" && shortType(t) == "Message"
}

// liftedGuards: the reject guards of fn plus, for every guard of fn that is decided by a call to a
// helper of the same package (error/bool result), the helper's own reject guards translated to
// fn's vocabulary (one level of inlining, depth <= 2). Extracting checks into a helper therefore
// does not change the inventory.
func liftedGuards(fn *ssa.Function, depth int) []guard {
	base := rejectGuards(fn)
	if depth >= 2 {
		return base
	}
	out := append([]guard(nil), base...)
	for _, G := range base {
		call := condCall(G.cond)
		if call == nil {
			continue
		}
		g := call.Call.StaticCallee()
		if g == nil || g == fn || g.Pkg == nil || fn.Pkg == nil || g.Pkg != fn.Pkg || len(g.Blocks) == 0 {
			continue
		}
		// only helpers of the protocol itself (not methods of other data types such as proofs)
		// ... except a validation method of one of fn's own input parameters (msg.validate(n))
		onParam := false
		if g.Signature.Recv() != nil && len(call.Call.Args) > 0 {
			if prm, ok := call.Call.Args[0].(*ssa.Parameter); ok && (fn.Signature.Recv() == nil || prm != fn.Params[0]) {
				onParam = true
			}
		}
		if onParam {
			// lifted below with the receiver translated into the caller's label of that parameter
		} else if g.Signature.Recv() != nil && fn.Signature.Recv() != nil && namedOf(g.Signature.Recv().Type()) != namedOf(fn.Signature.Recv().Type()) {
			if !embeds(namedOf(fn.Signature.Recv().Type()), namedOf(g.Signature.Recv().Type())) {
				continue
			}
		} else if g.Signature.Recv() != nil && fn.Signature.Recv() == nil {
			continue
		}
		coverG := guardCoversAccepts(G)
		for _, S := range liftedGuards(g, depth+1) {
			var fields []string
			set := map[string]bool{}
			// translation of the helper's parameter labels into the caller's vocabulary
			trans := map[string][]string{}
			for i := range g.Params {
				L := paramLabel(g, i)
				if L == "" || (L == "recv" && !onParam) || i >= len(call.Call.Args) {
					continue
				}
				trans[L] = paramFields(fn, call.Call.Args[i])
			}
			var translate func(fl string) []string
			translate = func(fl string) []string {
				// composite "base[idx]..." : translate the pieces
				if i := strings.IndexByte(fl, '['); i > 0 && strings.HasSuffix(fl, "]") {
					depth, j := 0, -1
					for k := i; k < len(fl); k++ {
						if fl[k] == '[' {
							depth++
						} else if fl[k] == ']' {
							depth--
							if depth == 0 {
								j = k
								break
							}
						}
					}
					if j > 0 {
						bs, is := translate(fl[:i]), translate(fl[i+1:j])
						rest := fl[j+1:]
						if len(bs) == 1 && len(is) == 1 {
							return []string{bs[0] + "[" + is[0] + "]" + rest}
						}
						return append(bs, is...)
					}
				}
				for L, cf := range trans {
					if fl == L || strings.HasPrefix(fl, L+".") {
						suffix := fl[len(L):]
						if len(cf) == 1 && !strings.HasSuffix(cf[0], "()") {
							return []string{cf[0] + suffix}
						}
						return cf
					}
				}
				return []string{fl}
			}
			for _, fl := range S.fields {
				for _, x := range translate(fl) {
					set[x] = true
				}
			}
			for k := range set {
				fields = append(fields, k)
			}
			sort.Strings(fields)
			lg := guard{fn: fn, iff: G.iff, ret: G.ret, decider: S.decider, fields: fields, cond: S.cond, pos: S.pos, passBlk: G.passBlk, inner: S.iff}
			if S.inner != nil {
				lg.inner = S.inner
			}
			if !(coverG && guardCoversAccepts(S)) {
				lg.decider = S.decider
				lg.notCovering = true
			}
			out = append(out, lg)
		}
	}
	return out
}

func embeds(outer, inner *types.Named) bool {
	if outer == nil || inner == nil {
		return false
	}
	seen := map[*types.Named]bool{}
	var rec func(n *types.Named) bool
	rec = func(n *types.Named) bool {
		if n == inner {
			return true
		}
		if seen[n] {
			return false
		}
		seen[n] = true
		st, ok := n.Underlying().(*types.Struct)
		if !ok {
			return false
		}
		for i := 0; i < st.NumFields(); i++ {
			if st.Field(i).Embedded() {
				if m := namedOf(st.Field(i).Type()); m != nil && rec(m) {
					return true
				}
			}
		}
		return false
	}
	return rec(outer)
}

func d0(_ *ssa.BasicBlock) int { return 1 }

// decodedInto: the local struct is filled by a decoder (its address is handed to an Unmarshal* function),
// so its fields are inputs rather than values computed here.
func decodedInto(a *ssa.Alloc) bool {
	var check func(v ssa.Value, d int) bool
	check = func(v ssa.Value, d int) bool {
		if d > 3 || v.Referrers() == nil {
			return false
		}
		for _, ref := range *v.Referrers() {
			switch x := ref.(type) {
			case *ssa.MakeInterface:
				if check(x, d+1) {
					return true
				}
			case *ssa.Store:
				// stored into a pointer variable whose address is handed on (cm := &T{}; Unmarshal(data, &cm))
				if x.Val == v {
					if pa, ok := x.Addr.(*ssa.Alloc); ok && check(pa, d+1) {
						return true
					}
				}
			case ssa.CallInstruction:
				if o := calleeObj(x); o != nil && strings.HasPrefix(o.Name(), "Unmarshal") {
					return true
				}
			}
		}
		return false
	}
	return check(a, 0)
}

// reachesAvoiding: some path from a successor of `from` reaches `to` without passing through `avoid`.
func reachesAvoiding(from, to, avoid *ssa.BasicBlock) bool {
	seen := map[*ssa.BasicBlock]bool{avoid: true}
	var walk func(b *ssa.BasicBlock) bool
	walk = func(b *ssa.BasicBlock) bool {
		if b == to {
			return true
		}
		if seen[b] {
			return false
		}
		seen[b] = true
		for _, s := range b.Succs {
			if walk(s) {
				return true
			}
		}
		return false
	}
	for _, s := range from.Succs {
		if walk(s) {
			return true
		}
	}
	return false
}
