package main

import (
	"go/ast"
	"go/types"
	"sort"
	"strings"

	"golang.org/x/tools/go/packages"
	"golang.org/x/tools/go/ssa"
)

// roundInfo describes one type implementing round.Round under protocols/.
type roundInfo struct {
	named     *types.Named
	pkg       *packages.Package
	rel       string
	name      string // "protocols/cmp/keygen.round4"
	broadcast bool   // declares StoreBroadcastMessage itself
	methods   map[string]*ssa.Function
	number    int64        // constant returned by Number(), -1 unknown
	p2p       *types.Named // content type consumed via MessageContent (nil: none)
	bcast     *types.Named // content type consumed via BroadcastContent
}

type roundModel struct {
	c      *Ctx
	rounds []*roundInfo
	byType map[*types.Named]*roundInfo
	iface  *types.Interface
}

var roundModelMemo *roundModel

func getRoundModel(c *Ctx) *roundModel {
	if roundModelMemo != nil && roundModelMemo.c == c {
		return roundModelMemo
	}
	m := &roundModel{c: c, byType: map[*types.Named]*roundInfo{}}
	rp := c.PkgRel("internal/round")
	if rp == nil {
		return m
	}
	ro := rp.Types.Scope().Lookup("Round")
	if ro == nil {
		return m
	}
	m.iface = ro.Type().Underlying().(*types.Interface)
	for _, p := range c.LibPkgs() {
		rel := c.Rel(p.Types)
		if !strings.HasPrefix(rel, "protocols/") {
			continue
		}
		sc := p.Types.Scope()
		for _, n := range sc.Names() {
			tn, ok := sc.Lookup(n).(*types.TypeName)
			if !ok || tn.IsAlias() {
				continue
			}
			named, ok := tn.Type().(*types.Named)
			if !ok {
				continue
			}
			if _, isStruct := named.Underlying().(*types.Struct); !isStruct {
				continue
			}
			if !types.Implements(types.NewPointer(named), m.iface) {
				continue
			}
			ri := &roundInfo{named: named, pkg: p, rel: rel, name: rel + "." + named.Obj().Name(), methods: map[string]*ssa.Function{}, number: -1}
			for _, mn := range []string{"VerifyMessage", "StoreMessage", "StoreBroadcastMessage", "Finalize", "MessageContent", "BroadcastContent", "Number"} {
				if fn := declaredMethod(c, named, mn); fn != nil {
					ri.methods[mn] = fn
				}
			}
			if len(ri.methods) == 0 {
				continue
			}
			ri.broadcast = ri.methods["StoreBroadcastMessage"] != nil
			if fn := ri.methods["Number"]; fn != nil {
				for _, ret := range returnsOf(fn) {
					if len(ret.Results) == 1 {
						if k, ok := constInt(ret.Results[0]); ok {
							ri.number = k
						}
					}
				}
			}
			ri.p2p = contentTypeOf(ri.methods["MessageContent"])
			ri.bcast = contentTypeOf(ri.methods["BroadcastContent"])
			m.rounds = append(m.rounds, ri)
			m.byType[named] = ri
		}
	}
	sort.Slice(m.rounds, func(i, j int) bool { return m.rounds[i].name < m.rounds[j].name })
	roundModelMemo = m
	return m
}

// declaredMethod: method declared directly on named (value or pointer receiver), not promoted.
func declaredMethod(c *Ctx, named *types.Named, name string) *ssa.Function {
	for i := 0; i < named.NumMethods(); i++ {
		f := named.Method(i)
		if f.Name() == name {
			return c.Prog.FuncValue(f)
		}
	}
	return nil
}

// contentTypeOf: the struct type of the composite literal returned by MessageContent/BroadcastContent.
func contentTypeOf(fn *ssa.Function) *types.Named {
	if fn == nil {
		return nil
	}
	var out *types.Named
	for _, ret := range returnsOf(fn) {
		if len(ret.Results) != 1 {
			continue
		}
		v := ret.Results[0]
		if mi, ok := v.(*ssa.MakeInterface); ok {
			v = mi.X
		}
		if isNilConst(v) {
			continue
		}
		if n := namedOf(v.Type()); n != nil {
			out = n
		}
	}
	return out
}

// consumers: the methods of ri that process content type T.
func (ri *roundInfo) consumers(bcast bool) []*ssa.Function {
	var out []*ssa.Function
	if bcast {
		if f := ri.methods["StoreBroadcastMessage"]; f != nil {
			out = append(out, f)
		}
		return out
	}
	for _, n := range []string{"VerifyMessage", "StoreMessage"} {
		if f := ri.methods[n]; f != nil {
			out = append(out, f)
		}
	}
	return out
}

// contentField is a (possibly nested) field of a content struct.
type contentField struct {
	path string // "Fac", "DeltaProofs[]", "Msg.Proof"
	typ  types.Type
}

// flattenContent lists the fields of content type T, descending into nested structs of the
// same module that are pure data carriers (no Verify/Validate method of their own), and into map/slice/array elements.
func flattenContent(c *Ctx, t *types.Named) []contentField {
	var out []contentField
	seen := map[types.Type]bool{}
	var rec func(prefix string, typ types.Type, depth int)
	rec = func(prefix string, typ types.Type, depth int) {
		if depth > 4 {
			return
		}
		switch u := typ.(type) {
		case *types.Pointer:
			rec(prefix, u.Elem(), depth)
			return
		case *types.Map:
			rec(prefix+"[]", u.Elem(), depth+1)
			return
		case *types.Slice:
			if b, ok := u.Elem().Underlying().(*types.Basic); ok && b.Kind() == types.Byte {
				return
			}
			rec(prefix+"[]", u.Elem(), depth+1)
			return
		case *types.Array:
			rec(prefix+"[]", u.Elem(), depth+1)
			return
		}
		n, ok := typ.(*types.Named)
		if !ok {
			return
		}
		if prefix != "" {
			out = append(out, contentField{strings.TrimPrefix(prefix, "."), typ})
		}
		if seen[n] {
			return
		}
		st, isStruct := n.Underlying().(*types.Struct)
		if !isStruct || !c.InModule(n.Obj().Pkg()) {
			return
		}
		if prefix != "" && (hasMethod(n, "Verify") || hasMethod(n, "Validate")) {
			return // checked as a unit
		}
		if prefix != "" && n.Obj().Pkg() != t.Obj().Pkg() {
			return // sub-protocol message (internal/ot ...): consumed and checked by that package's own functions (inventory rule)
		}
		seen[n] = true
		for i := 0; i < st.NumFields(); i++ {
			f := st.Field(i)
			if f.Embedded() && !f.Exported() {
				continue
			}
			if f.Embedded() {
				if _, isS := f.Type().Underlying().(*types.Struct); isS && strings.HasSuffix(f.Type().String(), "BroadcastContent") {
					continue
				}
			}
			ft := f.Type()
			sub := prefix + "." + f.Name()
			// leaf (non-named) fields still listed
			if _, isNamed := derefType(ft).(*types.Named); !isNamed {
				switch ft.Underlying().(type) {
				case *types.Map, *types.Slice, *types.Array:
					rec(sub, ft, depth+1)
				}
				continue
			}
			rec(sub, ft, depth+1)
		}
		seen[n] = false
	}
	rec("", t, 0)
	return out
}

func derefType(t types.Type) types.Type {
	if p, ok := t.(*types.Pointer); ok {
		return p.Elem()
	}
	return t
}

func hasMethod(n *types.Named, name string) bool {
	ms := types.NewMethodSet(types.NewPointer(n))
	for i := 0; i < ms.Len(); i++ {
		if ms.At(i).Obj().Name() == name {
			return true
		}
	}
	return false
}

func methodOfType(t types.Type, name string) *types.Func {
	n := namedOf(t)
	if n == nil {
		return nil
	}
	ms := types.NewMethodSet(types.NewPointer(n))
	for i := 0; i < ms.Len(); i++ {
		if ms.At(i).Obj().Name() == name {
			f, _ := ms.At(i).Obj().(*types.Func)
			return f
		}
	}
	return nil
}

// enclosingFuncName for AST positions.
func enclosingFunc(file *ast.File, pos ast.Node) string {
	name := ""
	ast.Inspect(file, func(n ast.Node) bool {
		if fd, ok := n.(*ast.FuncDecl); ok && fd.Pos() <= pos.Pos() && pos.End() <= fd.End() {
			name = fd.Name.Name
		}
		return true
	})
	return name
}
