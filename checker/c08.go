package main

import (
	"fmt"
	"go/token"
	"go/types"
	"strings"

	"golang.org/x/tools/go/ssa"
)

func init() {
	register("C08", propMeta{
		Explanation: "Refresh decided structurally (histories are a run-time quantifier). DEP-3 zero constant: on the refresh path the constant term handed to polynomial.NewPolynomial is a freshly created zero scalar (NewScalar()) that nothing writes and that depends on no random source or previous share (CMP keygen.Start, FROST round1.Finalize); peers' constants are checked to be zero/identity (inventoried guards in cmp round3 / frost round2). " +
			"DEP-4 previous material is added: the refreshed secret share must-depend on the previous secret share and on every received sub-share; each refreshed public share must-depend on the previous public share and on the summed commitment polynomial (CMP round4, FROST round3); Doerner: each side's new share depends on its old share, its own and the peer's refresh scalar. " +
			"ALIAS-1: refresh never rewrites, in place, scalar objects of the previous epoch's config (shared rule with C14; this is what 'every party's share has changed / old shares are retired' needs structurally). START-S2 (shared with C09): the refresh session is bound to the current config. " +
			"NOT decided: that shares actually changed numerically, that mixed epochs fail to reconstruct, that signing with refreshed material succeeds.",
		Trusted:     append([]string{"dep.go effect summaries", "tables/round_guards.json for the peers'-constant checks"}, commonTrusted...),
		Assumptions: []string{"polynomial.NewPolynomial uses its third argument as the constant coefficient"},
	}, runC08)
}

func runC08(c *Ctx, r *Run) {
	r.Rule("DEP-3", "refresh polynomials have a zero constant: the constant argument is an unwritten fresh NewScalar() on the refresh path; peers' constants are checked")
	r.Rule("DEP-4", "the refreshed secret share depends on the previous share and all received sub-shares; refreshed public shares depend on the previous public shares and the summed polynomial")
	r.Rule("ALIAS-1", "refresh does not mutate the previous epoch's key-material objects in place")
	r.Rule("START-S2", "the CMP refresh, sign, presign and online-sign sessions are bound to the whole current config (a signer on another epoch computes another tag)")

	// ---- DEP-3
	type site struct{ rel, typ, method string }
	newPoly := c.LookupFunc("pkg/math/polynomial", "NewPolynomial")
	for _, s := range []site{{"protocols/cmp/keygen", "", "Start"}, {"protocols/frost/keygen", "round1", "Finalize"}} {
		var fns []*ssa.Function
		if s.typ == "" {
			if f := c.LookupFunc(s.rel, s.method); f != nil {
				withAnon(f, func(g *ssa.Function) { fns = append(fns, g) })
			}
		} else if f := c.LookupMethod(s.rel, s.typ, s.method); f != nil {
			fns = append(fns, f)
		}
		n := 0
		for _, fn := range fns {
			fn := fn
			allInstrs(fn, func(in ssa.Instruction) {
				call, ok := in.(*ssa.Call)
				if !ok || call.Call.StaticCallee() != newPoly || newPoly == nil {
					return
				}
				r.Analysed(c.FuncName(fn))
				konst := call.Call.Args[2]
				// possible values of the constant
				var vals []ssa.Value
				if ph, ok := konst.(*ssa.Phi); ok {
					vals = append(vals, ph.Edges...)
				} else {
					vals = append(vals, konst)
				}
				zero, random := 0, 0
				for _, v := range vals {
					cv, isCall := v.(*ssa.Call)
					if isCall {
						if o := calleeObj(cv); o != nil && o.Name() == "NewScalar" {
							// unwritten: only used by this call / the phi
							written := false
							for _, ref := range *cv.Referrers() {
								if ci, ok := ref.(ssa.CallInstruction); ok && ci != ssa.CallInstruction(call) {
									if ci.Common().IsInvoke() && ci.Common().Value == ssa.Value(cv) {
										if oo := ci.Common().Method; oo != nil && scalarMutators[oo.Name()] {
											written = true
										}
									}
								}
							}
							if !written {
								zero++
								continue
							}
						}
					}
					d := newDep(fn, call)
					if d.has(v, "RANDOM") {
						random++
					}
				}
				n++
				key := c.FuncName(fn) + "|NewPolynomial constant"
				// refresh context: the call is only reached with previous key material present
				refreshCtx := false
				for _, fv := range fn.FreeVars {
					if pp, ok := fv.Type().Underlying().(*types.Pointer); ok && isKeyMaterialPtr(c, pp.Elem()) {
						allInstrs(fn, func(x ssa.Instruction) {
							if u, ok := x.(*ssa.UnOp); ok && u.X == ssa.Value(fv) && nonNilAt(call.Block(), u) {
								refreshCtx = true
							}
						})
					}
				}
				for _, p := range fn.Params {
					if isKeyMaterialPtr(c, p.Type()) && nonNilAt(call.Block(), p) {
						refreshCtx = true
					}
				}
				if refreshCtx && zero != len(vals) {
					r.Fail("DEP-3", key+"|zero", c.Pos(call.Pos()), "on the refresh path the constant coefficient is a fresh, unwritten zero scalar",
						fmt.Sprintf("on the refresh path (previous key material present) the constant coefficient is %s, not an unwritten NewScalar(): the refresh deals a non-zero constant and the shared key changes", path(konst)))
					return
				}
				switch {
				case zero == len(vals):
					// pure refresh polynomial (cmp refresh branch)
					r.Hold("DEP-3", key+"|zero", c.Pos(call.Pos()), "the constant coefficient is an unwritten NewScalar() (zero): the refresh does not change the key")
				case random == len(vals):
					r.Hold("DEP-3", key+"|random", c.Pos(call.Pos()), "fresh key generation: the constant coefficient is sampled")
				case zero > 0 && random > 0 && zero+random == len(vals):
					// frost: phi(zero, random) selected by r.refresh
					ph := konst.(*ssa.Phi)
					okSel := false
					for d := ph.Block().Idom(); d != nil; d = d.Idom() {
						iff, ok := d.Instrs[len(d.Instrs)-1].(*ssa.If)
						if !ok {
							continue
						}
						fl := paramFields(fn, iff.Cond)
						byFlag := len(fl) == 1 && fl[0] == "recv.refresh"
						// ... or by the presence of the previous configuration (the start function: c == nil means key generation)
						byConfig := false
						var cfgNilSucc *ssa.BasicBlock
						if bo, isBo := iff.Cond.(*ssa.BinOp); isBo && (bo.Op == token.EQL || bo.Op == token.NEQ) && isNilConst(bo.Y) && len(fl) == 1 && strings.HasSuffix(fl[0], "Config") {
							byConfig = true
							cfgNilSucc = d.Succs[0]
							if bo.Op == token.NEQ {
								cfgNilSucc = d.Succs[1]
							}
						}
						if byFlag || byConfig {
							// the sampled edge must come from the not-refresh side, the zero edge must not
							notRefresh := d.Succs[1]
							if u, isU := iff.Cond.(*ssa.UnOp); isU && u.Op == token.NOT {
								notRefresh = d.Succs[0]
							}
							if byConfig {
								notRefresh = cfgNilSucc
							}
							okSel = true
							for i, e := range ph.Edges {
								pred := ph.Block().Preds[i]
								fromNot := pred == notRefresh || notRefresh.Dominates(pred)
								isZero := false
								if cv, ok := e.(*ssa.Call); ok {
									if o := calleeObj(cv); o != nil && o.Name() == "NewScalar" {
										isZero = true
									}
								}
								if isZero && fromNot && len(notRefresh.Preds) == 1 {
									okSel = false
								}
								if !isZero && !fromNot {
									okSel = false
								}
							}
						}
						break
					}
					r.Check("DEP-3", key+"|zero-iff-refresh", c.Pos(call.Pos()), okSel, "the constant is zero exactly on the refresh path (selected by r.refresh) and sampled otherwise", "the choice between the zero and the sampled constant is not made by the refresh flag")
				default:
					r.Fail("DEP-3", key+"|zero", c.Pos(call.Pos()), "on refresh the constant coefficient is a fresh, unwritten zero scalar",
						fmt.Sprintf("the constant coefficient %s is neither an unwritten NewScalar() nor a sampled scalar: a refresh dealing a non-zero constant changes the shared key", path(konst)))
				}
			})
		}
		if n == 0 {
			r.Unresolved("DEP-3", s.rel+" NewPolynomial call")
		}
	}
	checkGuardInventory(c, r, "DEP-3", "round_guards.json", func(n string) bool {
		return n == "protocols/cmp/keygen.(*round3).StoreBroadcastMessage" || n == "protocols/frost/keygen.(*round2).StoreBroadcastMessage"
	})

	// ---- DEP-4
	for _, s := range []struct {
		rel, typ, method, lit, field string
		need                         []string
	}{
		{"protocols/cmp/keygen", "round4", "Finalize", "Config", "ECDSA", []string{"recv.PreviousSecretECDSA", "recv.ShareReceived", "recv.PartyIDs()"}},
		{"protocols/cmp/keygen", "round4", "Finalize", "Public", "ECDSA", []string{"recv.PreviousPublicSharesECDSA", "recv.VSSPolynomials"}},
		{"protocols/frost/keygen", "round3", "Finalize", "Config", "PrivateShare", []string{"recv.privateShare", "recv.shareFrom"}},
		{"protocols/frost/keygen", "round3", "Finalize", "Config", "VerificationShares", []string{"recv.verificationShares", "recv.Phi"}},
		{"protocols/frost/keygen", "round3", "Finalize", "TaprootConfig", "PrivateShare", []string{"recv.privateShare", "recv.shareFrom"}},
	} {
		fn := c.LookupMethod(s.rel, s.typ, s.method)
		if fn == nil {
			r.Unresolved("DEP-4", s.rel+"."+s.typ+"."+s.method)
			continue
		}
		r.Analysed(c.FuncName(fn))
		found := false
		allInstrs(fn, func(in ssa.Instruction) {
			st, ok := in.(*ssa.Store)
			if !ok {
				return
			}
			fa, ok := st.Addr.(*ssa.FieldAddr)
			if !ok || shortType(fa.X.Type()) != s.lit {
				return
			}
			fv := fieldVar(fa.X.Type(), fa.Field)
			if fv == nil || fv.Name() != s.field {
				return
			}
			found = true
			d := newDep(fn, st)
			for _, need := range s.need {
				r.Check("DEP-4", c.FuncName(fn)+"|"+s.lit+"."+s.field+" <- "+need, c.Pos(st.Pos()), d.has(st.Val, need),
					"refreshed "+s.lit+"."+s.field+" depends on "+need,
					fmt.Sprintf("refreshed %s.%s does not depend on %s (depends on: %s): the new material is not the previous material plus the freshly dealt zero-sharing, so the key changes or the old shares stay valid", s.lit, s.field, need, strings.Join(d.labels(st.Val), ", ")))
			}
		})
		if !found {
			// the literal is built by a helper of the round (`PublicData[j] = r.publicDataFor(j, poly)`): the same
			// dependences, read in the helper and translated to the round's vocabulary
			for _, g := range regionOf(fn)[1:] {
				g := g
				allInstrs(g, func(in ssa.Instruction) {
					st, ok := in.(*ssa.Store)
					if !ok || found {
						return
					}
					fa, ok := st.Addr.(*ssa.FieldAddr)
					if !ok || shortType(fa.X.Type()) != s.lit {
						return
					}
					fv := fieldVar(fa.X.Type(), fa.Field)
					if fv == nil || fv.Name() != s.field {
						return
					}
					found = true
					have := map[string]bool{}
					ls := depLabelsUp(st.Val)
					for _, l := range ls {
						have[l] = true
					}
					for _, need := range s.need {
						r.Check("DEP-4", c.FuncName(fn)+"|"+s.lit+"."+s.field+" <- "+need, c.Pos(st.Pos()), have[need],
							"refreshed "+s.lit+"."+s.field+" depends on "+need,
							fmt.Sprintf("refreshed %s.%s does not depend on %s (depends on: %s): the new material is not the previous material plus the freshly dealt zero-sharing, so the key changes or the old shares stay valid", s.lit, s.field, need, strings.Join(ls, ", ")))
					}
				})
			}
		}
		if !found {
			r.Unresolved("DEP-4", c.FuncName(fn)+" "+s.lit+"."+s.field)
		}
	}
	// doerner: new share = old + own refresh scalar - peer's
	for _, typ := range []string{"round2R", "round2S"} {
		fn := c.LookupMethod("protocols/doerner/keygen", typ, "StoreMessage")
		if fn == nil {
			r.Unresolved("DEP-4", "protocols/doerner/keygen."+typ+".StoreMessage")
			continue
		}
		r.Analysed(c.FuncName(fn))
		ok := false
		allInstrs(fn, func(in ssa.Instruction) {
			st, isSt := in.(*ssa.Store)
			if !isSt || !containsField(paramFields(fn, st.Addr), "recv.secretShare") {
				return
			}
			d := newDep(fn, st)
			if d.has(st.Val, "recv.secretShare") && d.has(st.Val, "recv.refreshScalar") && d.has(st.Val, "body.RefreshScalar") {
				// opposite signs: one Add and one Sub in the chain
				add, sub := false, false
				dependsOn(st.Val, func(v ssa.Value) bool {
					if call, ok := v.(*ssa.Call); ok && call.Call.IsInvoke() {
						if call.Call.Method.Name() == "Add" {
							add = true
						}
						if call.Call.Method.Name() == "Sub" {
							sub = true
						}
					}
					return false
				})
				ok = add && sub
			}
		})
		r.Check("DEP-4", "protocols/doerner/keygen.(*"+typ+").StoreMessage|secretShare <- old+own-peer", c.Pos(fn.Pos()), ok,
			"the refreshed additive share is old + own refresh scalar - peer's refresh scalar (the two sides cancel)", "the new share is not old share + own scalar - peer scalar: the sum of the two shares (the key) changes")
	}

	// ---- ALIAS-1 over keygen/refresh rounds
	rm := getRoundModel(c)
	var fns []*ssa.Function
	for _, ri := range rm.rounds {
		if strings.Contains(ri.rel, "keygen") {
			for _, mn := range []string{"Finalize", "StoreMessage", "StoreBroadcastMessage"} {
				if f := ri.methods[mn]; f != nil {
					fns = append(fns, f)
				}
			}
		}
	}
	for _, f := range startFuncs(c) {
		if strings.Contains(c.FuncName(f), "keygen") || strings.Contains(c.FuncName(f), "Refresh") {
			fns = append(fns, f)
		}
	}
	{
		have := map[*ssa.Function]bool{}
		for _, f := range fns {
			have[f] = true
		}
		for _, p := range c.LibPkgs() {
			rel := c.Rel(p.Types)
			if !(strings.HasPrefix(rel, "protocols/") && strings.Contains(rel, "keygen")) {
				continue
			}
			for _, fn := range funcsOfPkg(c, c.SSA[p.Types]) {
				withAnon(fn, func(f *ssa.Function) {
					if !have[f] {
						have[f] = true
						fns = append(fns, f)
					}
				})
			}
		}
	}
	checkAlias(c, r, "ALIAS-1", fns)
	r.Hold("ALIAS-1", "keygen-rounds|scanned", "protocols/*/keygen", fmt.Sprintf("%d functions scanned for in-place mutation of previous-epoch objects", len(fns)))

	// ---- START-S2 (refresh binding)
	sub := NewRun("tmp", r.Tier)
	runC09(c, sub)
	for _, o := range sub.Obs {
		if o.Rule == "START-S2" && (strings.Contains(o.Key, "keygen.Start") || strings.HasSuffix(o.Key, "aux Config")) {
			r.Check("START-S2", o.Key, o.Pos, o.Held, o.Desc, o.Detail)
		}
	}

	// ---- the Doerner refresh: both refresh scalars are committed in round 1 and the openings gate acceptance in round 2
	// (rules OB-G1/OB-G2 of C03, restricted to the Doerner key generation / refresh rounds): without that binding the
	// party that speaks second can choose its scalar so that both shares stay what they were
	r.Rule("OB-G2", "Doerner refresh: every commitment of round 1 (public share, refresh scalar, chain key) is opened by a Decommit that gates acceptance")
	r.Rule("OB-G1", "Doerner refresh: received proofs are verified on every accepting path")
	{
		sub3 := NewRun("tmp", r.Tier)
		runC03(c, sub3)
		for _, o := range sub3.Obs {
			if (o.Rule == "OB-G2" || o.Rule == "OB-G1") && strings.Contains(o.Key, "protocols/doerner/keygen") {
				r.Check(o.Rule, o.Key, o.Pos, o.Held, o.Desc, o.Detail)
			}
		}
	}
	r.Require("OB-G2", 3)
	r.Require("DEP-3", 4)
	// entry by entry: every write into the FROST verification-share table builds on the entry it replaces
	if fn := c.LookupMethod("protocols/frost/keygen", "round3", "Finalize"); fn != nil {
		k := 0
		allInstrs(fn, func(in ssa.Instruction) {
			mu, ok := in.(*ssa.MapUpdate)
			if !ok || !containsField(paramFields(fn, mu.Map), "recv.verificationShares") {
				return
			}
			k++
			onPrev := dependsOn(mu.Value, func(v ssa.Value) bool {
				switch x := v.(type) {
				case *ssa.Extract:
					if nx, isNext := x.Tuple.(*ssa.Next); isNext && x.Index == 2 {
						if rg, isR := nx.Iter.(*ssa.Range); isR && containsField(paramFields(fn, rg.X), "recv.verificationShares") {
							return true
						}
					}
				case *ssa.Lookup:
					if containsField(paramFields(fn, x.X), "recv.verificationShares") && (sameObject(x.Index, mu.Key) || path(x.Index) == path(mu.Key)) {
						return true
					}
				}
				return false
			})
			r.Check("DEP-4", fmt.Sprintf("%s|verificationShares entry #%d builds on the previous entry", c.FuncName(fn), k), c.Pos(mu.Pos()), onPrev,
				"the new table entry is computed from the entry it replaces (previous public share + dealt increment, or its negation)",
				"a verification-share entry is overwritten with a value that does not depend on the previous entry: after a refresh that party's public share is only the freshly dealt increment, the table no longer matches the shares")
		})
	} else {
		r.Unresolved("DEP-4", "protocols/frost/keygen.(*round3).Finalize")
	}
	r.Require("DEP-4", 12)
	r.Require("START-S2", 4)
}
