package main

import (
	"fmt"
	"go/token"
	"go/types"
	"sort"
	"strings"

	"golang.org/x/tools/go/ssa"
	"golang.org/x/tools/go/ssa/ssautil"
)

func init() {
	register("C18", propMeta{
		Explanation: "Static happens-before analysis of pkg/pool's synchronisation skeleton (commands channel, per-call counter, notification channel, shared results slice) on SSA: " +
			"publication of every result-slot write before the event that releases the caller, absence of the lost-wakeup/lost-worker shape (blocking notify whose receives are gated on a counter the sender already decremented), " +
			"exactly-one decrement/notification per task on every path, in-bounds and argument-consistent slot indices, nil-pool delegation, and caller discipline over all Parallelize/Search call sites of the module. " +
			"The rules are count-free and path-insensitive in the schedule: they hold for every interleaving, worker count and task count. NOT decided: that f itself terminates, or fairness of the Go scheduler.",
		Trusted:     append([]string{"Go memory model: atomic operations and channel send/receive are synchronising; a write sequenced before a release event is visible after the matching acquire"}, commonTrusted...),
		Assumptions: []string{"a Pool is driven from one goroutine at a time (documented contract of the type)", "task functions return"},
	}, runC18)
}

type poolModel struct {
	c        *Ctx
	r        *Run
	pkg      *ssa.Package
	cmd      *types.Named
	st       *types.Struct
	flagF    int
	ctrF     int
	notifyF  int
	idxF     int
	fnF      int
	resF     int
	worker   *ssa.Function
	cmdChanT types.Type
}

func (m *poolModel) fname(i int) string { return m.st.Field(i).Name() }

func funcsOfPkg(c *Ctx, sp *ssa.Package) []*ssa.Function {
	var out []*ssa.Function
	for fn := range ssautil.AllFunctions(c.Prog) {
		if fn.Pkg == sp && fn.Synthetic == "" {
			out = append(out, fn)
		}
	}
	sort.Slice(out, func(i, j int) bool { return out[i].Pos() < out[j].Pos() })
	return out
}

func isAtomicAdd(in ssa.Instruction) bool {
	return isCallToPkgFunc(in, "sync/atomic", "AddInt64") || isCallToPkgFunc(in, "sync/atomic", "AddInt32") ||
		isMethodCall(in, "sync/atomic", "Int64", "Add") || isMethodCall(in, "sync/atomic", "Int32", "Add")
}
func isAtomicLoad(in ssa.Instruction) bool {
	return isCallToPkgFunc(in, "sync/atomic", "LoadInt64") || isCallToPkgFunc(in, "sync/atomic", "LoadInt32") ||
		isMethodCall(in, "sync/atomic", "Int64", "Load") || isMethodCall(in, "sync/atomic", "Int32", "Load")
}

func (m *poolModel) isSlotWrite(in ssa.Instruction) *ssa.Store {
	st, ok := in.(*ssa.Store)
	if !ok {
		return nil
	}
	ia, ok := st.Addr.(*ssa.IndexAddr)
	if !ok {
		return nil
	}
	if types.Identical(ia.X.Type(), m.st.Field(m.resF).Type()) {
		return st
	}
	return nil
}

func (m *poolModel) isNotifyChan(t types.Type) bool {
	ch, ok := t.Underlying().(*types.Chan)
	if !ok {
		return false
	}
	want := m.st.Field(m.notifyF).Type().Underlying().(*types.Chan)
	return types.Identical(ch.Elem(), want.Elem())
}

func (m *poolModel) isCmdChan(t types.Type) bool {
	ch, ok := t.Underlying().(*types.Chan)
	if !ok {
		return false
	}
	return types.Identical(ch.Elem(), m.cmd)
}

func (m *poolModel) isNotifySend(in ssa.Instruction) bool {
	s, ok := in.(*ssa.Send)
	return ok && m.isNotifyChan(s.Chan.Type())
}

func (m *poolModel) isTaskCall(in ssa.Instruction) *ssa.Call {
	call, ok := in.(*ssa.Call)
	if !ok || call.Call.IsInvoke() || call.Call.StaticCallee() != nil {
		return nil
	}
	if _, isBuiltin := call.Call.Value.(*ssa.Builtin); isBuiltin {
		return nil
	}
	if _, ok := call.Call.Value.Type().Underlying().(*types.Signature); ok {
		return call
	}
	return nil
}

func (m *poolModel) isCmdRecv(in ssa.Instruction) bool {
	if u, ok := in.(*ssa.UnOp); ok && u.Op == token.ARROW && m.isCmdChan(u.X.Type()) {
		return true
	}
	if s, ok := in.(*ssa.Select); ok {
		for _, st := range s.States {
			if st.Dir == types.RecvOnly && m.isCmdChan(st.Chan.Type()) {
				return true
			}
		}
	}
	return false
}

func (m *poolModel) isNotifyRecv(in ssa.Instruction) bool {
	if u, ok := in.(*ssa.UnOp); ok && u.Op == token.ARROW && m.isNotifyChan(u.X.Type()) {
		return true
	}
	return false
}

// release kinds
const (
	kCounter = "counter"
	kRecv    = "recv-count"
)

func (m *poolModel) isRelease(in ssa.Instruction, kind string) bool {
	switch kind {
	case kCounter:
		return isAtomicAdd(in)
	case kRecv:
		if m.isNotifySend(in) {
			return true
		}
		if s, ok := in.(*ssa.Select); ok {
			// a select that may skip the send is not a guaranteed release
			_ = s
		}
	}
	return false
}

func runC18(c *Ctx, r *Run) {
	r.Rule("SYNC-0", "pool skeleton resolved from types: go statement -> worker entry -> command struct -> roles of its fields; mode branch; exported callers")
	r.Rule("SYNC-1", "publish-before-release: every write to the shared results slice is followed on every path, before the next task boundary, by the release event (atomic decrement / notification send) that the caller's return condition acquires; with a receive-count exit every notification is preceded by its slot write")
	r.Rule("SYNC-2", "no lost worker: a worker-side blocking send on the per-call notification channel is covered by the channel's capacity expression (unbuffered + counter-gated receives is the lost-wakeup shape)")
	r.Rule("SYNC-3", "exactly one task call, slot write, decrement and notification per unit of work on every path; slot index is the task argument (Parallelize) resp. the decrement result guarded >= 0 with a non-nil result (Search); indices issued 0..count-1 exactly once (increment only in the send case)")
	r.Rule("SYNC-4", "nil pool: receiver tested for nil before any field access; the nil branch delegates to a sequential function free of channel/atomic/go operations that fills one slot per index (search: loops until non-nil)")
	r.Rule("SYNC-6", "a search worker reads the shared counter between any two candidate evaluations (it leaves a finished search after at most one more candidate)")
	r.Rule("SYNC-5", "caller discipline: no Parallelize/Search/NewPool reachable from a closure handed to Parallelize/Search; the only go statement of library code is the worker start in NewPool")

	pk := c.PkgRel("pkg/pool")
	if pk == nil {
		r.Unresolved("SYNC-0", "package pkg/pool")
		return
	}
	sp := c.SSA[pk.Types]
	m := &poolModel{c: c, r: r, pkg: sp}
	fns := funcsOfPkg(c, sp)
	for _, f := range fns {
		r.Analysed(c.FuncName(f))
	}

	// --- SYNC-0: resolve skeleton
	var gos []*ssa.Go
	for _, f := range fns {
		allInstrs(f, func(in ssa.Instruction) {
			if g, ok := in.(*ssa.Go); ok {
				gos = append(gos, g)
			}
		})
	}
	if len(gos) != 1 || gos[0].Call.StaticCallee() == nil {
		r.Fail("SYNC-0", "pkg/pool|go-statement", "pkg/pool", "exactly one go statement starting the worker", fmt.Sprintf("found %d go statements (or a dynamic callee): the skeleton cannot be resolved", len(gos)))
		return
	}
	m.worker = gos[0].Call.StaticCallee()
	r.Hold("SYNC-0", "pkg/pool|worker-entry="+m.worker.Name(), c.Pos(gos[0].Pos()), "worker entry resolved from the go statement in "+gos[0].Parent().Name())
	for _, p := range m.worker.Params {
		if ch, ok := p.Type().Underlying().(*types.Chan); ok {
			if n, ok := ch.Elem().(*types.Named); ok {
				if st, ok := n.Underlying().(*types.Struct); ok {
					m.cmd, m.st, m.cmdChanT = n, st, p.Type()
				}
			}
		}
	}
	if m.cmd == nil {
		// the worker as a method of the pool: the command channel is the one it receives from
		allInstrs(m.worker, func(in ssa.Instruction) {
			var cv ssa.Value
			switch x := in.(type) {
			case *ssa.UnOp:
				if x.Op == token.ARROW {
					cv = x.X
				}
			case *ssa.Range:
				cv = x.X
			case *ssa.Select:
				for _, st := range x.States {
					if st.Dir == types.RecvOnly {
						cv = st.Chan
					}
				}
			}
			if cv == nil || m.cmd != nil {
				return
			}
			if ch, ok := cv.Type().Underlying().(*types.Chan); ok {
				if n, ok := ch.Elem().(*types.Named); ok {
					if st, ok := n.Underlying().(*types.Struct); ok {
						m.cmd, m.st, m.cmdChanT = n, st, cv.Type()
					}
				}
			}
		})
	}
	if m.cmd == nil {
		r.Unresolved("SYNC-0", "command struct (element type of the worker's channel parameter)")
		return
	}
	m.flagF, m.ctrF, m.notifyF, m.idxF, m.fnF, m.resF = -1, -1, -1, -1, -1, -1
	amb := false
	set := func(dst *int, i int) {
		if *dst != -1 {
			amb = true
		}
		*dst = i
	}
	for i := 0; i < m.st.NumFields(); i++ {
		switch t := m.st.Field(i).Type().Underlying().(type) {
		case *types.Basic:
			if t.Kind() == types.Bool {
				set(&m.flagF, i)
			} else if t.Kind() == types.Int {
				set(&m.idxF, i)
			}
		case *types.Pointer:
			set(&m.ctrF, i)
		case *types.Chan:
			set(&m.notifyF, i)
		case *types.Signature:
			set(&m.fnF, i)
		case *types.Slice:
			set(&m.resF, i)
		}
	}
	if amb || m.ctrF < 0 && m.notifyF < 0 || m.fnF < 0 || m.resF < 0 {
		r.Unresolved("SYNC-0", "roles of the command struct's fields (by type)")
		return
	}
	if m.notifyF < 0 || m.ctrF < 0 || m.flagF < 0 || m.idxF < 0 {
		r.Unresolved("SYNC-0", "command struct no longer has flag/index/counter/notify fields; the rules are written for that skeleton")
		return
	}
	r.Hold("SYNC-0", "pkg/pool|command-fields", c.Pos(m.cmd.Obj().Pos()), fmt.Sprintf("roles: flag=%s ctr=%s notify=%s idx=%s f=%s results=%s", m.fname(m.flagF), m.fname(m.ctrF), m.fname(m.notifyF), m.fname(m.idxF), m.fname(m.fnF), m.fname(m.resF)))

	// mode branch in worker
	var modeIf *ssa.If
	allInstrs(m.worker, func(in ssa.Instruction) {
		if iff, ok := in.(*ssa.If); ok {
			if strings.HasSuffix(path(iff.Cond), "."+m.fname(m.flagF)) {
				modeIf = iff
			}
		}
	})
	if modeIf == nil {
		r.Unresolved("SYNC-0", "branch on the command's mode flag in the worker")
		return
	}
	regions := map[bool][]*ssa.BasicBlock{}
	for _, b := range m.worker.Blocks {
		if modeIf.Block().Succs[0].Dominates(b) {
			regions[true] = append(regions[true], b)
		}
		if modeIf.Block().Succs[1].Dominates(b) {
			regions[false] = append(regions[false], b)
		}
	}
	r.Hold("SYNC-0", "pkg/pool|mode-branch", c.Pos(modeIf.Pos()), fmt.Sprintf("worker branches on %s: search region %d blocks, task region %d blocks", m.fname(m.flagF), len(regions[true]), len(regions[false])))

	// callers: methods whose body sends a command
	type caller struct {
		fn       *ssa.Function
		mode     bool
		cmdAlloc *ssa.Alloc
		sel      *ssa.Select
		selIdx   int
		count    ssa.Value
		results  *ssa.MakeSlice
		kind     string
		bound    ssa.Value
	}
	var callers []*caller
	for _, f := range fns {
		if f.Parent() != nil {
			continue // (a method of the pool or a plain function its body was moved into)
		}
		var cl *caller
		allInstrs(f, func(in ssa.Instruction) {
			switch x := in.(type) {
			case *ssa.Select:
				for i, st := range x.States {
					if st.Dir == types.SendOnly && m.isCmdChan(st.Chan.Type()) {
						cl = &caller{fn: f, sel: x, selIdx: i}
					}
				}
			case *ssa.Send:
				if m.isCmdChan(x.Chan.Type()) && cl == nil {
					cl = &caller{fn: f}
				}
			}
		})
		if cl != nil {
			callers = append(callers, cl)
		}
	}
	if len(callers) < 2 {
		r.Fail("SYNC-0", "pkg/pool|callers", "pkg/pool", "at least two exported entry points issue commands (Parallelize, Search)", fmt.Sprintf("found %d", len(callers)))
		return
	}
	for _, cl := range callers {
		// command literal
		allInstrs(cl.fn, func(in ssa.Instruction) {
			if a, ok := in.(*ssa.Alloc); ok {
				if p, ok := a.Type().(*types.Pointer); ok && types.Identical(p.Elem(), m.cmd) {
					cl.cmdAlloc = a
				}
			}
			if ms, ok := in.(*ssa.MakeSlice); ok && types.Identical(ms.Type(), m.st.Field(m.resF).Type()) {
				cl.results = ms
			}
		})
		key := "pkg/pool|" + cl.fn.Name()
		if cl.cmdAlloc == nil || cl.results == nil {
			r.Unresolved("SYNC-0", "command literal / results slice in "+cl.fn.Name())
			continue
		}
		if fv := fieldStore(cl.cmdAlloc, m.flagF); fv != nil {
			b, ok := constBool(fv)
			if !ok {
				r.Unresolved("SYNC-0", "constant mode flag in "+cl.fn.Name())
				continue
			}
			cl.mode = b
		}
		cl.count = stripConv(cl.results.Len)
		rs := fieldStore(cl.cmdAlloc, m.resF)
		if rs != cl.results {
			r.Fail("SYNC-3", key+"|results-slice", c.Pos(cl.fn.Pos()), "the slice handed to the workers is the slice returned to the user", "command.results is not the make([]interface{}, count) value")
		}
		// every non-nil-branch return returns that slice
		r.Hold("SYNC-0", key+"|mode="+fmt.Sprint(cl.mode), c.Pos(cl.fn.Pos()), "caller resolved: command literal, results slice, task count "+path(cl.count))
	}

	// caller exit kind
	for _, cl := range callers {
		if cl.results == nil {
			continue
		}
		key := "pkg/pool|" + cl.fn.Name()
		for _, ret := range returnsOf(cl.fn) {
			if len(ret.Results) != 1 || ret.Results[0] != ssa.Value(cl.results) {
				continue
			}
			// nearest dominating If that is a wait condition (a post-condition check between the wait loop and the return -
			// a scan of the filled slots, a re-read of the counter - decides nothing about waiting and is stepped over)
			var iff *ssa.If
			for b := ret.Block().Idom(); b != nil; b = b.Idom() {
				if x, ok := b.Instrs[len(b.Instrs)-1].(*ssa.If); ok {
					if iff == nil {
						iff = x
					}
					isWait := blockInLoop(b) && dependsOn(x.Cond, func(v ssa.Value) bool { in, ok := v.(ssa.Instruction); return ok && isAtomicLoad(in) })
					if bo, isB := x.Cond.(*ssa.BinOp); isB && !isWait {
						for _, side := range []ssa.Value{bo.X, bo.Y} {
							if ph, isPhi := side.(*ssa.Phi); isPhi && m.phiCountsRecvs(ph) {
								isWait = true
							}
						}
					}
					if isWait {
						iff = x
						break
					}
				}
			}
			if iff == nil {
				r.Fail("SYNC-1", key+"|exit-condition", c.Pos(ret.Pos()), "the return of the shared slice is guarded by a wait condition", "no condition dominates the return: the caller returns without waiting for the workers")
				continue
			}
			if dependsOn(iff.Cond, func(v ssa.Value) bool { in, ok := v.(ssa.Instruction); return ok && isAtomicLoad(in) }) {
				cl.kind = kCounter
			} else if bo, ok := iff.Cond.(*ssa.BinOp); ok {
				for _, side := range []ssa.Value{bo.X, bo.Y} {
					if ph, ok := side.(*ssa.Phi); ok && m.phiCountsRecvs(ph) {
						cl.kind = kRecv
						if side == bo.X {
							cl.bound = stripConv(bo.Y)
						} else {
							cl.bound = stripConv(bo.X)
						}
					}
				}
			}
			if cl.kind == "" {
				r.Fail("SYNC-1", key+"|exit-condition", c.Pos(iff.Pos()), "the caller's return condition is an atomic load of the counter or a count of received notifications", "UNDECIDED: wait condition "+path(iff.Cond)+" is of neither kind")
				continue
			}
			if cl.kind == kRecv {
				ok := cl.bound == cl.count || isLenOf(cl.bound, cl.results)
				r.Check("SYNC-1", key+"|exit-bound", c.Pos(iff.Pos()), ok, "a receive-count exit waits for exactly the task count", "receive bound "+path(cl.bound)+" is not the task count "+path(cl.count))
			}
			r.Hold("SYNC-1", key+"|exit-kind="+cl.kind, c.Pos(iff.Pos()), "caller returns the shared slice only after: "+cl.kind)
		}
		// counter initialised from count
		if cs := fieldStore(cl.cmdAlloc, m.ctrF); cs != nil {
			if a, ok := cs.(*ssa.Alloc); ok {
				iv := singleStoreBeforeUse(a)
				okc := iv != nil && stripConv(iv) == cl.count
				r.Check("SYNC-3", key+"|counter-init", c.Pos(a.Pos()), okc, "the per-call counter starts at the task count", "counter is not initialised from "+path(cl.count))
			}
		}
	}

	// all atomic adds in the package decrement by exactly one
	for _, f := range fns {
		allInstrs(f, func(in ssa.Instruction) {
			if isAtomicAdd(in) {
				args := callArgs(in)
				d, ok := constInt(args[len(args)-1])
				r.Check("SYNC-3", "pkg/pool|"+f.Name()+"|decrement-by-one", c.Pos(in.Pos()), ok && d == -1, "the counter only ever decreases by one", "atomic add with delta other than -1")
			}
		})
	}

	// --- per mode worker analysis
	for _, cl := range callers {
		if cl.kind == "" || cl.results == nil {
			continue
		}
		m.analyseMode(cl.fn, cl.mode, cl.kind, regions[cl.mode], cl.cmdAlloc, cl.count)
	}

	// --- SYNC-3c issue loop (callers with an index field store that is not constant)
	for _, cl := range callers {
		if cl.cmdAlloc == nil {
			continue
		}
		key := "pkg/pool|" + cl.fn.Name()
		iv := fieldStore(cl.cmdAlloc, m.idxF)
		if iv == nil {
			continue // search: no index
		}
		ph, ok := iv.(*ssa.Phi)
		if !ok {
			r.Fail("SYNC-3", key+"|issue-index", c.Pos(cl.fn.Pos()), "the issued index is the command loop variable", "command index is "+path(iv))
			continue
		}
		okEdges := true
		detail := ""
		incs := 0
		for i, e := range ph.Edges {
			pred := ph.Block().Preds[i]
			if z, ok := constInt(e); ok && z == 0 {
				continue
			}
			if e == ssa.Value(ph) {
				continue
			}
			if bo, ok := e.(*ssa.BinOp); ok && bo.Op == token.ADD && bo.X == ssa.Value(ph) {
				if one, ok := constInt(bo.Y); ok && one == 1 {
					incs++
					// increment block must be the send case of the select
					if cl.sel == nil || !m.blockInSelectCase(pred, cl.sel, cl.selIdx) || !m.blockInSelectCase(bo.Block(), cl.sel, cl.selIdx) {
						okEdges = false
						detail = "index incremented outside the case in which the command was actually sent (an index is skipped or issued twice)"
					}
					continue
				}
			}
			okEdges = false
			detail = "unexpected update of the command index: " + path(e)
		}
		if incs == 0 {
			okEdges = false
			detail = "command index never incremented"
		}
		r.Check("SYNC-3", key+"|issue-once", c.Pos(ph.Pos()), okEdges, "indices 0..count-1 are each issued exactly once: the index advances only when the select sent the command", detail)
		// loop bound
		bounded := false
		for _, ref := range *ph.Referrers() {
			if bo, ok := ref.(*ssa.BinOp); ok && bo.Op == token.LSS && bo.X == ssa.Value(ph) && (stripConv(bo.Y) == cl.count || isLenOf(bo.Y, cl.results)) {
				bounded = true
			}
		}
		r.Check("SYNC-3", key+"|issue-bound", c.Pos(ph.Pos()), bounded, "the command loop runs while index < task count", "no `index < count` bound on the command loop")
	}

	// --- SYNC-4
	for _, f := range fns {
		if f.Signature.Recv() == nil || f.Parent() != nil {
			continue
		}
		if n := namedOf(f.Signature.Recv().Type()); n == nil || !m.hasCmdChanField(n) {
			continue
		}
		// an unexported method that is only ever started on a pool just allocated (the worker as a method, run by the
		// constructor) cannot see the nil pool of the API
		if o := f.Object(); o != nil && !o.Exported() {
			sites, fresh := 0, 0
			for _, g := range fns {
				allInstrs(g, func(in ssa.Instruction) {
					ci, isCI := in.(ssa.CallInstruction)
					if !isCI || ci.Common().StaticCallee() != f || len(ci.Common().Args) == 0 {
						return
					}
					sites++
					if _, isAlloc := ci.Common().Args[0].(*ssa.Alloc); isAlloc {
						fresh++
					}
				})
			}
			if sites > 0 && sites == fresh {
				continue
			}
		}
		m.checkNilPool(f)
	}

	// --- SYNC-5
	m.checkCallers()

	r.Require("SYNC-0", 5)
	r.Require("SYNC-1", 4)
	r.Require("SYNC-2", 2)
	r.Require("SYNC-3", 8)
	r.Require("SYNC-4", 4)
	r.Require("SYNC-5", 10)
	r.Require("SYNC-6", 1)
	// ---- SYNC-7: a pool always has at least one worker: the bound of the loop that starts the workers (and the stored
	// worker count) is positive on every path - the caller's count under a `count > 0` test, runtime.NumCPU(),
	// runtime.GOMAXPROCS(0), a positive constant, or max(1, …)
	r.Rule("SYNC-7", "the number of workers started by NewPool is at least one on every path")
	if np := c.LookupFunc("pkg/pool", "NewPool"); np != nil {
		r.Analysed(c.FuncName(np))
		var positive func(v ssa.Value, at *ssa.BasicBlock, d int) bool
		positive = func(v ssa.Value, at *ssa.BasicBlock, d int) bool {
			if d > 6 {
				return false
			}
			v = stripConv(v)
			if k, ok := constInt(v); ok {
				return k >= 1
			}
			switch x := v.(type) {
			case *ssa.Call:
				if isCallToPkgFunc(x, "runtime", "NumCPU") || isCallToPkgFunc(x, "runtime", "GOMAXPROCS") {
					return true
				}
				if bi, ok := x.Call.Value.(*ssa.Builtin); ok && bi.Name() == "max" {
					for _, a := range x.Call.Args {
						if positive(a, at, d+1) {
							return true
						}
					}
				}
			case *ssa.Phi:
				for i, e := range x.Edges {
					pb := x.Block().Preds[i]
					// the edge itself may be the false edge of `e <= 0`
					if iff, ok := pb.Instrs[len(pb.Instrs)-1].(*ssa.If); ok {
						if bo, ok := iff.Cond.(*ssa.BinOp); ok && stripConv(bo.X) == stripConv(e) {
							if k, isK := constInt(bo.Y); isK {
								if ((bo.Op == token.LEQ && k == 0) || (bo.Op == token.LSS && k == 1)) && pb.Succs[1] == x.Block() {
									continue
								}
								if ((bo.Op == token.GTR && k == 0) || (bo.Op == token.GEQ && k == 1)) && pb.Succs[0] == x.Block() {
									continue
								}
							}
						}
					}
					if !positive(e, pb, d+1) {
						return false
					}
				}
				return true
			case *ssa.Parameter:
				// established positive on this path: dominated by the edge of `v > 0` / `v >= 1` / !(v <= 0)
				return dominatedByCmp(at, v, token.GTR, 0) || dominatedByCmp(at, v, token.GEQ, 1) || edgeNegates(at, v)
			}
			return false
		}
		n := 0
		allInstrs(np, func(in ssa.Instruction) {
			if _, isGo := in.(*ssa.Go); !isGo {
				return
			}
			// the loop condition guarding the go statement: i < bound
			for d := in.Block(); d != nil; d = d.Idom() {
				iff, ok := d.Instrs[len(d.Instrs)-1].(*ssa.If)
				if !ok || !blockReaches(in.Block(), d) {
					continue
				}
				bo, ok := iff.Cond.(*ssa.BinOp)
				if !ok || bo.Op != token.LSS {
					continue
				}
				n++
				r.Check("SYNC-7", "pkg/pool.NewPool|workers-started >= 1", c.Pos(in.Pos()), positive(bo.Y, d, 0),
					"the loop that starts the workers runs at least once",
					"the number of workers started is "+path(bo.Y)+", which is not positive on every path (for instance GOMAXPROCS-1 in a one-processor process): a pool without workers makes every Parallelize and Search block forever")
				break
			}
		})
		if n == 0 {
			r.Fail("SYNC-7", "pkg/pool.NewPool|workers-started >= 1", c.Pos(np.Pos()), "the worker start loop is found", "UNDECIDED: no loop starting workers in NewPool")
		}
	} else {
		r.Unresolved("SYNC-7", "pkg/pool.NewPool")
	}
	r.Require("SYNC-7", 1)
}

func isLenOf(v ssa.Value, s ssa.Value) bool {
	call, ok := stripConv(v).(*ssa.Call)
	if !ok {
		return false
	}
	if b, ok := call.Call.Value.(*ssa.Builtin); ok && b.Name() == "len" && len(call.Call.Args) == 1 {
		return call.Call.Args[0] == s
	}
	return false
}

func singleStoreBeforeUse(a *ssa.Alloc) ssa.Value {
	var v ssa.Value
	n := 0
	for _, ref := range *a.Referrers() {
		if st, ok := ref.(*ssa.Store); ok && st.Addr == ssa.Value(a) {
			v = st.Val
			n++
		}
	}
	if n == 1 {
		return v
	}
	return nil
}

func (m *poolModel) hasCmdChanField(n *types.Named) bool {
	st, ok := n.Underlying().(*types.Struct)
	if !ok {
		return false
	}
	for i := 0; i < st.NumFields(); i++ {
		if m.isCmdChan(st.Field(i).Type()) {
			return true
		}
	}
	return false
}

// phiCountsRecvs: phi has an edge phi+1 computed in a block that performs (or is the
// select case of) a receive on the notification channel.
func (m *poolModel) phiCountsRecvs(ph *ssa.Phi) bool {
	ok := false
	for _, e := range ph.Edges {
		bo, isBin := e.(*ssa.BinOp)
		if !isBin || bo.Op != token.ADD {
			continue
		}
		// follow chains of phis (two loops sharing the counter)
		base := bo.X
		if base != ssa.Value(ph) {
			if p2, isPhi := base.(*ssa.Phi); !isPhi || !phiMentions(p2, ph) && !phiMentions(ph, p2) {
				continue
			}
		}
		b := bo.Block()
		recvHere := false
		for _, in := range b.Instrs {
			if m.isNotifyRecv(in) {
				recvHere = true
			}
		}
		if !recvHere {
			// select case: block dominated by `index == k` where state k is a notify receive
			for d := b; d != nil; d = d.Idom() {
				if len(d.Preds) == 1 {
					if iff, isIf := d.Preds[0].Instrs[len(d.Preds[0].Instrs)-1].(*ssa.If); isIf && d.Preds[0].Succs[0] == d {
						if bo2, isB := iff.Cond.(*ssa.BinOp); isB && bo2.Op == token.EQL {
							if ex, isE := bo2.X.(*ssa.Extract); isE {
								if sel, isS := ex.Tuple.(*ssa.Select); isS {
									if k, isC := constInt(bo2.Y); isC && int(k) < len(sel.States) && sel.States[k].Dir == types.RecvOnly && m.isNotifyChan(sel.States[k].Chan.Type()) {
										recvHere = true
									}
								}
							}
						}
					}
				}
			}
		}
		if recvHere {
			ok = true
		} else {
			return false // incremented somewhere that is not a receive
		}
	}
	return ok
}

func phiMentions(a, b *ssa.Phi) bool {
	for _, e := range a.Edges {
		if e == ssa.Value(b) {
			return true
		}
	}
	return false
}

func (m *poolModel) blockInSelectCase(b *ssa.BasicBlock, sel *ssa.Select, idx int) bool {
	for d := b; d != nil; d = d.Idom() {
		if len(d.Preds) != 1 {
			continue
		}
		p := d.Preds[0]
		iff, ok := p.Instrs[len(p.Instrs)-1].(*ssa.If)
		if !ok || p.Succs[0] != d {
			continue
		}
		bo, ok := iff.Cond.(*ssa.BinOp)
		if !ok || bo.Op != token.EQL {
			continue
		}
		ex, ok := bo.X.(*ssa.Extract)
		if !ok || ex.Tuple != ssa.Value(sel) || ex.Index != 0 {
			continue
		}
		if k, ok := constInt(bo.Y); ok && int(k) == idx {
			return true
		}
	}
	return false
}

// analyseMode applies SYNC-1/2/3 to the worker code of one mode.
func (m *poolModel) analyseMode(callerFn *ssa.Function, mode bool, kind string, region []*ssa.BasicBlock, cmdAlloc *ssa.Alloc, count ssa.Value) {
	c, r := m.c, m.r
	modeName := "task"
	if mode {
		modeName = "search"
	}
	keyp := "pkg/pool|" + callerFn.Name() + "|" + modeName + "-mode"
	inRegion := map[*ssa.BasicBlock]bool{}
	for _, b := range region {
		inRegion[b] = true
	}
	// functions of the mode: region of worker + transitive module-local static callees
	type unit struct {
		fn     *ssa.Function
		blocks map[*ssa.BasicBlock]bool // nil = all
	}
	units := []unit{{m.worker, inRegion}}
	seenFn := map[*ssa.Function]bool{m.worker: true}
	for i := 0; i < len(units); i++ {
		u := units[i]
		for _, b := range u.fn.Blocks {
			if u.blocks != nil && !u.blocks[b] {
				continue
			}
			for _, in := range b.Instrs {
				if cal := staticCallee(in); cal != nil && cal.Pkg == m.pkg && !seenFn[cal] {
					seenFn[cal] = true
					units = append(units, unit{cal, nil})
				}
			}
		}
	}
	inUnit := func(u unit, b *ssa.BasicBlock) bool { return u.blocks == nil || u.blocks[b] }

	// callee summaries: does every path entry->return contain a release of `kind`?
	mustRel := map[*ssa.Function]bool{}
	for _, u := range units[1:] {
		ok := true
		if len(u.fn.Blocks) == 0 {
			ok = false
		} else {
			walkFrom(u.fn.Blocks[0], 0, func(in ssa.Instruction) bool {
				if m.isRelease(in, kind) {
					return true
				}
				if _, isRet := in.(*ssa.Return); isRet {
					ok = false
					return true
				}
				return false
			})
		}
		mustRel[u.fn] = ok
	}

	nW, nSend := 0, 0
	for _, u := range units {
		for _, b := range u.fn.Blocks {
			if !inUnit(u, b) {
				continue
			}
			for _, in := range b.Instrs {
				// SYNC-1 forward from each slot write
				if w := m.isSlotWrite(in); w != nil {
					nW++
					bad := ""
					var badAt ssa.Instruction
					walkForward(in, func(x ssa.Instruction) bool {
						if bad != "" {
							return true
						}
						if m.isRelease(x, kind) {
							return true
						}
						if cal := staticCallee(x); cal != nil && mustRel[cal] {
							return true
						}
						if m.isTaskCall(x) != nil {
							bad, badAt = "the next task starts", x
							return true
						}
						if m.isCmdRecv(x) {
							bad, badAt = "the worker takes its next command", x
							return true
						}
						if _, isRet := x.(*ssa.Return); isRet {
							if u.fn == m.worker {
								bad, badAt = "the worker returns", x
								return true
							}
							// callee returning to the worker loop: the caller of this unit continues to the command receive
							bad, badAt = u.fn.Name()+" returns to the worker loop", x
							return true
						}
						return false
					})
					k := keyp + "|" + u.fn.Name() + "|slot-write-published"
					if bad == "" {
						r.Hold("SYNC-1", k, c.Pos(w.Pos()), fmt.Sprintf("write to results[%s] is followed on every path by the %s release", path(w.Addr.(*ssa.IndexAddr).Index), kind))
					} else {
						r.Fail("SYNC-1", k, c.Pos(w.Pos()), "slot write precedes the release the caller acquires ("+kind+")",
							fmt.Sprintf("results[%s] is written at %s but a path reaches %s (%s) with no %s release after the write: %s can observe its return condition and hand the slice to the user while the slot is still nil",
								path(w.Addr.(*ssa.IndexAddr).Index), c.Pos(w.Pos()), c.Pos(badAt.Pos()), bad, kind, callerFn.Name()))
					}
				}
				// SYNC-1b (receive-count exit): every notification is preceded by its slot write
				if m.isNotifySend(in) {
					nSend++
					if kind == kRecv {
						bad := false
						walkBackward(in, func(x ssa.Instruction) bool {
							if m.isSlotWrite(x) != nil {
								return true
							}
							if m.isTaskCall(x) != nil || m.isCmdRecv(x) || m.isNotifySend(x) {
								bad = true
								return true
							}
							return false
						}, func() { bad = true })
						r.Check("SYNC-1", keyp+"|"+u.fn.Name()+"|notify-after-write", c.Pos(in.Pos()), !bad,
							"with a receive-count exit every notification follows the slot write of the same task",
							"a notification can be sent on a path without a slot write: the caller counts it as a result and returns early with a nil slot")
					}
					// SYNC-2
					m.checkSendCovered(in.(*ssa.Send), callerFn, mode, keyp+"|"+u.fn.Name(), cmdAlloc, count)
				}
			}
		}
	}
	if nW == 0 {
		r.Fail("SYNC-1", keyp+"|slot-write-published", c.Pos(m.worker.Pos()), "the worker writes results", "no write to the results slice found in the "+modeName+" region")
	}

	// SYNC-3 per-task counts
	if !mode {
		// task mode: count events on all paths through the region
		type cnt struct{ min, max int }
		classify := func(in ssa.Instruction) string {
			switch {
			case m.isTaskCall(in) != nil:
				return "task"
			case m.isSlotWrite(in) != nil:
				return "write"
			case isAtomicAdd(in):
				return "dec"
			case m.isNotifySend(in):
				return "notify"
			}
			return ""
		}
		if len(region) == 0 {
			r.Unresolved("SYNC-3", "task-mode region of the worker")
			return
		}
		entry := region[0]
		for _, b := range region {
			if b.Dominates(entry) {
				entry = b
			}
		}
		var fnCount func(fn *ssa.Function, depth int) (map[string]cnt, bool)
		var regionCount func(entry *ssa.BasicBlock, in func(*ssa.BasicBlock) bool, depth int) (map[string]cnt, bool)
		regionCount = func(entry *ssa.BasicBlock, in func(*ssa.BasicBlock) bool, depth int) (map[string]cnt, bool) {
			memo := map[*ssa.BasicBlock]map[string]cnt{}
			onstack := map[*ssa.BasicBlock]bool{}
			cyc := false
			var rec func(b *ssa.BasicBlock) map[string]cnt
			rec = func(b *ssa.BasicBlock) map[string]cnt {
				if v, ok := memo[b]; ok {
					return v
				}
				if onstack[b] {
					cyc = true
					return map[string]cnt{}
				}
				onstack[b] = true
				here := map[string]cnt{}
				for _, x := range b.Instrs {
					if k := classify(x); k != "" {
						v := here[k]
						here[k] = cnt{v.min + 1, v.max + 1}
					} else if cal := staticCallee(x); cal != nil && cal.Pkg == m.pkg && depth < 3 {
						sub, ok := fnCount(cal, depth+1)
						if !ok {
							cyc = true
						}
						for k, v := range sub {
							h := here[k]
							here[k] = cnt{h.min + v.min, h.max + v.max}
						}
					}
				}
				var merged map[string]cnt
				n := 0
				for _, s := range b.Succs {
					if !in(s) {
						continue
					}
					sub := rec(s)
					if n == 0 {
						merged = map[string]cnt{}
						for k, v := range sub {
							merged[k] = v
						}
					} else {
						for _, k := range []string{"task", "write", "dec", "notify"} {
							a, b2 := merged[k], sub[k]
							if b2.min < a.min {
								a.min = b2.min
							}
							if b2.max > a.max {
								a.max = b2.max
							}
							merged[k] = a
						}
					}
					n++
				}
				// a successor leaving the region contributes zero further events
				leaves := false
				for _, s := range b.Succs {
					if !in(s) {
						leaves = true
					}
				}
				if len(b.Succs) == 0 {
					leaves = true
				}
				if leaves && n > 0 {
					for _, k := range []string{"task", "write", "dec", "notify"} {
						a := merged[k]
						a.min = 0
						merged[k] = a
					}
				}
				out := map[string]cnt{}
				for _, k := range []string{"task", "write", "dec", "notify"} {
					out[k] = cnt{here[k].min + merged[k].min, here[k].max + merged[k].max}
				}
				onstack[b] = false
				memo[b] = out
				return out
			}
			res := rec(entry)
			return res, !cyc
		}
		fnCount = func(fn *ssa.Function, depth int) (map[string]cnt, bool) {
			if len(fn.Blocks) == 0 {
				return map[string]cnt{}, true
			}
			return regionCount(fn.Blocks[0], func(*ssa.BasicBlock) bool { return true }, depth)
		}
		counts, acyclic := regionCount(entry, func(b *ssa.BasicBlock) bool { return inRegion[b] }, 0)
		for _, k := range []string{"task", "write", "dec", "notify"} {
			v := counts[k]
			ok := acyclic && v.min == 1 && v.max == 1
			d := fmt.Sprintf("per command the worker performs between %d and %d '%s' events (loop-free=%v); exactly one is required: fewer decrements/notifications leave the caller waiting forever, more release it early or block the worker", v.min, v.max, k, acyclic)
			r.Check("SYNC-3", keyp+"|exactly-one-"+k, c.Pos(entry.Instrs[0].Pos()), ok, "exactly one "+k+" event per command on every path", d)
		}
		// slot index == task argument == command index; stored value == task result
		for _, b := range region {
			for _, in := range b.Instrs {
				if w := m.isSlotWrite(in); w != nil {
					ia := w.Addr.(*ssa.IndexAddr)
					call, _ := resolveLoad(w.Val).(*ssa.Call)
					ok := call != nil && m.isTaskCall(call) != nil && len(call.Call.Args) == 1 &&
						path(call.Call.Args[0]) == path(ia.Index) && strings.HasSuffix(path(ia.Index), "."+m.fname(m.idxF))
					det := ""
					if !ok {
						det = fmt.Sprintf("slot index %s, stored value %s: results[i] must receive f(i) for the command's own index", path(ia.Index), path(w.Val))
					}
					r.Check("SYNC-3", keyp+"|slot-is-f-of-index", c.Pos(w.Pos()), ok, "results[c.i] = c.f(c.i): slot index, task argument and command index are the same value", det)
				}
			}
		}
	} else {
		// search mode: slot index is the decrement result, guarded >= 0, value is a non-nil task result
		for _, u := range units {
			for _, b := range u.fn.Blocks {
				if !inUnit(u, b) {
					continue
				}
				for _, in := range b.Instrs {
					w := m.isSlotWrite(in)
					if w == nil {
						continue
					}
					ia := w.Addr.(*ssa.IndexAddr)
					idx := stripConv(ia.Index)
					addCall, isAdd := idx.(*ssa.Call)
					okIdx := isAdd && isAtomicAdd(addCall)
					r.Check("SYNC-3", keyp+"|"+u.fn.Name()+"|slot-index-from-decrement", c.Pos(w.Pos()), okIdx,
						"each found result claims a distinct slot: the index is the value returned by the atomic decrement", "slot index is "+path(ia.Index))
					if okIdx {
						guarded := dominatedByCmp(w.Block(), idx, token.GEQ, 0) || dominatedByCmp(w.Block(), idx, token.GTR, -1)
						r.Check("SYNC-3", keyp+"|"+u.fn.Name()+"|slot-index-nonnegative", c.Pos(w.Pos()), guarded,
							"over-producing workers (decrement result < 0) do not write", "the slot write is not guarded by `index >= 0`: an over-producing worker indexes results[-1] and panics")
					}
					val := resolveLoad(w.Val)
					nonNil := m.taskValued(val, 0) && dominatedByNonNil(w.Block(), val)
					r.Check("SYNC-3", keyp+"|"+u.fn.Name()+"|slot-value-nonnil", c.Pos(w.Pos()), nonNil,
						"only non-nil task results are stored (Search returns non-nil results)", "stored value "+path(w.Val)+" is not a task result known to be non-nil on this path")
				}
			}
		}
		// decrement only for non-nil results
		for _, u := range units {
			for _, b := range u.fn.Blocks {
				if !inUnit(u, b) {
					continue
				}
				for _, in := range b.Instrs {
					if !isAtomicAdd(in) {
						continue
					}
					// nearest preceding task call
					var tc *ssa.Call
					walkBackward(in, func(x ssa.Instruction) bool {
						if t := m.isTaskCall(x); t != nil {
							if tc == nil {
								tc = t
							}
							return true
						}
						return false
					}, nil)
					ok := tc != nil && dominatedByNonNil(in.Block(), tc)
					if tc != nil && !ok {
						// the result is carried by a variable that is retried until non-nil: test the phi it feeds
						for _, ref := range *tc.Referrers() {
							if phi, isPhi := ref.(*ssa.Phi); isPhi && m.taskValued(phi, 0) && dominatedByNonNil(in.Block(), phi) {
								ok = true
							}
						}
					}
					r.Check("SYNC-3", keyp+"|"+u.fn.Name()+"|decrement-only-on-success", c.Pos(in.Pos()), ok,
						"the counter is decremented only for a non-nil result", "a decrement is reachable with a nil task result: the caller is released with fewer results than requested")
				}
			}
		}
	}
	if mode {
		// SYNC-6: the quota is looked at before every candidate: no cycle through the task call avoids the counter read
		for _, u := range units {
			var loads, tasks []*ssa.BasicBlock
			for _, b := range u.fn.Blocks {
				if !inUnit(u, b) {
					continue
				}
				for _, in := range b.Instrs {
					if isAtomicLoad(in) {
						loads = append(loads, b)
					}
					if m.isTaskCall(in) != nil {
						tasks = append(tasks, b)
					}
				}
			}
			for i, tb := range tasks {
				avoid := map[*ssa.BasicBlock]bool{}
				for _, l := range loads {
					avoid[l] = true
				}
				cyc := !avoid[tb] && cycleAvoiding(tb, avoid)
				r.Check("SYNC-6", fmt.Sprintf("%s|%s|task call #%d|quota-read-per-candidate", keyp, u.fn.Name(), i+1), c.Pos(tb.Instrs[0].Pos()), !cyc && len(loads) > 0,
					"between two candidate evaluations the worker reads the shared counter",
					"the worker can evaluate candidate after candidate without reading the shared counter in between (a retry loop around the task call): once the other workers have satisfied the search it keeps working on the finished search until its own next success, and is not available to the next command — with no further success it is lost for good and the next Search or Parallelize on the pool blocks")
			}
		}
	}
	_ = nSend
}

func (m *poolModel) taskValued(v ssa.Value, d int) bool {
	if d > 4 {
		return false
	}
	switch x := v.(type) {
	case *ssa.Call:
		return m.isTaskCall(x) != nil
	case *ssa.Phi:
		for _, e := range x.Edges {
			if isNilConst(e) {
				continue // the initial value of a retry variable; excluded by the non-nil test that must dominate the use
			}
			if e != ssa.Value(x) && !m.taskValued(e, d+1) {
				return false
			}
		}
		return true
	}
	return false
}

// cycleAvoiding: some path leads from b back to b without entering a block of avoid.
func cycleAvoiding(b *ssa.BasicBlock, avoid map[*ssa.BasicBlock]bool) bool {
	seen := map[*ssa.BasicBlock]bool{}
	var walk func(x *ssa.BasicBlock) bool
	walk = func(x *ssa.BasicBlock) bool {
		for _, s := range x.Succs {
			if s == b {
				return true
			}
			if seen[s] || avoid[s] {
				continue
			}
			seen[s] = true
			if walk(s) {
				return true
			}
		}
		return false
	}
	return walk(b)
}

// dominatedByCmp: block b is dominated by the true edge of `v op k` (or the false edge of its negation).
func dominatedByCmp(b *ssa.BasicBlock, v ssa.Value, op token.Token, k int64) bool {
	for d := b; d != nil; d = d.Idom() {
		if len(d.Preds) != 1 {
			continue
		}
		p := d.Preds[0]
		iff, ok := p.Instrs[len(p.Instrs)-1].(*ssa.If)
		if !ok {
			continue
		}
		bo, ok := iff.Cond.(*ssa.BinOp)
		if !ok || stripConv(bo.X) != v {
			continue
		}
		kk, ok := constInt(bo.Y)
		if !ok {
			continue
		}
		trueEdge := p.Succs[0] == d
		o := bo.Op
		if !trueEdge {
			switch o {
			case token.LSS:
				o = token.GEQ
			case token.LEQ:
				o = token.GTR
			case token.GEQ:
				o = token.LSS
			case token.GTR:
				o = token.LEQ
			default:
				continue
			}
		}
		if o == op && kk == k {
			return true
		}
	}
	return false
}

// dominatedByNonNil: block b can only be reached when v != nil.
func dominatedByNonNil(b *ssa.BasicBlock, v ssa.Value) bool {
	// every path from v's block to b avoids the nil edge: check all If on v==nil / v!=nil
	vb := v.(ssa.Instruction).Block()
	found := false
	for _, blk := range vb.Parent().Blocks {
		if len(blk.Instrs) == 0 {
			continue
		}
		iff, ok := blk.Instrs[len(blk.Instrs)-1].(*ssa.If)
		if !ok {
			continue
		}
		bo, ok := iff.Cond.(*ssa.BinOp)
		if !ok || (bo.Op != token.EQL && bo.Op != token.NEQ) {
			continue
		}
		var other ssa.Value
		if resolveLoad(bo.X) == v {
			other = bo.Y
		} else if resolveLoad(bo.Y) == v {
			other = bo.X
		} else {
			continue
		}
		if !isNilConst(other) {
			continue
		}
		nilSucc := blk.Succs[0]
		okSucc := blk.Succs[1]
		if bo.Op == token.NEQ {
			nilSucc, okSucc = okSucc, nilSucc
		}
		// b must be reachable from okSucc and not reachable from nilSucc without passing vb again
		if reachAvoiding(nilSucc, b, vb) {
			return false
		}
		if blockReaches(okSucc, b) {
			found = true
		}
	}
	return found
}

// reachAvoiding: can `to` be reached from `from` without passing through `avoid`?
func reachAvoiding(from, to, avoid *ssa.BasicBlock) bool {
	if from == avoid {
		return false
	}
	if from == to {
		return true
	}
	seen := map[*ssa.BasicBlock]bool{from: true}
	st := []*ssa.BasicBlock{from}
	for len(st) > 0 {
		b := st[len(st)-1]
		st = st[:len(st)-1]
		for _, s := range b.Succs {
			if s == avoid || seen[s] {
				continue
			}
			if s == to {
				return true
			}
			seen[s] = true
			st = append(st, s)
		}
	}
	return false
}

func (m *poolModel) checkSendCovered(s *ssa.Send, callerFn *ssa.Function, mode bool, keyp string, cmdAlloc *ssa.Alloc, count ssa.Value) {
	c, r := m.c, m.r
	key := keyp + "|blocking-notify-covered"
	nv := fieldStore(cmdAlloc, m.notifyF)
	mc, ok := stripConv(nv).(*ssa.MakeChan)
	if !ok {
		r.Fail("SYNC-2", key, c.Pos(s.Pos()), "the notification channel is created by the caller", "UNDECIDED: notify channel of "+callerFn.Name()+" is "+path(nv))
		return
	}
	if z, isC := constInt(mc.Size); isC && z == 0 {
		r.Fail("SYNC-2", key, c.Pos(s.Pos()), "a blocking worker-side notification cannot outlive the caller",
			fmt.Sprintf("lost-worker shape: %s creates an unbuffered notification channel (%s) and stops receiving once its return condition holds, while the worker updates the counter first and then blocks in `ch <- struct{}{}` at %s: a worker whose notification is not picked up stays blocked forever and the pool shrinks", callerFn.Name(), c.Pos(mc.Pos()), c.Pos(s.Pos())))
		return
	}
	// capacity terms
	var terms []ssa.Value
	var split func(v ssa.Value)
	split = func(v ssa.Value) {
		v = stripConv(v)
		if bo, ok := v.(*ssa.BinOp); ok && bo.Op == token.ADD {
			split(bo.X)
			split(bo.Y)
			return
		}
		terms = append(terms, v)
	}
	split(mc.Size)
	hasCount, hasWorkers, allNonNeg := false, false, true
	for _, t := range terms {
		switch {
		case t == count:
			hasCount = true
		case strings.Contains(path(t), "workerCount") || isIntFieldOfRecv(t, callerFn):
			hasWorkers = true
		default:
			if k, ok := constInt(t); ok && k >= 0 {
				continue
			}
			if call, ok := t.(*ssa.Call); ok {
				if b, ok := call.Call.Value.(*ssa.Builtin); ok && b.Name() == "len" {
					continue
				}
			}
			allNonNeg = false
		}
	}
	need := "count"
	okCap := hasCount && allNonNeg
	if mode {
		// search: sends bounded by count only if each send is guarded by decrement-result >= 0
		guarded := false
		for d := s.Block(); d != nil && !guarded; d = d.Idom() {
			if len(d.Preds) != 1 {
				continue
			}
			p := d.Preds[0]
			if iff, ok := p.Instrs[len(p.Instrs)-1].(*ssa.If); ok {
				if bo, ok := iff.Cond.(*ssa.BinOp); ok {
					if call, ok := stripConv(bo.X).(*ssa.Call); ok && isAtomicAdd(call) {
						if dominatedByCmp(s.Block(), call, token.GEQ, 0) || dominatedByCmp(s.Block(), call, token.GTR, -1) {
							guarded = true
						}
					}
				}
			}
		}
		if !guarded {
			need = "count + workerCount (each worker may over-produce once, and its notification is not guarded by `index >= 0`)"
			okCap = okCap && hasWorkers
		}
	}
	r.Check("SYNC-2", key, c.Pos(s.Pos()), okCap, "the channel capacity covers every notification of the call, so the send never blocks after the caller left",
		fmt.Sprintf("capacity %s of the notification channel made at %s does not provably cover the sends (needs %s)", path(mc.Size), c.Pos(mc.Pos()), need))
}

func isIntFieldOfRecv(v ssa.Value, fn *ssa.Function) bool {
	u, ok := v.(*ssa.UnOp)
	if !ok || u.Op != token.MUL {
		return false
	}
	fa, ok := u.X.(*ssa.FieldAddr)
	if !ok || len(fn.Params) == 0 {
		return false
	}
	return fa.X == ssa.Value(fn.Params[0])
}

func (m *poolModel) checkNilPool(f *ssa.Function) {
	c, r := m.c, m.r
	recv := f.Params[0]
	key := "pkg/pool|" + f.Name()
	// every field access on the receiver is dominated by the non-nil edge
	var nilBranch *ssa.BasicBlock
	okAll := true
	n := 0
	detail := ""
	allInstrs(f, func(in ssa.Instruction) {
		fa, ok := in.(*ssa.FieldAddr)
		if !ok || fa.X != ssa.Value(recv) {
			return
		}
		n++
		guard := false
		for d := fa.Block(); d != nil; d = d.Idom() {
			if len(d.Preds) != 1 {
				continue
			}
			p := d.Preds[0]
			iff, ok := p.Instrs[len(p.Instrs)-1].(*ssa.If)
			if !ok {
				continue
			}
			bo, ok := iff.Cond.(*ssa.BinOp)
			if !ok || bo.X != ssa.Value(recv) || !isNilConst(bo.Y) {
				continue
			}
			if bo.Op == token.EQL && p.Succs[1] == d {
				guard = true
				nilBranch = p.Succs[0]
			}
			if bo.Op == token.NEQ && p.Succs[0] == d {
				guard = true
				nilBranch = p.Succs[1]
			}
		}
		if !guard {
			okAll = false
			detail = "field " + fieldName(recv.Type(), fa.Field) + " of the receiver is read at " + c.Pos(fa.Pos()) + " without a preceding nil test"
		}
	})
	if n == 0 {
		return
	}
	r.Check("SYNC-4", key+"|nil-guard", c.Pos(f.Pos()), okAll, "a nil *Pool is tested before any field access", detail)
	if nilBranch == nil || f.Signature.Results().Len() == 0 {
		return
	}
	// nil branch returns the result of a sequential helper
	var call *ssa.Call
	for _, in := range nilBranch.Instrs {
		if ret, ok := in.(*ssa.Return); ok && len(ret.Results) == 1 {
			call, _ = ret.Results[0].(*ssa.Call)
		}
	}
	if call == nil || call.Call.StaticCallee() == nil {
		r.Fail("SYNC-4", key+"|nil-delegation", c.Pos(f.Pos()), "the nil branch returns the sequential computation", "nil branch does not return the result of a sequential helper")
		return
	}
	g := call.Call.StaticCallee()
	// args must carry count and f
	haveCount, haveF := false, false
	for _, a := range call.Call.Args {
		a = resolveLoad(a)
		for _, p := range f.Params[1:] {
			if a == ssa.Value(p) {
				if _, isSig := p.Type().Underlying().(*types.Signature); isSig {
					haveF = true
				} else {
					haveCount = true
				}
			}
		}
	}
	r.Check("SYNC-4", key+"|nil-delegation", c.Pos(call.Pos()), haveCount && haveF, "the sequential helper receives the user's function and count", "helper "+g.Name()+" is not called with (f, count)")
	// helper is sequential
	seq := true
	what := ""
	var tasks []*ssa.Call
	var writes []*ssa.Store
	withAnon(g, func(fn *ssa.Function) {
		allInstrs(fn, func(in ssa.Instruction) {
			switch in.(type) {
			case *ssa.Go, *ssa.Send, *ssa.Select:
				seq, what = false, fmt.Sprintf("%T", in)
			}
			if u, ok := in.(*ssa.UnOp); ok && u.Op == token.ARROW {
				seq, what = false, "channel receive"
			}
			if isAtomicAdd(in) || isAtomicLoad(in) {
				seq, what = false, "atomic"
			}
			if t := m.isTaskCall(in); t != nil {
				tasks = append(tasks, t)
			}
			if w := m.isSlotWrite(in); w != nil {
				writes = append(writes, w)
			}
		})
	})
	r.Check("SYNC-4", key+"|helper-sequential|"+g.Name(), c.Pos(g.Pos()), seq, "the nil-pool path runs on the calling goroutine only", "helper uses "+what)
	// one slot per index: a write results[i] = f(..) inside a loop i < len(results)|count
	okFill := false
	for _, w := range writes {
		ia := w.Addr.(*ssa.IndexAddr)
		idx := ia.Index
		ph, isPhi := idx.(*ssa.Phi)
		if !isPhi {
			// `for i := range results`: go/ssa rotates the loop, the index is phi+1 with the phi starting at -1
			if bo, ok := idx.(*ssa.BinOp); ok && bo.Op == token.ADD {
				if p2, ok := bo.X.(*ssa.Phi); ok {
					if one, ok := constInt(bo.Y); ok && one == 1 {
						ph, isPhi = p2, true
					}
				}
			}
		}
		tc, _ := resolveLoad(w.Val).(*ssa.Call)
		if !isPhi || tc == nil || m.isTaskCall(tc) == nil {
			continue
		}
		if len(tc.Call.Args) == 1 && tc.Call.Args[0] != idx {
			continue // parallelize: argument must be the slot index
		}
		// loop bound and unit step
		step, bound := false, false
		for _, e := range ph.Edges {
			if bo, ok := e.(*ssa.BinOp); ok && bo.Op == token.ADD && bo.X == ssa.Value(ph) {
				if one, ok := constInt(bo.Y); ok && one == 1 {
					step = true
				}
			}
		}
		for _, ref := range *idx.Referrers() {
			if bo, ok := ref.(*ssa.BinOp); ok && bo.Op == token.LSS && bo.X == idx {
				if isLenOf(bo.Y, ia.X) || stripConv(bo.Y) == ssa.Value(g.Params[len(g.Params)-1]) {
					bound = true
				}
			}
		}
		if step && bound {
			okFill = true
		}
	}
	r.Check("SYNC-4", key+"|helper-fills-every-slot|"+g.Name(), c.Pos(g.Pos()), okFill, "the helper stores f's result into results[i] for i = 0..count-1 (argument = slot index for Parallelize)", "no `for i < len(results) { results[i] = f(i) }` shape found")
	if len(tasks) > 0 && tasks[0].Call.Signature().Params().Len() == 0 {
		// search helper: repeat until non-nil
		okLoop := false
		allInstrs(g, func(in ssa.Instruction) {
			iff, ok := in.(*ssa.If)
			if !ok {
				return
			}
			bo, ok := iff.Cond.(*ssa.BinOp)
			if !ok || !isNilConst(bo.Y) {
				return
			}
			if _, isIdx := resolveLoadKeep(bo.X).(*ssa.IndexAddr); !isIdx {
				return
			}
			retry := iff.Block().Succs[0]
			if bo.Op == token.NEQ {
				retry = iff.Block().Succs[1]
			}
			for _, t := range tasks {
				if blockReaches(retry, t.Block()) && blockReaches(t.Block(), iff.Block()) {
					okLoop = true
				}
			}
		})
		r.Check("SYNC-4", key+"|helper-retries-until-nonnil|"+g.Name(), c.Pos(g.Pos()), okLoop, "the sequential search repeats f until the slot is non-nil", "no retry loop on `results[i] == nil`")
	}
}

// resolveLoadKeep: for a load, return the address operand.
func resolveLoadKeep(v ssa.Value) ssa.Value {
	if u, ok := v.(*ssa.UnOp); ok && u.Op == token.MUL {
		return u.X
	}
	return v
}

func (m *poolModel) checkCallers() {
	c, r := m.c, m.r
	poolNamed := c.LookupNamed("pkg/pool", "Pool")
	if poolNamed == nil {
		r.Unresolved("SYNC-5", "pkg/pool.Pool")
		return
	}
	isPoolEntry := func(fn *ssa.Function) bool {
		if fn == nil || fn.Pkg != m.pkg {
			return false
		}
		return fn.Name() == "Parallelize" || fn.Name() == "Search" || fn.Name() == "NewPool"
	}
	cg := c.CG()
	nSites := 0
	for _, p := range c.LibPkgs() {
		sp := c.SSA[p.Types]
		if sp == nil {
			continue
		}
		for _, fn := range funcsOfPkg(c, sp) {
			fn := fn
			allInstrs(fn, func(in ssa.Instruction) {
				if g, ok := in.(*ssa.Go); ok {
					okGo := fn.Pkg == m.pkg && g.Call.StaticCallee() == m.worker
					r.Check("SYNC-5", c.FuncName(fn)+"|go-statement", c.Pos(g.Pos()), okGo, "library code starts goroutines only for pool workers", "a go statement outside NewPool's worker start: pool call sites are no longer confined to the round's single processing thread")
				}
				cal := staticCallee(in)
				if cal == nil || cal.Pkg != m.pkg || (cal.Name() != "Parallelize" && cal.Name() != "Search") {
					return
				}
				if fn.Pkg == m.pkg {
					return
				}
				nSites++
				args := callArgs(in)
				var clo *ssa.Function
				for _, a := range args {
					if mc, ok := a.(*ssa.MakeClosure); ok {
						clo = mc.Fn.(*ssa.Function)
					} else if f, ok := a.(*ssa.Function); ok {
						clo = f
					}
				}
				key := c.FuncName(fn) + "|" + cal.Name() + "-task-does-not-reenter-pool"
				if clo == nil {
					r.Fail("SYNC-5", key, c.Pos(in.Pos()), "the task handed to the pool is a known function", "UNDECIDED: task function is "+path(args[len(args)-1]))
					return
				}
				// reachability from clo
				seen := map[*ssa.Function]bool{clo: true}
				st := []*ssa.Function{clo}
				bad := ""
				for len(st) > 0 && bad == "" {
					f := st[len(st)-1]
					st = st[:len(st)-1]
					node := cg.Nodes[f]
					if node == nil {
						continue
					}
					for _, e := range node.Out {
						cf := e.Callee.Func
						if isPoolEntry(cf) {
							bad = c.FuncName(f) + " -> " + cf.Name()
							break
						}
						if !seen[cf] && cf.Pkg != nil && c.InModule(cf.Pkg.Pkg) {
							seen[cf] = true
							st = append(st, cf)
						}
					}
				}
				r.Check("SYNC-5", key, c.Pos(in.Pos()), bad == "", "a task running on a worker never calls back into the pool (it would wait for workers that are all busy)", "task reaches the pool again: "+bad)
			})
		}
	}
	r.Note("pool call sites analysed: %d", nSites)
}

// edgeNegates: block b is reached only through the false edge of `v <= 0` / `v < 1` (so v is positive there).
func edgeNegates(b *ssa.BasicBlock, v ssa.Value) bool {
	for d := b; d != nil; d = d.Idom() {
		if len(d.Preds) != 1 {
			continue
		}
		p := d.Preds[0]
		iff, ok := p.Instrs[len(p.Instrs)-1].(*ssa.If)
		if !ok {
			continue
		}
		bo, ok := iff.Cond.(*ssa.BinOp)
		if !ok || stripConv(bo.X) != v {
			continue
		}
		k, isK := constInt(bo.Y)
		if !isK {
			continue
		}
		if ((bo.Op == token.LEQ && k == 0) || (bo.Op == token.LSS && k == 1)) && p.Succs[1] == d {
			return true
		}
	}
	return false
}
