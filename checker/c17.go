package main

import (
	"fmt"
	"go/token"
	"go/types"
	"strings"

	"golang.org/x/tools/go/ssa"
)

func init() {
	register("C17", propMeta{
		Explanation: "Lockset + typestate analysis of both protocol handlers and of round.Helper on SSA. LOCK-1: every access to a handler field that is written after construction holds the handler's mutex (exported methods acquire it first; unexported methods are reachable only from lock-holding callers or from the constructor before the handler escapes). " +
			"LOCK-2: no lock-holding path calls a method that locks again. TS-*: the outgoing channel is closed in exactly one function; every call that can reach it happens in state Running (err == nil && result == nil established under the lock), at most once per frame, and nothing is sent or aborted afterwards; Stop reaches it with a non-nil error; err/result are assigned only inside that transition. " +
			"LOCK-3/PURE-1: Helper's hash state is accessed under Helper's mutex; point marshalling does not write its receiver. These rules are schedule-independent (they hold for every interleaving of API calls). NOT decided: liveness when the user never drains the outgoing channel (excluded by the property).",
		Trusted:     append([]string{"Go memory model: accesses to a location are race-free if all of them hold a common mutex"}, commonTrusted...),
		Assumptions: []string{"round implementations do not call back into the handler", "err/result are the only state that distinguishes Running from Finished"},
	}, runC17)
}

type handlerTS struct {
	m      *lockModel
	errF   int
	resF   int
	outF   int
	abort  *ssa.Function
	mayAb  map[*ssa.Function]bool
	effect map[*ssa.Function]bool
}

func runC17(c *Ctx, r *Run) {
	r.Rule("LOCK-1", "every access to a field written after construction holds the owning mutex (exported entry points lock first; unexported helpers only called with the lock held or at construction time)")
	r.Rule("LOCK-2", "no re-entrant acquisition: a lock-holding path never calls a method that locks the same mutex")
	r.Rule("TS-1", "close-once typestate: channel closed in one function; every call reaching it is made in state Running (err==nil && result==nil tested under the lock), nothing is sent/aborted/finalized after it returns in the same frame; that function records the error before closing and closes exactly once")
	r.Rule("TS-2", "result fixed: err and result are assigned only inside the Running->Finished transition; abort(nil) is preceded by the result assignment")
	r.Rule("TS-3", "Stop of every Handler implementation reaches the transition with a non-nil error; state-changing calls of exported methods happen only in state Running (late messages are ignored)")
	r.Rule("TS-4", "inside the lock the only blocking operation is a send on the outgoing channel; the abort notice is sent with a non-blocking select")
	r.Rule("LOCK-3", "round.Helper: the mutable hash state is accessed only under Helper's mutex")
	r.Rule("PURE-1", "point MarshalBinary works on a copy: no write through, and no escaping pointer into, its receiver (safe to hash the same point from several goroutines)")

	pp := c.PkgRel("pkg/protocol")
	if pp == nil {
		r.Unresolved("LOCK-1", "package pkg/protocol")
		return
	}
	// handler types: structs with a mutex and a channel field that have a Stop method
	var handlers []*types.Named
	sc := pp.Types.Scope()
	for _, n := range sc.Names() {
		tn, ok := sc.Lookup(n).(*types.TypeName)
		if !ok {
			continue
		}
		named, ok := tn.Type().(*types.Named)
		if !ok {
			continue
		}
		st, ok := named.Underlying().(*types.Struct)
		if !ok || mutexField(st) < 0 {
			continue
		}
		if c.MethodOf(named, "Accept") != nil && c.MethodOf(named, "Stop") != nil {
			handlers = append(handlers, named)
		}
	}
	if len(handlers) < 2 {
		r.Fail("LOCK-1", "pkg/protocol|handler-types", "pkg/protocol", "both handler types resolved", fmt.Sprintf("found %d handler types with a mutex (expected MultiHandler and TwoPartyHandler)", len(handlers)))
	}
	for _, H := range handlers {
		m := newLockModel(c, H)
		if m == nil {
			r.Unresolved("LOCK-1", "lock model of "+H.Obj().Name())
			continue
		}
		r.Note("%s: fields written after construction (guarded set): %s; lock-held-on-entry helpers: %s", H.Obj().Name(), strings.Join(m.guardedNames(), ","), strings.Join(entryNames(m), ","))
		m.checkLockset(r, "LOCK-1", "LOCK-2")
		checkTypestate(c, r, m)
	}

	// LOCK-3: Helper
	if hn := c.LookupNamed("internal/round", "Helper"); hn != nil {
		if m := newLockModel(c, hn); m != nil {
			r.Note("Helper: guarded set: %s", strings.Join(m.guardedNames(), ","))
			m.checkLockset(r, "LOCK-3", "LOCK-3")
		} else {
			r.Unresolved("LOCK-3", "Helper mutex")
		}
	} else {
		r.Unresolved("LOCK-3", "internal/round.Helper")
	}

	// PURE-1
	cp := c.PkgRel("pkg/math/curve")
	if cp == nil {
		r.Unresolved("PURE-1", "pkg/math/curve")
	} else {
		for _, n := range cp.Types.Scope().Names() {
			tn, ok := cp.Types.Scope().Lookup(n).(*types.TypeName)
			if !ok {
				continue
			}
			named, ok := tn.Type().(*types.Named)
			if !ok {
				continue
			}
			if _, isStruct := named.Underlying().(*types.Struct); !isStruct {
				continue
			}
			fn := c.MethodOf(named, "MarshalBinary")
			if fn == nil || len(fn.Blocks) == 0 || fn.Signature.Recv() == nil {
				continue
			}
			if _, isPtr := fn.Signature.Recv().Type().(*types.Pointer); !isPtr {
				continue
			}
			r.Analysed(c.FuncName(fn))
			bad := ""
			recv := fn.Params[0]
			rooted := func(v ssa.Value) bool {
				for i := 0; i < 30; i++ {
					switch x := v.(type) {
					case *ssa.FieldAddr:
						v = x.X
					case *ssa.IndexAddr:
						v = x.X
					default:
						return v == ssa.Value(recv)
					}
				}
				return false
			}
			allInstrs(fn, func(in ssa.Instruction) {
				switch x := in.(type) {
				case *ssa.Store:
					if rooted(x.Addr) {
						bad = "store through the receiver at " + c.Pos(x.Pos())
					}
				case ssa.CallInstruction:
					for _, a := range x.Common().Args {
						if _, isPtr := a.Type().Underlying().(*types.Pointer); isPtr && rooted(a) && a != ssa.Value(recv) {
							cal := x.Common().StaticCallee()
							if cal == nil || mutatesReceiver(cal, 0) {
								bad = "a pointer into the receiver is passed to " + path(x.Common().Value) + " at " + c.Pos(x.Pos()) + " which may normalise (write) the shared point in place"
							}
						}
					}
				}
			})
			r.Check("PURE-1", "pkg/math/curve.(*"+named.Obj().Name()+").MarshalBinary", c.Pos(fn.Pos()), bad == "", "MarshalBinary does not write its receiver", bad)
		}
	}

	r.Require("LOCK-1", 30)
	r.Require("TS-1", 12)
	r.Require("TS-2", 4)
	r.Require("TS-3", 4)
	r.Require("LOCK-3", 3)
	r.Require("PURE-1", 2)
}

func entryNames(m *lockModel) []string {
	var out []string
	for _, fn := range m.fns {
		if m.entry[fn] {
			out = append(out, fn.Name())
		}
	}
	return out
}

func checkTypestate(c *Ctx, r *Run, m *lockModel) {
	tn := c.Rel(m.H.Obj().Pkg()) + "." + m.H.Obj().Name()
	ts := &handlerTS{m: m, errF: -1, resF: -1, outF: -1, mayAb: map[*ssa.Function]bool{}, effect: map[*ssa.Function]bool{}}
	errT := types.Universe.Lookup("error").Type().Underlying().(*types.Interface)
	for i := 0; i < m.st.NumFields(); i++ {
		t := m.st.Field(i).Type()
		switch u := t.Underlying().(type) {
		case *types.Chan:
			ts.outF = i
		case *types.Interface:
			if u.NumMethods() == 0 {
				ts.resF = i
			} else if types.Identical(u, errT) && !strings.Contains(typeStr(t), "Session") {
				if types.Implements(t, errT) && u.NumMethods() == 1 {
					ts.errF = i
				}
			}
		case *types.Pointer:
			if types.Implements(t, errT) || types.Implements(u.Elem(), errT) {
				ts.errF = i
			}
		}
	}
	if ts.errF < 0 || ts.resF < 0 || ts.outF < 0 {
		r.Unresolved("TS-1", tn+": err/result/out fields (by type)")
		return
	}
	// close sites
	var closeFns []*ssa.Function
	for _, fn := range m.fns {
		fn := fn
		allInstrs(fn, func(in ssa.Instruction) {
			if call, ok := in.(*ssa.Call); ok {
				if b, ok := call.Call.Value.(*ssa.Builtin); ok && b.Name() == "close" && m.fieldsOf(fn, call.Call.Args[0])[ts.outF] {
					closeFns = append(closeFns, fn)
				}
			}
			// `defer close(h.out)`: the same single close, placed at the exit of the closing function
			if df, ok := in.(*ssa.Defer); ok {
				if b, ok := df.Call.Value.(*ssa.Builtin); ok && b.Name() == "close" && m.fieldsOf(fn, df.Call.Args[0])[ts.outF] {
					closeFns = append(closeFns, fn)
				}
			}
		})
	}
	okOne := len(closeFns) == 1
	pos := c.Pos(m.H.Obj().Pos())
	if len(closeFns) > 0 {
		pos = c.Pos(closeFns[0].Pos())
	}
	r.Check("TS-1", tn+"|single-close-site", pos, okOne, "the outgoing channel is closed at exactly one site", fmt.Sprintf("%d close sites on the outgoing channel", len(closeFns)))
	if !okOne {
		return
	}
	ts.abort = closeFns[0]
	A := ts.abort
	r.Analysed(c.FuncName(A))

	// may-abort closure
	ts.mayAb[A] = true
	for changed := true; changed; {
		changed = false
		for _, fn := range m.fns {
			if ts.mayAb[fn] {
				continue
			}
			fn := fn
			allInstrs(fn, func(in ssa.Instruction) {
				if cal := staticCallee(in); cal != nil && ts.mayAb[cal] && !ts.mayAb[fn] {
					ts.mayAb[fn] = true
					changed = true
				}
				if mc, ok := in.(*ssa.MakeClosure); ok && ts.mayAb[mc.Fn.(*ssa.Function)] && !ts.mayAb[fn] {
					// a closure that can abort: handled at its own sites (deferred closures)
					_ = mc
				}
			})
		}
	}
	// effectful closure: writes a guarded field directly or via callee
	for _, a := range m.accesses() {
		if a.write {
			ts.effect[a.fn] = true
		}
	}
	for changed := true; changed; {
		changed = false
		for _, fn := range m.fns {
			if ts.effect[fn] {
				continue
			}
			fn := fn
			allInstrs(fn, func(in ssa.Instruction) {
				if cal := staticCallee(in); cal != nil && ts.effect[cal] && !ts.effect[fn] {
					if _, isM := m.recvOf[cal]; isM {
						ts.effect[fn] = true
						changed = true
					}
				}
			})
		}
	}

	isOutSend := func(fn *ssa.Function, in ssa.Instruction) bool {
		switch x := in.(type) {
		case *ssa.Send:
			return m.fieldsOf(fn, x.Chan)[ts.outF]
		case *ssa.Select:
			for _, st := range x.States {
				if st.Dir == types.SendOnly && m.fieldsOf(fn, st.Chan)[ts.outF] {
					return true
				}
			}
		}
		return false
	}

	// (c) every may-abort call site
	for _, fn := range m.fns {
		fn := fn
		if _, ok := m.recvOf[fn]; !ok {
			continue
		}
		allInstrs(fn, func(in ssa.Instruction) {
			cal := staticCallee(in)
			if cal == nil || !ts.mayAb[cal] {
				return
			}
			if d, isDefer := in.(*ssa.Defer); isDefer {
				// deferred may-abort helper (panic barrier): allowed if the lock is still held when it runs
				// and the helper establishes Running by itself (checked at its own abort call, see deferTarget)
				okD := cal != A && m.heldWhenDeferredRuns(fn, d) && m.deferTarget[cal]
				r.Check("TS-1", tn+"|"+c.FuncName(fn)+"|deferred "+cal.Name(), c.Pos(in.Pos()), okD,
					"a deferred call that may end the session runs with the lock still held and re-checks the state itself",
					"a may-abort call is deferred so that it runs after the lock was released, or it is the closing function itself (runs in whatever state the frame ends)")
				return
			}
			r.Analysed(c.FuncName(fn))
			// nothing may-abort / send after it in this frame
			bad := ""
			walk := func(visit func(ssa.Instruction) bool) { walkForward(in, visit) }
			// a helper that reports "the session was ended" through its boolean result: only the continuation
			// taken when it says so has to be quiet
			if call, isCall := in.(*ssa.Call); isCall && signalsAbort(cal, ts.mayAb) {
				if blk := in.Block(); len(blk.Instrs) > 0 {
					if iff, isIf := blk.Instrs[len(blk.Instrs)-1].(*ssa.If); isIf {
						cond, neg := iff.Cond, false
						if u, ok := cond.(*ssa.UnOp); ok && u.Op == token.NOT {
							cond, neg = u.X, true
						}
						if cond == ssa.Value(call) {
							ended := blk.Succs[1] // result false
							if neg {
								ended = blk.Succs[0]
							}
							walk = func(visit func(ssa.Instruction) bool) { walkFrom(ended, 0, visit) }
						}
					}
				}
			}
			walk(func(x ssa.Instruction) bool {
				if bad != "" {
					return true
				}
				if c2 := staticCallee(x); c2 != nil && ts.mayAb[c2] {
					if _, isDefer := x.(*ssa.Defer); !isDefer {
						bad = fmt.Sprintf("after %s(...) returns the frame goes on to call %s at %s: the channel can be closed twice (panic) or a finished session keeps running", cal.Name(), c2.Name(), c.Pos(x.Pos()))
						return true
					}
				}
				if isOutSend(fn, x) && fn != A {
					bad = fmt.Sprintf("after %s(...) returns the frame goes on to send on the outgoing channel at %s: send on closed channel", cal.Name(), c.Pos(x.Pos()))
					return true
				}
				return false
			})
			r.Check("TS-1", tn+"|"+c.FuncName(fn)+"|after "+cal.Name()+siteTag(in, cal), c.Pos(in.Pos()), bad == "",
				"a call that may end the session is the last session action of its frame on every path", bad)

			// Running established
			okRun, why := ts.runningAtCall(fn, in)
			if !okRun && ts.selfGuarding(cal) {
				// the callee establishes Running itself before anything that may end the session (Accept -> accept)
				okRun = true
			}
			r.Check("TS-1", tn+"|"+c.FuncName(fn)+"|running-before "+cal.Name()+siteTag(in, cal), c.Pos(in.Pos()), okRun,
				"the session is in state Running (err == nil && result == nil, read under the lock) whenever a call that may close the channel is made", why)

			// abort(nil) is preceded by the result assignment
			if cal == A {
				args := callArgs(in)
				if len(args) >= 2 && isNilConst(args[1]) {
					okRes := false
					allInstrs(fn, func(x ssa.Instruction) {
						if st, ok := x.(*ssa.Store); ok {
							if fa, ok := st.Addr.(*ssa.FieldAddr); ok && m.isRecv(fn, fa.X) && fa.Field == ts.resF && instrDominates(x, in) {
								okRes = true
							}
						}
					})
					r.Check("TS-2", tn+"|"+c.FuncName(fn)+"|abort(nil)-after-result", c.Pos(in.Pos()), okRes,
						"the error-free transition records the result first, so Result() never reports 'not finished' on a closed channel", "abort(nil) without a preceding assignment of the result")
				}
			}
		})
	}

	// (e) inside abort: err stored when non-nil, before close; close on every path exactly once; sends non-blocking
	{
		var closeIn ssa.Instruction
		var errStore ssa.Instruction
		blockingSend := ""
		deferredClose := false
		allInstrs(A, func(in ssa.Instruction) {
			if call, ok := in.(*ssa.Call); ok {
				if b, ok := call.Call.Value.(*ssa.Builtin); ok && b.Name() == "close" {
					closeIn = in
				}
			}
			// `defer close(out)` in the entry block: the channel is closed at every exit, after everything else
			if df, ok := in.(*ssa.Defer); ok && in.Block() == A.Blocks[0] {
				if b, ok := df.Call.Value.(*ssa.Builtin); ok && b.Name() == "close" {
					deferredClose = true
				}
			}
			if st, ok := in.(*ssa.Store); ok {
				if fa, ok := st.Addr.(*ssa.FieldAddr); ok && m.isRecv(A, fa.X) && fa.Field == ts.errF {
					errStore = in
				}
			}
			if s, ok := in.(*ssa.Send); ok && m.fieldsOf(A, s.Chan)[ts.outF] {
				blockingSend = c.Pos(s.Pos())
			}
			if s, ok := in.(*ssa.Select); ok && s.Blocking {
				blockingSend = c.Pos(s.Pos())
			}
		})
		// ... also through helper methods of the handler that the transition calls (h.send(msg))
		allInstrs(A, func(in ssa.Instruction) {
			cal := staticCallee(in)
			if cal == nil || cal == A {
				return
			}
			if _, isM := m.recvOf[cal]; !isM {
				return
			}
			allInstrs(cal, func(x ssa.Instruction) {
				if sd, ok := x.(*ssa.Send); ok && m.fieldsOf(cal, sd.Chan)[ts.outF] {
					blockingSend = c.Pos(sd.Pos()) + " (in " + cal.Name() + ", called from the transition)"
				}
				if sl, ok := x.(*ssa.Select); ok && sl.Blocking {
					blockingSend = c.Pos(sl.Pos()) + " (in " + cal.Name() + ", called from the transition)"
				}
			})
		})
		okStore := errStore != nil && closeIn != nil && instrReaches(errStore, closeIn) && !instrReaches(closeIn, errStore)
		if deferredClose && closeIn == nil {
			okStore = errStore != nil
		}
		// the store is on the err != nil edge
		if okStore {
			errParam := ssa.Value(nil)
			if len(A.Params) >= 2 {
				errParam = A.Params[1]
			}
			okStore = errParam != nil && dominatedByNonNilParam(errStore.Block(), errParam)
		}
		r.Check("TS-1", tn+"|"+A.Name()+"|records-error-before-close", c.Pos(A.Pos()), okStore,
			"a non-nil error is stored (state becomes Finished) before the channel is closed", "the err field is not stored on the err != nil path before close(out)")
		// close on every path
		everyPath := closeIn != nil || deferredClose
		if closeIn != nil {
			walkFrom(A.Blocks[0], 0, func(x ssa.Instruction) bool {
				if x == closeIn {
					return true
				}
				if _, isRet := x.(*ssa.Return); isRet {
					everyPath = false
					return true
				}
				return false
			})
		}
		r.Check("TS-1", tn+"|"+A.Name()+"|closes-on-every-path", c.Pos(A.Pos()), everyPath, "every path through the transition closes the channel (listeners are released)", "a path returns without closing the channel")
		r.Check("TS-4", tn+"|"+A.Name()+"|notice-nonblocking", c.Pos(A.Pos()), blockingSend == "", "the abort notice never blocks (select with default)", "blocking send/select at "+blockingSend+" inside the transition")
	}

	// TS-2: err / result stores only in the transition
	for _, fn := range m.fns {
		fn := fn
		allInstrs(fn, func(in ssa.Instruction) {
			st, ok := in.(*ssa.Store)
			if !ok {
				return
			}
			fa, ok := st.Addr.(*ssa.FieldAddr)
			if !ok || !m.isRecv(fn, fa.X) {
				return
			}
			if fa.Field == ts.errF {
				r.Check("TS-2", tn+"|"+c.FuncName(fn)+"|err-assigned", c.Pos(in.Pos()), fn == A, "err is assigned only in the function that closes the channel", "err is assigned in "+fn.Name()+", outside the transition: Result() can change after the end or the session can end without the channel being closed")
			}
			if fa.Field == ts.resF {
				// must be followed in the same frame, on every path, by abort(nil)
				okFollow := true
				reached := false
				walkForward(in, func(x ssa.Instruction) bool {
					if cal := staticCallee(x); cal == A {
						if a := callArgs(x); len(a) >= 2 && isNilConst(a[1]) {
							reached = true
							return true
						}
					}
					if _, isRet := x.(*ssa.Return); isRet {
						okFollow = false
						return true
					}
					return false
				})
				r.Check("TS-2", tn+"|"+c.FuncName(fn)+"|result-assigned", c.Pos(in.Pos()), okFollow && reached, "result is assigned only as part of the error-free transition (immediately followed by abort(nil))", "result is assigned without the closing transition following on every path")
			}
		})
	}

	// TS-3: Stop; state-changing calls in exported methods only when Running
	if stop := c.MethodOf(m.H, "Stop"); stop != nil {
		r.Analysed(c.FuncName(stop))
		found := false
		allInstrs(stop, func(in ssa.Instruction) {
			if cal := staticCallee(in); cal != nil && ts.mayAb[cal] {
				a := callArgs(in)
				if cal == A && len(a) >= 2 && !isNilConst(a[1]) {
					found = true
				} else if cal != A {
					found = true
				}
			}
		})
		r.Check("TS-3", tn+"|Stop|ends-running-session", c.Pos(stop.Pos()), found, "Stop reaches the transition with a non-nil error", "Stop never calls the abort transition with an error: a running session is not ended")
	} else {
		r.Unresolved("TS-3", tn+".Stop")
	}
	var ts3 []*ssa.Function
	for _, fn := range m.fns {
		if fn.Parent() != nil || !fn.Object().Exported() {
			continue
		}
		ts3 = append(ts3, fn)
		if inner := thinWrapperInner(fn); inner != nil {
			ts3 = append(ts3, inner) // the body of an exported wrapper (Accept -> accept)
		}
	}
	for _, fn := range ts3 {
		fn := fn
		allInstrs(fn, func(in ssa.Instruction) {
			isEff := false
			what := ""
			if cal := staticCallee(in); cal != nil && ts.effect[cal] && !ts.mayAb[cal] {
				if a := callArgs(in); len(a) > 0 && m.isRecv(fn, a[0]) {
					if _, isDefer := in.(*ssa.Defer); !isDefer {
						isEff, what = true, "call "+cal.Name()
					}
				}
			}
			switch x := in.(type) {
			case *ssa.MapUpdate:
				for f := range m.fieldsOf(fn, x.Map) {
					isEff, what = true, "update of "+m.fieldName(f)
				}
			case *ssa.Store:
				if _, local := x.Addr.(*ssa.Alloc); !local {
					for f := range m.fieldsOf(fn, x.Addr) {
						if f != m.mtxF {
							isEff, what = true, "store to "+m.fieldName(f)
						}
					}
				}
			}
			if !isEff {
				return
			}
			okRun, why := ts.runningAt(fn, in)
			r.Check("TS-3", tn+"|"+c.FuncName(fn)+"|effect-only-when-running|"+what, c.Pos(in.Pos()), okRun,
				"exported methods change handler state only while the session is Running (messages after the end are ignored)", why)
		})
	}

	// TS-4: blocking operations under the lock
	for _, fn := range m.fns {
		fn := fn
		if fn == A {
			continue
		}
		allInstrs(fn, func(in ssa.Instruction) {
			bad := ""
			switch x := in.(type) {
			case *ssa.Send:
				if !m.fieldsOf(fn, x.Chan)[ts.outF] {
					bad = "send on a channel other than the outgoing one"
				}
			case *ssa.Select:
				if x.Blocking {
					bad = "blocking select"
				}
			case *ssa.UnOp:
				if x.Op == token.ARROW {
					// draining a channel made (and closed) by this very frame does not wait for anybody
					if _, local := x.X.(*ssa.MakeChan); !local {
						bad = "channel receive"
					}
				}
			case *ssa.Go:
				bad = "go statement (round code would leave the single processing thread)"
			}
			if cal := staticCallee(in); cal != nil && cal.Pkg != nil && cal.Pkg.Pkg.Path() == "sync" && (cal.Name() == "Wait") {
				bad = "sync wait"
			}
			if bad != "" {
				r.Fail("TS-4", tn+"|"+c.FuncName(fn)+"|blocking-op", c.Pos(in.Pos()), "no blocking operation other than sends on the outgoing channel inside handler methods", bad+" at "+c.Pos(in.Pos()))
			}
		})
	}
	r.Hold("TS-4", tn+"|no-foreign-blocking-ops", c.Pos(m.H.Obj().Pos()), "handler methods scanned for receives, blocking selects, go statements, foreign sends")
}

func siteTag(in ssa.Instruction, cal *ssa.Function) string {
	// distinguish several call sites of the same callee in one function by their error argument shape
	a := callArgs(in)
	if len(a) >= 2 {
		s := path(a[1])
		if len(s) > 40 {
			s = s[:40]
		}
		return " [" + s + "]"
	}
	return ""
}

func dominatedByNonNilParam(b *ssa.BasicBlock, p ssa.Value) bool {
	for d := b; d != nil; d = d.Idom() {
		if len(d.Preds) != 1 {
			continue
		}
		pr := d.Preds[0]
		iff, ok := pr.Instrs[len(pr.Instrs)-1].(*ssa.If)
		if !ok {
			continue
		}
		bo, ok := iff.Cond.(*ssa.BinOp)
		if !ok || resolveLoad(bo.X) != p || !isNilConst(bo.Y) {
			continue
		}
		if bo.Op == token.NEQ && pr.Succs[0] == d {
			return true
		}
		if bo.Op == token.EQL && pr.Succs[1] == d {
			return true
		}
	}
	return false
}

// nilFacts returns the receiver fields known to be nil when block b executes (from dominating branch edges),
// restricted to loads performed with the lock held.
func (ts *handlerTS) nilFacts(fn *ssa.Function, b *ssa.BasicBlock) map[int]bool {
	m := ts.m
	facts := map[int]bool{}
	for d := b; d != nil; d = d.Idom() {
		if len(d.Preds) != 1 {
			continue
		}
		p := d.Preds[0]
		iff, ok := p.Instrs[len(p.Instrs)-1].(*ssa.If)
		if !ok {
			continue
		}
		// the state test behind a predicate of the handler: `if h.done() { return }` with
		// done() = h.err != nil || h.result != nil (or running() = h.err == nil && h.result == nil)
		{
			cond, neg := iff.Cond, false
			if u, isU := cond.(*ssa.UnOp); isU && u.Op == token.NOT {
				cond, neg = u.X, true
			}
			if pc, isCall := cond.(*ssa.Call); isCall {
				if g := pc.Call.StaticCallee(); g != nil && len(pc.Call.Args) == 1 && m.isRecv(fn, pc.Call.Args[0]) && m.held(fn, pc) {
					onTrue := p.Succs[0] == d
					if neg {
						onTrue = !onTrue
					}
					for f := range predicateNilFields(g, onTrue) {
						facts[f] = true
					}
				}
				continue
			}
		}
		bo, ok := iff.Cond.(*ssa.BinOp)
		if !ok || !isNilConst(bo.Y) {
			continue
		}
		ld, ok := bo.X.(*ssa.UnOp)
		if !ok || ld.Op != token.MUL {
			continue
		}
		fa, ok := ld.X.(*ssa.FieldAddr)
		if !ok || !m.isRecv(fn, fa.X) {
			continue
		}
		isNilEdge := (bo.Op == token.EQL && p.Succs[0] == d) || (bo.Op == token.NEQ && p.Succs[1] == d)
		if isNilEdge && m.held(fn, ld) {
			facts[fa.Field] = true
		}
	}
	return facts
}

// predicateNilFields: g is a niladic bool method of the handler whose result is a disjunction of `recv.F != nil` tests
// (all of these F are nil when it answers false) or a conjunction of `recv.F == nil` tests (all nil when it answers
// true). Returns the fields known nil on the given outcome.
func predicateNilFields(g *ssa.Function, outcome bool) map[int]bool {
	out := map[int]bool{}
	if g == nil || len(g.Blocks) == 0 || len(g.Params) != 1 || g.Signature.Results().Len() != 1 {
		return out
	}
	rets := returnsOf(g)
	if len(rets) != 1 {
		return out
	}
	kind, atoms := flattenBool(rets[0].Results[0], 0)
	if kind == "" || len(atoms) == 0 {
		atoms = []ssa.Value{rets[0].Results[0]}
		kind = "|"
		if outcome {
			kind = "&"
		}
	}
	wantOp := token.NEQ // disjunction of != nil, all nil on false
	if kind == "&" {
		wantOp = token.EQL
	}
	if (kind == "|" && outcome) || (kind == "&" && !outcome) {
		return out
	}
	for _, at := range atoms {
		bo, ok := at.(*ssa.BinOp)
		if !ok || bo.Op != wantOp || !isNilConst(bo.Y) {
			return map[int]bool{}
		}
		ld, ok := bo.X.(*ssa.UnOp)
		if !ok || ld.Op != token.MUL {
			return map[int]bool{}
		}
		fa, ok := ld.X.(*ssa.FieldAddr)
		if !ok || fa.X != ssa.Value(g.Params[0]) {
			return map[int]bool{}
		}
		out[fa.Field] = true
	}
	return out
}

func (ts *handlerTS) runningAt(fn *ssa.Function, in ssa.Instruction) (bool, string) {
	m := ts.m
	if m.entry[fn] {
		return true, ""
	}
	f := ts.nilFacts(fn, in.Block())
	if f[ts.errF] && f[ts.resF] {
		return true, ""
	}
	missing := []string{}
	if !f[ts.errF] {
		missing = append(missing, m.fieldName(ts.errF)+" == nil")
	}
	if !f[ts.resF] {
		missing = append(missing, m.fieldName(ts.resF)+" == nil")
	}
	return false, fmt.Sprintf("%s reaches this point without having established %s under the lock: on a finished or aborted session the channel is closed again (panic: close of closed channel / send on closed channel) or state changes after the end", fn.Name(), strings.Join(missing, " and "))
}

// runningAtCall: the call site is Running, either by local facts or because fn itself is only entered Running.
func (ts *handlerTS) runningAtCall(fn *ssa.Function, in ssa.Instruction) (bool, string) {
	m := ts.m
	if fn.Parent() == nil && !fn.Object().Exported() && m.entry[fn] && ts.mayAb[fn] && !m.deferTarget[fn] {
		// precondition inherited: every call site of fn is itself checked by this rule
		return true, ""
	}
	if fn.Parent() == nil && !fn.Object().Exported() && m.entry[fn] {
		// helper entered with the lock held (possibly at frame exit, via defer): need local facts
		f := ts.nilFacts(fn, in.Block())
		if f[ts.errF] && f[ts.resF] {
			return true, ""
		}
		return false, fn.Name() + " may be entered in state Finished and calls a function that closes the channel"
	}
	f := ts.nilFacts(fn, in.Block())
	if f[ts.errF] && f[ts.resF] {
		return true, ""
	}
	missing := []string{}
	if !f[ts.errF] {
		missing = append(missing, m.fieldName(ts.errF)+" == nil")
	}
	if !f[ts.resF] {
		missing = append(missing, m.fieldName(ts.resF)+" == nil")
	}
	return false, fmt.Sprintf("%s can reach this call without having established %s under the lock: on a finished or aborted session the channel is closed a second time (panic) ; on a running one the guard may skip the call", fn.Name(), strings.Join(missing, " and "))
}

// signalsAbort: fn returns a single bool that is the constant false on every path on which a call that may end the
// session was made (so `if !fn() { return }` in the caller stops exactly when the session ended).
func signalsAbort(fn *ssa.Function, mayAb map[*ssa.Function]bool) bool {
	res := fn.Signature.Results()
	if res.Len() != 1 {
		return false
	}
	if b, ok := res.At(0).Type().Underlying().(*types.Basic); !ok || b.Kind() != types.Bool {
		return false
	}
	var aborts []ssa.Instruction
	allInstrs(fn, func(in ssa.Instruction) {
		if _, isDefer := in.(*ssa.Defer); isDefer {
			return
		}
		if cal := staticCallee(in); cal != nil && mayAb[cal] {
			aborts = append(aborts, in)
		}
	})
	if len(aborts) == 0 {
		return false
	}
	for _, ret := range returnsOf(fn) {
		after := false
		for _, a := range aborts {
			if a.Block() == ret.Block() || blockReaches(a.Block(), ret.Block()) {
				after = true
			}
		}
		if !after {
			continue
		}
		v := ret.Results[0]
		if ph, ok := v.(*ssa.Phi); ok {
			// each edge coming from an aborting path must be false
			for i, e := range ph.Edges {
				pred := ph.Block().Preds[i]
				fromAbort := false
				for _, a := range aborts {
					if a.Block() == pred || blockReaches(a.Block(), pred) {
						fromAbort = true
					}
				}
				if fromAbort {
					if k, ok := constBool(e); !ok || k {
						return false
					}
				}
			}
			continue
		}
		if k, ok := constBool(v); !ok || k {
			return false
		}
	}
	return true
}

// selfGuarding: inside cal every call that may end the session is made at a point where cal itself has established
// err == nil && result == nil (its own early-return guard), so cal may be entered in any state.
func (ts *handlerTS) selfGuarding(cal *ssa.Function) bool {
	if cal == nil || len(cal.Blocks) == 0 {
		return false
	}
	n, ok := 0, true
	allInstrs(cal, func(in ssa.Instruction) {
		c2 := staticCallee(in)
		if c2 == nil || !ts.mayAb[c2] {
			return
		}
		if _, isDefer := in.(*ssa.Defer); isDefer {
			ok = false
			return
		}
		n++
		f := ts.nilFacts(cal, in.Block())
		if !(f[ts.errF] && f[ts.resF]) {
			ok = false
		}
	})
	return ok && n > 0
}
