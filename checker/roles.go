package main

import (
	"go/types"
	"strings"

	"golang.org/x/tools/go/ssa"
)

// Role-based resolution of the handlers' unexported helpers. The rules name these helpers as they are called
// today; when a helper is renamed (a behaviour-preserving edit) the by-name lookup fails and the helper is found
// by what it does instead. A role that matches no method or more than one stays unresolved (the run fails with
// UNRESOLVED-ANCHOR rather than guessing).
var handlerRoles = map[string]func(c *Ctx, fn *ssa.Function) bool{
	// files a (non-nil) *Message into a queue
	"store": func(c *Ctx, fn *ssa.Function) bool {
		found := false
		allInstrs(fn, func(in ssa.Instruction) {
			if mu, ok := in.(*ssa.MapUpdate); ok && !isNilConst(mu.Value) {
				if n := namedOf(derefType(mu.Value.Type())); n != nil && n.Obj().Name() == "Message" {
					if _, isPtr := mu.Value.Type().Underlying().(*types.Pointer); isPtr {
						found = true
					}
				}
			}
		})
		return found && takesMessage(fn) && fn.Signature.Results().Len() == 0 && !callsHandlerMethods(fn)
	},
	"verifyMessage": func(c *Ctx, fn *ssa.Function) bool {
		return invokes(fn, "StoreMessage") && !invokes(fn, "StoreBroadcastMessage")
	},
	"verifyBroadcastMessage": func(c *Ctx, fn *ssa.Function) bool { return invokes(fn, "StoreBroadcastMessage") },
	"finalize": func(c *Ctx, fn *ssa.Function) bool {
		return invokes(fn, "Finalize") && fn.Signature.Params().Len() == 0
	},
	// bool(msg): looks the message's slot up in the queues, calls nothing else of the handler
	"duplicate": func(c *Ctx, fn *ssa.Function) bool {
		if !takesMessage(fn) || !boolResult(fn) || callsHandlerMethods(fn) {
			return false
		}
		lookups := 0
		allInstrs(fn, func(in ssa.Instruction) {
			if lk, ok := in.(*ssa.Lookup); ok {
				if n := namedOf(derefType(lk.Type())); n != nil && n.Obj().Name() == "Message" {
					lookups++
				}
			}
		})
		return lookups > 0
	},
	// bool(): compares verification hashes with bytes.Equal
	"checkBroadcastHash": func(c *Ctx, fn *ssa.Function) bool {
		return fn.Signature.Params().Len() == 0 && boolResult(fn) && callsPkgFunc(fn, "bytes", "Equal")
	},
	// bool(): walks the queues, compares nothing
	"receivedAll": func(c *Ctx, fn *ssa.Function) bool {
		return fn.Signature.Params().Len() == 0 && boolResult(fn) && !callsPkgFunc(fn, "bytes", "Equal") && !invokes(fn, "Finalize") && readsQueues(fn)
	},
	// bool(msg): the header filter (calls msg.IsFor)
	"canAccept": func(c *Ctx, fn *ssa.Function) bool {
		if !takesMessage(fn) || !boolResult(fn) || fn.Object() == nil || fn.Object().Exported() {
			return false
		}
		isFor := false
		allInstrs(fn, func(in ssa.Instruction) {
			if call, ok := in.(*ssa.Call); ok {
				if o := calleeObj(call); o != nil && o.Name() == "IsFor" {
					isFor = true
				}
			}
		})
		return isFor
	},
	// (err, culprits...): the only closer of the outgoing channel besides the result path
	"abort": func(c *Ctx, fn *ssa.Function) bool {
		p := fn.Signature.Params()
		if p.Len() < 1 || !isErrorType(p.At(0).Type()) {
			return false
		}
		closes := false
		allInstrs(fn, func(in ssa.Instruction) {
			if call, ok := in.(*ssa.Call); ok {
				if b, ok := call.Call.Value.(*ssa.Builtin); ok && b.Name() == "close" {
					closes = true
				}
			}
		})
		return closes
	},
}

func takesMessage(fn *ssa.Function) bool {
	p := fn.Signature.Params()
	if p.Len() != 1 {
		return false
	}
	n := namedOf(derefType(p.At(0).Type()))
	return n != nil && n.Obj().Name() == "Message"
}

func boolResult(fn *ssa.Function) bool {
	res := fn.Signature.Results()
	if res.Len() != 1 {
		return false
	}
	b, ok := res.At(0).Type().Underlying().(*types.Basic)
	return ok && b.Kind() == types.Bool
}

func invokes(fn *ssa.Function, method string) bool {
	found := false
	allInstrs(fn, func(in ssa.Instruction) {
		if cc, ok := in.(ssa.CallInstruction); ok && cc.Common().IsInvoke() && cc.Common().Method.Name() == method {
			found = true
		}
	})
	return found
}

func callsPkgFunc(fn *ssa.Function, pkg, name string) bool {
	found := false
	allInstrs(fn, func(in ssa.Instruction) {
		if isCallToPkgFunc(in, pkg, name) {
			found = true
		}
	})
	return found
}

// callsHandlerMethods: fn calls another method of its own receiver type.
func callsHandlerMethods(fn *ssa.Function) bool {
	if fn.Signature.Recv() == nil {
		return false
	}
	self := namedOf(derefType(fn.Signature.Recv().Type()))
	found := false
	allInstrs(fn, func(in ssa.Instruction) {
		if cc, ok := in.(ssa.CallInstruction); ok {
			if f := cc.Common().StaticCallee(); f != nil && f != fn && f.Signature.Recv() != nil && namedOf(derefType(f.Signature.Recv().Type())) == self {
				found = true
			}
		}
	})
	return found
}

func readsQueues(fn *ssa.Function) bool {
	found := false
	allInstrs(fn, func(in ssa.Instruction) {
		if lk, ok := in.(*ssa.Lookup); ok && strings.HasPrefix(lk.X.Type().String(), "map[") {
			found = true
		}
	})
	return found
}

// methodByRole: the unique declared method of n playing the role `name`.
func (c *Ctx) methodByRole(n *types.Named, name string) *ssa.Function {
	role, ok := handlerRoles[name]
	if !ok || n.Obj().Pkg() == nil || !strings.HasSuffix(n.Obj().Pkg().Path(), "pkg/protocol") {
		return nil
	}
	known := false
	for _, h := range reviewedHelpers[n.Obj().Name()] {
		if h == name {
			known = true
		}
	}
	if !known {
		return nil
	}
	var hit *ssa.Function
	count := 0
	for i := 0; i < n.NumMethods(); i++ {
		fn := c.Prog.FuncValue(n.Method(i))
		if fn == nil || len(fn.Blocks) == 0 {
			continue
		}
		if role(c, fn) {
			hit = fn
			count++
		}
	}
	if count == 1 {
		return hit
	}
	if count == 0 {
		// the helper became a plain function of the package (taking the round / the message instead of the receiver):
		// looked for among the functions the handler's methods call
		seen := map[*ssa.Function]bool{}
		for i := 0; i < n.NumMethods(); i++ {
			m := c.Prog.FuncValue(n.Method(i))
			if m == nil {
				continue
			}
			allInstrs(m, func(in ssa.Instruction) {
				g := staticCallee(in)
				if g == nil || seen[g] || g.Signature.Recv() != nil || g.Pkg == nil || g.Pkg.Pkg != n.Obj().Pkg() || len(g.Blocks) == 0 {
					return
				}
				seen[g] = true
				if role(c, g) {
					hit = g
					count++
				}
			})
		}
		if count == 1 {
			return hit
		}
	}
	return nil
}

// canonical names: a handler helper that was renamed keeps, for every rule, key and table, the name its role has
// in the reviewed tree. Built lazily, once.
var canonNames map[*types.Func]string
var canonCtx *Ctx

func (c *Ctx) buildCanon() {
	canonNames = map[*types.Func]string{}
	canonCtx = c
	reviewed := reviewedHelpers
	for _, hn := range []string{"MultiHandler", "TwoPartyHandler"} {
		n := c.LookupNamed("pkg/protocol", hn)
		if n == nil {
			continue
		}
		for _, role := range reviewed[hn] {
			if c.MethodOf(n, role) != nil {
				continue // the name is in use: nothing to canonicalise
			}
			var fn *ssa.Function
			if role == "abortOnPanic" {
				fn = c.recoverBarrierOf(n)
			} else {
				fn = c.methodByRole(n, role)
			}
			if fn != nil {
				if o, ok := fn.Object().(*types.Func); ok {
					canonNames[o] = role
				}
			}
		}
	}
}

// recoverBarrierOf: the unique method of n that calls recover().
func (c *Ctx) recoverBarrierOf(n *types.Named) *ssa.Function {
	var hit *ssa.Function
	cnt := 0
	for i := 0; i < n.NumMethods(); i++ {
		fn := c.Prog.FuncValue(n.Method(i))
		if fn == nil {
			continue
		}
		rec := false
		withAnon(fn, func(f *ssa.Function) {
			allInstrs(f, func(in ssa.Instruction) {
				if call, ok := in.(*ssa.Call); ok {
					if b, ok := call.Call.Value.(*ssa.Builtin); ok && b.Name() == "recover" {
						rec = true
					}
				}
			})
		})
		if rec {
			hit = fn
			cnt++
		}
	}
	if cnt == 1 {
		return hit
	}
	return nil
}

// canonName: the name rules and keys use for o.
func canonName(o *types.Func) string {
	if o == nil {
		return ""
	}
	if n, ok := canonNames[o]; ok {
		return n
	}
	return o.Name()
}

// canonFnName: same for an SSA function.
func canonFnName(fn *ssa.Function) string {
	if fn == nil {
		return ""
	}
	if o, ok := fn.Object().(*types.Func); ok {
		return canonName(o)
	}
	return fn.Name()
}

// reviewedHelpers: the helper names each handler type has in the reviewed tree (only these can go "missing"
// through a rename and be found again by role).
var reviewedHelpers = map[string][]string{
	"MultiHandler":    {"store", "verifyMessage", "verifyBroadcastMessage", "finalize", "duplicate", "checkBroadcastHash", "receivedAll", "canAccept", "abort", "abortOnPanic"},
	"TwoPartyHandler": {"verifyMessage", "canAccept", "abort", "abortOnPanic"},
}
