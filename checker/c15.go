package main

import (
	"fmt"
	"go/token"
	"go/types"
	"sort"
	"strings"

	"golang.org/x/tools/go/ssa"
)

func init() {
	register("C15", propMeta{
		Explanation: "Codec rules decided on types + SSA. CODEC-2 agreement: for every hand-written codec (cmp Config <-> configMarshal/publicMarshal, protocol.Message <-> marshallableMessage, Exponent <-> rawExponentData, the two OT setups) every field of the intermediate wire struct is written by the marshal side and read by the unmarshal side, and every field of the restored type is assigned (tabled exception: the group context supplied by Empty*). " +
			"CODEC-4 reflective encodability: every struct reachable from a result type that is encoded reflectively (no MarshalBinary of its own) has only exported fields (a group context field is exempt), otherwise state is silently lost on a round trip. " +
			"ERR-1 / OB-U: guard inventory of every UnmarshalBinary and validator on the restore path (cbor errors, ValidatePrime, ValidateN, ValidateParameters, zero scalars, identity points, threshold, duplicate / missing party, PreSignature.Validate, curve point/scalar decoding): every recorded rejection is present and covers the success return. " +
			"OB-U2: every key-material / presignature type either decodes through a custom UnmarshalBinary that validates, or is reported (known findings: frost.Config, frost.TaprootConfig, doerner configs and ecdsa.PreSignature are restored by plain reflective CBOR with no validation). NOT decided: behavioural equivalence of a restored object.",
		Trusted:     append([]string{"tables/round_guards.json (restore-path validators)"}, commonTrusted...),
		Assumptions: []string{"fxamacker/cbor encodes exported struct fields and honours MarshalBinary/UnmarshalBinary"},
	}, runC15)
}

// result types whose encodings the property talks about
var resultTypes = []struct{ rel, name string }{
	{"protocols/cmp/config", "Config"},
	{"protocols/frost/keygen", "Config"},
	{"protocols/frost/keygen", "TaprootConfig"},
	{"protocols/doerner/keygen", "ConfigReceiver"},
	{"protocols/doerner/keygen", "ConfigSender"},
	{"pkg/ecdsa", "PreSignature"},
	{"pkg/ecdsa", "Signature"},
	{"pkg/protocol", "Message"},
}

func hasOwnMethod(n *types.Named, name string) bool {
	for i := 0; i < n.NumMethods(); i++ {
		if n.Method(i).Name() == name {
			return true
		}
	}
	return false
}

func runC15(c *Ctx, r *Run) {
	checkDecodedPointerNil(c, r, "PANIC-6")
	r.Rule("CODEC-5", "marshal and unmarshal are inverse: a wire field written from one field of the object is restored into that field")
	r.Rule("CODEC-6", "wire structs encode every field unconditionally (no omitempty / skipped keys): decoders fill pre-shaped values")
	r.Rule("ALIAS-E", "no struct literal stores one freshly created object into two reference fields (pre-shaped values are decoded field by field)")
	r.Rule("CODEC-2", "hand-written codecs agree: every wire-struct field is written on marshal and read on unmarshal; every field of the restored type is assigned")
	r.Rule("CODEC-4", "reflectively encoded structs reachable from result types carry no unexported state")
	r.Rule("ERR-1", "restore-path guard inventory: every recorded decode/validation rejection of the UnmarshalBinary implementations and validators is present and covers the success return")
	r.Rule("OB-U2", "every key-material / presignature type is restored through a validating custom decoder")

	// ---- CODEC-2
	for _, p := range c.LibPkgs() {
		sc := p.Types.Scope()
		for _, nm := range sc.Names() {
			tn, ok := sc.Lookup(nm).(*types.TypeName)
			if !ok || tn.IsAlias() {
				continue
			}
			T, ok := tn.Type().(*types.Named)
			if !ok {
				continue
			}
			tst, isStruct := T.Underlying().(*types.Struct)
			if !isStruct || !hasOwnMethod(T, "MarshalBinary") || !hasOwnMethod(T, "UnmarshalBinary") {
				continue
			}
			mar := c.MethodOf(T, "MarshalBinary")
			unm := c.MethodOf(T, "UnmarshalBinary")
			if mar == nil || unm == nil {
				continue
			}
			key := c.ObjName(T.Obj())
			r.Analysed(c.FuncName(mar))
			r.Analysed(c.FuncName(unm))
			// wire structs: struct types of the same package (other than T) instantiated in MarshalBinary (or helpers) and handed to cbor
			wire := map[*types.Named]bool{}
			scan := func(fn *ssa.Function, into map[*types.Named]bool) {
				withCallees(c, fn, 2, func(f *ssa.Function) {
					allInstrs(f, func(in ssa.Instruction) {
						if a, ok := in.(*ssa.Alloc); ok {
							if n := namedOf(a.Type().(*types.Pointer).Elem()); n != nil && n != T && n.Obj().Pkg() == T.Obj().Pkg() {
								if _, isS := n.Underlying().(*types.Struct); isS {
									into[n] = true
								}
							}
						}
					})
				})
			}
			scan(mar, wire)
			unWire := map[*types.Named]bool{}
			scan(unm, unWire)
			// fields written on marshal / read on unmarshal
			written := map[string]bool{}
			withCallees(c, mar, 2, func(f *ssa.Function) {
				allInstrs(f, func(in ssa.Instruction) {
					if st, ok := in.(*ssa.Store); ok {
						if fa, ok := st.Addr.(*ssa.FieldAddr); ok {
							if n := namedOf(fa.X.Type()); n != nil && wire[n] {
								written[n.Obj().Name()+"."+fieldName(fa.X.Type(), fa.Field)] = true
							}
						}
					}
				})
			})
			read := map[string]bool{}
			assigned := map[string]bool{}
			withCallees(c, unm, 2, func(f *ssa.Function) {
				allInstrs(f, func(in ssa.Instruction) {
					switch x := in.(type) {
					case *ssa.FieldAddr:
						n := namedOf(x.X.Type())
						if n == nil {
							return
						}
						isLoad, isStore := false, false
						for _, ref := range *x.Referrers() {
							switch y := ref.(type) {
							case *ssa.UnOp:
								isLoad = true
							case *ssa.Store:
								if y.Addr == ssa.Value(x) {
									isStore = true
								}
							default:
								isLoad = true
							}
						}
						if (wire[n] || unWire[n]) && isLoad {
							read[n.Obj().Name()+"."+fieldName(x.X.Type(), x.Field)] = true
						}
						if n == T {
							// assigned directly, or filled in place (address handed to a call / deeper field written)
							inPlace := false
							for _, ref := range *x.Referrers() {
								switch ref.(type) {
								case ssa.CallInstruction, *ssa.FieldAddr, *ssa.IndexAddr:
									inPlace = true
								}
							}
							if isStore || inPlace {
								assigned[fieldName(x.X.Type(), x.Field)] = true
							}
						}
					case *ssa.Field:
						if n := namedOf(x.X.Type()); n != nil && (wire[n] || unWire[n]) {
							read[n.Obj().Name()+"."+fieldName(x.X.Type(), x.Field)] = true
						}
					}
				})
			})
			// `*c = Config{...}`: whole-struct store of a literal
			allInstrs(unm, func(in ssa.Instruction) {
				st, ok := in.(*ssa.Store)
				if !ok || st.Addr != ssa.Value(unm.Params[0]) {
					return
				}
				if ld, ok := st.Val.(*ssa.UnOp); ok {
					if a, ok := ld.X.(*ssa.Alloc); ok {
						for _, ref := range *a.Referrers() {
							if fa, ok := ref.(*ssa.FieldAddr); ok {
								for _, rr := range *fa.Referrers() {
									if s2, ok := rr.(*ssa.Store); ok && s2.Addr == ssa.Value(fa) {
										assigned[fieldName(fa.X.Type(), fa.Field)] = true
									}
								}
							}
						}
					}
				}
			})
			// whole-struct conversions between the object and a wire struct with the same field set
			// (`cbor.Marshal((*wire)(m))`, `*m = T(decoded)`): every field is carried over under its own name
			convAll := func(f0 *ssa.Function, fromObj bool, visit func(W *types.Named)) {
				// (the conversion may sit in a helper of the codec: `toMarshallable()` called by MarshalBinary)
				for _, f := range regionOf(f0) {
					allInstrs(f, func(in ssa.Instruction) {
						var x ssa.Value
						var to types.Type
						switch y := in.(type) {
						case *ssa.ChangeType:
							x, to = y.X, y.Type()
						case *ssa.Convert:
							x, to = y.X, y.Type()
						default:
							return
						}
						from := namedOf(derefType(x.Type()))
						dst := namedOf(derefType(to))
						if from == nil || dst == nil {
							return
						}
						if fromObj && from == T && wire[dst] {
							visit(dst)
						}
						if !fromObj && dst == T && (wire[from] || unWire[from]) {
							visit(from)
						}
					})
				}
			}
			convMar := map[string]string{}
			convAll(mar, true, func(W *types.Named) {
				wst := W.Underlying().(*types.Struct)
				for i := 0; i < wst.NumFields(); i++ {
					written[W.Obj().Name()+"."+wst.Field(i).Name()] = true
					convMar[W.Obj().Name()+"."+wst.Field(i).Name()] = wst.Field(i).Name()
				}
			})
			convUnm := map[string]string{}
			convAll(unm, false, func(W *types.Named) {
				wst := W.Underlying().(*types.Struct)
				for i := 0; i < wst.NumFields(); i++ {
					read[W.Obj().Name()+"."+wst.Field(i).Name()] = true
					assigned[wst.Field(i).Name()] = true
					convUnm[W.Obj().Name()+"."+wst.Field(i).Name()] = wst.Field(i).Name()
				}
			})
			// CODEC-5: the two directions are inverse of each other. For a wire field filled from exactly one field
			// G of the encoded object, the fields restored from that wire field must include G.
			isWire := func(n *types.Named) bool { return n != nil && (wire[n] || unWire[n]) }
			modStruct := func(t types.Type) *types.Named {
				n := namedOf(derefType(t))
				if n == nil || n.Obj().Pkg() == nil || !strings.HasPrefix(n.Obj().Pkg().Path(), modPath) || isWire(n) {
					return nil
				}
				if _, ok := n.Underlying().(*types.Struct); !ok {
					return nil
				}
				return n
			}
			innermost := func(v ssa.Value) []string {
				lasts, outers := map[string]bool{}, map[string]bool{}
				dependsOn(v, func(x ssa.Value) bool {
					var base ssa.Value
					var name string
					switch y := x.(type) {
					case *ssa.FieldAddr:
						if modStruct(y.X.Type()) == nil {
							return false
						}
						base, name = y.X, fieldName(y.X.Type(), y.Field)
					case *ssa.Field:
						if modStruct(y.X.Type()) == nil {
							return false
						}
						base, name = y.X, fieldName(y.X.Type(), y.Field)
					default:
						return false
					}
					lasts[name] = true
					for _, comp := range strings.FieldsFunc(path(base), func(r rune) bool { return r == '.' || r == '[' || r == ']' || r == '(' || r == ')' || r == ',' }) {
						outers[comp] = true
					}
					return false
				})
				var out []string
				for n := range lasts {
					if !outers[n] {
						out = append(out, n)
					}
				}
				sort.Strings(out)
				return out
			}
			marSrc := map[string][]string{}
			marPos := map[string]string{}
			withCallees(c, mar, 2, func(f *ssa.Function) {
				allInstrs(f, func(in ssa.Instruction) {
					if st, ok := in.(*ssa.Store); ok {
						if fa, ok := st.Addr.(*ssa.FieldAddr); ok {
							if n := namedOf(fa.X.Type()); n != nil && wire[n] {
								k := n.Obj().Name() + "." + fieldName(fa.X.Type(), fa.Field)
								marSrc[k] = innermost(st.Val)
								marPos[k] = c.Pos(st.Pos())
							}
						}
					}
				})
			})
			unmDst := map[string]map[string]bool{}
			withCallees(c, unm, 2, func(f *ssa.Function) {
				allInstrs(f, func(in ssa.Instruction) {
					st, ok := in.(*ssa.Store)
					if !ok {
						return
					}
					fa, ok := st.Addr.(*ssa.FieldAddr)
					if !ok || modStruct(fa.X.Type()) == nil {
						return
					}
					target := fieldName(fa.X.Type(), fa.Field)
					dependsOn(st.Val, func(x ssa.Value) bool {
						var n *types.Named
						var fname string
						switch y := x.(type) {
						case *ssa.FieldAddr:
							n, fname = namedOf(y.X.Type()), fieldName(y.X.Type(), y.Field)
						case *ssa.Field:
							n, fname = namedOf(y.X.Type()), fieldName(y.X.Type(), y.Field)
						default:
							return false
						}
						if isWire(n) {
							k := n.Obj().Name() + "." + fname
							if unmDst[k] == nil {
								unmDst[k] = map[string]bool{}
							}
							unmDst[k][target] = true
						}
						return false
					})
				})
			})
			for k, f := range convMar {
				if _, has := marSrc[k]; !has {
					marSrc[k] = []string{f}
					marPos[k] = c.Pos(mar.Pos())
				}
			}
			for k, f := range convUnm {
				if unmDst[k] == nil {
					unmDst[k] = map[string]bool{}
				}
				unmDst[k][f] = true
			}
			var wkeys []string
			for k := range marSrc {
				wkeys = append(wkeys, k)
			}
			sort.Strings(wkeys)
			for _, k := range wkeys {
				src, dst := marSrc[k], unmDst[k]
				if len(src) != 1 || len(dst) == 0 {
					continue // composite or indirect: covered by the presence rules only
				}
				var dl []string
				for d := range dst {
					dl = append(dl, d)
				}
				sort.Strings(dl)
				r.Check("CODEC-5", key+"|"+k+" <-> "+src[0], marPos[k], dst[src[0]], "wire field "+k+" is written from field "+src[0]+" and restored into it",
					fmt.Sprintf("MarshalBinary writes field %s into wire field %s, but UnmarshalBinary restores %s from it: the stored bytes carry the wrong value and a restored object differs from the one that was stored", src[0], k, strings.Join(dl, ", ")))
			}
			var wnames []*types.Named
			for n := range wire {
				wnames = append(wnames, n)
			}
			sort.Slice(wnames, func(i, j int) bool { return wnames[i].Obj().Name() < wnames[j].Obj().Name() })
			for _, W := range wnames {
				wst := W.Underlying().(*types.Struct)
				for i := 0; i < wst.NumFields(); i++ {
					f := W.Obj().Name() + "." + wst.Field(i).Name()
					// CODEC-6: a wire field is always present in the encoding. UnmarshalBinary decodes into a struct that is
					// pre-filled (group context, the receiver's current fields): a key the encoder may omit leaves the old value in place
					tag := wst.Tag(i)
					omitted := strings.Contains(tag, "omitempty") || strings.Contains(tag, `cbor:"-"`) || strings.Contains(tag, `cbor:"-,`)
					r.Check("CODEC-6", key+"|always encodes "+f, c.Pos(wst.Field(i).Pos()), !omitted, "wire field "+f+" is encoded unconditionally",
						"wire field "+f+" carries the tag `"+tag+"`: an empty value is left out of the bytes, and the decoder - which fills a pre-shaped struct - silently keeps whatever the receiver held before")
					r.Check("CODEC-2", key+"|marshal writes "+f, c.Pos(mar.Pos()), written[f], "wire field "+f+" is filled by MarshalBinary", "wire field "+f+" is never written by MarshalBinary: it is encoded as zero and the restored object silently loses it")
					r.Check("CODEC-2", key+"|unmarshal reads "+f, c.Pos(unm.Pos()), read[f], "wire field "+f+" is consumed by UnmarshalBinary", "wire field "+f+" is decoded but never used by UnmarshalBinary: the restored object silently loses it")
				}
			}
			for i := 0; i < tst.NumFields(); i++ {
				fn := tst.Field(i).Name()
				if isGroupContext(tst.Field(i)) {
					r.Hold("CODEC-2", key+"|restores "+fn+"|exempt", c.Pos(unm.Pos()), "group context: supplied by the Empty* constructor, not by the encoding")
					continue
				}
				r.Check("CODEC-2", key+"|restores "+fn, c.Pos(unm.Pos()), assigned[fn], "UnmarshalBinary assigns field "+fn, "UnmarshalBinary never assigns field "+fn+": a restored "+T.Obj().Name()+" keeps whatever the receiver held before (silently stale or empty)")
			}
		}
	}

	// ---- CODEC-4 and OB-U2
	for _, rt := range resultTypes {
		T := c.LookupNamed(rt.rel, rt.name)
		if T == nil {
			r.Unresolved("CODEC-4", rt.rel+"."+rt.name)
			continue
		}
		seen := map[*types.Named]bool{}
		var walk func(t types.Type, via string, depth int)
		walk = func(t types.Type, via string, depth int) {
			if depth > 6 {
				return
			}
			t = types.Unalias(t)
			switch u := t.(type) {
			case *types.Pointer:
				walk(u.Elem(), via, depth)
				return
			case *types.Slice:
				walk(u.Elem(), via+"[]", depth+1)
				return
			case *types.Array:
				walk(u.Elem(), via+"[]", depth+1)
				return
			case *types.Map:
				walk(u.Elem(), via+"[]", depth+1)
				return
			}
			n, ok := t.(*types.Named)
			if !ok || seen[n] || !c.InModule(n.Obj().Pkg()) {
				return
			}
			st, isS := n.Underlying().(*types.Struct)
			if !isS {
				return
			}
			seen[n] = true
			if hasOwnMethod(n, "MarshalBinary") || hasOwnMethod(n, "MarshalCBOR") {
				return // own codec: CODEC-2
			}
			for i := 0; i < st.NumFields(); i++ {
				f := st.Field(i)
				if !f.Exported() && !isGroupContext(f) {
					r.Fail("CODEC-4", c.ObjName(T.Obj())+"|"+c.ObjName(n.Obj())+"."+f.Name(), c.Pos(f.Pos()), "reflectively encoded state is exported",
						fmt.Sprintf("%s (reachable from %s via %s) is encoded reflectively but field %s is unexported: CBOR skips it and a restored %s silently loses it", c.ObjName(n.Obj()), T.Obj().Name(), via, f.Name(), T.Obj().Name()))
					continue
				}
				if f.Exported() {
					walk(f.Type(), via+"."+f.Name(), depth+1)
				}
			}
			r.Hold("CODEC-4", c.ObjName(T.Obj())+"|"+c.ObjName(n.Obj()), c.Pos(n.Obj().Pos()), "struct "+n.Obj().Name()+" (reachable from "+T.Obj().Name()+") has no unexported state or has its own codec")
		}
		walk(T, T.Obj().Name(), 0)

		// OB-U2
		if rt.name == "Signature" || rt.name == "Message" {
			continue
		}
		custom := hasOwnMethod(T, "UnmarshalBinary")
		validates := false
		if custom {
			if unm := c.MethodOf(T, "UnmarshalBinary"); unm != nil {
				for _, g := range liftedGuards(unm, 0) {
					if strings.Contains(g.decider, "Valid") || strings.Contains(g.decider, "IsZero") || strings.Contains(g.decider, "IsIdentity") {
						validates = true
					}
				}
			}
		}
		r.Check("OB-U2", c.ObjName(T.Obj())+"|validating-decoder", c.Pos(T.Obj().Pos()), custom && validates,
			T.Obj().Name()+" is restored through a custom UnmarshalBinary that validates its content",
			fmt.Sprintf("%s has no validating decoder: it is restored by plain reflective CBOR into Empty*(), so an empty map or corrupted bytes yield, with a nil error, an object with zero secret share / identity public key / arbitrary threshold (never refused)", c.ObjName(T.Obj())))
	}

	// ---- ERR-1
	checkGuardInventory(c, r, "ERR-1", "round_guards.json", func(n string) bool {
		if strings.HasSuffix(n, ".UnmarshalBinary") {
			return true
		}
		switch n {
		case "pkg/paillier.ValidatePrime", "pkg/paillier.ValidateN", "pkg/pedersen.ValidateParameters", "pkg/ecdsa.(*PreSignature).Validate", "protocols/cmp/config.ValidThreshold":
			return true
		}
		return false
	})

	r.Require("CODEC-2", 40)
	r.Require("CODEC-5", 15)
	checkLiteralAliasing(c, r, "ALIAS-E")
	r.Require("ALIAS-E", 30)
	r.Require("CODEC-6", 20)
	r.Require("CODEC-4", 5)
	r.Require("ERR-1", 25)
	r.Require("OB-U2", 6)
	checkOwnEntryFromSecrets(c, r, "OWN-1")
	r.Require("OWN-1", 2)
}

func isGroupContext(f *types.Var) bool {
	n := namedOf(f.Type())
	return n != nil && n.Obj().Name() == "Curve"
}

// withCallees visits fn and its module-local static callees of the same package up to depth.
func withCallees(c *Ctx, fn *ssa.Function, depth int, visit func(*ssa.Function)) {
	seen := map[*ssa.Function]bool{}
	var rec func(f *ssa.Function, d int)
	rec = func(f *ssa.Function, d int) {
		if f == nil || seen[f] || len(f.Blocks) == 0 {
			return
		}
		seen[f] = true
		visit(f)
		if d == 0 {
			return
		}
		allInstrs(f, func(in ssa.Instruction) {
			if cal := staticCallee(in); cal != nil && cal.Pkg == fn.Pkg {
				rec(cal, d-1)
			}
		})
		for _, a := range f.AnonFuncs {
			rec(a, d)
		}
	}
	rec(fn, depth)
}

// checkLiteralAliasing: ALIAS-E. In a struct literal two different reference-typed fields (pointer, map, slice,
// interface holding a pointer) never receive the very same freshly created object: decoders fill pre-shaped values
// field by field, so a shared object makes one field overwrite the other.
func checkLiteralAliasing(c *Ctx, r *Run, rule string) {
	isRef := func(t types.Type) bool {
		switch t.Underlying().(type) {
		case *types.Pointer, *types.Map, *types.Slice, *types.Interface:
			return true
		}
		return false
	}
	for _, p := range c.LibPkgs() {
		for _, fn0 := range funcsOfPkg(c, c.SSA[p.Types]) {
			withAnon(fn0, func(fn *ssa.Function) {
				n := 0
				allInstrs(fn, func(in ssa.Instruction) {
					a, ok := in.(*ssa.Alloc)
					if !ok {
						return
					}
					nm := namedOf(derefType(a.Type()))
					if nm == nil || nm.Obj().Pkg() == nil || !strings.HasPrefix(nm.Obj().Pkg().Path(), modPath) {
						return
					}
					if _, isS := nm.Underlying().(*types.Struct); !isS {
						return
					}
					byVal := map[ssa.Value][]string{}
					refFields := 0
					for _, ref := range *a.Referrers() {
						fa, ok := ref.(*ssa.FieldAddr)
						if !ok || !isRef(derefType(fa.Type())) && !isRef(fa.Type().(*types.Pointer).Elem()) {
							continue
						}
						for _, rr := range *fa.Referrers() {
							st, ok := rr.(*ssa.Store)
							if !ok || st.Addr != ssa.Value(fa) {
								continue
							}
							refFields++
							v := stripConv(st.Val)
							if mi, ok := v.(*ssa.MakeInterface); ok {
								v = stripConv(mi.X)
							}
							// only freshly created objects: call results and allocations
							switch v.(type) {
							case *ssa.Call, *ssa.Alloc, *ssa.MakeMap, *ssa.MakeSlice:
								byVal[v] = append(byVal[v], fieldName(fa.X.Type(), fa.Field))
							}
						}
					}
					if refFields < 2 {
						return
					}
					n++
					shared := ""
					for v, fs := range byVal {
						if len(fs) > 1 {
							sort.Strings(fs)
							shared = strings.Join(fs, " and ") + " both hold " + path(v)
						}
					}
					r.Analysed(c.FuncName(fn))
					r.Check(rule, fmt.Sprintf("%s|%s literal #%d", c.FuncName(fn), nm.Obj().Name(), n), c.Pos(a.Pos()), shared == "",
						"distinct reference fields of the "+nm.Obj().Name()+" literal hold distinct objects",
						"fields "+shared+": the two fields are one object, so decoding (or any in-place update of) one of them silently changes the other")
				})
			})
		}
	}
}

// checkOwnEntryFromSecrets: OWN-1. A restored CMP config must not hold a secret share that disagrees with its own
// entry of the public table. Structurally: for each secret scalar of the wire struct (ECDSA, ElGamal) the decoder
// computes secret·G (ActOnBase on the decoded scalar) and that point either becomes the own entry's public share or
// is compared (Equal) with the stored one by a rejecting test.
func checkOwnEntryFromSecrets(c *Ctx, r *Run, rule string) {
	r.Rule(rule, "restored own public shares are computed from (or compared with) the restored secret shares")
	fn := c.LookupMethod("protocols/cmp/config", "Config", "UnmarshalBinary")
	if fn == nil {
		r.Unresolved(rule, "protocols/cmp/config.(*Config).UnmarshalBinary")
		return
	}
	r.Analysed(c.FuncName(fn))
	for _, secret := range []string{"ECDSA", "ElGamal"} {
		tied := false
		for _, call := range callsNamed(fn, "ActOnBase") {
			rv := recvOf(call)
			if rv == nil || !strings.HasSuffix(path(rv), "."+secret) || !strings.Contains(relTypeStr(c, derefType(rootStructType(rv))), "configMarshal") {
				continue
			}
			for _, ref := range *call.Referrers() {
				switch x := ref.(type) {
				case *ssa.Store:
					if fa, ok := x.Addr.(*ssa.FieldAddr); ok && fieldName(fa.X.Type(), fa.Field) == secret {
						if n := namedOf(derefType(fa.X.Type())); n != nil && n.Obj().Name() == "Public" {
							tied = true
						}
					}
				case *ssa.Call:
					if o := calleeObj(x); o != nil && o.Name() == "Equal" {
						// the comparison decides a rejecting test
						for _, rr := range *x.Referrers() {
							if _, isIf := rr.(*ssa.If); isIf {
								tied = true
							}
							if u, isU := rr.(*ssa.UnOp); isU && u.Op == token.NOT {
								for _, r3 := range *u.Referrers() {
									if _, isIf := r3.(*ssa.If); isIf {
										tied = true
									}
								}
							}
						}
					}
				}
			}
		}
		r.Check(rule, c.FuncName(fn)+"|own "+secret+" public share from secret", c.Pos(fn.Pos()), tied,
			"the own entry's "+secret+" public share is "+secret+"·G of the restored secret (or is compared with it)",
			"the decoder takes the own "+secret+" public share as stored, without recomputing it from, or comparing it with, the restored secret "+secret+" share: a blob whose own public point or secret scalar was altered restores, with a nil error, a config whose secret and public shares disagree (its group key and session tags differ from the other parties')")
	}
}

// rootStructType: the type of the struct value a field path starts from (x in x.F, (*x).F).
func rootStructType(v ssa.Value) types.Type {
	v = stripConv(v)
	if u, ok := v.(*ssa.UnOp); ok && u.Op == token.MUL {
		if fa, ok := u.X.(*ssa.FieldAddr); ok {
			return fa.X.Type()
		}
	}
	if f, ok := v.(*ssa.Field); ok {
		return f.X.Type()
	}
	return v.Type()
}
