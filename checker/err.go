package main

import (
	"fmt"
	"go/token"
	"go/types"
	"strings"

	"golang.org/x/tools/go/ssa"
)

// ERR-3 "a failure is reported": when a function tests an error value E and takes the E != nil edge straight to a
// return, the error it returns on that path is non-nil (E itself, a wrap of it, a fresh error, a sentinel, or a value
// already established non-nil). Violations are the two classic slips: checks merged into one condition that returns the
// wrong variable, and a wrapped error assigned to a shadowed variable while the outer nil is returned. In this library
// a nil error on a failed step means the session continues (or, for a round returning itself, never ends).

// errSwallowReviewed lists the functions that deliberately answer "no error" on a failed test, with the reason.
var errSwallowReviewed = map[string]string{}

func errTest(iff *ssa.If) (e ssa.Value, nonNilSucc int, ok bool) {
	bo, isB := iff.Cond.(*ssa.BinOp)
	if !isB || (bo.Op != token.NEQ && bo.Op != token.EQL) {
		return nil, 0, false
	}
	var v ssa.Value
	switch {
	case isNilConst(bo.Y):
		v = bo.X
	case isNilConst(bo.X):
		v = bo.Y
	default:
		return nil, 0, false
	}
	if !isErrorType(v.Type()) {
		return nil, 0, false
	}
	if bo.Op == token.NEQ {
		return v, 0, true
	}
	return v, 1, true
}

func stripIface(v ssa.Value) ssa.Value {
	for {
		switch x := v.(type) {
		case *ssa.ChangeInterface:
			v = x.X
		case *ssa.ChangeType:
			v = x.X
		case *ssa.TypeAssert:
			v = x.X
		default:
			return v
		}
	}
}

// sameErr: a and b denote the same error value (identical, or loads of the same named-result slot with no store between
// being impossible to tell cheaply: loads of one Alloc inside the straight exit path are treated as the tested value).
func sameErr(a, b ssa.Value) bool {
	a, b = stripIface(a), stripIface(b)
	if a == b {
		return true
	}
	switch x := a.(type) {
	case *ssa.UnOp:
		y, ok := b.(*ssa.UnOp)
		return ok && x.Op == token.MUL && y.Op == token.MUL && sameErr(x.X, y.X)
	case *ssa.FieldAddr:
		y, ok := b.(*ssa.FieldAddr)
		return ok && x.Field == y.Field && sameErr(x.X, y.X)
	case *ssa.Field:
		y, ok := b.(*ssa.Field)
		return ok && x.Field == y.Field && sameErr(x.X, y.X)
	case *ssa.Extract:
		y, ok := b.(*ssa.Extract)
		return ok && x.Index == y.Index && x.Tuple == y.Tuple
	}
	return false
}

var freshNest int

func freshError(v ssa.Value) bool {
	v = stripIface(v)
	switch x := v.(type) {
	case *ssa.MakeInterface:
		return true // a concrete value boxed into error: never the nil interface
	case *ssa.Call:
		if isCallToPkgFunc(x, "fmt", "Errorf") || isCallToPkgFunc(x, "errors", "New") || isCallToPkgFunc(x, "errors", "Join") {
			return true
		}
		// an error constructor of the module: every return of it is itself a fresh error
		if callee := x.Call.StaticCallee(); callee != nil && callee.Blocks != nil && freshNest < 3 {
			freshNest++
			defer func() { freshNest-- }()
			all, any := true, false
			for _, b := range callee.Blocks {
				if rt, isRet := b.Instrs[len(b.Instrs)-1].(*ssa.Return); isRet && len(rt.Results) == 1 {
					any = true
					if !freshError(lastStoreInBlock(rt.Results[0])) {
						all = false
					}
				}
			}
			return all && any
		}
	case *ssa.UnOp:
		if x.Op == token.MUL {
			if _, isG := x.X.(*ssa.Global); isG {
				return true // sentinel error variable
			}
		}
	}
	return false
}

// establishedNonNil: block b is only reachable through the non-nil edge of a test of v.
func establishedNonNil(fn *ssa.Function, v ssa.Value, b *ssa.BasicBlock) bool {
	found := false
	for _, blk := range fn.Blocks {
		iff, ok := blk.Instrs[len(blk.Instrs)-1].(*ssa.If)
		if !ok {
			continue
		}
		e, idx, ok := errTest(iff)
		if !ok || !sameErr(e, v) {
			continue
		}
		s := blk.Succs[idx]
		if len(s.Preds) == 1 && (s == b || s.Dominates(b)) {
			found = true
		}
	}
	return found
}

func checkFailureReported(c *Ctx, r *Run, rule string) {
	r.Rule(rule, "a failure is reported: the return taken on the non-nil edge of an error test carries a non-nil error")
	n := 0
	for _, p := range c.LibPkgs() {
		for _, fn := range funcsOfPkg(c, c.SSA[p.Types]) {
			res := fn.Signature.Results()
			if res.Len() == 0 || !isErrorType(res.At(res.Len()-1).Type()) || fn.Blocks == nil {
				continue
			}
			seenFn := false
			for _, blk := range fn.Blocks {
				iff, ok := blk.Instrs[len(blk.Instrs)-1].(*ssa.If)
				if !ok {
					continue
				}
				e, idx, ok := errTest(iff)
				if !ok {
					continue
				}
				// straight exit: follow unconditional jumps from the non-nil successor to a return
				pathBlocks := []*ssa.BasicBlock{blk}
				cur := blk.Succs[idx]
				var ret *ssa.Return
				for d := 0; d < 5 && cur != nil; d++ {
					pathBlocks = append(pathBlocks, cur)
					last := cur.Instrs[len(cur.Instrs)-1]
					if rt, isRet := last.(*ssa.Return); isRet {
						ret = rt
						break
					}
					if _, isJ := last.(*ssa.Jump); isJ {
						cur = cur.Succs[0]
						continue
					}
					break
				}
				if ret == nil {
					continue
				}
				v := lastStoreInBlock(ret.Results[len(ret.Results)-1])
				// resolve phis along the exit path
				for i := len(pathBlocks) - 1; i >= 1; i-- {
					phi, isPhi := stripIface(v).(*ssa.Phi)
					if !isPhi || phi.Block() != pathBlocks[i] {
						continue
					}
					for k, pr := range pathBlocks[i].Preds {
						if pr == pathBlocks[i-1] {
							v = phi.Edges[k]
						}
					}
				}
				held := sameErr(v, e) || freshError(v) || wrapsValue(v, e) || establishedNonNil(fn, v, blk)
				detail := ""
				if !held {
					if isNilConst(stripIface(v)) {
						if abortSessionCarries(ret, e) {
							held = true // (round.Session, error): the failure travels in the abort session, the handler reports it
						} else if why, rev := errSwallowReviewed[c.FuncName(fn)]; rev {
							held = true
							_ = why
						} else {
							detail = "the failed test of " + path(e) + " leads to a return with a nil error: the failure is swallowed and the caller continues as if the step had succeeded"
						}
					} else {
						detail = "the failed test of " + path(e) + " leads to `return …, " + path(v) + "`, a different value that is not known to be non-nil on this path: when only " + path(e) + " fails the caller sees success (a round returning itself with a nil error is re-run forever)"
					}
				}
				if !seenFn {
					seenFn = true
					r.Analysed(c.FuncName(fn))
				}
				n++
				r.Check(rule, c.FuncName(fn)+"|failed "+path(e)+"|returns-non-nil", c.Pos(ret.Pos()), held,
					"the error exit returns the tested error, a wrap of it, a fresh error or a sentinel", detail)
			}
		}
	}
	r.Require(rule, 160)
	_ = n
}

// wrapsValue: v is built from e by a call (a wrapping helper taking e as argument and returning an error).
func wrapsValue(v, e ssa.Value) bool {
	call, ok := stripIface(v).(*ssa.Call)
	if !ok {
		return false
	}
	for _, a := range call.Call.Args {
		if sameErr(a, e) {
			return true
		}
		if mi, isMI := a.(*ssa.MakeInterface); isMI && sameErr(mi.X, e) {
			return true
		}
		// fmt.Errorf("...: %w", err): the error travels in the variadic slice
		for _, el := range variadicElems(a) {
			if sameErr(el, e) {
				return true
			}
			if mi, isMI := el.(*ssa.MakeInterface); isMI && sameErr(mi.X, e) {
				return true
			}
		}
	}
	return false
}

var _ = types.Identical

// lastStoreInBlock undoes the spill of results in functions with defers: a load of a local slot is replaced by the value
// stored into that slot last in the same block.
func lastStoreInBlock(v ssa.Value) ssa.Value {
	u, ok := v.(*ssa.UnOp)
	if !ok || u.Op != token.MUL {
		return v
	}
	a, ok := u.X.(*ssa.Alloc)
	if !ok {
		return v
	}
	var val ssa.Value
	for _, in := range u.Block().Instrs {
		if in == ssa.Instruction(u) {
			break
		}
		if st, isSt := in.(*ssa.Store); isSt && st.Addr == ssa.Value(a) {
			val = st.Val
		}
	}
	if val != nil {
		return val
	}
	return v
}

// checkDecodedPointerNil: PANIC-6. cbor.Unmarshal(data, &p) with p itself a pointer lets the input decide whether p is
// nil afterwards (CBOR null / undefined set it to nil). Such a p is tested against nil before it is used; handing the
// decoder the pointer itself (Unmarshal(data, p)) cannot nil it and needs no test.
func checkDecodedPointerNil(c *Ctx, r *Run, rule string) {
	r.Rule(rule, "a pointer handed to the CBOR decoder by address (so that the input can set it to nil) is nil-tested before use")
	sites := 0
	for _, p := range c.LibPkgs() {
		for _, top := range funcsOfPkg(c, c.SSA[p.Types]) {
			withAnon(top, func(fn *ssa.Function) {
				nth := 0
				allInstrs(fn, func(in ssa.Instruction) {
					call, ok := in.(*ssa.Call)
					if !ok {
						return
					}
					f := call.Call.StaticCallee()
					if f == nil || f.Pkg == nil || !strings.HasSuffix(f.Pkg.Pkg.Path(), "fxamacker/cbor/v2") || (f.Name() != "Unmarshal" && f.Name() != "Decode") {
						return
					}
					sites++
					dst := call.Call.Args[len(call.Call.Args)-1]
					mi, ok := dst.(*ssa.MakeInterface)
					if !ok {
						return
					}
					a, ok := mi.X.(*ssa.Alloc)
					if !ok {
						return
					}
					if _, isPtr := derefType(a.Type()).Underlying().(*types.Pointer); !isPtr {
						return
					}
					nth++
					// a nil comparison of the decoded pointer
					tested := false
					allInstrs(fn, func(in2 ssa.Instruction) {
						bo, ok := in2.(*ssa.BinOp)
						if !ok || (bo.Op != token.EQL && bo.Op != token.NEQ) {
							return
						}
						for _, side := range []ssa.Value{bo.X, bo.Y} {
							if u, ok := side.(*ssa.UnOp); ok && u.Op == token.MUL && u.X == ssa.Value(a) {
								other := bo.Y
								if side == bo.Y {
									other = bo.X
								}
								if isNilConst(other) && instrDominatesLoose(call, bo) {
									tested = true
								}
							}
						}
					})
					r.Check(rule, fmt.Sprintf("%s|decoded pointer #%d|nil-tested", c.FuncName(fn), nth), c.Pos(call.Pos()), tested,
						"the decoded pointer is compared with nil after decoding",
						"the decoder receives the address of the pointer "+a.Comment+" and the input (the single byte 0xf6, CBOR null) sets it to nil; it is dereferenced afterwards without a nil test, so a one-byte input crashes the caller instead of being refused")
				})
			})
		}
	}
	r.Check(rule, "decoder-call-sites|examined", "", sites >= 8, fmt.Sprintf("%d CBOR decoder call sites examined", sites), fmt.Sprintf("only %d CBOR decoder call sites found (8 expected)", sites))
}

func instrDominatesLoose(a, b ssa.Instruction) bool {
	if a.Block() == b.Block() {
		for _, in := range a.Block().Instrs {
			if in == a {
				return true
			}
			if in == b {
				return false
			}
		}
	}
	return a.Block().Dominates(b.Block())
}

// checkBitMasks: BIT-2. A test of the form (x & m) == k with a mask m that is a single shifted bit (1 << s, s not the
// constant 0) compares with 0 or with m itself; comparing with 1 is true only for s == 0, so every other bit silently
// reads as "not set".
func checkBitMasks(c *Ctx, r *Run, rule string) {
	r.Rule(rule, "single-bit mask tests compare with zero or with the mask, never with the constant 1")
	sites := 0
	for _, p := range c.LibPkgs() {
		for _, top := range funcsOfPkg(c, c.SSA[p.Types]) {
			withAnon(top, func(fn *ssa.Function) {
				nth := 0
				allInstrs(fn, func(in ssa.Instruction) {
					cmp, ok := in.(*ssa.BinOp)
					if !ok || (cmp.Op != token.EQL && cmp.Op != token.NEQ) {
						return
					}
					and, ok := stripConv(cmp.X).(*ssa.BinOp)
					k, isK := constInt(cmp.Y)
					if !ok || and.Op != token.AND || !isK {
						return
					}
					// the mask: a shift of 1 by a non-constant or non-zero amount
					var shift *ssa.BinOp
					for _, side := range []ssa.Value{and.X, and.Y} {
						if sh, isSh := stripConv(side).(*ssa.BinOp); isSh && sh.Op == token.SHL {
							if one, isOne := constInt(sh.X); isOne && one == 1 {
								shift = sh
							}
						}
					}
					if shift == nil {
						return
					}
					if s, isC := constInt(shift.Y); isC && s == 0 {
						return
					}
					sites++
					nth++
					r.Check(rule, fmt.Sprintf("%s|mask test #%d", c.FuncName(fn), nth), c.Pos(cmp.Pos()), k == 0,
						"the masked value is compared with zero",
						fmt.Sprintf("(x & (1 << %s)) is compared with %d: the test is true only when the shift is 0, every other bit position always reads as unset (for a Fiat-Shamir challenge: most challenge bits become constant and the proof loses its soundness)", path(shift.Y), k))
				})
			})
		}
	}
	r.Hold(rule, "mask-tests|examined", "", fmt.Sprintf("%d single-bit mask tests examined", sites))
}

// abortSessionCarries: the return hands back Helper.AbortRound(e') with e' the tested error, a wrap of it or a fresh error.
func abortSessionCarries(ret *ssa.Return, e ssa.Value) bool {
	for _, res := range ret.Results[:len(ret.Results)-1] {
		call, ok := stripIface(res).(*ssa.Call)
		if !ok {
			continue
		}
		callee := call.Call.StaticCallee()
		if callee == nil || callee.Name() != "AbortRound" || callee.Pkg == nil || !strings.HasSuffix(callee.Pkg.Pkg.Path(), "internal/round") {
			continue
		}
		args := call.Call.Args
		if len(args) < 2 {
			continue
		}
		if sameErr(args[1], e) || freshError(args[1]) || wrapsValue(args[1], e) {
			return true
		}
	}
	return false
}
