package main

import (
	"encoding/json"
	"fmt"
	"go/ast"
	"go/types"
	"os"
	"path/filepath"
	"sort"
	"strings"

	"golang.org/x/tools/go/packages"
	"golang.org/x/tools/go/ssa"
)

func init() {
	register("C10", propMeta{
		Explanation: "Rules over the 15 proof systems of pkg/zk, generic over their common shape (Public / Commitment / Proof / challenge / IsValid / Verify). " +
			"FS-1: every field of every struct parameter of challenge() (public statement and commitment) and every other parameter is absorbed by a hash.WriteAny call (element-wise for arrays); FS-3: prover and verifier call the same challenge function on the caller-supplied context hash; " +
			"OB-V1: the verifier checks challenge's error and uses the returned challenge; OB-V2: each response listed in the range table is tested by the listed arith.IsInInterval* function with a rejecting false edge covering every accepting return; " +
			"OB-V3: guard inventory — every reject guard of Verify/IsValid recorded in tables/zk_guards.json (deciding callee + proof/statement fields feeding it) is still present and still covers every accepting return. " +
			"NOT decided: completeness on boundary witnesses (value-level interval arithmetic) and soundness of the equations themselves.",
		Trusted:     append([]string{"tables/zk_guards.json and the range table in c10.go: transcribed from the CGGMP figures and confirmed against the code by reading"}, commonTrusted...),
		Assumptions: []string{"Fiat-Shamir in the random-oracle model; the check decides binding of the transcript, not soundness"},
	}, runC10)
}

type zkPkg struct {
	rel  string
	pkg  *packages.Package
	spkg *ssa.Package
}

func zkPackages(c *Ctx) []zkPkg {
	var out []zkPkg
	for _, p := range c.Mod {
		rel := c.Rel(p.Types)
		if strings.HasPrefix(rel, "pkg/zk/") {
			out = append(out, zkPkg{rel, p, c.SSA[p.Types]})
		}
	}
	return out
}

// zkRanges: response field -> interval function (CGGMP figures; confirmed in code).
var zkRanges = map[string][][2]string{
	"pkg/zk/affg":    {{"Z1", "IsInIntervalLEps"}, {"Z2", "IsInIntervalLPrimeEps"}},
	"pkg/zk/affp":    {{"Z1", "IsInIntervalLEps"}, {"Z2", "IsInIntervalLPrimeEps"}},
	"pkg/zk/enc":     {{"Z1", "IsInIntervalLEps"}},
	"pkg/zk/encelg":  {{"Z1", "IsInIntervalLEps"}},
	"pkg/zk/logstar": {{"Z1", "IsInIntervalLEps"}},
	"pkg/zk/mulstar": {{"Z1", "IsInIntervalLEps"}},
	"pkg/zk/fac":     {{"Z1", "IsInIntervalLEpsPlus1RootN"}, {"Z2", "IsInIntervalLEpsPlus1RootN"}},
}

// verifierFuncs: functions of a zk package whose guards are inventoried.
func verifierFuncs(c *Ctx, z zkPkg) []*ssa.Function {
	var out []*ssa.Function
	for _, fn := range funcsOfPkg(c, z.spkg) {
		root := fn
		for root.Parent() != nil {
			root = root.Parent()
		}
		n := root.Name()
		if n == "Verify" || n == "IsValid" {
			out = append(out, fn)
		}
	}
	return out
}

func guardTable(c *Ctx) map[string]map[string][]string {
	tab := map[string]map[string][]string{}
	for _, z := range zkPackages(c) {
		m := map[string][]string{}
		for _, fn := range verifierFuncs(c, z) {
			var keys []string
			seen := map[string]bool{}
			for _, g := range liftedGuards(fn, 0) {
				k := g.key()
				if !seen[k] {
					seen[k] = true
					keys = append(keys, k)
				}
			}
			sort.Strings(keys)
			if len(keys) > 0 {
				m[c.FuncName(fn)] = keys
			}
		}
		if len(m) > 0 {
			tab[z.rel] = m
		}
	}
	return tab
}

func genTables(c *Ctx, verifDir string) error {
	tab := guardTable(c)
	b, _ := json.MarshalIndent(tab, "", " ")
	os.MkdirAll(filepath.Join(verifDir, "tables"), 0o755)
	if err := os.WriteFile(filepath.Join(verifDir, "tables", "zk_guards.json"), append(b, '\n'), 0o644); err != nil {
		return err
	}
	if err := genRoundTables(c, verifDir); err != nil {
		return err
	}
	return genBlameTable(c, verifDir)
}

var verifDirGlobal string

func runC10(c *Ctx, r *Run) {
	checkBitMasks(c, r, "BIT-2")
	r.Rule("COVER-2", "constant-bound loops over fixed-size proof arrays (statistical repetitions) walk every element")
	r.Rule("PARAM-1", "security and interval parameters have their reviewed values")
	r.Rule("FS-1", "transcript completeness: every field of each struct parameter of challenge() and every other non-context parameter is absorbed by hash.WriteAny (arrays element-wise over the whole array)")
	r.Rule("FS-3", "prover/verifier symmetry: both sides call the package's challenge function, on the caller-supplied context hash")
	r.Rule("OB-V1", "the verifier rejects when challenge() fails and uses the challenge it returned")
	r.Rule("OB-V2", "range table: each listed response is tested by the listed interval predicate; the failing edge rejects and the test covers every accepting return")
	r.Rule("OB-V3", "guard inventory: every recorded reject guard (deciding callee + statement/proof fields) of Verify/IsValid is present and covers every accepting return")

	zs := zkPackages(c)
	hp := c.PkgRel("pkg/hash")
	if hp == nil {
		r.Unresolved("FS-1", "pkg/hash")
		return
	}
	hashNamed := c.LookupNamed("pkg/hash", "Hash")
	nChallenge := 0
	for _, z := range zs {
		obj, _ := z.pkg.Types.Scope().Lookup("challenge").(*types.Func)
		if obj == nil {
			if z.rel == "pkg/zk" {
				continue
			}
			r.Unresolved("FS-1", z.rel+".challenge")
			continue
		}
		nChallenge++
		fd := c.Decl(obj)
		info := z.pkg.TypesInfo
		r.Analysed(z.rel + ".challenge")
		// hash parameter
		var hashParam types.Object
		type param struct {
			obj types.Object
			typ types.Type
		}
		var params []param
		for _, fl := range fd.Type.Params.List {
			for _, nm := range fl.Names {
				o := info.Defs[nm]
				t := o.Type()
				if namedOf(t) == hashNamed {
					hashParam = o
					continue
				}
				if n := namedOf(t); n != nil && n.Obj().Name() == "Curve" {
					continue // group context: part of the session tag
				}
				params = append(params, param{o, t})
			}
		}
		if hashParam == nil {
			r.Fail("FS-1", z.rel+".challenge|context-hash", c.Pos(fd.Pos()), "challenge takes the caller's context hash", "no *hash.Hash parameter")
			continue
		}
		// absorbed expressions
		absorbed := map[string]bool{}
		var collect func(n ast.Node)
		collect = func(n ast.Node) {
			ast.Inspect(n, func(x ast.Node) bool {
				call, ok := x.(*ast.CallExpr)
				if !ok {
					return true
				}
				sel, ok := call.Fun.(*ast.SelectorExpr)
				if !ok || sel.Sel.Name != "WriteAny" {
					return true
				}
				id, ok := sel.X.(*ast.Ident)
				if !ok || info.Uses[id] != hashParam {
					return true
				}
				for _, a := range call.Args {
					absorbed[types.ExprString(a)] = true
				}
				return true
			})
		}
		collect(fd.Body)
		// range loops: for _, v := range X { ... WriteAny(v) ... }  => X absorbed
		ast.Inspect(fd.Body, func(x ast.Node) bool {
			rs, ok := x.(*ast.RangeStmt)
			if !ok {
				return true
			}
			inner := map[string]bool{}
			old := absorbed
			absorbed = inner
			collect(rs.Body)
			absorbed = old
			if v, ok := rs.Value.(*ast.Ident); ok && inner[v.Name] {
				absorbed[types.ExprString(rs.X)] = true
			}
			if k, ok := rs.Key.(*ast.Ident); ok {
				if inner[types.ExprString(rs.X)+"["+k.Name+"]"] {
					absorbed[types.ExprString(rs.X)] = true
				}
			}
			return true
		})
		for _, p := range params {
			st, isStruct := derefStruct(p.typ)
			if isStruct && namedOf(p.typ) != nil && namedOf(p.typ).Obj().Pkg() == z.pkg.Types {
				for i := 0; i < st.NumFields(); i++ {
					f := st.Field(i)
					expr := p.obj.Name() + "." + f.Name()
					key := z.rel + ".challenge|" + namedOf(p.typ).Obj().Name() + "." + f.Name()
					r.Check("FS-1", key, c.Pos(fd.Pos()), absorbed[expr],
						"field "+f.Name()+" of "+namedOf(p.typ).Obj().Name()+" is absorbed into the Fiat-Shamir transcript",
						fmt.Sprintf("%s is not an argument of any WriteAny in challenge(): a proof verifies unchanged for every value of %s (statement/commitment not bound)", expr, f.Name()))
				}
				continue
			}
			key := z.rel + ".challenge|param " + p.obj.Name()
			r.Check("FS-1", key, c.Pos(fd.Pos()), absorbed[p.obj.Name()] || absorbed["&"+p.obj.Name()],
				"parameter "+p.obj.Name()+" is absorbed into the Fiat-Shamir transcript",
				fmt.Sprintf("parameter %s of challenge() never reaches WriteAny: the challenge does not depend on it", p.obj.Name()))
		}

		// FS-3 / OB-V1 on SSA
		chFn := z.spkg.Func("challenge")
		var proverCalls, verifierCalls int
		for _, fn := range funcsOfPkg(c, z.spkg) {
			fn := fn
			allInstrs(fn, func(in ssa.Instruction) {
				call, ok := in.(*ssa.Call)
				if !ok || call.Call.StaticCallee() != chFn {
					return
				}
				root := fn
				for root.Parent() != nil {
					root = root.Parent()
				}
				side := ""
				switch root.Name() {
				case "NewProof", "Prove":
					side = "prover"
					proverCalls++
				case "Verify":
					side = "verifier"
					verifierCalls++
				default:
					side = "other:" + root.Name()
				}
				// context hash argument is the function's own *hash.Hash parameter
				var harg ssa.Value
				for i, p := range chFn.Params {
					if namedOf(p.Type()) == hashNamed {
						harg = call.Call.Args[i]
					}
				}
				// the context hash parameter itself, or a Clone/Fork of it
				okCtx := dependsOn(harg, func(v ssa.Value) bool {
					if namedOf(v.Type()) != hashNamed {
						return false
					}
					for _, p := range root.Params {
						if v == ssa.Value(p) {
							return true
						}
					}
					for _, fv := range fn.FreeVars {
						if v == ssa.Value(fv) {
							return true
						}
					}
					return false
				})
				r.Check("FS-3", z.rel+"."+c.FuncName(fn)[strings.LastIndex(c.FuncName(fn), ".")+1:]+"|"+side+"-context", c.Pos(call.Pos()), okCtx,
					side+" derives the challenge from the caller-supplied context hash", "challenge() is called on "+path(harg)+", not on the context hash parameter: the proof is not bound to session/prover context")
				if side == "verifier" {
					// err checked, e used
					var eUsed, errChecked bool
					for _, ref := range *call.Referrers() {
						ex, ok := ref.(*ssa.Extract)
						if !ok {
							continue
						}
						if ex.Index == 0 && len(*ex.Referrers()) > 0 {
							eUsed = true
						}
						if ex.Index == 1 {
							for _, rr := range *ex.Referrers() {
								if bo, ok := rr.(*ssa.BinOp); ok && isNilConst(bo.Y) {
									for _, r3 := range *bo.Referrers() {
										if iff, ok := r3.(*ssa.If); ok && (blockRejects(iff.Block().Succs[0]) || blockRejects(iff.Block().Succs[1])) {
											errChecked = true
										}
									}
								}
							}
						}
					}
					r.Check("OB-V1", z.rel+"."+root.Name()+"|challenge-error-rejects", c.Pos(call.Pos()), errChecked, "a failing transcript write makes verification fail", "the error of challenge() is not checked: a partially absorbed transcript still yields an accepted proof")
					r.Check("OB-V1", z.rel+"."+root.Name()+"|challenge-used", c.Pos(call.Pos()), eUsed, "the verifier uses the challenge it recomputed", "the recomputed challenge is unused")
				}
			})
		}
		r.Check("FS-3", z.rel+"|both-sides-call-challenge", c.Pos(fd.Pos()), proverCalls > 0 && verifierCalls > 0, "prover and verifier both derive the challenge through the same function",
			fmt.Sprintf("challenge() is called by %d prover and %d verifier functions", proverCalls, verifierCalls))

		// OB-V2
		for _, row := range zkRanges[z.rel] {
			field, pred := row[0], row[1]
			found := false
			covers := false
			for _, fn := range verifierFuncs(c, z) {
				for _, g := range liftedGuards(fn, 0) {
					if !decHasSuffix(g.decider, "."+pred) {
						continue
					}
					for _, f := range g.fields {
						if strings.HasSuffix(f, "."+field) {
							found = true
							if !g.notCovering && guardCoversAccepts(g) {
								covers = true
							}
						}
					}
				}
			}
			d := ""
			if !found {
				d = fmt.Sprintf("response %s is no longer tested with arith.%s: out-of-range responses are accepted", field, pred)
			} else if !covers {
				d = fmt.Sprintf("the %s test of %s does not cover every accepting return", pred, field)
			}
			r.Check("OB-V2", z.rel+"|"+field+" in "+pred, c.Pos(fd.Pos()), found && covers, "response "+field+" is range-checked with "+pred+" before acceptance", d)
		}
	}
	if nChallenge < 15 {
		r.Fail("FS-1", "pkg/zk|challenge-functions", "pkg/zk", "15 proof systems with a challenge function", fmt.Sprintf("only %d found", nChallenge))
	}

	checkZKInventory(c, r, "OB-V3", zs, nil)
	// ---- COVER-2: repetition loops of the proofs cover every repetition
	{
		var fns []*ssa.Function
		for _, p := range c.LibPkgs() {
			if !strings.Contains(c.Rel(p.Types), "pkg/zk/") {
				continue
			}
			for _, fn := range funcsOfPkg(c, c.SSA[p.Types]) {
				withAnon(fn, func(f *ssa.Function) { fns = append(fns, f) })
			}
		}
		sort.Slice(fns, func(i, j int) bool { return c.FuncName(fns[i]) < c.FuncName(fns[j]) })
		checkArrayLoops(c, r, "COVER-2", fns)
	}
	r.Require("COVER-2", 4)
	// ---- PARAM-1: the interval and size parameters the range predicates and samplers are built from
	if pp := c.PkgRel("internal/params"); pp != nil {
		want := map[string]int64{
			"SecParam": 256, "SecBytes": 32, "OTParam": 128, "OTBytes": 16, "StatParam": 80,
			"L": 256, "LPrime": 1280, "Epsilon": 512, "LPlusEpsilon": 768, "LPrimePlusEpsilon": 1792,
			"BitsIntModN": 2048, "BytesIntModN": 256, "BitsBlumPrime": 1024, "BitsPaillier": 2048, "BytesPaillier": 256, "BytesCiphertext": 512,
		}
		var names []string
		for n := range want {
			names = append(names, n)
		}
		sort.Strings(names)
		for _, n := range names {
			o, ok := pp.Types.Scope().Lookup(n).(*types.Const)
			if !ok {
				r.Unresolved("PARAM-1", "internal/params."+n)
				continue
			}
			v, _ := constValInt(o)
			r.Check("PARAM-1", "internal/params."+n, c.Pos(o.Pos()), v == want[n], fmt.Sprintf("%s = %d as in CGGMP21 section 6 / KOS15 (relations L = l, L' = 5l, eps = 2l, N of 8l bits)", n, want[n]),
				fmt.Sprintf("%s is %d, the reviewed value is %d: every range predicate, sampler and slack derived from it moves; proofs stay self-consistent (tests pass) but the completeness/soundness margins of the paper no longer hold", n, v, want[n]))
		}
	} else {
		r.Unresolved("PARAM-1", "internal/params")
	}
	// the interval predicates and samplers: the bit bound each one applies is the paper's
	{
		predicates := map[string]int64{"IsInIntervalLEps": 768, "IsInIntervalLPrimeEps": 1792, "IsInIntervalLEpsPlus1RootN": 1793}
		var pn []string
		for n := range predicates {
			pn = append(pn, n)
		}
		sort.Strings(pn)
		for _, n := range pn {
			fn := c.LookupFunc("pkg/math/arith", n)
			if fn == nil {
				r.Unresolved("PARAM-1", "pkg/math/arith."+n)
				continue
			}
			r.Analysed(c.FuncName(fn))
			got, op := int64(-1), ""
			for _, g := range regionOf(fn) {
				allInstrs(g, func(in ssa.Instruction) {
					bo, ok := in.(*ssa.BinOp)
					if !ok {
						return
					}
					if call, isCall := stripConv(bo.X).(*ssa.Call); isCall {
						if o := calleeObj(call); o != nil && o.Name() == "TrueLen" {
							// the bound: a constant, or the parameter of a shared helper bound to a constant at this predicate's call
							if k, isK := constInt(callerVal(bo.Y)); isK {
								got, op = k, bo.Op.String()
							}
						}
					}
				})
			}
			r.Check("PARAM-1", "pkg/math/arith."+n+"|bound", c.Pos(fn.Pos()), got == predicates[n] && op == "<=", fmt.Sprintf("accepts exactly the integers of at most %d bits (TrueLen <= %d)", predicates[n], predicates[n]),
				fmt.Sprintf("the predicate compares TrueLen %s %d, the reviewed bound is <= %d: responses outside the paper's range are accepted (soundness: e.g. arbitrary factor sizes in zkfac) or honest ones refused", op, got, predicates[n]))
		}
		samplers := map[string]int64{"IntervalL": 256, "IntervalLPrime": 1280, "IntervalEps": 512, "IntervalLEps": 768, "IntervalLPrimeEps": 1792,
			"IntervalLN": 2304, "IntervalLN2": 4352, "IntervalLEpsN": 2816, "IntervalLEpsN2": 4864, "IntervalLEpsRootN": 1792}
		var sn []string
		for n := range samplers {
			sn = append(sn, n)
		}
		sort.Strings(sn)
		for _, n := range sn {
			fn := c.LookupFunc("pkg/math/sample", n)
			if fn == nil {
				r.Unresolved("PARAM-1", "pkg/math/sample."+n)
				continue
			}
			r.Analysed(c.FuncName(fn))
			got := int64(-1)
			for _, call := range callsNamed(fn, "sampleNeg") {
				if k, ok := constInt(call.Call.Args[len(call.Call.Args)-1]); ok {
					got = k
				}
			}
			r.Check("PARAM-1", "pkg/math/sample."+n+"|bits", c.Pos(fn.Pos()), got == samplers[n], fmt.Sprintf("samples from ±2^%d", samplers[n]),
				fmt.Sprintf("the sampler draws %d bits, the reviewed width is %d: masks no longer hide the witness (too narrow) or honest responses leave the verifier's range (too wide)", got, samplers[n]))
		}
	}
	r.Require("PARAM-1", 29)
	r.Require("FS-1", 100)
	r.Require("FS-3", 40)
	r.Require("OB-V1", 28)
	r.Require("OB-V2", 10)
	r.Require("OB-V3", 100)
}

func derefStruct(t types.Type) (*types.Struct, bool) {
	if p, ok := t.Underlying().(*types.Pointer); ok {
		t = p.Elem()
	}
	st, ok := t.Underlying().(*types.Struct)
	return st, ok
}

// checkZKInventory: the reject guards of the proof verifiers (tables/zk_guards.json), for the packages relFilter selects.
func checkZKInventory(c *Ctx, r *Run, rule string, zs []zkPkg, relFilter func(string) bool) {
	// OB-V3
	tabPath := filepath.Join(verifDirGlobal, "tables", "zk_guards.json")
	b, err := os.ReadFile(tabPath)
	if err != nil {
		r.Unresolved(rule, "tables/zk_guards.json")
	} else {
		var tab map[string]map[string][]string
		if err := json.Unmarshal(b, &tab); err != nil {
			r.Unresolved(rule, "tables/zk_guards.json (parse)")
		}
		cur := map[string]map[string]guard{}
		for _, z := range zs {
			for _, fn := range verifierFuncs(c, z) {
				r.Analysed(c.FuncName(fn))
				m := map[string]guard{}
				for _, g := range liftedGuards(fn, 0) {
					if old, ok := m[g.key()]; !ok || (!guardCoversAccepts(old) && guardCoversAccepts(g)) {
						m[g.key()] = g
					}
				}
				cur[c.FuncName(fn)] = m
			}
		}
		rels := make([]string, 0, len(tab))
		for k := range tab {
			rels = append(rels, k)
		}
		sort.Strings(rels)
		for _, rel := range rels {
			if relFilter != nil && !relFilter(rel) {
				continue
			}
			fns := make([]string, 0)
			for k := range tab[rel] {
				fns = append(fns, k)
			}
			sort.Strings(fns)
			for _, fname := range fns {
				m, ok := cur[fname]
				if !ok {
					// (an unexported helper that changed kind: method <-> plain function; see checkGuardInventory)
					if alt := sameHelperOtherKind(fname, cur); alt != "" {
						have := map[string]int{}
						for k2 := range cur[alt] {
							have[strings.SplitN(k2, "(", 2)[0]]++
						}
						for _, k := range tab[rel][fname] {
							dk := strings.SplitN(k, "(", 2)[0]
							okd := have[dk] > 0
							have[dk]--
							r.Check(rule, fname+"|"+k, "?", okd, "reject guard "+k+" is present (the helper is now "+alt+": compared by decider)", "reject guard "+k+" recorded for "+fname+" has no counterpart in "+alt)
						}
						continue
					}
					r.Unresolved(rule, fname)
					continue
				}
				for _, k := range tab[rel][fname] {
					g, present := m[k]
					pos := "?"
					d := ""
					okc := false
					if present {
						pos = c.Pos(g.pos)
						okc = guardCoversAccepts(g)
						if !okc {
							d = "guard " + k + " no longer covers every accepting return of " + fname + " (an accept path bypasses it)"
						}
					} else {
						d = "reject guard " + k + " recorded for " + fname + " is gone (check deleted, or it no longer depends on the same statement/proof fields): inputs it refused are now accepted"
					}
					r.Check(rule, fname+"|"+k, pos, present && okc, "reject guard "+k+" is present and covers acceptance", d)
				}
			}
		}
	}

	// ---- the shared validators the proofs call before touching responses (range / unit / nil tests per element)
	if relFilter == nil {
		checkGuardInventory(c, r, rule, "round_guards.json", func(n string) bool { return strings.HasPrefix(n, "pkg/math/arith.") })
	}
}
