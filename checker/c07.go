package main

import (
	"fmt"
	"go/token"
	"go/types"
	"sort"
	"strings"

	"golang.org/x/tools/go/ssa"
)

func init() {
	register("C07", propMeta{
		Explanation: "Schedule-independence is a run-time quantifier; what is decided statically are the shape facts every schedule relies on. OB-Q1 store-then-process: in MultiHandler.Accept every accepted protocol message is stored before the round-number test that may return early, and on entering a round finalize replays the whole queue of that round (broadcast queue through verifyBroadcastMessage, else p2p queue through verifyMessage) before it recurses. " +
			"OB-Q2 first message wins: duplicate() is part of Accept's filter, store() never overwrites an occupied slot, CanAccept rejects 0 < round < current (inventoried guards). OB-Q3 broadcast before p2p: verifyMessage touches the round only when the sender's broadcast is present; verifyBroadcastMessage afterwards processes the sender's queued p2p message. " +
			"DET-1: no transcript/hash write happens inside an iteration over a Go map (map order differs between parties and runs). RG-1/RG-2: every content is queued under the number of the round that reads it, inside the handler's window (shared with C04). " +
			"NOT decided: equality of results over all interleavings — that is a model-checking question outside this technique.",
		Trusted:     commonTrusted,
		Assumptions: []string{"round implementations are deterministic functions of their stored messages and local randomness"},
	}, runC07)
}

func runC07(c *Ctx, r *Run) {
	// the header filter separates sessions by the tag only: a tag that misses part of what distinguishes two sessions
	// (message, key material) lets the other session's message into the queues, where - first copy wins - it displaces
	// the genuine one whenever it arrives first (rule shared with C09)
	r.Rule("DEP-5", "tag completeness: everything that distinguishes two sessions is written into the hash before the tag is taken")
	{
		sub := NewRun("tmp", r.Tier)
		runC09(c, sub)
		for _, o := range sub.Obs {
			if o.Rule == "DEP-5" {
				r.Check("DEP-5", o.Key, o.Pos, o.Held, o.Desc, o.Detail)
			}
		}
		r.Require("DEP-5", 6)
	}
	r.Rule("OB-Q1", "store-then-process: accepted messages are stored before the early return on a round mismatch; entering a round replays that round's queues before recursing")
	r.Rule("OB-Q2", "first message wins: duplicate() filters, store() never overwrites, stale rounds are rejected")
	r.Rule("OB-Q4", "every message is queued under its own RoundNumber and From (both handlers)")
	r.Rule("OB-Q3", "broadcast before p2p per sender: p2p verification waits for the sender's broadcast; the broadcast handler then drains the queued p2p message")
	r.Rule("OB-Q5", "filter first: every effect of Accept is dominated by the passing edge of canAccept")
	r.Rule("OB-Q6", "queue entries are deleted only for rounds that are over, never for the round just entered")
	r.Rule("DET-1", "no hash/transcript write inside an iteration over a Go map")
	r.Rule("RG-1", "content RoundNumber() equals the consuming round's Number()")
	r.Rule("RG-2", "FinalRoundNumber admits every reachable round")

	H := c.LookupNamed("pkg/protocol", "MultiHandler")
	acc := c.LookupBody("pkg/protocol", "MultiHandler", "Accept")
	fin := c.LookupMethod("pkg/protocol", "MultiHandler", "finalize")
	store := c.LookupMethod("pkg/protocol", "MultiHandler", "store")
	dup := c.LookupMethod("pkg/protocol", "MultiHandler", "duplicate")
	vm := c.LookupMethod("pkg/protocol", "MultiHandler", "verifyMessage")
	vb := c.LookupMethod("pkg/protocol", "MultiHandler", "verifyBroadcastMessage")
	if H == nil || acc == nil || fin == nil || store == nil || vm == nil || vb == nil {
		r.Unresolved("OB-Q1", "pkg/protocol.MultiHandler methods (Accept, finalize, store, verifyMessage, verifyBroadcastMessage)")
		return
	}
	for _, f := range []*ssa.Function{acc, fin, store, vm, vb} {
		r.Analysed(c.FuncName(f))
	}
	_ = dup

	// ---- OB-Q1
	{
		var storeCall *ssa.Call
		allInstrs(acc, func(in ssa.Instruction) {
			if call, ok := in.(*ssa.Call); ok && call.Call.StaticCallee() == store {
				storeCall = call
			}
		})
		ok := storeCall != nil
		detail := "Accept never stores the message"
		if ok {
			// the round comparison (current round number vs msg.RoundNumber) happens after the store
			var cmpIf *ssa.If
			allInstrs(acc, func(in ssa.Instruction) {
				iff, isIf := in.(*ssa.If)
				if !isIf {
					return
				}
				bo, isB := iff.Cond.(*ssa.BinOp)
				if !isB || (bo.Op != token.NEQ && bo.Op != token.EQL) {
					return
				}
				l := strings.Join(paramFields(acc, bo.X), "+") + "|" + strings.Join(paramFields(acc, bo.Y), "+")
				if strings.Contains(l, "Message.RoundNumber") && strings.Contains(l, "currentRound") {
					cmpIf = iff
				}
			})
			if cmpIf == nil {
				ok, detail = false, "round comparison not found in Accept"
			} else if !instrDominates(storeCall, cmpIf) {
				ok, detail = false, "the early return for a message of another round ("+c.Pos(cmpIf.Cond.Pos())+") is reachable before store(msg): a message arriving early is dropped instead of queued"
			}
			// stored message is the accepted one
			if ok && storeCall.Call.Args[1] != ssa.Value(acc.Params[1]) {
				ok, detail = false, "store is not applied to the accepted message"
			}
		}
		p := c.Pos(acc.Pos())
		if storeCall != nil {
			p = c.Pos(storeCall.Pos())
		}
		r.Check("OB-Q1", "pkg/protocol.(*MultiHandler).Accept|store-before-round-test", p, ok, "an accepted message is queued before Accept may return because it belongs to a later round", detail)

		// replay loops in finalize
		replay := func(callee *ssa.Function, queue string) (bool, string) {
			found := false
			where := ""
			// in finalize itself or in a helper of the handler it calls (replay loops extracted into a method)
			withCallees(c, fin, 2, func(f *ssa.Function) {
				if f != fin && (f == callee || f == vb || f == vm) {
					return
				}
				allInstrs(f, func(in ssa.Instruction) {
					call, isCall := in.(*ssa.Call)
					if !isCall || !callMayBe(call, callee) {
						return
					}
					// argument comes from ranging over recv.<queue>[...] (a queue and its verifier chosen together by one
					// branch: the queue on the edges where this verifier is chosen)
					if dependsOn(normArgs(call)[1], func(v ssa.Value) bool {
						rg, isR := v.(*ssa.Range)
						if !isR {
							return false
						}
						for _, qv := range edgeValuesFor(call, callee, rg.X) {
							if !containsField(paramFields(f, qv), "recv."+queue) {
								return false
							}
						}
						return true
					}) {
						found = true
						where = c.Pos(call.Pos())
					}
				})
			})
			return found, where
		}
		ok1, w1 := replay(vb, "broadcast")
		ok2, w2 := replay(vm, "messages")
		r.Check("OB-Q1", "pkg/protocol.(*MultiHandler).finalize|replays-broadcast-queue", w1, ok1, "on entering a broadcast round every queued broadcast of that round is processed", "finalize does not iterate the broadcast queue of the new round through verifyBroadcastMessage: early broadcasts are never processed")
		r.Check("OB-Q1", "pkg/protocol.(*MultiHandler).finalize|replays-message-queue", w2, ok2, "on entering a p2p round every queued message of that round is processed", "finalize does not iterate the message queue of the new round through verifyMessage: early messages are never processed")
		// recursion after the replay
		rec := false
		allInstrs(fin, func(in ssa.Instruction) {
			if call, isCall := in.(*ssa.Call); isCall && call.Call.StaticCallee() == fin {
				rec = true
			}
		})
		if !rec {
			// the iterative spelling: another method of the handler calls it in a loop that continues while it reports progress
			for i := 0; i < H.NumMethods(); i++ {
				m := c.Prog.FuncValue(H.Method(i))
				if m == nil || m == fin {
					continue
				}
				allInstrs(m, func(in ssa.Instruction) {
					call, isCall := in.(*ssa.Call)
					if !isCall || call.Call.StaticCallee() != fin || !blockInLoop(call.Block()) {
						return
					}
					for _, ref := range *call.Referrers() {
						if _, isIf := ref.(*ssa.If); isIf {
							rec = true
						}
					}
				})
			}
		}
		r.Check("OB-Q1", "pkg/protocol.(*MultiHandler).finalize|re-examines-after-replay", c.Pos(fin.Pos()), rec, "after the replay finalize checks again whether the new round is complete", "finalize does not re-enter after replaying the queue: a round completed by early messages never advances")
	}

	// ---- OB-Q2
	{
		checkFirstCopyWins(c, r, "OB-Q2")
		checkGuardInventory(c, r, "OB-Q2", "round_guards.json", func(n string) bool {
			return n == "pkg/protocol.(*MultiHandler).duplicate" || strings.HasSuffix(n, ".canAccept")
		})
		// stale rounds: the non-covering guard recorded for canAccept
		stale := false
		for _, g := range rejectGuards(c.LookupMethod("pkg/protocol", "MultiHandler", "canAccept")) {
			if containsField(g.fields, "Message.RoundNumber") && (strings.Contains(g.decider, "Round.Number <") || strings.Contains(g.decider, "Round.Number >")) && !strings.Contains(g.decider, "FinalRoundNumber") {
				stale = true
			}
			if g.ret != nil && containsField(g.fields, "Message.RoundNumber") {
				stale = true
			}
		}
		r.Check("OB-Q2", "pkg/protocol.(*MultiHandler).canAccept|stale-round-rejected", c.Pos(acc.Pos()), stale, "a message for a round already left (0 < n < current) is rejected", "no stale-round rejection in canAccept")
	}

	// ---- OB-Q3
	{
		// in verifyMessage: VerifyMessage/StoreMessage invokes are not reachable on the path where the broadcast is absent
		var waitIf *ssa.If
		allInstrs(vm, func(in ssa.Instruction) {
			iff, ok := in.(*ssa.If)
			if !ok {
				return
			}
			if containsField(paramFields(vm, iff.Cond), "recv.broadcast") {
				waitIf = iff
			}
		})
		ok := false
		if waitIf != nil {
			// one successor returns nil without reaching an invoke of VerifyMessage
			for _, s := range waitIf.Block().Succs {
				reaches := false
				walkFrom(s, 0, func(x ssa.Instruction) bool {
					if call, isCall := x.(*ssa.Call); isCall && call.Call.IsInvoke() && (call.Call.Method.Name() == "VerifyMessage" || call.Call.Method.Name() == "StoreMessage") {
						reaches = true
						return true
					}
					return false
				})
				if !reaches {
					ok = true
				}
			}
		}
		r.Check("OB-Q3", "pkg/protocol.(*MultiHandler).verifyMessage|waits-for-broadcast", c.Pos(vm.Pos()), ok, "a p2p message of a broadcast round is left in the queue until the sender's broadcast is stored", "verifyMessage processes the p2p message even when the sender's broadcast is missing (the round's state for that sender is not initialised yet)")
		drains := false
		allInstrs(vb, func(in ssa.Instruction) {
			if call, isCall := in.(*ssa.Call); isCall && call.Call.StaticCallee() == vm {
				if containsField(paramFields(vb, call.Call.Args[1]), "recv.messages") {
					drains = true
				}
			}
		})
		r.Check("OB-Q3", "pkg/protocol.(*MultiHandler).verifyBroadcastMessage|drains-queued-p2p", c.Pos(vb.Pos()), drains, "after storing a broadcast the sender's queued p2p message is processed", "verifyBroadcastMessage does not hand the queued p2p message of the same sender to verifyMessage: a p2p message that overtook its broadcast is never processed")
	}

	// ---- OB-Q5 filter first: in Accept nothing that changes the session (abort, queue write, round processing) runs
	// before the message passed canAccept (right session, protocol, sender, recipient, round window).
	for _, hn := range []string{"MultiHandler", "TwoPartyHandler"} {
		a := c.LookupBody("pkg/protocol", hn, "Accept")
		if a == nil {
			r.Unresolved("OB-Q5", "pkg/protocol."+hn+".Accept")
			continue
		}
		r.Analysed(c.FuncName(a))
		recvT := a.Signature.Recv().Type()
		allInstrs(a, func(in ssa.Instruction) {
			what := ""
			switch x := in.(type) {
			case *ssa.Call:
				var names []string
				for _, cal := range calleeCandidates(x) {
					if cal.Signature.Recv() == nil || !types.Identical(cal.Signature.Recv().Type(), recvT) {
						continue
					}
					if cn := canonFnName(cal); cn != "canAccept" && cn != "duplicate" {
						names = append(names, cn)
					}
				}
				if len(names) == 0 {
					return
				}
				// a call through a local method value stands for each method it can be (verify := h.verifyMessage; ...)
				for _, cn := range names[1:] {
					ok, _ := callResultEdgeDominates(a, "canAccept", true, in.Block())
					r.Check("OB-Q5", c.FuncName(a)+"|call "+cn+"|after-filter", c.Pos(in.Pos()), ok, "runs only for a message that passed canAccept",
						"call "+cn+" is reachable in Accept for a message that did not pass canAccept: a foreign message changes this session's outcome")
				}
				what = "call " + names[0]
			case *ssa.MapUpdate:
				if !containsPrefix(paramFields(a, x.Map), "recv.") {
					return
				}
				what = "queue write " + strings.Join(paramFields(a, x.Map), "+")
			case *ssa.Store:
				if _, isAlloc := x.Addr.(*ssa.Alloc); isAlloc || !containsPrefix(paramFields(a, x.Addr), "recv.") {
					return
				}
				what = "state write " + strings.Join(paramFields(a, x.Addr), "+")
			default:
				return
			}
			ok, _ := callResultEdgeDominates(a, "canAccept", true, in.Block())
			r.Check("OB-Q5", c.FuncName(a)+"|"+what+"|after-filter", c.Pos(in.Pos()), ok,
				"runs only for a message that passed canAccept",
				what+" is reachable in Accept for a message that did not pass canAccept (another session, another protocol, an unknown sender, a round outside the window): a foreign message changes this session's outcome")
		})
	}

	// ---- OB-Q6 a queued message is removed from the queues only for a round that is over: a delete keyed by the number
	// of the round that was JUST ENTERED (the round field was assigned before the key was computed) throws away a message
	// that arrived early for that round
	{
		nDel := 0
		for _, hn := range []string{"MultiHandler", "TwoPartyHandler"} {
			Hn := c.LookupNamed("pkg/protocol", hn)
			if Hn == nil {
				continue
			}
			for _, fn := range funcsOfPkg(c, c.SSA[Hn.Obj().Pkg()]) {
				if fn.Signature.Recv() == nil || namedOf(derefType(fn.Signature.Recv().Type())) != Hn {
					continue
				}
				fn := fn
				allInstrs(fn, func(in ssa.Instruction) {
					call, ok := in.(*ssa.Call)
					if !ok {
						return
					}
					bi, ok := call.Call.Value.(*ssa.Builtin)
					if !ok || bi.Name() != "delete" || len(call.Call.Args) != 2 {
						return
					}
					q := paramFields(fn, call.Call.Args[0])
					if !(containsField(q, "recv.messages") || containsField(q, "recv.broadcast")) {
						return
					}
					nDel++
					// the key: Number() of a load of the round field that is preceded by a store to that field
					bad := ""
					dependsOn(call.Call.Args[1], func(v ssa.Value) bool {
						nc, ok := v.(*ssa.Call)
						if !ok || !nc.Call.IsInvoke() || nc.Call.Method.Name() != "Number" {
							return false
						}
						ld, ok := nc.Call.Value.(*ssa.UnOp)
						if !ok {
							return false
						}
						fa, ok := ld.X.(*ssa.FieldAddr)
						if !ok {
							return false
						}
						allInstrs(fn, func(in2 ssa.Instruction) {
							if st, isSt := in2.(*ssa.Store); isSt {
								if fa2, isFA := st.Addr.(*ssa.FieldAddr); isFA && fa2.Field == fa.Field && fa2.X == fa.X && instrDominatesLoose(st, ld) {
									bad = c.Pos(st.Pos())
								}
							}
						})
						return false
					})
					r.Check("OB-Q6", fmt.Sprintf("%s|delete from queue", c.FuncName(fn)), c.Pos(call.Pos()), bad == "",
						"the deleted entry belongs to a round that is over",
						"the entry deleted from the queue is keyed by the number of the round entered at "+bad+" (the round field was assigned before the key was read): a message that arrived early for the new round is thrown away and the session waits for it forever")
				})
			}
		}
		r.Hold("OB-Q6", "queue deletes|examined", "", fmt.Sprintf("%d deletes from the message queues examined", nDel))
	}

	// ---- DET-1
	nLoops := 0
	for _, p := range c.LibPkgs() {
		for _, fn := range funcsOfPkg(c, c.SSA[p.Types]) {
			fn := fn
			allInstrs(fn, func(in ssa.Instruction) {
				call, ok := in.(*ssa.Call)
				if !ok {
					return
				}
				o := calleeObj(call)
				if o == nil || o.Pkg() == nil {
					return
				}
				isHashWrite := c.Rel(o.Pkg()) == "pkg/hash" && (o.Name() == "WriteAny" || o.Name() == "Commit" || o.Name() == "Decommit" || o.Name() == "Fork")
				isRawWrite := (o.Name() == "Write" || o.Name() == "WriteString") && strings.Contains(o.Pkg().Path(), "blake3")
				if !isHashWrite && !isRawWrite {
					return
				}
				// inside a loop driven by a map Range?
				var mapRange *ssa.Range
				for _, b := range fn.Blocks {
					for _, x := range b.Instrs {
						nx, ok := x.(*ssa.Next)
						if !ok || nx.IsString {
							continue
						}
						rg, ok := nx.Iter.(*ssa.Range)
						if !ok {
							continue
						}
						if _, isMap := rg.X.Type().Underlying().(*types.Map); !isMap {
							continue
						}
						// call block within the loop of nx.Block
						if blockReaches(nx.Block(), call.Block()) && blockReaches(call.Block(), nx.Block()) {
							mapRange = rg
						}
					}
				}
				if mapRange == nil {
					return
				}
				nLoops++
				// the hash object is created inside the loop body (per-iteration hash): order-free
				fresh := false
				if len(call.Call.Args) > 0 {
					if hc, ok := call.Call.Args[0].(*ssa.Call); ok && blockReaches(mapRange.Block(), hc.Block()) && hc.Block() != mapRange.Block() && blockReaches(hc.Block(), hc.Block()) {
						fresh = true
					}
				}
				r.Check("DET-1", c.FuncName(fn)+"|"+o.Name()+" in map range over "+strings.Join(paramFields(fn, mapRange.X), "+"), c.Pos(call.Pos()), fresh,
					"a hash write inside a map iteration only feeds a per-iteration hash",
					fmt.Sprintf("%s at %s runs inside `range` over a Go map (%s): iteration order differs between parties and runs, so the transcript (and everything derived from it) is not a function of the delivered messages", o.Name(), c.Pos(call.Pos()), strings.Join(paramFields(fn, mapRange.X), "+")))
			})
		}
	}
	r.Hold("DET-1", "library|map-range-scan", "-", fmt.Sprintf("all hash/transcript writes of library code scanned for enclosing map iterations (%d inside map loops)", nLoops))

	checkRoundWindow(c, r)

	// ---- OB-Q4: a message is queued under its own round number and sender, in both handlers
	if p := c.PkgRel("pkg/protocol"); p != nil {
		n := 0
		for _, fn := range funcsOfPkg(c, c.SSA[p.Types]) {
			fn := fn
			allInstrs(fn, func(in ssa.Instruction) {
				mu, ok := in.(*ssa.MapUpdate)
				if !ok {
					return
				}
				if nn := namedOf(derefType(mu.Value.Type())); nn == nil || nn.Obj().Name() != "Message" {
					return
				}
				if _, isPtr := mu.Value.Type().Underlying().(*types.Pointer); !isPtr {
					return
				}
				if isNilConst(mu.Value) {
					return // slot initialisation
				}
				msgPath := path(mu.Value)
				own := func(k ssa.Value) (bool, string) {
					kp := path(k)
					return kp == msgPath+".RoundNumber" || kp == msgPath+".From", kp
				}
				type qk struct {
					ok bool
					kp string
				}
				var keys []qk
				add := func(k ssa.Value) {
					ok, kp := own(k)
					keys = append(keys, qk{ok, kp})
				}
				add(mu.Key)
				// the inner map was looked up in the round-indexed table: that key too (through the phi of `q`, or
				// through a helper of the package that picks the queue for a message)
				var outer func(v ssa.Value, d int)
				outer = func(v ssa.Value, d int) {
					if d > 4 {
						return
					}
					switch x := resolveLoad(v).(type) {
					case *ssa.Lookup:
						add(x.Index)
					case *ssa.Phi:
						for _, e := range x.Edges {
							outer(e, d+1)
						}
					case *ssa.Call:
						cal := x.Call.StaticCallee()
						if !isLocalHelper(fn, cal) {
							return
						}
						// which parameter of the helper is the message being filed
						for j, a := range x.Call.Args {
							if j >= len(cal.Params) || path(a) != msgPath {
								continue
							}
							pp := path(cal.Params[j])
							var inner func(v ssa.Value, d int)
							inner = func(v ssa.Value, d int) {
								if d > 4 {
									return
								}
								switch y := resolveLoad(v).(type) {
								case *ssa.Lookup:
									kp := path(y.Index)
									keys = append(keys, qk{kp == pp+".RoundNumber" || kp == pp+".From", kp + " (in " + cal.Name() + ")"})
								case *ssa.Phi:
									for _, e := range y.Edges {
										inner(e, d+1)
									}
								}
							}
							for _, ret := range returnsOf(cal) {
								if len(ret.Results) > 0 {
									inner(ret.Results[0], 0)
								}
							}
						}
					}
				}
				outer(mu.Map, 0)
				for i, k := range keys {
					n++
					ok, kp := k.ok, k.kp
					r.Check("OB-Q4", fmt.Sprintf("%s|queue key %d of %s", c.FuncName(fn), i, msgPath), c.Pos(mu.Pos()), ok,
						"the message is filed under its own header field ("+kp+")",
						"the message "+msgPath+" is filed under "+kp+", not under its own RoundNumber/From: a duplicated, retransmitted or early message is later processed as if it belonged to another round or sender")
				}
				r.Analysed(c.FuncName(fn))
			})
		}
		_ = n
	}
	r.Require("OB-Q4", 4)
	r.Require("OB-Q1", 4)
	r.Require("OB-Q2", 5)
	r.Require("OB-Q3", 2)
	r.Require("OB-Q5", 8)
	r.Require("RG-1", 30)
	r.Require("RG-2", 9)
}

// checkFirstCopyWins: the handler processes at most one message per (round, sender, kind): Accept filters a second
// copy before anything is processed, and store never replaces an occupied slot. Shared by C07 (duplication in the
// schedule), C06 (the echo hash vouches for the first copy, so the round must consume the first copy) and C03.
func checkFirstCopyWins(c *Ctx, r *Run, rule string) {
	acc := c.LookupBody("pkg/protocol", "MultiHandler", "Accept")
	store := c.LookupMethod("pkg/protocol", "MultiHandler", "store")
	dup := c.LookupMethod("pkg/protocol", "MultiHandler", "duplicate")
	if acc == nil || store == nil {
		r.Unresolved(rule, "pkg/protocol.(*MultiHandler).Accept/store")
		return
	}
	// the processing calls of Accept
	var processing []*ssa.Call
	allInstrs(acc, func(in ssa.Instruction) {
		if call, ok := in.(*ssa.Call); ok {
			if f := call.Call.StaticCallee(); f != nil {
				switch canonFnName(f) {
				case "verifyMessage", "verifyBroadcastMessage", "store":
					processing = append(processing, call)
				}
			}
		}
	})
	// a branch that lets only an empty slot through: the duplicate helper, or an inline `queue[..][msg.From] != nil`;
	// its "occupied" edge leaves Accept without any processing, its other edge dominates all processing
	filters := false
	leaves := func(b *ssa.BasicBlock) bool {
		seen := map[*ssa.BasicBlock]bool{}
		for b != nil && !seen[b] {
			seen[b] = true
			for _, in := range b.Instrs {
				switch in.(type) {
				case *ssa.Return:
					return true
				case *ssa.Call:
					return false
				}
			}
			if len(b.Succs) != 1 {
				return false
			}
			b = b.Succs[0]
		}
		return false
	}
	for _, blk := range acc.Blocks {
		if len(blk.Instrs) == 0 {
			continue
		}
		iff, ok := blk.Instrs[len(blk.Instrs)-1].(*ssa.If)
		if !ok {
			continue
		}
		cond, neg := iff.Cond, false
		if u, ok := cond.(*ssa.UnOp); ok && u.Op == token.NOT {
			cond, neg = u.X, true
		}
		occupiedOnTrue := false
		isDup := false
		if call, ok := cond.(*ssa.Call); ok && dup != nil && call.Call.StaticCallee() == dup {
			isDup, occupiedOnTrue = true, true
		}
		if bo, ok := cond.(*ssa.BinOp); ok && (isNilConst(bo.Y) || isNilConst(bo.X)) {
			side := bo.X
			if isNilConst(bo.X) {
				side = bo.Y
			}
			if lk, ok := resolveLoad(side).(*ssa.Lookup); ok && strings.HasSuffix(path(lk.Index), ".From") {
				isDup, occupiedOnTrue = true, bo.Op == token.NEQ
			}
		}
		if !isDup {
			continue
		}
		if neg {
			occupiedOnTrue = !occupiedOnTrue
		}
		occ, free := blk.Succs[0], blk.Succs[1]
		if !occupiedOnTrue {
			occ, free = free, occ
		}
		if !leaves(occ) {
			continue
		}
		all := len(processing) > 0
		for _, pc := range processing {
			if !(free == pc.Block() || free.Dominates(pc.Block())) {
				all = false
			}
		}
		if all {
			filters = true
		}
	}
	r.Check(rule, "pkg/protocol.(*MultiHandler).Accept|duplicate-filters", c.Pos(acc.Pos()), filters, "a second message for an occupied (round, sender, kind) slot is dropped before anything is stored or processed",
		"Accept stores/processes a message without first testing that its (round, sender, kind) slot is empty: a second copy is processed although the queue (and the echo hash computed from it) keeps the first, so the round consumes data nobody vouched for")
	// store never overwrites
	var mu *ssa.MapUpdate
	allInstrs(store, func(in ssa.Instruction) {
		if x, ok := in.(*ssa.MapUpdate); ok {
			mu = x
		}
	})
	okNo := false
	if mu != nil {
		for d := mu.Block(); d != nil; d = d.Idom() {
			if len(d.Preds) != 1 {
				continue
			}
			p := d.Preds[0]
			iff, ok := p.Instrs[len(p.Instrs)-1].(*ssa.If)
			if !ok {
				continue
			}
			bo, ok := iff.Cond.(*ssa.BinOp)
			if !ok || !isNilConst(bo.Y) {
				continue
			}
			if _, isLk := bo.X.(*ssa.Lookup); !isLk {
				continue
			}
			if (bo.Op == token.NEQ && p.Succs[1] == d) || (bo.Op == token.EQL && p.Succs[0] == d) {
				okNo = true
			}
		}
	}
	// the filter and the writer agree on WHICH queue a message belongs to: the tests that separate the broadcast queue
	// from the point-to-point queue are the same in `duplicate` and in `store`. Otherwise a message is looked for in
	// one queue and filed in the other: its second copy is processed although the first one is the one vouched for.
	if dup != nil {
		sStore, okS := queueChoiceConds(c, store)
		sDup, okD := queueChoiceConds(c, dup)
		if okS && okD {
			a, b := strings.Join(sStore, " ; "), strings.Join(sDup, " ; ")
			r.Check(rule, "pkg/protocol.(*MultiHandler).duplicate|same-queue-as-store", c.Pos(dup.Pos()), a == b,
				"duplicate looks a message up in the queue store files it in (both choose by: "+a+")",
				"duplicate chooses the queue by ["+b+"], store by ["+a+"]: for the messages on which the two disagree the first-copy-wins filter looks into the wrong queue and lets a second copy through")
		} else {
			r.Unresolved(rule, "queue choice in store/duplicate")
		}
	}
	r.Check(rule, "pkg/protocol.(*MultiHandler).store|never-overwrites", c.Pos(store.Pos()), okNo, "store writes a slot only while it is empty (the first message wins)", "store overwrites an occupied slot: a duplicate or a late equivocation replaces the message already processed")
}

func containsPrefix(fields []string, pre string) bool {
	for _, f := range fields {
		if strings.HasPrefix(f, pre) {
			return true
		}
	}
	return false
}

// queueChoiceConds: the branch conditions (canonical keys) that decide, inside fn or the helper of the handler it calls
// for it, between touching the broadcast queue and touching the point-to-point queue: the tests on which the two
// accesses depend with different outcomes (a test both depend on the same way - e.g. an early return - separates nothing).
func queueChoiceConds(c *Ctx, fn *ssa.Function) ([]string, bool) {
	for _, f := range regionOf(fn) {
		var bq, mq []*ssa.BasicBlock
		allInstrs(f, func(in ssa.Instruction) {
			fa, ok := in.(*ssa.FieldAddr)
			if !ok {
				return
			}
			switch fieldName(fa.X.Type(), fa.Field) {
			case "broadcast":
				bq = append(bq, fa.Block())
			case "messages":
				mq = append(mq, fa.Block())
			}
		})
		if len(bq) == 0 || len(mq) == 0 {
			continue
		}
		deps := func(bs []*ssa.BasicBlock) map[*ssa.If]int {
			out := map[*ssa.If]int{}
			for _, B := range bs {
				for _, p := range f.Blocks {
					iff, ok := p.Instrs[len(p.Instrs)-1].(*ssa.If)
					if !ok || p == B {
						continue
					}
					r0 := p.Succs[0] == B || blockReaches(p.Succs[0], B)
					r1 := p.Succs[1] == B || blockReaches(p.Succs[1], B)
					switch {
					case r0 && !r1:
						out[iff] |= 1
					case r1 && !r0:
						out[iff] |= 2
					}
				}
			}
			return out
		}
		db, dm := deps(bq), deps(mq)
		set := map[string]bool{}
		add := func(iff *ssa.If) {
			kind, atoms := flattenBool(iff.Cond, 0)
			if kind == "" || len(atoms) < 2 {
				atoms = []ssa.Value{iff.Cond}
			}
			for _, at := range atoms {
				set[deciderOf(at)+"("+strings.Join(guardFields(f, at), ",")+")"] = true
			}
		}
		for iff, eb := range db {
			if em, both := dm[iff]; !both || em != eb {
				add(iff)
			}
		}
		for iff, em := range dm {
			if eb, both := db[iff]; !both || em != eb {
				add(iff)
			}
		}
		var out []string
		for k := range set {
			out = append(out, k)
		}
		sort.Strings(out)
		return out, true
	}
	return nil, false
}
