package main

import (
	"fmt"
	"go/token"
	"go/types"
	"sort"
	"strings"

	"golang.org/x/tools/go/ssa"
)

// lockModel is the lockset view of one struct type H that owns a sync.Mutex field.
type lockModel struct {
	c        *Ctx
	H        *types.Named
	st       *types.Struct
	mtxF     int
	fns      []*ssa.Function             // methods of H and closures nested in them
	recvOf   map[*ssa.Function]ssa.Value // the value denoting the receiver inside fn
	ctorOf   map[*ssa.Function]bool      // non-method functions that build an H
	acquire  map[*ssa.Function]bool      // wrapper: returns with the lock held
	release  map[*ssa.Function]bool
	locks    map[*ssa.Function]bool // fn acquires the lock somewhere (directly or through a wrapper)
	entry    map[*ssa.Function]bool // lock held on entry (unexported, all call sites hold it)
	deferred map[*ssa.Function]*ssa.Defer
	// deferTarget: methods invoked through `defer recv.m()`; they run at frame exit in whatever state the frame left
	deferTarget map[*ssa.Function]bool
	guarded     map[int]string // field -> example write site
}

func mutexField(st *types.Struct) int {
	for i := 0; i < st.NumFields(); i++ {
		if n, ok := st.Field(i).Type().(*types.Named); ok && n.Obj().Pkg() != nil && n.Obj().Pkg().Path() == "sync" &&
			(n.Obj().Name() == "Mutex" || n.Obj().Name() == "RWMutex") {
			return i
		}
	}
	return -1
}

func newLockModel(c *Ctx, H *types.Named) *lockModel {
	st, ok := H.Underlying().(*types.Struct)
	if !ok {
		return nil
	}
	m := &lockModel{c: c, H: H, st: st, mtxF: mutexField(st), recvOf: map[*ssa.Function]ssa.Value{}, ctorOf: map[*ssa.Function]bool{},
		acquire: map[*ssa.Function]bool{}, release: map[*ssa.Function]bool{}, locks: map[*ssa.Function]bool{}, entry: map[*ssa.Function]bool{},
		deferred: map[*ssa.Function]*ssa.Defer{}, deferTarget: map[*ssa.Function]bool{}, guarded: map[int]string{}}
	if m.mtxF < 0 {
		return nil
	}
	sp := c.SSA[H.Obj().Pkg()]
	for _, fn := range funcsOfPkg(c, sp) {
		if fn.Parent() != nil {
			continue
		}
		if r := fn.Signature.Recv(); r != nil && namedOf(r.Type()) == H {
			withAnon(fn, func(f *ssa.Function) {
				m.fns = append(m.fns, f)
				if f == fn {
					m.recvOf[f] = fn.Params[0]
				} else {
					for _, fv := range f.FreeVars {
						if namedOf(fv.Type()) == H {
							m.recvOf[f] = fv
						}
					}
				}
			})
		} else {
			// constructor: allocates an H
			allInstrs(fn, func(in ssa.Instruction) {
				if a, ok := in.(*ssa.Alloc); ok {
					if p, ok := a.Type().(*types.Pointer); ok && p.Elem() == types.Type(H) {
						m.ctorOf[fn] = true
					}
				}
			})
		}
	}
	// deferred closures
	for _, fn := range m.fns {
		allInstrs(fn, func(in ssa.Instruction) {
			if d, ok := in.(*ssa.Defer); ok {
				if mc, ok := d.Call.Value.(*ssa.MakeClosure); ok {
					m.deferred[mc.Fn.(*ssa.Function)] = d
				}
			}
		})
	}
	// wrappers
	for _, fn := range m.fns {
		nl, nu := 0, 0
		allInstrs(fn, func(in ssa.Instruction) {
			if _, isDefer := in.(*ssa.Defer); isDefer {
				return
			}
			if m.isRawLock(fn, in) {
				nl++
			}
			if m.isRawUnlock(fn, in) {
				nu++
			}
		})
		if nl > 0 && nu == 0 && !m.hasDeferredUnlock(fn) {
			m.acquire[fn] = true
		}
		if nu > 0 && nl == 0 {
			m.release[fn] = true
		}
	}
	for _, fn := range m.fns {
		allInstrs(fn, func(in ssa.Instruction) {
			if m.isLock(fn, in) {
				m.locks[fn] = true
			}
		})
	}
	m.computeGuarded()
	m.computeEntry()
	return m
}

func (m *lockModel) isMtxAddr(fn *ssa.Function, v ssa.Value) bool {
	fa, ok := v.(*ssa.FieldAddr)
	return ok && fa.Field == m.mtxF && m.isRecv(fn, fa.X)
}

func (m *lockModel) isRecv(fn *ssa.Function, v ssa.Value) bool {
	r := m.recvOf[fn]
	if r == nil {
		return false
	}
	if v == r {
		return true
	}
	// captured by reference: *freevar
	if u, ok := v.(*ssa.UnOp); ok && u.Op == token.MUL && u.X == r {
		return true
	}
	return false
}

func (m *lockModel) isRawLock(fn *ssa.Function, in ssa.Instruction) bool {
	for _, n := range []string{"Lock", "RLock"} {
		if isMethodCall(in, "sync", "Mutex", n) || isMethodCall(in, "sync", "RWMutex", n) {
			a := callArgs(in)
			return len(a) > 0 && m.isMtxAddr(fn, a[0])
		}
	}
	return false
}

func (m *lockModel) isRawUnlock(fn *ssa.Function, in ssa.Instruction) bool {
	for _, n := range []string{"Unlock", "RUnlock"} {
		if isMethodCall(in, "sync", "Mutex", n) || isMethodCall(in, "sync", "RWMutex", n) {
			a := callArgs(in)
			return len(a) > 0 && m.isMtxAddr(fn, a[0])
		}
	}
	return false
}

func (m *lockModel) isLock(fn *ssa.Function, in ssa.Instruction) bool {
	if _, isDefer := in.(*ssa.Defer); isDefer {
		return false
	}
	if m.isRawLock(fn, in) {
		return true
	}
	if cal := staticCallee(in); cal != nil && m.acquire[cal] {
		a := callArgs(in)
		return len(a) > 0 && m.isRecv(fn, a[0])
	}
	return false
}

func (m *lockModel) isUnlock(fn *ssa.Function, in ssa.Instruction) bool {
	if m.isRawUnlock(fn, in) {
		return true
	}
	if cal := staticCallee(in); cal != nil && m.release[cal] {
		a := callArgs(in)
		return len(a) > 0 && m.isRecv(fn, a[0])
	}
	return false
}

func (m *lockModel) hasDeferredUnlock(fn *ssa.Function) bool {
	found := false
	allInstrs(fn, func(in ssa.Instruction) {
		if d, ok := in.(*ssa.Defer); ok && m.isUnlock(fn, d) {
			found = true
		}
	})
	return found
}

func instrReaches(a, b ssa.Instruction) bool {
	if a.Block() == b.Block() {
		ia, ib := -1, -1
		for i, in := range a.Block().Instrs {
			if in == a {
				ia = i
			}
			if in == b {
				ib = i
			}
		}
		if ia < ib {
			return true
		}
		// via a cycle
		for _, s := range a.Block().Succs {
			if blockReaches(s, a.Block()) {
				return true
			}
		}
		return false
	}
	for _, s := range a.Block().Succs {
		if blockReaches(s, b.Block()) {
			return true
		}
	}
	return false
}

// held reports whether the mutex is certainly held when `in` executes.
func (m *lockModel) held(fn *ssa.Function, in ssa.Instruction) bool {
	if d, ok := m.deferred[fn]; ok {
		// deferred closure: runs at the parent's exit, before the deferred Unlock registered earlier
		p := fn.Parent()
		if m.entry[p] {
			return !m.hasExplicitUnlock(p)
		}
		if !m.held(p, d) {
			return false
		}
		// the Unlock must be deferred (so still pending when this closure runs) and registered before
		ok := false
		allInstrs(p, func(x ssa.Instruction) {
			if du, isD := x.(*ssa.Defer); isD && m.isUnlock(p, du) && instrDominates(du, d) {
				ok = true
			}
		})
		return ok && !m.hasExplicitUnlock(p)
	}
	if fn.Parent() != nil {
		return false // other closures: unknown execution context
	}
	var unlocks []ssa.Instruction
	var locks []ssa.Instruction
	allInstrs(fn, func(x ssa.Instruction) {
		if _, isDefer := x.(*ssa.Defer); isDefer {
			return
		}
		if m.isLock(fn, x) {
			locks = append(locks, x)
		}
		if m.isUnlock(fn, x) {
			unlocks = append(unlocks, x)
		}
	})
	if m.entry[fn] {
		for _, u := range unlocks {
			if instrReaches(u, in) || u == in {
				return false
			}
		}
		return true
	}
	for _, l := range locks {
		if l == in || !instrDominates(l, in) {
			continue
		}
		ok := true
		for _, u := range unlocks {
			if instrReaches(l, u) && instrReaches(u, in) {
				ok = false
			}
		}
		if ok {
			return true
		}
	}
	return false
}

func (m *lockModel) heldWhenDeferredRuns(p *ssa.Function, d *ssa.Defer) bool {
	if m.entry[p] {
		return !m.hasExplicitUnlock(p)
	}
	if !m.held(p, d) {
		return false
	}
	ok := false
	allInstrs(p, func(x ssa.Instruction) {
		if du, isD := x.(*ssa.Defer); isD && m.isUnlock(p, du) && instrDominates(du, d) {
			ok = true
		}
	})
	return ok && !m.hasExplicitUnlock(p)
}

func (m *lockModel) hasExplicitUnlock(fn *ssa.Function) bool {
	found := false
	allInstrs(fn, func(x ssa.Instruction) {
		if _, isDefer := x.(*ssa.Defer); isDefer {
			return
		}
		if m.isUnlock(fn, x) {
			found = true
		}
	})
	return found
}

// fieldsOf returns the receiver fields v is derived from (through loads, element accesses, phis).
func (m *lockModel) fieldsOf(fn *ssa.Function, v ssa.Value) map[int]bool {
	out := map[int]bool{}
	seen := map[ssa.Value]bool{}
	var rec func(v ssa.Value, d int)
	rec = func(v ssa.Value, d int) {
		if v == nil || seen[v] || d > 30 {
			return
		}
		seen[v] = true
		switch x := v.(type) {
		case *ssa.FieldAddr:
			if m.isRecv(fn, x.X) {
				out[x.Field] = true
				return
			}
			rec(x.X, d+1)
		case *ssa.Field:
			rec(x.X, d+1)
		case *ssa.UnOp:
			rec(x.X, d+1)
		case *ssa.IndexAddr:
			rec(x.X, d+1)
		case *ssa.Index:
			rec(x.X, d+1)
		case *ssa.Lookup:
			rec(x.X, d+1)
		case *ssa.Extract:
			rec(x.Tuple, d+1)
		case *ssa.Slice:
			rec(x.X, d+1)
		case *ssa.Phi:
			for _, e := range x.Edges {
				rec(e, d+1)
			}
		case *ssa.ChangeType:
			rec(x.X, d+1)
		case *ssa.Convert:
			rec(x.X, d+1)
		case *ssa.Alloc:
			for _, r := range *x.Referrers() {
				if st, ok := r.(*ssa.Store); ok && st.Addr == ssa.Value(x) {
					rec(st.Val, d+1)
				}
			}
		case *ssa.Call:
			// a helper method of the same object handing out (part of) one of its fields: h.queueFor(msg)
			cal := x.Call.StaticCallee()
			if cal == nil || x.Call.IsInvoke() || len(x.Call.Args) == 0 || !m.isRecv(fn, x.Call.Args[0]) || m.recvOf[cal] == nil || fieldsDepth > 2 {
				return
			}
			fieldsDepth++
			for _, ret := range returnsOf(cal) {
				for _, res := range ret.Results {
					for f := range m.fieldsOf(cal, res) {
						out[f] = true
					}
				}
			}
			fieldsDepth--
		}
	}
	rec(v, 0)
	return out
}

var fieldsDepth int

type access struct {
	fn    *ssa.Function
	in    ssa.Instruction
	field int
	write bool
}

func (m *lockModel) accesses() []access {
	var out []access
	for _, fn := range m.fns {
		fn := fn
		allInstrs(fn, func(in ssa.Instruction) {
			switch x := in.(type) {
			case *ssa.FieldAddr:
				if m.isRecv(fn, x.X) && x.Field != m.mtxF {
					w := false
					for _, r := range *x.Referrers() {
						if st, ok := r.(*ssa.Store); ok && st.Addr == ssa.Value(x) {
							w = true
						}
					}
					out = append(out, access{fn, in, x.Field, w})
				}
			case *ssa.MapUpdate:
				for f := range m.fieldsOf(fn, x.Map) {
					out = append(out, access{fn, in, f, true})
				}
			case *ssa.Store:
				_, direct := x.Addr.(*ssa.FieldAddr)
				_, local := x.Addr.(*ssa.Alloc)
				if !direct && !local {
					for f := range m.fieldsOf(fn, x.Addr) {
						out = append(out, access{fn, in, f, true})
					}
				}
			case *ssa.Call:
				if b, ok := x.Call.Value.(*ssa.Builtin); ok && (b.Name() == "close" || b.Name() == "delete") {
					for f := range m.fieldsOf(fn, x.Call.Args[0]) {
						out = append(out, access{fn, in, f, true})
					}
				} else if cal := x.Call.StaticCallee(); cal != nil && cal.Signature.Recv() != nil && len(x.Call.Args) > 0 {
					// pointer-receiver method invoked on an object reached through a field: may mutate that object
					if _, isPtr := cal.Signature.Recv().Type().(*types.Pointer); isPtr && namedOf(cal.Signature.Recv().Type()) != m.H {
						if mutatesReceiver(cal, 0) {
							for f := range m.fieldsOf(fn, x.Call.Args[0]) {
								if f != m.mtxF {
									out = append(out, access{fn, in, f, true})
								}
							}
						}
					}
				}
			}
		})
	}
	return out
}

// mutatesReceiver: conservative summary — the pointer-receiver method writes through its receiver,
// or hands it to a function outside the module (unknown effect), or to a mutating module method.
var mutMemo = map[*ssa.Function]int{}

func mutatesReceiver(fn *ssa.Function, depth int) bool {
	if v, ok := mutMemo[fn]; ok {
		return v == 1
	}
	if len(fn.Blocks) == 0 {
		return true // external: unknown
	}
	if depth > 6 {
		return true
	}
	mutMemo[fn] = 0
	recv := fn.Params[0]
	rooted := func(v ssa.Value) bool {
		for i := 0; i < 30; i++ {
			switch x := v.(type) {
			case *ssa.FieldAddr:
				v = x.X
			case *ssa.IndexAddr:
				v = x.X
			case *ssa.UnOp:
				v = x.X
			case *ssa.Field:
				v = x.X
			default:
				return v == ssa.Value(recv)
			}
		}
		return false
	}
	res := false
	allInstrs(fn, func(in ssa.Instruction) {
		if res {
			return
		}
		switch x := in.(type) {
		case *ssa.Store:
			if rooted(x.Addr) {
				res = true
			}
		case *ssa.MapUpdate:
			if rooted(x.Map) {
				res = true
			}
		case ssa.CallInstruction:
			cc := x.Common()
			for i, a := range cc.Args {
				if _, isPtr := a.Type().Underlying().(*types.Pointer); !isPtr {
					continue
				}
				if !rooted(a) {
					continue
				}
				cal := cc.StaticCallee()
				if cal == nil {
					res = true
					return
				}
				if i == 0 && cal.Signature.Recv() != nil {
					if mutatesReceiver(cal, depth+1) {
						res = true
					}
				} else {
					res = true
				}
			}
			if cc.IsInvoke() && rooted(cc.Value) {
				res = true
			}
		}
	})
	if res {
		mutMemo[fn] = 1
	}
	return res
}

func (m *lockModel) computeGuarded() {
	for _, a := range m.accesses() {
		if a.write {
			if _, ok := m.guarded[a.field]; !ok {
				m.guarded[a.field] = m.c.Pos(a.in.Pos())
			}
		}
	}
}

// computeEntry: unexported methods whose every call site (inside the package) holds the lock
// or is construction-time (receiver is the freshly allocated, not yet returned, object).
func (m *lockModel) computeEntry() {
	sp := m.c.SSA[m.H.Obj().Pkg()]
	type site struct {
		fn *ssa.Function
		in ssa.Instruction
	}
	sites := map[*ssa.Function][]site{}
	escaped := map[*ssa.Function]bool{}
	for _, fn := range funcsOfPkg(m.c, sp) {
		fn := fn
		allInstrs(fn, func(in ssa.Instruction) {
			cal := staticCallee(in)
			if cal == nil {
				// a call through a local method value (verify := h.verifyMessage; ...; verify(m)) is a call site of every
				// method the value can be; a method value that goes anywhere else may be called from anywhere
				if call, isCall := in.(*ssa.Call); isCall && !call.Call.IsInvoke() {
					for _, f := range calleeCandidates(call) {
						if f.Signature.Recv() != nil && namedOf(f.Signature.Recv().Type()) == m.H {
							sites[f] = append(sites[f], site{fn, in})
						}
					}
				}
				if mc, isMC := in.(*ssa.MakeClosure); isMC {
					if w, _ := mc.Fn.(*ssa.Function); w != nil && strings.HasPrefix(w.Synthetic, "bound method wrapper") {
						if o, isF := w.Object().(*types.Func); isF {
							if real := w.Prog.FuncValue(o); real != nil && real.Signature.Recv() != nil && namedOf(real.Signature.Recv().Type()) == m.H && !onlyCalledLocally(mc) {
								escaped[real] = true
							}
						}
					}
				}
				return
			}
			if cal.Signature.Recv() == nil || namedOf(cal.Signature.Recv().Type()) != m.H {
				return
			}
			sites[cal] = append(sites[cal], site{fn, in})
		})
	}
	cand := map[*ssa.Function]bool{}
	for _, fn := range m.fns {
		if fn.Parent() == nil && !fn.Object().Exported() && !m.locks[fn] && len(sites[fn]) > 0 && !escaped[fn] {
			cand[fn] = true
		}
	}
	// greatest fixpoint
	for k := range cand {
		m.entry[k] = true
	}
	for changed := true; changed; {
		changed = false
		for fn := range cand {
			if !m.entry[fn] {
				continue
			}
			for _, s := range sites[fn] {
				ok := false
				if m.ctorOf[s.fn] {
					// construction-time: receiver is the local allocation
					if a := callArgs(s.in); len(a) > 0 {
						if _, isAlloc := a[0].(*ssa.Alloc); isAlloc {
							ok = true
						}
					}
				} else if _, isM := m.recvOf[s.fn]; isM {
					if d, isDefer := s.in.(*ssa.Defer); !isDefer {
						ok = m.held(s.fn, s.in)
					} else {
						// a deferred method call runs at the frame's exit: the lock is still held iff it was
						// held when the defer was registered and its release is itself deferred earlier
						ok = m.heldWhenDeferredRuns(s.fn, d)
						m.deferTarget[fn] = true
					}
				}
				if !ok {
					m.entry[fn] = false
					changed = true
				}
			}
		}
	}
}

func (m *lockModel) fieldName(i int) string { return m.st.Field(i).Name() }

func (m *lockModel) guardedNames() []string {
	var out []string
	for f := range m.guarded {
		out = append(out, m.fieldName(f))
	}
	sort.Strings(out)
	return out
}

// checkLockset emits LOCK-1 (every access to a guarded field holds the lock) and LOCK-2 (no re-entry).
func (m *lockModel) checkLockset(r *Run, rule1, rule2 string) {
	c := m.c
	tn := c.Rel(m.H.Obj().Pkg()) + "." + m.H.Obj().Name()
	type k struct {
		fn    string
		field int
	}
	agg := map[k]*struct {
		ok  bool
		pos string
		n   int
	}{}
	var order []k
	for _, a := range m.accesses() {
		if _, g := m.guarded[a.field]; !g {
			continue
		}
		r.Analysed(c.FuncName(a.fn))
		kk := k{c.FuncName(a.fn), a.field}
		e := agg[kk]
		if e == nil {
			e = &struct {
				ok  bool
				pos string
				n   int
			}{ok: true, pos: c.Pos(a.in.Pos())}
			agg[kk] = e
			order = append(order, kk)
		}
		e.n++
		if !m.held(a.fn, a.in) {
			if e.ok {
				e.pos = c.Pos(a.in.Pos())
			}
			e.ok = false
		}
	}
	for _, kk := range order {
		e := agg[kk]
		fname := m.fieldName(kk.field)
		r.Check(rule1, tn+"|"+kk.fn+"|field "+fname, e.pos, e.ok,
			fmt.Sprintf("every access to %s.%s (written after construction, e.g. at %s) happens with %s held", m.H.Obj().Name(), fname, m.guarded[kk.field], m.fieldName(m.mtxF)),
			fmt.Sprintf("%s accesses field %s at %s without holding %s, while another goroutine may write it under the lock (write site %s): data race / stale state", kk.fn, fname, e.pos, m.fieldName(m.mtxF), m.guarded[kk.field]))
	}
	// LOCK-2: no call to a locking method while the lock is held
	for _, fn := range m.fns {
		fn := fn
		allInstrs(fn, func(in ssa.Instruction) {
			cal := staticCallee(in)
			if cal == nil || !m.locks[cal] {
				return
			}
			if a := callArgs(in); len(a) == 0 || !m.isRecv(fn, a[0]) {
				return
			}
			if _, isDefer := in.(*ssa.Defer); isDefer {
				return
			}
			if m.acquire[cal] {
				return
			}
			h := m.held(fn, in)
			r.Check(rule2, tn+"|"+c.FuncName(fn)+"|calls "+cal.Name(), c.Pos(in.Pos()), !h,
				"a method that acquires the non-reentrant mutex is never called with the mutex held",
				fmt.Sprintf("%s calls %s while holding %s; %s locks it again: self-deadlock", c.FuncName(fn), cal.Name(), m.fieldName(m.mtxF), cal.Name()))
		})
	}
	// ... nor implicitly: handing the object itself to a formatting function makes fmt call its String/Error/Format
	// method, and that method takes the lock
	var implicit []*ssa.Function
	for _, fn := range m.fns {
		if fn.Parent() == nil && m.locks[fn] && (fn.Name() == "String" || fn.Name() == "Error" || fn.Name() == "Format" || fn.Name() == "GoString") {
			implicit = append(implicit, fn)
		}
	}
	for _, fn := range m.fns {
		fn := fn
		allInstrs(fn, func(in ssa.Instruction) {
			call, ok := in.(*ssa.Call)
			if !ok {
				return
			}
			cal := call.Call.StaticCallee()
			if cal == nil || cal.Pkg == nil || (cal.Pkg.Pkg.Path() != "fmt" && cal.Pkg.Pkg.Path() != "log" && cal.Pkg.Pkg.Path() != "errors") {
				return
			}
			passesSelf := dependsOn(call, func(v ssa.Value) bool {
				mi, isMI := v.(*ssa.MakeInterface)
				return isMI && m.isRecv(fn, mi.X)
			})
			if !passesSelf {
				return
			}
			for _, im := range implicit {
				h := m.held(fn, in)
				r.Check(rule2, tn+"|"+c.FuncName(fn)+"|formats itself ("+im.Name()+")", c.Pos(in.Pos()), !h,
					"the object is not handed to a formatting function while its mutex is held",
					fmt.Sprintf("%s passes the %s itself to %s while holding %s; fmt calls its %s method, which locks the same non-reentrant mutex: the call never returns and every later API call blocks", c.FuncName(fn), m.H.Obj().Name(), cal.Name(), m.fieldName(m.mtxF), im.Name()))
			}
		})
	}
	// the number of locking String/Error methods is itself recorded, so that the rule is not vacuous
	for _, im := range implicit {
		r.Hold(rule2, tn+"|"+c.FuncName(im)+"|implicit-stringer", c.Pos(im.Pos()), im.Name()+" takes the lock: formatting the object under the lock would deadlock (call sites checked)")
	}
}

// onlyCalledLocally: the function value is used only (possibly through phis) as the callee of calls in its own function.
func onlyCalledLocally(v ssa.Value) bool {
	seen := map[ssa.Value]bool{}
	var rec func(v ssa.Value) bool
	rec = func(v ssa.Value) bool {
		if seen[v] {
			return true
		}
		seen[v] = true
		if v.Referrers() == nil {
			return false
		}
		for _, ref := range *v.Referrers() {
			switch x := ref.(type) {
			case *ssa.Phi:
				if !rec(x) {
					return false
				}
			case *ssa.Call:
				if x.Call.Value != v {
					return false
				}
			case *ssa.DebugRef:
			default:
				return false
			}
		}
		return true
	}
	return rec(v)
}
